//go:build verif

package server

// C16 — quiescent units: the answer to a conditional publish must not depend
// on anything being published after it.
//
// Every other C16 history keeps traffic flowing: a publisher that is refused
// is followed by its own next publish, by the other publishers, at the latest
// by the fence that closes the history.  An answer that is only handed out
// "when the log next grows" therefore always arrives there, just late.  Here
// the conditional publish under test is the LAST thing sent to the partition:
// the partition is brought to rest first (HW == newest offset, every in-sync
// replica caught up, nothing of the harness in flight), then exactly one
// publish (or one burst of racers naming the same expected offset) is sent -
// stale / 0 / the offset the newest message took / future / below -1 / equal
// / -1, ack policy ALL / LEADER / NONE, through apiServer.Publish, a
// PublishAsync session or a raw envelope - and nothing else until its answer
// is there.  The situations: directly after the stream was created (empty
// log), after accepted publishes, after another refusal, after PauseStream
// (the publish itself resumes the partition), after a read-only cycle, after
// a server restart, a burst of racers followed by silence; on 3-broker
// clusters through the leader's, a follower's and a non-replica broker's API,
// and directly after the partition leader was stopped and another broker took
// over.
//
// The verdict on the answer (accept iff e == -1 or e == next offset, at
// offset next) is fully determined because the publisher is alone; the log is
// read back after every step.
//
// "Never answered" is NOT decided by a timeout.  When the answer is missing
// after a first wait the harness
//   1. proves that the partition's message loop is done with the publish: a
//      NON-APPENDING fence (a publish that names a far-future offset with ack
//      policy LEADER; refused, so the log does not grow) is sent over the same
//      NATS connection / PublishAsync session / - for apiServer.Publish -
//      after the call has returned over the same broker's API, and answered.
//      One connection's publishes reach the partition's single message loop
//      in order;
//   2. waits again, then evaluates the STUCK-STATE predicate on the leader's
//      partition object under its own locks: it leads, is not paused, HW ==
//      newest offset, every in-sync replica's offset == newest offset (the
//      commit loop has nothing to wait for), and the ack.send hook has never
//      seen an answer for the publish (the head of the commit queue is
//      reported: that is where a parked answer sits);
//   3. only now sends one more publish that appends (-1, LEADER) and records
//      whether the missing answer is released by it.
// proven-processed + never-sent + quiescent  => violation
// C16:refusal-never-answered:<policy>:<situation> (accepted publish:
// C16:accepted-never-answered:...).  A missing answer without that state - the
// hook saw the ack leave, the partition was not at rest, the fences were not
// answered - is inconclusive.  An answer that arrives during the second wait
// is counted as late and judged like any other.
//
// Ack policy NONE (raw envelopes only; the API refuses it on such streams):
// no answer is demanded; the non-appending fence tells when the publish has
// been processed and the log read-back decides (stored iff it named the next
// offset or -1).

import (
	"context"
	"fmt"
	"strings"
	"sync"
	"sync/atomic"
	"testing"
	"time"

	client "github.com/liftbridge-io/liftbridge-api/v2/go"
	"github.com/nats-io/nats.go"
	"google.golang.org/grpc/status"

	kit "github.com/liftbridge-io/liftbridge/internal/verifkit"
	proto "github.com/liftbridge-io/liftbridge/server/protocol"
)

const (
	c16qT1       = 2500 * time.Millisecond // first wait for an answer
	c16qT2       = 3500 * time.Millisecond // second wait, after the publish is known to be processed
	c16qT3       = 2 * time.Second         // wait for a release after the appending fence (witness only)
	c16qWatchdog = 20 * time.Second        // preconditions, appending fence: expiry = inconclusive
	c16qFenceT   = 10 * time.Second        // non-appending fence: expiry = the appending fence has to prove the processing
	c16qMaxViol  = 3
)

// ---------------------------------------------------------------- ack.send trace

type c16qSent struct {
	Seq    int64  `json:"seq"`
	Err    string `json:"error"`
	Off    int64  `json:"offset"`
	Policy string `json:"policy"`
	By     string `json:"broker"`
}

type c16qTrace struct {
	mu   sync.Mutex
	sent map[string][]c16qSent // correlation id (= tag, unique) -> acks the partition sent
}

var (
	c16qTraces sync.Map // stream name -> *c16qTrace
	c16qSeq    atomic.Int64
	c16qGate   sync.Mutex
	// c16qViolations counts violation events of the unit (the report counts
	// distinct fingerprints)
	c16qViolations atomic.Int64
)

func c16qEnough(rep *kit.Report) bool {
	return rep.NumViolations() >= c16qMaxViol || c16qViolations.Load() >= c16qMaxViol
}

func c16qInstallHook() func() {
	return vfHooks.On("ack.send", func(a ...interface{}) error {
		if len(a) < 4 {
			return nil
		}
		by, _ := a[0].(string)
		stream, _ := a[1].(string)
		v, ok := c16qTraces.Load(stream)
		if !ok {
			return nil
		}
		ack, _ := a[3].(*client.Ack)
		if ack == nil {
			return nil
		}
		t := v.(*c16qTrace)
		t.mu.Lock()
		t.sent[ack.CorrelationId] = append(t.sent[ack.CorrelationId], c16qSent{Seq: c16qSeq.Add(1), Err: ack.AckError.String(), Off: ack.Offset, Policy: ack.AckPolicy.String(), By: by})
		t.mu.Unlock()
		return nil
	})
}

func (t *c16qTrace) get(tag string) []c16qSent {
	t.mu.Lock()
	defer t.mu.Unlock()
	return append([]c16qSent(nil), t.sent[tag]...)
}

// ---------------------------------------------------------------- partition state

// c16qState is what the stuck-state predicate reads from the leader's
// partition object.
type c16qState struct {
	Broker    string           `json:"broker"`
	Leading   bool             `json:"leading"`
	Paused    bool             `json:"paused"`
	Epoch     uint64           `json:"leader_epoch"`
	HW        int64            `json:"hw"`
	Newest    int64            `json:"newest_offset"`
	ISR       map[string]int64 `json:"isr_latest_offsets"`
	QueueLen  int64            `json:"commit_queue_len"`
	QueueHead string           `json:"commit_queue_head"`
	Quiescent bool             `json:"quiescent"`
}

// c16qSnapshot reads the state under the partition's own locks.  The only
// fields of the partition it touches are isLeading, paused, LeaderEpoch, isr
// and commitQueue (all under p.mu, as their writers hold it) and the
// thread-safe accessors of the log, the replicas and the queue.
func c16qSnapshot(broker string, p *partition) c16qState {
	st := c16qState{Broker: broker, ISR: map[string]int64{}, QueueLen: -1}
	if p == nil {
		return st
	}
	p.mu.RLock()
	st.Leading, st.Paused, st.Epoch = p.isLeading, p.paused, p.LeaderEpoch
	q := p.commitQueue
	reps := make(map[string]*replica, len(p.isr))
	for id, r := range p.isr {
		reps[id] = r
	}
	p.mu.RUnlock()
	for id, r := range reps {
		st.ISR[id] = r.getLatestOffset()
	}
	if q != nil && !q.Disposed() {
		st.QueueLen = q.Len()
		if st.QueueLen > 0 {
			if it, err := q.Peek(); err == nil {
				if a, ok := it.(*client.Ack); ok && a != nil {
					st.QueueHead = fmt.Sprintf("ack{correlation id %q, policy %s, error %s, offset %d}", a.CorrelationId, a.AckPolicy, a.AckError, a.Offset)
				}
			}
		}
	}
	st.HW, st.Newest = p.log.HighWatermark(), p.log.NewestOffset()
	st.Quiescent = st.Leading && !st.Paused && st.HW == st.Newest
	for _, off := range st.ISR {
		if off != st.Newest {
			st.Quiescent = false
		}
	}
	return st
}

// ---------------------------------------------------------------- probes

type c16qProbe struct {
	Tag       string `json:"tag"`
	Role      string `json:"role"` // probe | racer | fill | fence-refused | fence-append
	Situation string `json:"situation"`
	Class     string `json:"class"`
	E         int64  `json:"expected_offset"`
	Policy    string `json:"policy"`
	Via       string `json:"via"`   // api | async | raw
	Route     string `json:"route"` // leader(a) | follower(b) | nonreplica(c) | nats
	Next      int64  `json:"next_offset_when_sent"`
	Out       string `json:"answer"` // "" (none) | ok | rejected | other
	Off       int64  `json:"acked_offset"`
	Err       string `json:"error,omitempty"`
	When      string `json:"answered,omitempty"` // first-wait | late | after-append

	policy   client.AckPolicy
	node     *vfNode // broker whose API is used (api, async); nil for raw
	conn     int     // raw: connection of the pool
	inbox    string
	answered bool
	ackCh    chan *client.Ack
	respCh   chan *client.PublishResponse
}

func (pr *c16qProbe) String() string {
	s := fmt.Sprintf("%s %s [%s] %s/%s e=%d (next offset %d) via %s@%s", pr.Tag, pr.Role, pr.Situation, pr.Policy, pr.Class, pr.E, pr.Next, pr.Via, pr.Route)
	switch pr.Out {
	case "":
		s += " -> NO ANSWER"
	case c16OutOK:
		s += fmt.Sprintf(" -> ok@%d", pr.Off)
	default:
		s += " -> " + pr.Out
	}
	if pr.When != "" && pr.When != "first-wait" {
		s += " (" + pr.When + ")"
	}
	if pr.Err != "" {
		s += " err=" + pr.Err
	}
	return s
}

func (pr *c16qProbe) want() bool { return pr.E == -1 || pr.E == pr.Next }

func (pr *c16qProbe) setAck(a *client.Ack) {
	switch a.AckError {
	case client.Ack_OK:
		pr.Out, pr.Off = c16OutOK, a.Offset
	case client.Ack_INCORRECT_OFFSET:
		pr.Out = c16OutRejected
	default:
		pr.Out, pr.Err = "other", "ack error "+a.AckError.String()
	}
	pr.answered = true
}

// poll takes an answer that has arrived (own ack inbox, PublishAsync response).
func (pr *c16qProbe) poll() bool {
	if pr.answered {
		return true
	}
	select {
	case a := <-pr.ackCh:
		pr.setAck(a)
	case r := <-pr.respCh:
		switch {
		case r.AsyncError != nil && r.AsyncError.Code == client.PublishAsyncError_INCORRECT_OFFSET:
			pr.Out = c16OutRejected
		case r.AsyncError != nil:
			pr.Out, pr.Err = "other", r.AsyncError.Code.String()+": "+r.AsyncError.Message
		case r.Ack != nil:
			pr.Out, pr.Off = c16OutOK, r.Ack.Offset
		default:
			pr.Out, pr.Err = "other", "response without ack"
		}
		pr.answered = true
	default:
	}
	return pr.answered
}

// ---------------------------------------------------------------- stream driver

// c16qRoute: a broker whose API may be used and its role for the partition.
type c16qRoute struct {
	name string // leader | follower | nonreplica
	node *vfNode
}

func (r c16qRoute) String() string { return r.name + "(" + r.node.ID + ")" }

type c16qStream struct {
	rep    *kit.Report
	c      *vfCluster
	name   string
	desc   string
	rf     int
	tr     *c16qTrace
	pool   []*nats.Conn
	sub    *nats.Subscription
	leader *vfNode
	routes []c16qRoute // brokers whose API may be used

	mu       sync.Mutex
	byInbox  map[string]*c16qProbe
	sessions map[string]*c16Async
	events   []string
	tags     []string // model: values of the log in order; next offset = len(tags)
	seq      int
	sit      string // situation of the next publish
	paused   bool   // PauseStream was applied: the next publish (through an API) resumes the partition
	dead     bool
	probes   int
}

func c16qNewStream(rep *kit.Report, c *vfCluster, name, desc string, rf int, pool []*nats.Conn) (*c16qStream, error) {
	st := &c16qStream{rep: rep, c: c, name: name, desc: desc, rf: rf, pool: pool, tr: &c16qTrace{sent: map[string][]c16qSent{}},
		byInbox: map[string]*c16qProbe{}, sessions: map[string]*c16Async{}, sit: "created"}
	c16qTraces.Store(name, st.tr)
	sub, err := pool[0].Subscribe("_C16Q."+name+".>", func(m *nats.Msg) {
		ack, err := proto.UnmarshalAck(m.Data)
		if err != nil {
			return
		}
		st.mu.Lock()
		pr := st.byInbox[m.Subject]
		st.mu.Unlock()
		if pr != nil {
			select {
			case pr.ackCh <- ack:
			default:
			}
		}
	})
	if err != nil {
		return nil, err
	}
	sub.SetPendingLimits(-1, -1)
	st.sub = sub
	if err := pool[0].Flush(); err != nil {
		return nil, err
	}
	return st, nil
}

func (st *c16qStream) close() {
	st.closeSessions()
	if st.sub != nil {
		st.sub.Unsubscribe()
	}
	c16qTraces.Delete(st.name)
}

func (st *c16qStream) closeSessions() {
	st.mu.Lock()
	ss := st.sessions
	st.sessions = map[string]*c16Async{}
	st.mu.Unlock()
	for _, s := range ss {
		// a session with an unanswered publish waits for it when it ends
		go s.close()
	}
}

func (st *c16qStream) event(format string, a ...any) {
	st.mu.Lock()
	st.events = append(st.events, fmt.Sprintf(format, a...))
	st.mu.Unlock()
}

// eventSlot reserves a line of the step list (filled in when the verdict is there).
func (st *c16qStream) eventSlot() int {
	st.mu.Lock()
	defer st.mu.Unlock()
	st.events = append(st.events, "")
	return len(st.events) - 1
}

func (st *c16qStream) setEvent(i int, text string) {
	st.mu.Lock()
	st.events[i] = text
	st.mu.Unlock()
}

func (st *c16qStream) next() int64 { return int64(len(st.tags)) }

func (st *c16qStream) part() *partition {
	if st.leader == nil {
		return nil
	}
	return st.leader.Partition(st.name, 0)
}

func (st *c16qStream) snapshot() c16qState {
	id := ""
	if st.leader != nil {
		id = st.leader.ID
	}
	return c16qSnapshot(id, st.part())
}

func (st *c16qStream) witness(extra map[string]any) map[string]any {
	st.mu.Lock()
	ev := append([]string(nil), st.events...)
	st.mu.Unlock()
	w := map[string]any{"seed": kit.Seed(), "stream": st.name, "setup": st.desc, "replication_factor": st.rf, "steps": ev, "log_model": len(st.tags)}
	for k, v := range extra {
		w[k] = v
	}
	return w
}

func (st *c16qStream) fail(fp, what string, extra map[string]any) {
	st.dead = true
	c16qViolations.Add(1)
	st.rep.Violation(fp, what, st.witness(extra))
}

func (st *c16qStream) inconc(what string) {
	st.dead = true
	st.rep.Inconc(fmt.Sprintf("[%s, %s] %s", st.name, st.desc, what))
}

// session returns the PublishAsync session of this stream on a broker (k > 0:
// a racer's own session).
func (st *c16qStream) session(n *vfNode, k int) *c16Async {
	key := fmt.Sprintf("%s/%d", n.ID, k)
	st.mu.Lock()
	defer st.mu.Unlock()
	if s := st.sessions[key]; s != nil {
		return s
	}
	ctx, cancel := context.WithCancel(context.Background())
	s := &c16Async{ctx: ctx, cancel: cancel, reqs: make(chan *client.PublishRequest), wait: map[string]chan *client.PublishResponse{}, done: make(chan error, 1)}
	srv := n.Server()
	go func() { s.done <- srv.api.PublishAsync(s) }()
	st.sessions[key] = s
	return s
}

// newProbe registers a publish of this stream.
func (st *c16qStream) newProbe(role, class string, e int64, policy client.AckPolicy, via string, node *vfNode, conn int) *c16qProbe {
	st.mu.Lock()
	defer st.mu.Unlock()
	st.seq++
	pr := &c16qProbe{Tag: fmt.Sprintf("%s#%d", st.name, st.seq), Role: role, Situation: st.sit, Class: class, E: e, Policy: policy.String(), Via: via,
		Next: int64(len(st.tags)), Off: -1, policy: policy, node: node, conn: conn % len(st.pool),
		ackCh: make(chan *client.Ack, 8), respCh: make(chan *client.PublishResponse, 8)}
	pr.Route = "nats"
	if via != "raw" {
		pr.Route = st.routeOfLocked(node)
	}
	pr.inbox = fmt.Sprintf("_C16Q.%s.%d", st.name, st.seq)
	st.byInbox[pr.inbox] = pr
	return pr
}

func (st *c16qStream) routeOfLocked(n *vfNode) string {
	for _, r := range st.routes {
		if r.node == n {
			return r.String()
		}
	}
	if n == nil {
		return "nats"
	}
	return "broker(" + n.ID + ")"
}

// fire hands the publish over.  raw: published and flushed; async: taken by the
// session (which publishes its requests in order over the broker's NATS
// connection); api: the synchronous call has RETURNED (answer, or deadline
// after wait) - so a later call through the same broker's API is behind it on
// that broker's NATS connection.  sess: session number (racers use their own).
func (st *c16qStream) fire(pr *c16qProbe, wait time.Duration, sess int) {
	switch pr.Via {
	case "raw":
		data, err := proto.MarshalPublish(&client.Message{Value: []byte(pr.Tag), Key: []byte("k"), Stream: st.name, Subject: st.name,
			AckInbox: pr.inbox, CorrelationId: pr.Tag, AckPolicy: pr.policy, Offset: pr.E})
		if err != nil {
			panic(err)
		}
		nc := st.pool[pr.conn]
		if err := nc.Publish(st.name, data); err != nil {
			pr.Out, pr.Err, pr.answered = "other", "nats publish: "+err.Error(), true
			return
		}
		nc.Flush()
	case "async":
		s := st.session(pr.node, sess)
		s.mu.Lock()
		s.wait[pr.Tag] = pr.respCh
		s.mu.Unlock()
		req := &client.PublishRequest{Stream: st.name, Value: []byte(pr.Tag), Key: []byte("k"), AckPolicy: pr.policy, CorrelationId: pr.Tag, ExpectedOffset: pr.E}
		select {
		case s.reqs <- req:
		case <-time.After(c16qWatchdog):
			pr.Out, pr.Err, pr.answered = "other", "the PublishAsync session did not take the request", true
		}
	case "api":
		ctx, cancel := context.WithTimeout(context.Background(), wait)
		defer cancel()
		srv := pr.node.Server()
		if srv == nil {
			pr.Out, pr.Err, pr.answered = "other", "broker is down", true
			return
		}
		resp, err := srv.api.Publish(ctx, &client.PublishRequest{Stream: st.name, Value: []byte(pr.Tag), Key: []byte("k"), AckPolicy: pr.policy,
			CorrelationId: pr.Tag, ExpectedOffset: pr.E, AckInbox: pr.inbox})
		switch {
		case err != nil:
			msg := err.Error()
			if s, ok := status.FromError(err); ok {
				msg = s.Message()
			}
			switch {
			case msg == c16IncorrectMsg:
				pr.Out, pr.answered = c16OutRejected, true
			case strings.Contains(strings.ToLower(msg), "deadline") || strings.Contains(msg, "nats: timeout"):
				// no answer within the wait; a late one still reaches pr.inbox
				pr.Err = msg
			default:
				pr.Out, pr.Err, pr.answered = "other", msg, true
			}
		case resp == nil || resp.Ack == nil:
			pr.Err = "call returned without an ack"
		default:
			pr.setAck(resp.Ack)
		}
	}
}

// await polls until every publish is answered or the wait is over.
func (st *c16qStream) await(prs []*c16qProbe, d time.Duration) bool {
	return vfWait(d, func() bool {
		all := true
		for _, pr := range prs {
			if !pr.poll() {
				all = false
			}
		}
		return all
	})
}

// rest brings the partition to rest before the publish under test: leader
// known, HW == newest offset == model, every in-sync replica caught up.
func (st *c16qStream) rest() bool {
	var last c16qState
	ok := vfWait(c16qWatchdog, func() bool {
		last = st.snapshot()
		return last.Quiescent && last.Newest == st.next()-1
	})
	if !ok {
		if last.Leading && last.Quiescent && last.Newest != st.next()-1 {
			// at rest, but not where the accepted publishes say it is
			st.readback("before the next publish")
			if !st.dead {
				st.inconc(fmt.Sprintf("the partition is at rest at newest offset %d, the model says %d", last.Newest, st.next()-1))
			}
			return false
		}
		st.inconc(fmt.Sprintf("the partition did not come to rest before the publish under test: %+v", last))
	}
	return ok
}

// readback compares the leader's log with the model.
func (st *c16qStream) readback(when string) {
	p := st.part()
	if p == nil {
		st.inconc("partition object not found for the log read-back")
		return
	}
	recs, err := vfReadLog(p.log, 0, true)
	if err != nil {
		st.inconc("reading the log: " + err.Error())
		return
	}
	st.rep.Count("log_readbacks", 1)
	st.rep.Count("log_records_compared", int64(len(recs)))
	bad := len(recs) != len(st.tags)
	for i := 0; !bad && i < len(recs); i++ {
		bad = recs[i].Offset != int64(i) || string(recs[i].Value) != st.tags[i]
	}
	if bad {
		st.fail("C16:quiescent:log-mismatch:"+st.sit, fmt.Sprintf("%s the log of %s holds %v but the publishes that had to be accepted are %v", when, st.name, c16LogDesc(recs), st.tags),
			map[string]any{"log": c16LogDesc(recs), "model": append([]string(nil), st.tags...)})
	}
}

// fence sends the proof-of-processing publish that belongs to pr over the same
// connection / session / broker API.  appending=false: names a far-future
// offset (refused, the log does not grow); true: waives the check (-1).
func (st *c16qStream) fence(pr *c16qProbe, appending bool, sess int) *c16qProbe {
	role, class, e := "fence-refused", "future", st.next()+1000
	if appending {
		role, class, e = "fence-append", "any", int64(-1)
	}
	f := st.newProbe(role, class, e, client.AckPolicy_LEADER, pr.Via, pr.node, pr.conn)
	f.Situation = pr.Situation
	wait := c16qWatchdog
	if !appending {
		wait = c16qFenceT
	}
	st.fire(f, wait, sess)
	return f
}

// settle decides the publishes that were just fired (one lone publish, or the
// racers of one burst; racer i used session / connection i+1).  It returns
// false when the stream cannot go on.
func (st *c16qStream) settle(prs []*c16qProbe, lone bool) bool {
	sessOf := func(pr *c16qProbe) int {
		if lone {
			return 0
		}
		for i, x := range prs {
			if x == pr {
				return i + 1
			}
		}
		return 0
	}
	if lone && prs[0].policy == client.AckPolicy_NONE {
		// no answer is demanded: the non-appending fence behind it tells when
		// it has been processed (an ack or nack for it, sent before the
		// fence's, has arrived by then: one subscription delivers in order)
		pr := prs[0]
		f := st.fence(pr, false, 0)
		st.await([]*c16qProbe{f}, c16qFenceT)
		st.event("  %s", f)
		switch {
		case f.Out == c16OutOK:
			st.fail("C16:quiescent:mismatch-accepted:fence", fmt.Sprintf("a publish naming expected offset %d while the next offset was %d was accepted at offset %d (%s)", f.E, f.Next, f.Off, f), nil)
			return false
		case f.Out != c16OutRejected:
			st.inconc(fmt.Sprintf("the non-appending fence behind %s was not answered (%s)", pr, f))
			return false
		}
		if pr.poll() {
			pr.When = "first-wait"
			st.rep.Count("none_policy_publishes_answered_(ack_or_nack_seen,_not_demanded)", 1)
		} else {
			st.rep.Count("none_policy_publishes_without_answer_(not_demanded)", 1)
		}
		return true
	}
	st.await(prs, c16qT1)
	var need []*c16qProbe
	for _, pr := range prs {
		if pr.answered {
			pr.When = "first-wait"
		} else {
			need = append(need, pr)
		}
	}
	if len(need) == 0 {
		return true
	}
	// From here on the publish is in doubt.  One analysis at a time in the
	// process (it takes seconds); once the unit has its violations the others
	// are abandoned.
	c16qGate.Lock()
	defer c16qGate.Unlock()
	if c16qEnough(st.rep) {
		st.dead = true
		st.rep.Count("analyses_abandoned_after_the_unit_had_its_violations", 1)
		return false
	}
	st.rep.Count("publishes_without_answer_in_the_first_wait", int64(len(need)))
	// 1. non-appending fences behind every publish without an answer
	fences := make([]*c16qProbe, len(need))
	var wg sync.WaitGroup
	for i, pr := range need {
		wg.Add(1)
		go func(i int, pr *c16qProbe) {
			defer wg.Done()
			fences[i] = st.fence(pr, false, sessOf(pr))
		}(i, pr)
	}
	wg.Wait()
	st.await(fences, c16qFenceT)
	proven := map[*c16qProbe]*c16qProbe{}
	for i, f := range fences {
		st.event("  %s", f)
		if f.Out == c16OutOK {
			st.fail("C16:quiescent:mismatch-accepted:fence", fmt.Sprintf("a publish naming expected offset %d while the next offset was %d was accepted at offset %d (%s)", f.E, f.Next, f.Off, f), nil)
			return false
		}
		if f.Out == c16OutRejected {
			proven[need[i]] = f
		}
	}
	// 2. second wait for the answers, then the state
	st.await(need, c16qT2)
	s1 := st.snapshot()
	type verdict struct {
		pr     *c16qProbe
		sent1  []c16qSent
		proven *c16qProbe
		append *c16qProbe
		stored bool
		at     int64
	}
	var open []*verdict
	for _, pr := range need {
		if pr.answered {
			pr.When = "late"
			st.rep.Count("answers_that_arrived_only_in_the_second_wait", 1)
			continue
		}
		open = append(open, &verdict{pr: pr, sent1: st.tr.get(pr.Tag), proven: proven[pr]})
	}
	if len(open) == 0 {
		return true
	}
	// what became of them: the leader's log
	var logDesc []string
	if p := st.part(); p != nil {
		if recs, err := vfReadLog(p.log, 0, true); err == nil {
			logDesc = c16LogDesc(recs)
			for _, v := range open {
				for _, r := range recs {
					if string(r.Value) == v.pr.Tag {
						v.stored, v.at = true, r.Offset
					}
				}
			}
		}
	}
	// 3. one appending fence per open publish, over its connection: does the
	// next append release the answer?
	var afs, ops []*c16qProbe
	for _, v := range open {
		v.append = st.fence(v.pr, true, sessOf(v.pr))
		afs = append(afs, v.append)
		ops = append(ops, v.pr)
	}
	st.await(afs, c16qWatchdog)
	for _, f := range afs {
		st.event("  %s", f)
	}
	st.await(ops, c16qT3)
	for _, v := range open {
		pr := v.pr
		sentNow := st.tr.get(pr.Tag)
		released := ""
		if pr.answered {
			pr.When = "after-append"
			released = fmt.Sprintf("the answer (%s) arrived only after one more publish had been appended (%s)", pr.Out, v.append)
		} else if len(sentNow) > len(v.sent1) {
			released = fmt.Sprintf("the partition sent the answer only after one more publish had been appended (%s): %+v", v.append, sentNow)
		} else {
			released = fmt.Sprintf("no answer was sent even after one more publish had been appended (%s)", v.append)
		}
		kind, what := "refusal", "is not stored, so its publisher must be told INCORRECT_OFFSET"
		if v.stored {
			kind, what = "accepted", fmt.Sprintf("is stored at offset %d, so its publisher must be acknowledged", v.at)
		}
		extra := map[string]any{"publish": pr.String(), "non_appending_fence": fmt.Sprint(v.proven), "appending_fence": fmt.Sprint(v.append), "log_before_the_appending_fence": logDesc,
			"partition_state_before_the_appending_fence": s1, "acks_sent_for_it_before_the_appending_fence": v.sent1, "acks_sent_for_it_in_the_end": sentNow, "released": released}
		fp := fmt.Sprintf("C16:%s-never-answered:%s:%s", kind, pr.Policy, pr.Situation)
		// an answer the partition sent on its own accord after the state was
		// read - not behind the appending fence's ack - is a slow answer, not a
		// parked one
		aSent := st.tr.get(v.append.Tag)
		lateOwn := len(sentNow) > 0 && (len(aSent) == 0 || sentNow[0].Seq < aSent[0].Seq)
		switch {
		case len(v.sent1) > 0:
			st.inconc(fmt.Sprintf("the partition sent an answer for %s (%+v) but it did not reach the publisher", pr, v.sent1))
		case lateOwn:
			st.inconc(fmt.Sprintf("the partition sent the answer for %s only after both waits, but before it acknowledged the appending fence: %+v", pr, sentNow))
		case lone && v.proven != nil && s1.Quiescent && v.stored && !pr.want():
			st.fail("C16:quiescent:mismatch-accepted:"+pr.Situation, fmt.Sprintf("%s was stored at offset %d (and never answered)", pr, v.at), extra)
		case v.proven != nil && s1.Quiescent:
			where := "the commit queue is empty"
			if s1.QueueLen > 0 {
				where = fmt.Sprintf("the commit queue holds %d entries, head %s", s1.QueueLen, s1.QueueHead)
			}
			st.fail(fp, fmt.Sprintf("%s was the last thing sent to the partition and %s; it was not answered: the partition had processed it (a refused publish sent behind it over the same connection was answered: %s), %s later the partition on %s leads and is at rest (HW %d = newest offset %d, in-sync replicas %v) and has never sent an ack or error for it (%s); %s",
				pr, what, v.proven, c16qT1+c16qT2, s1.Broker, s1.HW, s1.Newest, s1.ISR, where, released), extra)
		case v.proven == nil && v.append.Out == c16OutOK && len(sentNow) == 0 && !pr.answered:
			// the refused fence was not answered either; the appending one was:
			// the publish is processed - wait again and look at the state
			st.await(ops, c16qT2)
			s2 := st.snapshot()
			extra["partition_state_in_the_end"] = s2
			if !pr.answered && len(st.tr.get(pr.Tag)) == 0 && s2.Quiescent {
				st.fail(fp, fmt.Sprintf("%s %s; it was not answered: the partition had processed it (an unconditional publish sent behind it over the same connection was appended and acknowledged: %s), the partition on %s leads and is at rest (HW %d = newest offset %d) and has never sent an ack or error for it",
					pr, what, v.append, s2.Broker, s2.HW, s2.Newest), extra)
			} else {
				st.inconc(fmt.Sprintf("no answer for %s and no stuck state either: %+v", pr, s2))
			}
		default:
			st.inconc(fmt.Sprintf("no answer for %s; processed-proof %v, partition state %+v; %s", pr, v.proven != nil, s1, released))
		}
	}
	st.dead = true // the appending fences changed the log behind the model
	return false
}

// judgeLone applies the determined verdict to a lone publish and moves the model.
func (st *c16qStream) judgeLone(pr *c16qProbe) {
	want := pr.want()
	desc := fmt.Sprintf("stream %s (%s) holds %d messages and is at rest; [%s] %s", st.name, st.desc, pr.Next, pr.Situation, pr)
	if pr.policy == client.AckPolicy_NONE && !pr.answered {
		// processed (fence); the read-back decides
		if want {
			st.tags = append(st.tags, pr.Tag)
		}
		return
	}
	switch {
	case pr.Out == "other" || !pr.answered:
		st.inconc("no verdict: " + desc)
	case want && pr.Out == c16OutRejected:
		st.fail("C16:quiescent:spurious-reject:"+pr.Situation, desc+": a lone publisher naming the next offset (or -1) got INCORRECT_OFFSET", map[string]any{"publish": pr.String()})
	case !want && pr.Out == c16OutOK:
		st.fail("C16:quiescent:mismatch-accepted:"+pr.Situation, desc+fmt.Sprintf(": accepted and acknowledged at offset %d", pr.Off), map[string]any{"publish": pr.String()})
	case want && pr.Off != pr.Next:
		st.fail("C16:quiescent:wrong-offset:"+pr.Situation, desc+fmt.Sprintf(": acknowledged at offset %d, the next offset was %d", pr.Off, pr.Next), map[string]any{"publish": pr.String()})
	case want:
		st.tags = append(st.tags, pr.Tag)
	}
}

// c16qSpec is one publish to make.
type c16qSpec struct {
	class  string
	policy client.AckPolicy
	via    string
	node   *vfNode
}

func c16qExpected(rng *kit.RNG, class string, next int64) int64 {
	switch class {
	case "equal":
		return next
	case "any":
		return -1
	case "stale":
		return int64(rng.Intn(int(next)))
	case "zero":
		return 0
	case "repeat":
		return next - 1
	case "future":
		return next + []int64{1, 1, 2, 3, 17, 1 << 40}[rng.Intn(6)]
	case "negative":
		return []int64{-2, -3, -1000, -1 << 31, -1 << 63}[rng.Intn(5)]
	}
	return -1
}

// pick chooses class, policy and route of the next lone publish.  refuseBias:
// out of 10, how often the publish is one that must be refused.
func (st *c16qStream) pick(rng *kit.RNG, refuseBias int, needAPI bool) c16qSpec {
	var sp c16qSpec
	if rng.Intn(10) < refuseBias {
		sp.class = []string{"stale", "zero", "repeat", "future", "future", "negative"}[rng.Intn(6)]
		if st.next() == 0 && (sp.class == "stale" || sp.class == "zero" || sp.class == "repeat") {
			sp.class = []string{"future", "negative"}[rng.Intn(2)]
		}
	} else {
		sp.class = []string{"equal", "equal", "any"}[rng.Intn(3)]
	}
	switch x := rng.Intn(100); {
	case x < 50:
		sp.policy = client.AckPolicy_ALL
	case x < 82:
		sp.policy = client.AckPolicy_LEADER
	default:
		sp.policy = client.AckPolicy_NONE
	}
	sp.via = []string{"api", "async", "raw"}[rng.Intn(3)]
	if needAPI && sp.via == "raw" {
		sp.via = []string{"api", "async"}[rng.Intn(2)]
	}
	if sp.policy == client.AckPolicy_NONE {
		if needAPI {
			sp.policy = client.AckPolicy_ALL
		} else {
			sp.via = "raw" // the API refuses ack policy NONE on such streams
		}
	}
	if sp.via != "raw" {
		sp.node = st.routes[rng.Intn(len(st.routes))].node
	}
	return sp
}

// lone makes one publish on the resting partition, waits for its answer with
// nothing else sent, judges it and reads the log back.
func (st *c16qStream) lone(rng *kit.RNG, sp c16qSpec, role string) {
	if !st.dead && c16qEnough(st.rep) {
		st.dead = true
	}
	if st.dead {
		return
	}
	if st.paused {
		// at rest since before the pause; this publish resumes the partition
		if sp.via == "raw" {
			sp.via, sp.node = "api", st.routes[0].node
		}
		if sp.policy == client.AckPolicy_NONE {
			sp.policy = client.AckPolicy_ALL
		}
	} else if !st.rest() {
		return
	}
	e := c16qExpected(rng, sp.class, st.next())
	pr := st.newProbe(role, sp.class, e, sp.policy, sp.via, sp.node, rng.Intn(len(st.pool)))
	st.rep.Eval()
	st.probes++
	slot := st.eventSlot()
	st.fire(pr, c16qT1, 0)
	st.paused = false
	ok := st.settle([]*c16qProbe{pr}, true)
	st.setEvent(slot, pr.String())
	if !ok || st.dead {
		return
	}
	st.judgeLone(pr)
	if st.dead {
		return
	}
	kind := "refused"
	if pr.want() {
		kind = "accepted"
	}
	st.rep.Count(fmt.Sprintf("lone_%s_%s_%s", pr.Situation, pr.Policy, kind), 1)
	st.rep.Count("lone_via_"+pr.Via+"@"+strings.SplitN(pr.Route, "(", 2)[0], 1)
	st.rep.Nontrivial(fmt.Sprintf("%s|%s|%s|%s|%s|rf=%d|empty=%v", pr.Situation, pr.Policy, pr.Class, pr.Via, strings.SplitN(pr.Route, "(", 2)[0], st.rf, pr.Next == 0))
	// the publish after this one finds the partition in the state this one left
	if pr.want() {
		st.sit = "filled"
	} else if st.next() == 0 {
		st.sit = "empty-after-refusal"
	} else {
		st.sit = "after-refusal"
	}
	if !st.rest() {
		return
	}
	st.readback("after " + pr.String())
}

// burst: n racers name the same expected offset (a few a stale / future one)
// at the same moment over their own connections / sessions / calls, then
// silence: every one of them must be answered, exactly one of those naming the
// next offset wins.
func (st *c16qStream) burst(rng *kit.RNG) {
	if st.dead || st.paused || c16qEnough(st.rep) || !st.rest() {
		return
	}
	before := st.sit
	st.sit = "burst"
	n := rng.Range(2, 8)
	next := st.next()
	mode := rng.Intn(3) // 0 ALL, 1 LEADER, 2 mixed
	prs := make([]*c16qProbe, n)
	for i := range prs {
		class := "equal"
		switch x := rng.Intn(10); {
		case x == 0 && next > 0:
			class = "stale"
		case x == 1:
			class = "future"
		}
		policy := client.AckPolicy_ALL
		if mode == 1 || (mode == 2 && rng.Bool()) {
			policy = client.AckPolicy_LEADER
		}
		via := []string{"raw", "async", "api"}[rng.Intn(3)]
		var node *vfNode
		if via != "raw" {
			node = st.routes[rng.Intn(len(st.routes))].node
		}
		e := c16qExpected(rng, class, next)
		if class == "future" {
			e = next + 1
		}
		prs[i] = st.newProbe("racer", class, e, policy, via, node, i+1)
	}
	st.rep.Eval()
	st.probes += n
	start := make(chan struct{})
	var wg sync.WaitGroup
	for i, pr := range prs {
		wg.Add(1)
		go func(i int, pr *c16qProbe) {
			defer wg.Done()
			<-start
			st.fire(pr, c16qT1, i+1)
		}(i, pr)
	}
	slots := make([]int, n)
	for i := range slots {
		slots[i] = st.eventSlot()
	}
	close(start)
	wg.Wait()
	ok := st.settle(prs, false)
	for i, pr := range prs {
		st.setEvent(slots[i], pr.String())
	}
	if !ok || st.dead {
		return
	}
	// what the log holds now decides who won
	p := st.part()
	if p == nil {
		st.inconc("partition object not found after a burst")
		return
	}
	if !vfWait(c16qWatchdog, func() bool { s := st.snapshot(); return s.Quiescent }) {
		st.inconc("the partition did not come to rest after a burst")
		return
	}
	recs, err := vfReadLog(p.log, 0, true)
	if err != nil {
		st.inconc("reading the log: " + err.Error())
		return
	}
	extra := map[string]any{"log": c16LogDesc(recs), "racers": c16qDesc(prs)}
	at := map[string]int64{}
	for i, r := range recs {
		if r.Offset != int64(i) {
			st.fail("C16:quiescent:log-mismatch:burst", fmt.Sprintf("after a burst the log record #%d has offset %d", i, r.Offset), extra)
			return
		}
		if _, dup := at[string(r.Value)]; dup {
			st.fail("C16:quiescent:stored-twice:burst", fmt.Sprintf("after a burst %q is stored twice", r.Value), extra)
			return
		}
		at[string(r.Value)] = r.Offset
	}
	byTag := map[string]*c16qProbe{}
	for _, pr := range prs {
		byTag[pr.Tag] = pr
	}
	for i := int64(0); i < next && i < int64(len(recs)); i++ {
		if string(recs[i].Value) != st.tags[i] {
			st.fail("C16:quiescent:log-mismatch:burst", fmt.Sprintf("a burst of conditional publishes changed offset %d of the log", i), extra)
			return
		}
	}
	if int64(len(recs)) < next {
		st.fail("C16:quiescent:log-mismatch:burst", "the log is shorter after a burst of conditional publishes", extra)
		return
	}
	winners, contenders := 0, 0
	for _, r := range recs[next:] {
		tag := string(r.Value)
		pr := byTag[tag]
		switch {
		case pr != nil && pr.E != r.Offset:
			st.fail("C16:quiescent:stored-at-other-offset:burst", fmt.Sprintf("racer %s is stored at offset %d", pr, r.Offset), extra)
			return
		case pr == nil:
			st.fail("C16:quiescent:log-mismatch:burst", fmt.Sprintf("after a burst the log holds %q at offset %d which nobody sent", tag, r.Offset), extra)
			return
		}
	}
	for _, pr := range prs {
		off, stored := at[pr.Tag]
		if pr.E == next {
			contenders++
			if stored {
				winners++
			}
		}
		switch {
		case pr.Out == "other" || !pr.answered:
			st.inconc(fmt.Sprintf("racer without verdict: %s", pr))
			return
		case pr.Out == c16OutOK && (!stored || off != pr.Off || pr.Off != pr.E):
			st.fail("C16:quiescent:acked-not-stored:burst", fmt.Sprintf("racer %s was acknowledged at offset %d but the log holds it at %d (stored: %v)", pr, pr.Off, off, stored), extra)
			return
		case pr.Out == c16OutRejected && stored:
			st.fail("C16:quiescent:rejected-but-stored:burst", fmt.Sprintf("racer %s got INCORRECT_OFFSET but is stored at offset %d", pr, off), extra)
			return
		}
	}
	if contenders > 0 && winners != 1 {
		st.fail(fmt.Sprintf("C16:quiescent:burst-winners-%d", winners), fmt.Sprintf("%d racers named the next offset %d of the resting partition, %d of them are stored", contenders, next, winners), extra)
		return
	}
	tags := make([]string, 0, len(recs))
	for _, r := range recs {
		tags = append(tags, string(r.Value))
	}
	st.tags = tags
	late := 0
	for _, pr := range prs {
		if pr.When != "first-wait" {
			late++
		}
	}
	st.rep.Count("bursts", 1)
	st.rep.Count("burst_racers", int64(n))
	told := 0
	for _, pr := range prs {
		if pr.Out == c16OutRejected {
			told++
		}
	}
	st.rep.Count("burst_racers_refused_and_told_so", int64(told))
	st.rep.Count(fmt.Sprintf("bursts_policy_mode_%d", mode), 1)
	st.rep.Nontrivial(fmt.Sprintf("burst|after=%s|n=%d|mode=%d|contenders=%d|rf=%d|late=%d", before, n, mode, contenders, st.rf, late))
	st.sit = "after-burst"
}

func c16qDesc(prs []*c16qProbe) []string {
	out := make([]string, 0, len(prs))
	for _, pr := range prs {
		out = append(out, pr.String())
	}
	return out
}

// fill appends k messages with lone accepted publishes.
func (st *c16qStream) fill(rng *kit.RNG, k int) {
	for i := 0; i < k && !st.dead; i++ {
		sp := st.pick(rng, 0, false)
		st.lone(rng, sp, "fill")
	}
}

// rounds is the program every stream runs between the events of its unit.
func (st *c16qStream) rounds(rng *kit.RNG, n int, events func(rng *kit.RNG) bool) {
	for r := 0; r < n && !st.dead; r++ {
		needAPI := false
		switch x := rng.Intn(100); {
		case x < 25:
			st.fill(rng, rng.Range(1, 3))
		case x < 45:
			st.burst(rng)
		case x < 75 && events != nil:
			needAPI = events(rng)
		}
		k := rng.Range(1, 3)
		for i := 0; i < k && !st.dead; i++ {
			bias := 7
			if i == 0 {
				bias = 9 // the first publish after an event is mostly one that must be refused
			}
			st.lone(rng, st.pick(rng, bias, needAPI && i == 0), "probe")
		}
	}
}

// finish: contradicting acks at the hook, counters.
func (st *c16qStream) finish() {
	if st.dead {
		return
	}
	st.tr.mu.Lock()
	n := 0
	var bad string
	for tag, ss := range st.tr.sent {
		n += len(ss)
		for _, s := range ss[1:] {
			if s.Err != ss[0].Err || s.Off != ss[0].Off {
				bad = fmt.Sprintf("%s: %+v", tag, ss)
			}
		}
	}
	st.tr.mu.Unlock()
	if bad != "" {
		st.fail("C16:quiescent:contradicting-acks", "the partition sent contradicting acks for one publish: "+bad, nil)
		return
	}
	st.rep.Count("acks_seen_at_hook", int64(n))
	st.rep.Count("streams_completed", 1)
	st.rep.Count("publishes", int64(st.probes))
}

// ---------------------------------------------------------------- single-node unit

func c16qSingleEvents(st *c16qStream) func(rng *kit.RNG) bool {
	return func(rng *kit.RNG) bool {
		srv := st.leader.Server()
		ctx, cancel := context.WithTimeout(context.Background(), c16qWatchdog)
		defer cancel()
		if rng.Chance(3, 5) {
			if !st.rest() {
				return false
			}
			if _, err := srv.api.PauseStream(ctx, &client.PauseStreamRequest{Name: st.name, ResumeAll: rng.Bool()}); err != nil {
				st.inconc("pause: " + err.Error())
				return false
			}
			st.event("PauseStream")
			st.rep.Count("event_pause", 1)
			st.sit, st.paused = "pause-resume", true
			// the next publish goes through the API, which resumes the partition
			st.closeSessions()
			return true
		}
		for _, ro := range []bool{true, false} {
			if _, err := srv.api.SetStreamReadonly(ctx, &client.SetStreamReadonlyRequest{Name: st.name, Readonly: ro}); err != nil {
				st.inconc("set readonly: " + err.Error())
				return false
			}
		}
		st.event("SetStreamReadonly on/off")
		st.rep.Count("event_readonly_cycle", 1)
		st.sit = "readonly-cycle"
		return false
	}
}

// restNoModel waits for a (possibly new) leading partition object at rest.
func (st *c16qStream) awaitLeading() bool {
	ok := vfWait(40*time.Second, func() bool {
		p := st.part()
		return p != nil && (p.IsLeader() || p.IsPaused())
	})
	if !ok {
		st.inconc("the partition is not back")
	}
	return ok
}

func c16qServer(rep *kit.Report, sidx int, rng *kit.RNG, nStreams int) {
	bmm := []int{1, 8, 1024}[rng.Intn(3)]
	bmt := []time.Duration{0, time.Millisecond, 5 * time.Millisecond}[rng.Intn(3)]
	serverWide := rng.Bool()
	cfgDesc := fmt.Sprintf("single broker batch.max.messages=%d batch.max.time=%s streams.concurrency.control=%v", bmm, bmt, serverWide)
	c, _, err := vfSingle(fmt.Sprintf("c16q-%d", sidx), func(cfg *Config) {
		cfg.BatchMaxMessages = bmm
		cfg.BatchMaxTime = bmt
		cfg.Streams.ConcurrencyControl = serverWide
	})
	if err != nil {
		rep.Inconc("server did not start: " + err.Error())
		return
	}
	defer c.Cleanup()
	pool := []*nats.Conn{c.NC}
	for i := 0; i < 8; i++ {
		nc, err := nats.Connect(c.URL)
		if err != nil {
			break
		}
		pool = append(pool, nc)
		defer nc.Close()
	}
	streams := make([]*c16qStream, nStreams)
	rngs := make([]*kit.RNG, nStreams)
	for i := range rngs {
		rngs[i] = rng.Fork(uint64(i))
	}
	node := c.Nodes["a"]
	// phase 1: fresh streams
	kit.Parallel(nStreams, 4, func(i int) {
		if c16qEnough(rep) {
			return
		}
		r := rngs[i]
		name := fmt.Sprintf("c16q%d-%d", sidx, i)
		req := &client.CreateStreamRequest{Subject: name, Name: name, ReplicationFactor: 1}
		how := "per-stream flag"
		if serverWide && i%3 == 0 {
			how = "server-wide setting"
		} else {
			req.OptimisticConcurrencyControl = &client.NullableBool{Value: true}
		}
		if r.Chance(1, 3) {
			req.SegmentMaxBytes = &client.NullableInt64{Value: 256}
		}
		if err := c.CreateStream(req); err != nil {
			rep.Inconc("create stream: " + err.Error())
			return
		}
		if _, err := c.PartitionLeader(name, 0, 30*time.Second); err != nil {
			rep.Inconc(err.Error())
			return
		}
		st, err := c16qNewStream(rep, c, name, cfgDesc+" concurrency control by "+how, 1, pool)
		if err != nil {
			rep.Inconc("ack inbox: " + err.Error())
			return
		}
		st.leader = node
		st.routes = []c16qRoute{{"leader", node}}
		streams[i] = st
		// directly after creation: the very first thing the partition sees
		st.lone(r, st.pick(r, 8, false), "probe")
		st.rounds(r, r.Range(2, 4), c16qSingleEvents(st))
	})
	// restart: every partition is rebuilt and leads again
	alive := 0
	for i, st := range streams {
		if st != nil && !st.dead {
			alive++
			st.closeSessions()
			if rngs[i].Chance(1, 4) && st.rest() {
				// paused when the server goes down: resumed by the first publish after the restart
				ctx, cancel := context.WithTimeout(context.Background(), c16qWatchdog)
				_, err := node.Server().api.PauseStream(ctx, &client.PauseStreamRequest{Name: st.name})
				cancel()
				if err != nil {
					st.inconc("pause: " + err.Error())
					continue
				}
				st.event("PauseStream")
				st.paused = true
			}
		}
	}
	if alive > 0 && !c16qEnough(rep) {
		if err := c.StopNode("a"); err != nil {
			rep.Inconc("stop: " + err.Error())
			return
		}
		if err := c.StartNode("a"); err != nil {
			rep.Inconc("restart: " + err.Error())
			return
		}
		if _, err := c.MetaLeader(40 * time.Second); err != nil {
			rep.Inconc("no metadata leader after the restart: " + err.Error())
			return
		}
		rep.Count("event_restart", 1)
		kit.Parallel(nStreams, 4, func(i int) {
			st := streams[i]
			if st == nil || st.dead || c16qEnough(rep) {
				return
			}
			r := rngs[i]
			st.event("server restarted")
			if !st.awaitLeading() {
				return
			}
			if st.paused {
				st.sit = "pause-restart"
			} else {
				st.sit = "restart"
			}
			// the first thing the rebuilt partition sees
			st.lone(r, st.pick(r, 9, st.paused), "probe")
			st.rounds(r, r.Range(1, 2), c16qSingleEvents(st))
		})
	}
	for _, st := range streams {
		if st != nil {
			st.finish()
			st.close()
		}
	}
	if sidx == 0 {
		for _, st := range streams {
			if st != nil && !st.dead {
				st.mu.Lock()
				ev := append([]string(nil), st.events...)
				st.mu.Unlock()
				if len(ev) > 14 {
					ev = ev[:14]
				}
				rep.Sample(map[string]any{"stream": st.name, "setup": st.desc, "first_steps": ev})
				break
			}
		}
	}
}

const c16qRule = "the partition is brought to rest (HW == newest offset == model, in-sync replicas caught up, nothing in flight), then ONE conditional publish is sent - expected offset stale / 0 / the newest message's / future / below -1 (must be refused) or equal / -1 (must be accepted), ack policy ALL / LEADER / NONE (NONE: raw envelope only), via apiServer.Publish / a PublishAsync session / a raw envelope with its own ack inbox - and NOTHING else until its answer is there; or one burst of 2..8 racers (own connections / sessions / calls) naming the same expected offset followed by silence; oracle = determined verdict of a lone publisher + log read-back after every step + every racer answered, exactly one of those naming the next offset stored; a missing answer is decided by the stuck-state predicate (publish proven processed by an answered NON-APPENDING fence behind it on the same connection; after a second wait the leader's partition leads, HW == newest offset, ISR caught up, and the ack.send hook never saw an answer) => violation; otherwise inconclusive; only then one appending publish is sent to see whether it releases the answer; non-trivial = every settled publish; distinct = situation x policy x class x route x replication factor x empty log"

// TestVerifC16Quiescent: single broker, replication factor 1.
func TestVerifC16Quiescent(t *testing.T) {
	rep := kit.NewReport("C16", "quiescent")
	defer rep.Write()
	rep.SetRule("real single-node servers (batch.max.messages / batch.max.time / the way concurrency control is switched on / segment size varied), streams with optimistic concurrency control; situations: created (empty log, the first thing the partition ever sees), filled, after-refusal, empty-after-refusal, pause-resume (the publish itself resumes the paused partition), readonly-cycle, restart (first thing the rebuilt partition sees), burst / after-burst; " + c16qRule)
	rep.Assume("one NATS connection's publishes on one subject reach the partition's message loop in the order they were sent; a broker's API publishes everything over one connection, so a call made after another call has returned is behind it")
	rep.Assume("ack policy NONE (raw envelopes with an ack inbox): no answer is demanded - whether a nack was seen is counted - the fence tells when it was processed and the log read-back decides")
	remove := c16qInstallHook()
	defer remove()
	root := kit.NewRNG(kit.Mix(kit.Seed(), 0xC1601E5))
	nsrv := kit.Scale(4, 9)
	per := kit.Scale(8, 20)
	rngs := make([]*kit.RNG, nsrv)
	for i := range rngs {
		rngs[i] = root.Fork(uint64(i))
	}
	kit.Parallel(nsrv, 4, func(i int) {
		if c16qEnough(rep) {
			return
		}
		c16qServer(rep, i, rngs[i], per)
	})
}

// ---------------------------------------------------------------- cluster unit

// c16qSetRoutes works out the brokers' roles for the stream (running brokers only).
func (st *c16qStream) setRoutes() {
	st.routes = nil
	for _, id := range st.c.IDs {
		n := st.c.Nodes[id]
		if !n.IsUp() {
			continue
		}
		p := n.Partition(st.name, 0)
		switch {
		case n == st.leader:
			st.routes = append(st.routes, c16qRoute{"leader", n})
		case p != nil && p.inReplicas(n.Cfg.Clustering.ServerID):
			st.routes = append(st.routes, c16qRoute{"follower", n})
		default:
			st.routes = append(st.routes, c16qRoute{"nonreplica", n})
		}
	}
}

func c16qCluster(rep *kit.Report, cidx int, rng *kit.RNG, nStreams int) {
	bmm := []int{1, 8, 1024}[rng.Intn(3)]
	bmt := []time.Duration{0, 200 * time.Microsecond, 2 * time.Millisecond}[rng.Intn(3)]
	cfgDesc := fmt.Sprintf("3 brokers batch.max.messages=%d batch.max.time=%s", bmm, bmt)
	c, err := vfNewCluster(fmt.Sprintf("c16qc-%d", cidx), 3, func(cfg *Config) {
		cfg.BatchMaxMessages = bmm
		cfg.BatchMaxTime = bmt
		cfg.Clustering.ReplicaMaxLeaderTimeout = 1500 * time.Millisecond
		cfg.Clustering.ReplicaMaxIdleWait = 250 * time.Millisecond
		cfg.Clustering.ReplicaFetchTimeout = 500 * time.Millisecond
		cfg.Clustering.ReplicaMaxLagTime = 3 * time.Second
	})
	if err != nil {
		rep.Inconc("cluster did not start: " + err.Error())
		return
	}
	defer c.Stop() // the directory (under VERIF_WORK) is removed by the driver
	pool := []*nats.Conn{c.NC}
	for i := 0; i < 8; i++ {
		nc, err := nats.Connect(c.URL)
		if err != nil {
			break
		}
		pool = append(pool, nc)
		defer nc.Close()
	}
	streams := make([]*c16qStream, nStreams)
	rngs := make([]*kit.RNG, nStreams)
	for i := range rngs {
		rngs[i] = rng.Fork(uint64(i))
	}
	kit.Parallel(nStreams, 3, func(i int) {
		if c16qEnough(rep) {
			return
		}
		r := rngs[i]
		rf := 3
		if i%3 == 2 {
			rf = 2
		}
		name := fmt.Sprintf("c16qc%d-%d", cidx, i)
		if err := c.CreateStream(&client.CreateStreamRequest{Subject: name, Name: name, ReplicationFactor: int32(rf),
			OptimisticConcurrencyControl: &client.NullableBool{Value: true}}); err != nil {
			rep.Inconc("create stream: " + err.Error())
			return
		}
		leader, err := c.PartitionLeader(name, 0, 30*time.Second)
		if err != nil {
			rep.Inconc(err.Error())
			return
		}
		p := leader.Partition(name, 0)
		if !vfWait(30*time.Second, func() bool { return len(p.GetISR()) == rf }) {
			rep.Inconc(fmt.Sprintf("stream %s: the in-sync replica set did not reach %d", name, rf))
			return
		}
		st, err := c16qNewStream(rep, c, name, cfgDesc, rf, pool)
		if err != nil {
			rep.Inconc("ack inbox: " + err.Error())
			return
		}
		st.leader = leader
		st.setRoutes()
		st.event("replication factor %d, partition leader %s", rf, leader.ID)
		streams[i] = st
		st.lone(r, st.pick(r, 8, false), "probe")
		st.rounds(r, r.Range(2, 3), nil)
	})
	// stop the broker that leads the first stream still running
	var victim *vfNode
	for _, st := range streams {
		if st != nil && !st.dead {
			victim = st.leader
			break
		}
	}
	if victim != nil && !c16qEnough(rep) {
		for _, st := range streams {
			if st == nil {
				continue
			}
			st.closeSessions()
			if st.dead {
				continue
			}
			// every replica knows that everything is committed before a broker goes
			st := st
			if !vfWait(c16qWatchdog, func() bool {
				want := st.next() - 1
				for _, n := range c.Running() {
					p := n.Partition(st.name, 0)
					if p != nil && p.inReplicas(n.Cfg.Clustering.ServerID) && (p.log.NewestOffset() != want || p.log.HighWatermark() != want) {
						return false
					}
				}
				return true
			}) {
				st.inconc("the replicas did not all reach the leader's high watermark before the broker was stopped")
			}
		}
		c.StopNode(victim.ID)
		rep.Count("event_broker_stopped", 1)
		kit.Parallel(nStreams, 3, func(i int) {
			st := streams[i]
			if st == nil || st.dead || c16qEnough(rep) {
				return
			}
			r := rngs[i]
			old := st.leader
			nl, err := c.PartitionLeader(st.name, 0, 60*time.Second)
			if err != nil {
				st.inconc("no partition leader after broker " + victim.ID + " was stopped: " + err.Error())
				return
			}
			st.leader = nl
			st.setRoutes()
			// the in-sync replica set must have let go of the stopped broker,
			// otherwise nothing can be committed
			p := nl.Partition(st.name, 0)
			if !vfWait(60*time.Second, func() bool {
				for _, id := range p.GetISR() {
					if id == victim.ID {
						return false
					}
				}
				return p.IsLeader()
			}) {
				st.inconc("the stopped broker did not leave the in-sync replica set")
				return
			}
			if nl != old {
				st.sit = "leader-change"
				rep.Count("streams_with_a_new_leader", 1)
				st.event("partition leader %s stopped, %s leads", old.ID, nl.ID)
			} else {
				st.sit = "replica-stopped"
				st.event("broker %s stopped, %s still leads", victim.ID, nl.ID)
			}
			// acknowledged LEADER-policy messages may be gone with the old
			// leader (C02's business): take the model from the new leader's log
			if !vfWait(c16qWatchdog, func() bool { return st.snapshot().Quiescent }) {
				st.inconc("the new leader did not come to rest")
				return
			}
			recs, err := vfReadLog(p.log, 0, true)
			if err != nil {
				st.inconc("reading the new leader's log: " + err.Error())
				return
			}
			if len(recs) > len(st.tags) {
				st.fail("C16:quiescent:log-mismatch:"+st.sit, fmt.Sprintf("the new leader's log holds %d messages, only %d publishes had to be accepted", len(recs), len(st.tags)), map[string]any{"log": c16LogDesc(recs)})
				return
			}
			for k, rec := range recs {
				if rec.Offset != int64(k) || string(rec.Value) != st.tags[k] {
					st.fail("C16:quiescent:log-mismatch:"+st.sit, fmt.Sprintf("the new leader's log differs from the accepted publishes at offset %d", k), map[string]any{"log": c16LogDesc(recs)})
					return
				}
			}
			if len(recs) < len(st.tags) {
				rep.Count("accepted_messages_gone_with_the_old_leader_(not_judged)", int64(len(st.tags)-len(recs)))
				st.tags = st.tags[:len(recs)]
			}
			st.lone(r, st.pick(r, 9, false), "probe")
			st.rounds(r, r.Range(1, 2), nil)
		})
	}
	for _, st := range streams {
		if st != nil {
			st.finish()
			st.close()
		}
	}
	if cidx == 0 {
		for _, st := range streams {
			if st != nil && !st.dead {
				st.mu.Lock()
				ev := append([]string(nil), st.events...)
				st.mu.Unlock()
				if len(ev) > 14 {
					ev = ev[:14]
				}
				rep.Sample(map[string]any{"stream": st.name, "setup": st.desc, "first_steps": ev})
				break
			}
		}
	}
}

// TestVerifC16QuiescentCluster: replicated streams, publishes through every
// broker, and the first publish a newly promoted leader sees.
func TestVerifC16QuiescentCluster(t *testing.T) {
	rep := kit.NewReport("C16", "quiescent-cluster")
	defer rep.Write()
	rep.SetRule("real 3-broker clusters, streams with optimistic concurrency control and replication factor 3 or 2 (2: one broker holds no replica); publishes through the Publish / PublishAsync API of the partition leader, the followers and the broker without a replica, and raw envelopes; situations as in the single-node unit (created, filled, after-refusal, burst ...), then one broker - the leader of the first stream - is stopped and, once every stream has an agreed leader whose in-sync replica set let go of the stopped broker, the FIRST thing sent to each partition is the publish under test (leader-change: a newly promoted leader; replica-stopped: the old leader with a shrunk ISR); " + c16qRule)
	rep.Assume("one NATS connection's publishes on one subject reach the partition leader's message loop in the order they were sent; a broker's API publishes everything over one connection")
	rep.Assume("messages acknowledged under ack policy LEADER that the new leader does not hold are outside this property (C02): after the leader change the model is cut back to the new leader's log, which must be a prefix of the accepted publishes")
	remove := c16qInstallHook()
	defer remove()
	root := kit.NewRNG(kit.Mix(kit.Seed(), 0xC1601EC))
	nclu := kit.Scale(2, 6)
	per := kit.Scale(6, 9)
	rngs := make([]*kit.RNG, nclu)
	for i := range rngs {
		rngs[i] = root.Fork(uint64(i))
	}
	kit.Parallel(nclu, 2, func(i int) {
		if c16qEnough(rep) {
			return
		}
		c16qCluster(rep, i, rngs[i], per)
	})
}
