//go:build verif

package server

// C18 — the activity stream lists metadata changes in commit order, at least
// once.
//
// Shared machinery of the C18 units: a scenario environment around a real
// in-process server / 3-server cluster with the activity stream enabled, a
// seeded generator of metadata operations issued through the in-process API,
// a bounded fault plan at the two verif hook points of publishActivityEvent
// (publish failure; "published but the last-published index was not
// recorded"), capture of the committed Raft log (RaftLogListener + the Raft
// log store, stitched by index) and the oracle that compares what a reader of
// __activity sees with that log.

import (
	"bytes"
	"context"
	"errors"
	"fmt"
	"os"
	"sort"
	"strings"
	"sync"
	"time"

	"github.com/hashicorp/raft"
	client "github.com/liftbridge-io/liftbridge-api/v2/go"
	pb "google.golang.org/protobuf/proto"

	kit "github.com/liftbridge-io/liftbridge/internal/verifkit"
	proto "github.com/liftbridge-io/liftbridge/server/protocol"
)

const c18ActivityStream = "__activity"

// ---------------------------------------------------------------- canonical forms

// c18CanonRaft is the harness' own reading of documentation/activity.md: which
// committed operations are listed and with which fields.  listed=false for
// operations that have no event (ISR changes, leader changes, ...).
func c18CanonRaft(data []byte) (canon, op string, listed bool, err error) {
	l := &proto.RaftLog{}
	if err = l.Unmarshal(data); err != nil {
		return "", "", false, err
	}
	switch l.Op {
	case proto.Op_CREATE_STREAM:
		st := l.CreateStreamOp.GetStream()
		ids := make([]int32, 0, len(st.GetPartitions()))
		for _, p := range st.GetPartitions() {
			ids = append(ids, p.GetId())
		}
		return fmt.Sprintf("CREATE_STREAM stream=%q partitions=%v", st.GetName(), ids), "CREATE_STREAM", true, nil
	case proto.Op_DELETE_STREAM:
		return fmt.Sprintf("DELETE_STREAM stream=%q", l.DeleteStreamOp.GetStream()), "DELETE_STREAM", true, nil
	case proto.Op_PAUSE_STREAM:
		o := l.PauseStreamOp
		return fmt.Sprintf("PAUSE_STREAM stream=%q partitions=%v resumeAll=%v", o.GetStream(), c18Ints(o.GetPartitions()), o.GetResumeAll()), "PAUSE_STREAM", true, nil
	case proto.Op_RESUME_STREAM:
		o := l.ResumeStreamOp
		return fmt.Sprintf("RESUME_STREAM stream=%q partitions=%v", o.GetStream(), c18Ints(o.GetPartitions())), "RESUME_STREAM", true, nil
	case proto.Op_SET_STREAM_READONLY:
		o := l.SetStreamReadonlyOp
		return fmt.Sprintf("SET_STREAM_READONLY stream=%q partitions=%v readonly=%v", o.GetStream(), c18Ints(o.GetPartitions()), o.GetReadonly()), "SET_STREAM_READONLY", true, nil
	case proto.Op_CREATE_CONSUMER_GROUP:
		g := l.CreateConsumerGroupOp.GetConsumerGroup()
		if len(g.GetMembers()) == 0 {
			// a group is always created by its first member; nothing to list
			return "", "CREATE_CONSUMER_GROUP(empty)", false, nil
		}
		m := g.GetMembers()[0]
		return fmt.Sprintf("JOIN_CONSUMER_GROUP group=%q consumer=%q streams=%v", g.GetId(), m.GetId(), c18Strs(m.GetStreams())), "JOIN_CONSUMER_GROUP", true, nil
	case proto.Op_JOIN_CONSUMER_GROUP:
		o := l.JoinConsumerGroupOp
		return fmt.Sprintf("JOIN_CONSUMER_GROUP group=%q consumer=%q streams=%v", o.GetGroupId(), o.GetConsumerId(), c18Strs(o.GetStreams())), "JOIN_CONSUMER_GROUP", true, nil
	case proto.Op_LEAVE_CONSUMER_GROUP:
		o := l.LeaveConsumerGroupOp
		return fmt.Sprintf("LEAVE_CONSUMER_GROUP group=%q consumer=%q expired=%v", o.GetGroupId(), o.GetConsumerId(), o.GetExpired()), "LEAVE_CONSUMER_GROUP", true, nil
	}
	return "", l.Op.String(), false, nil
}

func c18Ints(in []int32) []int32 {
	if in == nil {
		return []int32{}
	}
	return in
}

func c18Strs(in []string) []string {
	if in == nil {
		return []string{}
	}
	return in
}

// c18CanonEvent renders an event the same way; malformed != "" when the event
// does not carry exactly the sub-message that belongs to its op.
func c18CanonEvent(ev *client.ActivityStreamEvent) (canon, op, malformed string) {
	set := 0
	for _, b := range []bool{ev.CreateStreamOp != nil, ev.DeleteStreamOp != nil, ev.PauseStreamOp != nil, ev.ResumeStreamOp != nil,
		ev.SetStreamReadonlyOp != nil, ev.JoinConsumerGroupOp != nil, ev.LeaveConsumerGroupOp != nil} {
		if b {
			set++
		}
	}
	op = ev.GetOp().String()
	missing := func() (string, string, string) {
		return op + " <no payload>", op, fmt.Sprintf("event id %d has op %s but no %s payload", ev.GetId(), op, op)
	}
	switch ev.GetOp() {
	case client.ActivityStreamOp_CREATE_STREAM:
		o := ev.CreateStreamOp
		if o == nil {
			return missing()
		}
		canon = fmt.Sprintf("CREATE_STREAM stream=%q partitions=%v", o.GetStream(), c18Ints(o.GetPartitions()))
	case client.ActivityStreamOp_DELETE_STREAM:
		o := ev.DeleteStreamOp
		if o == nil {
			return missing()
		}
		canon = fmt.Sprintf("DELETE_STREAM stream=%q", o.GetStream())
	case client.ActivityStreamOp_PAUSE_STREAM:
		o := ev.PauseStreamOp
		if o == nil {
			return missing()
		}
		canon = fmt.Sprintf("PAUSE_STREAM stream=%q partitions=%v resumeAll=%v", o.GetStream(), c18Ints(o.GetPartitions()), o.GetResumeAll())
	case client.ActivityStreamOp_RESUME_STREAM:
		o := ev.ResumeStreamOp
		if o == nil {
			return missing()
		}
		canon = fmt.Sprintf("RESUME_STREAM stream=%q partitions=%v", o.GetStream(), c18Ints(o.GetPartitions()))
	case client.ActivityStreamOp_SET_STREAM_READONLY:
		o := ev.SetStreamReadonlyOp
		if o == nil {
			return missing()
		}
		canon = fmt.Sprintf("SET_STREAM_READONLY stream=%q partitions=%v readonly=%v", o.GetStream(), c18Ints(o.GetPartitions()), o.GetReadonly())
	case client.ActivityStreamOp_JOIN_CONSUMER_GROUP:
		o := ev.JoinConsumerGroupOp
		if o == nil {
			return missing()
		}
		canon = fmt.Sprintf("JOIN_CONSUMER_GROUP group=%q consumer=%q streams=%v", o.GetGroupId(), o.GetConsumerId(), c18Strs(o.GetStreams()))
	case client.ActivityStreamOp_LEAVE_CONSUMER_GROUP:
		o := ev.LeaveConsumerGroupOp
		if o == nil {
			return missing()
		}
		canon = fmt.Sprintf("LEAVE_CONSUMER_GROUP group=%q consumer=%q expired=%v", o.GetGroupId(), o.GetConsumerId(), o.GetExpired())
	default:
		return fmt.Sprintf("op#%d", int32(ev.GetOp())), op, fmt.Sprintf("event id %d has unknown op %d", ev.GetId(), int32(ev.GetOp()))
	}
	if set != 1 {
		malformed = fmt.Sprintf("event id %d (%s) carries %d payload sub-messages, expected exactly one", ev.GetId(), op, set)
	}
	return canon, op, malformed
}

// ---------------------------------------------------------------- environment

type c18Entry struct {
	Cmd    bool
	Data   []byte
	Source string
}

type c18Event struct {
	Offset int64
	ID     uint64
	Op     string
	Canon  string
	Bad    string
}

// c18Attempt: one publish attempt of the dispatcher as seen at the
// activity.beforePublish hook.
type c18Attempt struct {
	Server  string
	ID      uint64
	Paused  bool // __activity/0 was paused on that server when the attempt began
	RO      bool // ... and read-only (a publish is then refused before it could resume anything)
	Resumes int  // committed RESUME_STREAM(__activity) operations known at that time
}

type c18Stream struct {
	parts    int32
	paused   map[int32]bool
	readonly bool
}

type c18Env struct {
	rep    *kit.Report
	unit   string
	run    int
	seed   uint64
	prefix string
	c      *vfCluster
	rng    *kit.RNG // driver goroutine only
	t0     time.Time

	mu           sync.Mutex
	frng         *kit.RNG // fault decisions, under mu
	faultsOn     bool
	failLeft     int
	dupLeft      int
	failPct      int
	dupPct       int
	perEvent     map[uint64]int
	nFail, nDup  int
	hitsBefore   int
	hitsAfter    int
	restartOnDup bool
	expiry       bool          // consumers expire on their own in this scenario
	noAuto       bool          // no auto-pausing streams
	forceFail    int           // next beforePublish hits fail unconditionally (still <= 2 per event)
	gate         chan struct{} // when set, beforePublish waits for it (bounded)
	gateWaiting  int           // dispatchers that have reached the closed gate so far
	gateExpired  int           // gate waits that ended by the 90 s bound instead of the release
	gateFail     bool          // publishes held at the gate fail when it is released
	wantRestart  bool
	known        map[uint64]c18Entry
	heard        int
	conflict     string
	steps        []string
	trace        []string
	removers     []func()
	failed       bool
	inconc       bool
	restarts     int
	failovers    int
	snapshots    int
	opsOK        int
	opsErr       int

	// attempts: the dispatcher's publish attempts that went on to the real
	// publish (no injected failure), in order, with the state they met (see
	// pausedNotResumed).  activityResumes counts the committed RESUME_STREAM
	// operations on __activity learned so far.
	attempts        []c18Attempt
	activityResumes int
	// gapsOK: offset gaps in what a reader of __activity is served are not a
	// reader problem in this scenario (the log cleaner may have removed
	// messages); the events that are left are judged.
	gapsOK bool
	gaps   int
	// activityRO: the harness has set __activity read-only (under mu)
	activityRO bool
	// park: successive inspections of a dispatcher goroutine parked outside a
	// select (driver goroutine only); plan: the refail unit's fault plan (under
	// mu); see c18_refail_test.go
	park         c18ParkObs
	plan         *c18Plan
	parkReported bool

	// driver-side model (only used to generate mostly valid operations)
	streams map[string]*c18Stream
	groups  map[string]map[string]bool
	nstream int
}

func c18NewEnv(rep *kit.Report, unit string, run int, seed uint64) *c18Env {
	rng := kit.NewRNG(seed)
	e := &c18Env{rep: rep, unit: unit, run: run, seed: seed, rng: rng, frng: rng.Fork(0xF), t0: time.Now(),
		prefix: fmt.Sprintf("c18%s%dx", unit[:2], run), perEvent: map[uint64]int{}, known: map[uint64]c18Entry{},
		streams: map[string]*c18Stream{}, groups: map[string]map[string]bool{}}
	return e
}

func (e *c18Env) tracef(format string, a ...interface{}) {
	if len(e.trace) < 3000 {
		e.trace = append(e.trace, fmt.Sprintf(format, a...))
	}
}

func (e *c18Env) logf(format string, a ...interface{}) {
	e.mu.Lock()
	e.tracef(format, a...)
	e.mu.Unlock()
}

func (e *c18Env) step(format string, a ...interface{}) {
	s := fmt.Sprintf(format, a...)
	if os.Getenv("C18_DEBUG") != "" {
		fmt.Fprintf(os.Stderr, "c18 [%s %d] +%.1fs %s\n", e.unit, e.run, time.Since(e.t0).Seconds(), s)
	}
	e.mu.Lock()
	e.steps = append(e.steps, s)
	e.tracef("STEP %s", s)
	e.mu.Unlock()
	if os.Getenv("C18_CHILD") != "" {
		// a child may die: keep its program in the output the parent classifies
		fmt.Fprintf(os.Stderr, "c18 step: %s\n", s)
	}
}

func (e *c18Env) inconclusive(what string) {
	e.mu.Lock()
	e.inconc = true
	tr := e.trace
	if len(tr) > 60 {
		tr = tr[len(tr)-60:]
	}
	tail := strings.Join(tr, "\n")
	e.mu.Unlock()
	e.rep.Inconc(fmt.Sprintf("[%s run %d seed %d] %s", e.unit, e.run, e.seed, what))
	fmt.Fprintf(os.Stderr, "---- c18 trace tail (%s run %d)\n%s\n----\n", e.unit, e.run, tail)
}

// mut is the per-server configuration: activity stream on, a server id that is
// unique in this process (hook handlers receive only the server id).
func (e *c18Env) mut(extra func(*Config)) func(*Config) {
	return func(cfg *Config) {
		cfg.Clustering.ServerID = e.prefix + cfg.Clustering.ServerID
		cfg.ActivityStream.Enabled = true
		cfg.ActivityStream.PublishTimeout = 2 * time.Second
		if os.Getenv("C18_DEBUG") != "" {
			cfg.LogSilent = false
		}
		if extra != nil {
			extra(cfg)
		}
	}
}

// installHooks installs the bounded fault plan.  failBudget / dupBudget are the
// total numbers of injected faults; an event never gets more than two injected
// faults, so its back-off stays at 1 s + 2 s.
func (e *c18Env) installHooks(failBudget, dupBudget, failPct, dupPct int, restartOnDup bool) {
	e.mu.Lock()
	e.failLeft, e.dupLeft, e.failPct, e.dupPct, e.restartOnDup = failBudget, dupBudget, failPct, dupPct, restartOnDup
	e.faultsOn = true
	e.mu.Unlock()
	e.removers = append(e.removers, vfHooks.On("activity.beforePublish", func(a ...interface{}) error {
		sid, _ := a[0].(string)
		if !strings.HasPrefix(sid, e.prefix) {
			return nil
		}
		id, _ := a[1].(uint64)
		e.mu.Lock()
		gate := e.gate
		e.mu.Unlock()
		if gate != nil {
			e.mu.Lock()
			e.gateWaiting++
			e.tracef("hook beforePublish server=%s id=%d -> dispatcher held at the gate", sid, id)
			e.mu.Unlock()
			bound := time.After(90 * time.Second)
			for held := true; held; {
				select {
				case <-gate:
					held = false
					e.mu.Lock()
					failNow := e.gateFail
					if failNow {
						e.nFail++
						e.tracef("hook beforePublish server=%s id=%d -> held publish FAILS at the release of the gate", sid, id)
					}
					e.mu.Unlock()
					if failNow {
						return errors.New("c18: injected publish failure after a long block")
					}
				case <-bound:
					held = false
					e.mu.Lock()
					e.gateExpired++
					e.mu.Unlock()
				case <-time.After(50 * time.Millisecond):
					// Server.Stop() waits for the dispatcher goroutine: a held
					// publish of a server that is being stopped fails instead
					if n := e.c.Nodes[strings.TrimPrefix(sid, e.prefix)]; n != nil && !n.IsUp() {
						e.logf("hook beforePublish server=%s id=%d -> held publish fails, the server is stopping", sid, id)
						return errors.New("c18: held publish aborted, server is stopping")
					}
				}
			}
		}
		paused, ro := e.activityPausedOn(sid)
		e.mu.Lock()
		defer e.mu.Unlock()
		e.hitsBefore++
		if e.faultsOn && e.forceFail > 0 && e.perEvent[id] < 2 {
			e.forceFail--
			e.perEvent[id]++
			e.nFail++
			e.tracef("hook beforePublish server=%s id=%d -> INJECT publish failure (forced)", sid, id)
			return errors.New("c18: injected publish failure")
		}
		if e.faultsOn && e.failLeft > 0 && e.perEvent[id] < 2 && e.frng.Intn(100) < e.failPct {
			e.failLeft--
			e.perEvent[id]++
			e.nFail++
			e.tracef("hook beforePublish server=%s id=%d -> INJECT publish failure", sid, id)
			return errors.New("c18: injected publish failure")
		}
		e.tracef("hook beforePublish server=%s id=%d activityPaused=%v readonly=%v", sid, id, paused, ro)
		if len(e.attempts) > 64 {
			e.attempts = e.attempts[len(e.attempts)-16:]
		}
		e.attempts = append(e.attempts, c18Attempt{Server: sid, ID: id, Paused: paused, RO: ro || e.activityRO, Resumes: e.activityResumes})
		return nil
	}))
	e.removers = append(e.removers, vfHooks.On("activity.afterPublish", func(a ...interface{}) error {
		sid, _ := a[0].(string)
		if !strings.HasPrefix(sid, e.prefix) {
			return nil
		}
		id, _ := a[1].(uint64)
		e.mu.Lock()
		defer e.mu.Unlock()
		e.hitsAfter++
		if e.faultsOn && e.dupLeft > 0 && e.perEvent[id] < 2 && e.frng.Intn(100) < e.dupPct {
			e.dupLeft--
			e.perEvent[id]++
			e.nDup++
			if e.restartOnDup {
				e.wantRestart = true
			}
			e.tracef("hook afterPublish server=%s id=%d -> INJECT published-but-not-recorded", sid, id)
			return errors.New("c18: injected failure to record the published index")
		}
		e.tracef("hook afterPublish server=%s id=%d", sid, id)
		return nil
	}))
}

func (e *c18Env) faultsOff() {
	e.mu.Lock()
	e.faultsOn = false
	e.mu.Unlock()
}

func (e *c18Env) close() {
	for _, r := range e.removers {
		r()
	}
	e.drainGroups()
	// Do not stop a server that is still replaying its Raft log: Stop() during
	// the replay makes the FSM panic in finishedRecovery ("failed to subscribe
	// to NATS: connection closed") - a shutdown defect outside this property
	// that would only kill the harness process.
	if e.c != nil {
		var target uint64
		for _, n := range e.c.Running() {
			if srv := n.Server(); srv != nil && srv.getRaft() != nil {
				if ci := srv.getRaft().getCommitIndex(); ci > target {
					target = ci
				}
			}
		}
		vfWait(15*time.Second, func() bool {
			for _, n := range e.c.Running() {
				if srv := n.Server(); srv != nil && srv.getRaft() != nil && srv.getRaft().AppliedIndex() < target {
					return false
				}
			}
			return true
		})
	}
	if e.c != nil {
		// Stop only; the data directory (under VERIF_WORK) is removed by the
		// driver after the process has ended.  Removing it here can make a
		// partition goroutine that outlived Server.Stop() panic in
		// checkpointHWLoop ("cannot create temp file") and kill the harness.
		c18Stage("stopping")
		// a Stop() that waits for a parked dispatcher is judged, not hung with
		for _, n := range e.c.Running() {
			e.stopNode(n.ID)
		}
		e.c.Stop()
	}
}

// ---------------------------------------------------------------- Raft log capture

type c18Listener struct {
	e    *c18Env
	node string
}

func (l *c18Listener) Receive(rl *RaftLog) {
	if rl == nil || rl.Log == nil {
		return
	}
	l.e.mu.Lock()
	l.e.heard++
	l.e.mu.Unlock()
	l.e.learn(rl.Index, rl.Type == raft.LogCommand, rl.Data, "listener@"+l.node)
}

func (e *c18Env) learn(index uint64, cmd bool, data []byte, src string) {
	e.mu.Lock()
	defer e.mu.Unlock()
	if old, ok := e.known[index]; ok {
		if (old.Cmd != cmd || !bytes.Equal(old.Data, data)) && e.conflict == "" {
			e.conflict = fmt.Sprintf("Raft index %d observed with different content by %s and %s", index, old.Source, src)
		}
		return
	}
	ent := c18Entry{Cmd: cmd, Source: src}
	if cmd {
		ent.Data = append([]byte(nil), data...)
		l := &proto.RaftLog{}
		if l.Unmarshal(data) == nil && l.Op == proto.Op_RESUME_STREAM && l.ResumeStreamOp.GetStream() == c18ActivityStream {
			e.activityResumes++
		}
	}
	e.known[index] = ent
}

// activityPausedOn: is partition 0 of __activity paused in the metadata of the
// server with this (prefixed) id?
func (e *c18Env) activityPausedOn(sid string) (paused, readonly bool) {
	if e.c == nil {
		return false, false
	}
	n := e.c.Nodes[strings.TrimPrefix(sid, e.prefix)]
	if n == nil {
		return false, false
	}
	srv := n.Server()
	if srv == nil {
		return false, false
	}
	p := srv.metadata.GetPartition(c18ActivityStream, 0)
	if p == nil {
		return false, false
	}
	return p.IsPaused(), p.IsReadonly()
}

// pausedNotResumed is a stuck-state predicate read from hook counters, not
// from the clock.  A paused stream is resumed by the next publish to it
// (documentation/pausing_streams.md) and the dispatcher is the only publisher
// of __activity.  If its last three publish attempts - none of them failed by
// the harness - were for one and the same event, each began with __activity
// paused (and not read-only: a publish to a read-only stream is refused before
// it could resume anything) and no RESUME_STREAM operation on __activity was committed between
// the first and the third, then its attempts do not resume the stream: every
// further attempt meets the same state, this event and everything committed
// after it is never listed.
func (e *c18Env) pausedNotResumed() string {
	e.mu.Lock()
	defer e.mu.Unlock()
	n := len(e.attempts)
	if n < 3 || e.gate != nil {
		return ""
	}
	a := e.attempts[n-3:]
	for _, x := range a {
		if !x.Paused || x.RO || x.ID != a[0].ID || x.Server != a[0].Server || x.Resumes != a[0].Resumes {
			return ""
		}
	}
	return fmt.Sprintf("the dispatcher of %s has made 3 publish attempts in a row for event id %d, each of them while %s was paused (and not read-only), none failed by the harness, and no RESUME_STREAM operation on %s was committed in between (%d known before the first and before the third): its publishes do not resume the paused activity stream, so the event and everything committed after it is never listed",
		a[0].Server, a[0].ID, c18ActivityStream, c18ActivityStream, a[0].Resumes)
}

// attach registers a Raft log listener on a (re)started server.
func (e *c18Env) attach(id string) {
	if srv := e.c.Nodes[id].Server(); srv != nil {
		srv.AddRaftLogListener(&c18Listener{e: e, node: id})
	}
}

// absorbStore reads the committed part of a server's Raft log store.
func (e *c18Env) absorbStore(srv *Server, src string) (commit uint64) {
	defer func() {
		if p := recover(); p != nil {
			e.logf("absorbStore(%s) panicked: %v", src, p)
		}
	}()
	if srv == nil {
		return 0
	}
	rn := srv.getRaft()
	if rn == nil {
		return 0
	}
	commit = rn.getCommitIndex()
	first, err := rn.store.FirstIndex()
	if err != nil {
		return 0
	}
	if first == 0 {
		first = 1
	}
	for i := first; i <= commit; i++ {
		e.mu.Lock()
		_, have := e.known[i]
		e.mu.Unlock()
		if have {
			continue
		}
		l := new(raft.Log)
		if err := rn.store.GetLog(i, l); err != nil {
			continue
		}
		e.learn(i, l.Type == raft.LogCommand, l.Data, "store@"+src)
	}
	return commit
}

func (e *c18Env) absorbAll() {
	for _, n := range e.c.Running() {
		e.absorbStore(n.Server(), n.ID)
	}
}

// listedOps returns the committed listed operations known so far, by index.
type c18Listed struct {
	Index uint64
	Op    string
	Canon string
}

func (e *c18Env) listedOps() (ops []c18Listed, byIndex map[uint64]c18Listed, other map[uint64]string) {
	e.mu.Lock()
	defer e.mu.Unlock()
	byIndex = map[uint64]c18Listed{}
	other = map[uint64]string{}
	for idx, ent := range e.known {
		if !ent.Cmd {
			other[idx] = "non-command"
			continue
		}
		canon, op, listed, err := c18CanonRaft(ent.Data)
		if err != nil {
			other[idx] = "undecodable: " + err.Error()
			continue
		}
		if !listed {
			other[idx] = op
			continue
		}
		l := c18Listed{Index: idx, Op: op, Canon: canon}
		byIndex[idx] = l
		ops = append(ops, l)
	}
	sort.Slice(ops, func(i, j int) bool { return ops[i].Index < ops[j].Index })
	return
}

// ---------------------------------------------------------------- reading __activity

var errC18NoActivityLeader = errors.New("no running leader of the __activity partition")

// readEvents reads what a subscriber from offset 0 would be served: the
// committed part of the __activity partition on its leader.
func (e *c18Env) readEvents() ([]c18Event, error) {
	var p *partition
	for _, n := range e.c.Running() {
		if q := n.Partition(c18ActivityStream, 0); q != nil && q.IsLeader() {
			p = q
			break
		}
	}
	if p == nil {
		return nil, errC18NoActivityLeader
	}
	recs, err := vfReadLog(p.log, 0, false)
	if err != nil {
		return nil, err
	}
	out := make([]c18Event, 0, len(recs))
	for _, r := range recs {
		out = append(out, c18Decode(r.Offset, r.Value))
	}
	return out, nil
}

func c18Decode(offset int64, value []byte) c18Event {
	ev := &client.ActivityStreamEvent{}
	if err := pb.Unmarshal(value, ev); err != nil {
		return c18Event{Offset: offset, Bad: "message at offset " + fmt.Sprint(offset) + " is not an ActivityStreamEvent: " + err.Error()}
	}
	canon, op, bad := c18CanonEvent(ev)
	return c18Event{Offset: offset, ID: ev.GetId(), Op: op, Canon: canon, Bad: bad}
}

// subscribeEvents opens a real subscription to __activity from the earliest
// offset on the partition leader and takes n messages (watchdog => nil).
func (e *c18Env) subscribeEvents(n int) []c18Event {
	var srv *Server
	for _, nd := range e.c.Running() {
		if q := nd.Partition(c18ActivityStream, 0); q != nil && q.IsLeader() {
			srv = nd.Server()
			break
		}
	}
	if srv == nil {
		return nil
	}
	ctx, cancel := context.WithCancel(context.Background())
	defer cancel()
	sub, err := srv.api.SubscribeInternal(ctx, &client.SubscribeRequest{Stream: c18ActivityStream, Partition: 0, StartPosition: client.StartPosition_EARLIEST})
	if err != nil {
		e.logf("subscribe to %s: %v", c18ActivityStream, err)
		return nil
	}
	defer sub.Close()
	out := make([]c18Event, 0, n)
	wd := time.After(30 * time.Second)
	for len(out) < n {
		select {
		case m := <-sub.Messages():
			out = append(out, c18Decode(m.Offset, m.Value))
		case st := <-sub.Errors():
			e.logf("subscription error: %v", st)
			return nil
		case <-wd:
			return nil
		}
	}
	return out
}

// ---------------------------------------------------------------- driving operations

// leader returns the server operations are issued on.
func (e *c18Env) leader() *Server {
	l, err := e.c.MetaLeader(45 * time.Second)
	if err != nil {
		e.inconclusive("no metadata leader: " + err.Error())
		return nil
	}
	return l
}

func (e *c18Env) nodeOf(srv *Server) string {
	for _, id := range e.c.IDs {
		if e.c.Nodes[id].Server() == srv {
			return id
		}
	}
	return ""
}

type c18Op struct {
	Kind     string
	Stream   string
	Parts    []int32
	NParts   int32
	RF       int32
	Flag     bool
	Group    string
	Consumer string
	Streams  []string
	AutoMs   int64
}

func (o c18Op) String() string {
	switch o.Kind {
	case "create":
		s := fmt.Sprintf("create(%s,p=%d,rf=%d", o.Stream, o.NParts, o.RF)
		if o.AutoMs > 0 {
			s += fmt.Sprintf(",autopause=%dms", o.AutoMs)
		}
		return s + ")"
	case "delete":
		return fmt.Sprintf("delete(%s)", o.Stream)
	case "pause":
		return fmt.Sprintf("pause(%s,%v,resumeAll=%v)", o.Stream, o.Parts, o.Flag)
	case "resume":
		return fmt.Sprintf("resume(%s,%v)", o.Stream, o.Parts)
	case "readonly":
		return fmt.Sprintf("readonly(%s,%v,%v)", o.Stream, o.Parts, o.Flag)
	case "join":
		return fmt.Sprintf("join(%s,%s,%v)", o.Group, o.Consumer, o.Streams)
	case "leave":
		return fmt.Sprintf("leave(%s,%s)", o.Group, o.Consumer)
	}
	return o.Kind
}

func (e *c18Env) existing() []string {
	var out []string
	for n := range e.streams {
		out = append(out, n)
	}
	sort.Strings(out)
	return out
}

func (e *c18Env) subset(n int32) []int32 {
	if e.rng.Chance(1, 3) {
		return nil // "all partitions"
	}
	var out []int32
	for i := int32(0); i < n; i++ {
		if e.rng.Bool() {
			out = append(out, i)
		}
	}
	if len(out) == 0 {
		out = []int32{int32(e.rng.Intn(int(n)))}
	}
	return out
}

// genOp picks the next operation; mostly valid ones (an invalid one simply
// commits nothing, which is fine for the oracle but adds no coverage).
func (e *c18Env) genOp(maxRF int32, allowInternal bool) c18Op {
	ex := e.existing()
	pick := func() string { return ex[e.rng.Intn(len(ex))] }
	for tries := 0; tries < 20; tries++ {
		switch x := e.rng.Intn(100); {
		case x < 22 || len(ex) == 0:
			if len(ex) >= 5 {
				continue
			}
			e.nstream++
			name := fmt.Sprintf("s%d", e.rng.Intn(7))
			if e.streams[name] != nil {
				if !e.rng.Chance(1, 6) { // sometimes try a duplicate (AlreadyExists, commits nothing)
					continue
				}
			}
			op := c18Op{Kind: "create", Stream: name, NParts: int32(e.rng.Range(1, 3)), RF: int32(e.rng.Range(1, int(maxRF)))}
			if e.rng.Chance(1, 8) && !e.noAuto {
				op.AutoMs = int64(e.rng.Range(300, 900))
			}
			return op
		case x < 32:
			return c18Op{Kind: "delete", Stream: pick()}
		case x < 48:
			s := pick()
			if allowInternal && e.rng.Chance(1, 12) {
				return c18Op{Kind: "pause", Stream: c18ActivityStream, Flag: e.rng.Bool()}
			}
			return c18Op{Kind: "pause", Stream: s, Parts: e.subset(e.streams[s].parts), Flag: e.rng.Bool()}
		case x < 62:
			// publish to a paused partition resumes it
			var cands []string
			for _, n := range ex {
				if len(e.streams[n].paused) > 0 && !e.streams[n].readonly {
					cands = append(cands, n)
				}
			}
			if len(cands) == 0 {
				continue
			}
			s := cands[e.rng.Intn(len(cands))]
			var ps []int32
			for p := range e.streams[s].paused {
				ps = append(ps, p)
			}
			sort.Slice(ps, func(i, j int) bool { return ps[i] < ps[j] })
			return c18Op{Kind: "resume", Stream: s, Parts: []int32{ps[e.rng.Intn(len(ps))]}}
		case x < 76:
			s := pick()
			return c18Op{Kind: "readonly", Stream: s, Parts: e.subset(e.streams[s].parts), Flag: !e.streams[s].readonly || e.rng.Chance(1, 4)}
		case x < 90:
			g := fmt.Sprintf("g%d", e.rng.Intn(3))
			c := fmt.Sprintf("c%d", e.rng.Intn(4))
			if e.groups[g][c] {
				continue
			}
			n := e.rng.Range(1, 2)
			var ss []string
			for i := 0; i < n; i++ {
				s := pick()
				dup := false
				for _, t := range ss {
					dup = dup || t == s
				}
				if !dup {
					ss = append(ss, s)
				}
			}
			return c18Op{Kind: "join", Group: g, Consumer: c, Streams: ss}
		default:
			var cands [][2]string
			for g, ms := range e.groups {
				for c := range ms {
					cands = append(cands, [2]string{g, c})
				}
			}
			if len(cands) == 0 {
				continue
			}
			sort.Slice(cands, func(i, j int) bool { return cands[i][0]+cands[i][1] < cands[j][0]+cands[j][1] })
			gc := cands[e.rng.Intn(len(cands))]
			return c18Op{Kind: "leave", Group: gc[0], Consumer: gc[1]}
		}
	}
	e.nstream++
	return c18Op{Kind: "create", Stream: fmt.Sprintf("x%d", e.nstream), NParts: 1, RF: 1}
}

// doOp issues one operation through the in-process API of the metadata leader
// and updates the driver's model on success.
func (e *c18Env) doOp(op c18Op) {
	srv := e.leader()
	if srv == nil {
		return
	}
	ctx, cancel := context.WithTimeout(context.Background(), 12*time.Second)
	defer cancel()
	var err error
	switch op.Kind {
	case "create":
		req := &client.CreateStreamRequest{Name: op.Stream, Subject: "c18." + op.Stream, Partitions: op.NParts, ReplicationFactor: op.RF}
		if op.AutoMs > 0 {
			req.AutoPauseTime = &client.NullableInt64{Value: op.AutoMs}
		}
		_, err = srv.api.CreateStream(ctx, req)
		if err == nil {
			e.streams[op.Stream] = &c18Stream{parts: op.NParts, paused: map[int32]bool{}}
		}
	case "delete":
		_, err = srv.api.DeleteStream(ctx, &client.DeleteStreamRequest{Name: op.Stream})
		if err == nil {
			delete(e.streams, op.Stream)
		}
	case "pause":
		_, err = srv.api.PauseStream(ctx, &client.PauseStreamRequest{Name: op.Stream, Partitions: append([]int32(nil), op.Parts...), ResumeAll: op.Flag})
		if st := e.streams[op.Stream]; err == nil && st != nil {
			ps := op.Parts
			if len(ps) == 0 {
				for i := int32(0); i < st.parts; i++ {
					ps = append(ps, i)
				}
			}
			for _, p := range ps {
				st.paused[p] = true
			}
		}
	case "resume":
		// fire-and-forget publish: Publish resumes the partition through Raft
		// before it sends the message.
		_, err = srv.api.Publish(ctx, &client.PublishRequest{Stream: op.Stream, Partition: op.Parts[0], Value: []byte("wake"), AckPolicy: client.AckPolicy_NONE})
		if st := e.streams[op.Stream]; st != nil {
			// with ResumeAll several partitions may have been resumed; the model
			// is only a generator aid, so be optimistic
			if err == nil {
				delete(st.paused, op.Parts[0])
			}
		}
	case "readonly":
		_, err = srv.api.SetStreamReadonly(ctx, &client.SetStreamReadonlyRequest{Name: op.Stream, Partitions: append([]int32(nil), op.Parts...), Readonly: op.Flag})
		if st := e.streams[op.Stream]; err == nil && st != nil {
			st.readonly = op.Flag
		}
		if op.Stream == c18ActivityStream {
			// set before the call returns an error too: the operation may have
			// been committed all the same
			e.mu.Lock()
			e.activityRO = op.Flag || (err != nil && e.activityRO)
			e.mu.Unlock()
		}
	case "join":
		_, err = srv.api.JoinConsumerGroup(ctx, &client.JoinConsumerGroupRequest{GroupId: op.Group, ConsumerId: op.Consumer, Streams: op.Streams})
		if err == nil {
			if e.groups[op.Group] == nil {
				e.groups[op.Group] = map[string]bool{}
			}
			e.groups[op.Group][op.Consumer] = true
		}
	case "leave":
		_, err = srv.api.LeaveConsumerGroup(ctx, &client.LeaveConsumerGroupRequest{GroupId: op.Group, ConsumerId: op.Consumer})
		if ms := e.groups[op.Group]; ms != nil {
			delete(ms, op.Consumer)
			if len(ms) == 0 {
				delete(e.groups, op.Group)
			}
		}
	}
	if err != nil {
		e.opsErr++
		e.step("%s!err", op)
		e.logf("op %s failed: %v", op, err)
		return
	}
	e.opsOK++
	e.step("%s", op)
}

// drainGroups: in scenarios with expiring consumers, wait until every consumer
// has expired before a server is stopped.  Server.Stop() while the FSM applies
// a LEAVE_CONSUMER_GROUP deadlocks (metadataAPI.Reset takes mu then
// consumerGroupsMu, RemoveConsumerFromGroup holds consumerGroupsMu and reaches
// mu through countStreamPartitions) - a shutdown defect outside this property
// that would only hang the harness.
func (e *c18Env) drainGroups() {
	if !e.expiry || e.c == nil {
		return
	}
	vfWait(15*time.Second, func() bool {
		for _, n := range e.c.Running() {
			if srv := n.Server(); srv != nil && len(srv.metadata.GetConsumerGroups()) > 0 {
				return false
			}
		}
		return true
	})
	e.groups = map[string]map[string]bool{}
}

// restartNode stops a server and starts it again on the same data directory.
func (e *c18Env) restartNode(id string) bool {
	e.step("restart(%s)", id)
	e.absorbStore(e.c.Nodes[id].Server(), id)
	e.drainGroups()
	c18Stage("stopping")
	if !e.stopNode(id) {
		return false
	}
	c18Stage("starting")
	return e.startNode(id)
}

func (e *c18Env) startNode(id string) bool {
	if err := e.c.StartNode(id); err != nil {
		e.inconclusive("start " + id + ": " + err.Error())
		return false
	}
	e.attach(id)
	e.mu.Lock()
	e.restarts++
	e.wantRestart = false
	e.mu.Unlock()
	return true
}

// ---------------------------------------------------------------- completion + oracle

func (e *c18Env) witness(events []c18Event, ops []c18Listed) map[string]any {
	e.mu.Lock()
	defer e.mu.Unlock()
	var evs []string
	for _, ev := range events {
		evs = append(evs, fmt.Sprintf("@%d id=%d %s", ev.Offset, ev.ID, ev.Canon))
	}
	var rops []string
	for _, o := range ops {
		rops = append(rops, fmt.Sprintf("#%d %s", o.Index, o.Canon))
	}
	tr := e.trace
	if len(tr) > 400 {
		tr = tr[len(tr)-400:]
	}
	return map[string]any{"unit": e.unit, "run": e.run, "scenario_seed": e.seed, "steps": append([]string(nil), e.steps...),
		"activity_stream": evs, "committed_listed_raft_ops": rops, "trace_tail": append([]string(nil), tr...)}
}

func (e *c18Env) fail(fp, what string, events []c18Event, ops []c18Listed) {
	e.mu.Lock()
	e.failed = true
	e.mu.Unlock()
	e.rep.Violation(fp, fmt.Sprintf("[%s run %d] %s", e.unit, e.run, what), e.witness(events, ops))
}

// checkSafety evaluates the clauses that must hold on every prefix of the
// activity stream: known ids, payload equality, first occurrences in strictly
// increasing commit order.
func (e *c18Env) checkSafety(events []c18Event) (first map[uint64]int64, ok bool) {
	ops, byIndex, other := e.listedOps()
	first = map[uint64]int64{}
	var maxFirst uint64
	nextOff := int64(-1)
	for _, ev := range events {
		if nextOff >= 0 && ev.Offset != nextOff && e.gapsOK && ev.Offset > nextOff {
			e.mu.Lock()
			e.gaps++
			e.mu.Unlock()
		} else if nextOff >= 0 && ev.Offset != nextOff {
			// not part of C18 (C01/C03 own the log), but the reader must be sane
			e.inconclusive(fmt.Sprintf("activity log offsets not contiguous: %d after %d", ev.Offset, nextOff-1))
			return first, false
		}
		nextOff = ev.Offset + 1
		if ev.Bad != "" {
			e.fail("C18:"+e.unit+":malformed-event", ev.Bad, events, ops)
			return first, false
		}
		want, listed := byIndex[ev.ID]
		if !listed {
			what := fmt.Sprintf("event at offset %d has id %d (%s) but ", ev.Offset, ev.ID, ev.Canon)
			if o, okk := other[ev.ID]; okk {
				what += fmt.Sprintf("Raft index %d is a %s entry, not a listed operation", ev.ID, o)
			} else {
				what += "no committed Raft entry with that index was observed"
			}
			e.fail("C18:"+e.unit+":id-not-a-committed-listed-op", what, events, ops)
			return first, false
		}
		if want.Canon != ev.Canon {
			e.fail("C18:"+e.unit+":payload-differs:"+want.Op,
				fmt.Sprintf("event at offset %d with id %d carries %q, the Raft entry with that index is %q", ev.Offset, ev.ID, ev.Canon, want.Canon), events, ops)
			return first, false
		}
		if _, seen := first[ev.ID]; seen {
			continue // redelivery: same id, same payload (just checked)
		}
		if ev.ID <= maxFirst {
			e.fail("C18:"+e.unit+":first-occurrence-out-of-commit-order",
				fmt.Sprintf("event id %d (%s) appears for the first time at offset %d, after the first occurrence of the later operation %d", ev.ID, ev.Canon, ev.Offset, maxFirst), events, ops)
			return first, false
		}
		first[ev.ID] = ev.Offset
		maxFirst = ev.ID
	}
	return first, true
}

// finish: faults are off.  A fence operation is committed, the harness waits
// (watchdog) until its event is served, then every listed operation up to the
// fence must be present.
func (e *c18Env) finish(fenceName string) {
	e.faultsOff()
	e.mu.Lock()
	bad := e.inconc || e.failed
	e.mu.Unlock()
	if bad {
		return
	}
	fenceIdx := e.commitFence(fenceName)
	if fenceIdx == 0 {
		return
	}
	e.awaitAndJudge(fenceIdx)
}

// commitFence commits the fence operation and returns its Raft index (0: the
// scenario is inconclusive).
func (e *c18Env) commitFence(fenceName string) uint64 {
	var fenceIdx uint64
	fenceCanon := fmt.Sprintf("CREATE_STREAM stream=%q partitions=[0]", fenceName)
	for attempt := 0; attempt < 4 && fenceIdx == 0; attempt++ {
		srv := e.leader()
		if srv == nil {
			return 0
		}
		ctx, cancel := context.WithTimeout(context.Background(), 12*time.Second)
		_, err := srv.api.CreateStream(ctx, &client.CreateStreamRequest{Name: fenceName, Subject: "c18." + fenceName, Partitions: 1, ReplicationFactor: 1})
		cancel()
		if err != nil {
			e.logf("fence attempt %d: %v", attempt, err)
		}
		e.absorbAll()
		ops, _, _ := e.listedOps()
		for _, o := range ops {
			if o.Canon == fenceCanon {
				fenceIdx = o.Index
			}
		}
	}
	if fenceIdx == 0 {
		e.inconclusive("fence operation could not be committed")
		return 0
	}
	e.step("fence(#%d)", fenceIdx)
	return fenceIdx
}

// awaitAndJudge waits (watchdog / stuck-state predicates) until the event of
// the fence is served and compares the activity stream with the Raft log.
func (e *c18Env) awaitAndJudge(fenceIdx uint64) {
	var events []c18Event
	deadline := time.Now().Add(120 * time.Second)
	waitStart, lastProbe := time.Now(), time.Now()
	arrived := false
	for !arrived {
		evs, err := e.readEvents()
		if err == nil {
			events = evs
			for _, ev := range evs {
				if ev.ID == fenceIdx {
					arrived = true
				}
			}
		}
		if arrived || time.Now().After(deadline) {
			break
		}
		if what := e.stuckActivityPartition(); what != "" {
			// a state that no later step of the server leaves: decided now
			// instead of waiting for the watchdog
			e.absorbAll()
			ops, _, _ := e.listedOps()
			e.fail("C18:"+e.unit+":stuck:activity-partition-not-started-after-snapshot-restore",
				fmt.Sprintf("committed operations up to the fence #%d can never be listed: %s", fenceIdx, what), events, ops)
			return
		}
		if what := e.pausedNotResumed(); what != "" {
			e.absorbAll()
			ops, _, _ := e.listedOps()
			e.fail("C18:"+e.unit+":stuck:dispatcher-does-not-resume-the-paused-activity-stream",
				fmt.Sprintf("committed operations up to the fence #%d can never be listed: %s", fenceIdx, what), events, ops)
			return
		}
		if time.Since(waitStart) > 1500*time.Millisecond {
			// the dispatcher goroutine parked in a wait that nothing ends
			if what, stack := e.dispatcherParked(e.c.metaLeaderNow(), fenceIdx); what != "" {
				e.failParked(fmt.Sprintf("committed operations up to the fence #%d can never be listed: %s", fenceIdx, what), stack, events)
				return
			}
		}
		if time.Since(lastProbe) > time.Second && time.Since(waitStart) > 3*time.Second {
			lastProbe = time.Now()
			if what := e.leaderWithoutDispatcher(fenceIdx); what != "" {
				e.absorbAll()
				ops, _, _ := e.listedOps()
				e.fail("C18:"+e.unit+":stuck:metadata-leader-without-dispatcher",
					fmt.Sprintf("committed operations up to the fence #%d can never be listed: %s", fenceIdx, what), events, ops)
				return
			}
		}
		time.Sleep(40 * time.Millisecond)
	}
	e.absorbAll()
	ops, _, _ := e.listedOps()
	e.mu.Lock()
	conflict := e.conflict
	e.mu.Unlock()
	if conflict != "" {
		e.inconclusive("Raft log capture is inconsistent: " + conflict)
		return
	}
	if arrived {
		// the verdict is taken on what a real subscription from the earliest
		// offset delivers (the log read above only paces the waiting)
		sub := e.subscribeEvents(len(events))
		if sub == nil {
			e.inconclusive(fmt.Sprintf("a subscription to %s from the earliest offset did not deliver the %d committed events (watchdog)", c18ActivityStream, len(events)))
			return
		}
		e.rep.Count("events_via_subscription", int64(len(sub)))
		events = sub
	}
	first, ok := e.checkSafety(events)
	if !ok {
		return
	}
	if !arrived {
		// stuck-state predicate: the replicated last-published index says the
		// fence was published, yet no reader can see it
		if srv := e.c.metaLeaderNow(); srv != nil && srv.activity.LastPublishedRaftIndex() >= fenceIdx {
			e.fail("C18:"+e.unit+":recorded-as-published-but-absent",
				fmt.Sprintf("last published Raft index is %d >= fence %d, but the activity stream has no event with id %d", srv.activity.LastPublishedRaftIndex(), fenceIdx, fenceIdx), events, ops)
			return
		}
		e.inconclusive(fmt.Sprintf("watchdog: event for fence operation #%d not served after faults stopped (%d events so far)", fenceIdx, len(events)))
		return
	}
	e.complete(events, first, fenceIdx)
}

// complete: the fence has been served; every listed operation up to it must
// have an event.
func (e *c18Env) complete(events []c18Event, first map[uint64]int64, fenceIdx uint64) {
	ops, byIndex, other := e.listedOps()
	// completeness needs every index up to the fence to be classified
	for i := uint64(1); i <= fenceIdx; i++ {
		if _, a := byIndex[i]; a {
			continue
		}
		if _, b := other[i]; b {
			continue
		}
		e.inconclusive(fmt.Sprintf("Raft index %d (<= fence %d) was never observed; completeness not decided", i, fenceIdx))
		return
	}
	for _, o := range ops {
		if o.Index > fenceIdx {
			break
		}
		if _, ok := first[o.Index]; !ok {
			e.fail("C18:"+e.unit+":committed-op-never-listed",
				fmt.Sprintf("committed operation #%d %s has no event, although the later fence operation #%d was listed", o.Index, o.Canon, fenceIdx), events, ops)
			return
		}
	}
	// evidence
	distinct := len(first)
	e.rep.Count("events_read", int64(len(events)))
	e.rep.Count("distinct_event_ids", int64(distinct))
	e.rep.Count("redelivered_events", int64(len(events)-distinct))
	e.rep.Count("committed_listed_ops", int64(len(ops)))
	for _, o := range ops {
		e.rep.Count("op_"+o.Op, 1)
		if strings.Contains(o.Canon, "expired=true") {
			e.rep.Count("op_LEAVE_expired", 1)
		}
		if strings.Contains(o.Canon, "stream=\"__") {
			e.rep.Count("ops_on_internal_streams", 1)
		}
	}
}

// activityReplicas returns the replication of the __activity partition as the
// metadata leader knows it.
func (e *c18Env) activityReplicas() int {
	srv := e.c.metaLeaderNow()
	if srv == nil {
		return 0
	}
	p := srv.metadata.GetPartition(c18ActivityStream, 0)
	if p == nil {
		return 0
	}
	return len(p.GetReplicas())
}

// stuckActivityPartition is the precise stuck-state predicate used instead of
// the watchdog: the controller has applied operations since its start (the
// fence was accepted through its API, so the FSM's recovery decision is made
// and finishedRecovery will not run any more), yet the __activity partition it
// leads still carries the "recovered, not started yet" mark and is not paused.
// Nothing but another restart starts such a partition, so publishes to it time
// out forever.
func (e *c18Env) stuckActivityPartition() string {
	srv := e.c.metaLeaderNow()
	if srv == nil {
		return ""
	}
	p := srv.metadata.GetPartition(c18ActivityStream, 0)
	if p == nil {
		return ""
	}
	if len(e.c.IDs) != 1 {
		// with several replicas the controller's copy may be a follower; the
		// predicate is only used where the controller is the only replica
		return ""
	}
	// only fields of the partition object itself are read (the embedded
	// protobuf is shared with the objects that replace it on pause/resume)
	p.mu.RLock()
	rec, paused, leading, following := p.recovered, p.paused, p.isLeading, p.isFollowing
	p.mu.RUnlock()
	if rec && !paused && !leading && !following {
		return fmt.Sprintf("server %s is metadata leader and leader of %s/0 and has applied new operations, but the partition restored from the Raft snapshot is still marked recovered=true and was never started (finishedRecovery is only run at the end of a log replay, and no FSM entry followed the snapshot); activity publishes time out",
			srv.config.Clustering.ServerID, c18ActivityStream)
	}
	return ""
}

// c18Stage records how far a child-process scenario got (no-op in-process).
func c18Stage(stage string) {
	if f := os.Getenv("C18_STAGE_FILE"); f != "" {
		os.WriteFile(f, []byte(stage), 0644)
	}
}

// account writes the per-scenario counters and the non-triviality signature.
func (e *c18Env) account() {
	e.mu.Lock()
	defer e.mu.Unlock()
	e.rep.Eval()
	e.rep.Count("injected_publish_failures", int64(e.nFail))
	e.rep.Count("injected_published_not_recorded", int64(e.nDup))
	e.rep.Count("hook_beforePublish_hits", int64(e.hitsBefore))
	e.rep.Count("hook_afterPublish_hits", int64(e.hitsAfter))
	e.rep.Count("server_restarts", int64(e.restarts))
	e.rep.Count("controller_failovers", int64(e.failovers))
	e.rep.Count("forced_snapshots", int64(e.snapshots))
	e.rep.Count("raft_entries_via_listener", int64(e.heard))
	e.rep.Count("api_ops_ok", int64(e.opsOK))
	e.rep.Count("api_ops_refused", int64(e.opsErr))
	if !e.inconc && !e.failed && e.opsOK >= 6 && e.nFail+e.nDup+e.restarts+e.failovers > 0 {
		sig := fmt.Sprintf("%s|%s|f%d d%d r%d o%d", e.unit, strings.Join(e.steps, " "), e.nFail, e.nDup, e.restarts, e.failovers)
		e.rep.Nontrivial(sig)
		if f := os.Getenv("C18_SIG_FILE"); f != "" {
			os.WriteFile(f, []byte(sig), 0644)
		}
	}
	e.rep.Sample(map[string]any{"unit": e.unit, "run": e.run, "seed": e.seed, "steps": append([]string(nil), e.steps...),
		"injected_publish_failures": e.nFail, "injected_published_not_recorded": e.nDup, "restarts": e.restarts, "failovers": e.failovers,
		"wall_s": int(time.Since(e.t0).Seconds())})
	e.rep.Max("slowest_scenario_s", int64(time.Since(e.t0).Seconds()))
}
