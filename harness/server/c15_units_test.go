//go:build verif

package server

// C15 units.  TestVerifC15ACL: seeded policy sets × every API method × request
// shapes whose side effects would precede delivery; the policy is switched by
// rewriting the file and a real SIGHUP.  TestVerifC15Reload: many reloads with
// concurrent callers.  One server per process (SIGHUP reaches every server of
// a process); the ACL unit is sharded over several processes by the driver.

import (
	"fmt"
	"os"
	"sort"
	"strconv"
	"strings"
	"sync"
	"sync/atomic"
	"testing"
	"time"

	client "github.com/liftbridge-io/liftbridge-api/v2/go"
	gproto "google.golang.org/protobuf/proto"

	kit "github.com/liftbridge-io/liftbridge/internal/verifkit"
	proto "github.com/liftbridge-io/liftbridge/server/protocol"
)

type c15Dec int

const (
	c15Undet c15Dec = iota
	c15Allowed
	c15Denied
)

func (d c15Dec) String() string { return [...]string{"undetermined", "allowed", "denied"}[d] }

type c15Msg struct {
	stream string
	part   int32
	corr   string
}

type c15Res struct {
	err       error
	resp      interface{}
	delivered int // Subscribe: messages handed to the caller (confirmation included)
	resps     []*client.PublishResponse
	inconc    string
}

type c15Call struct {
	Method, Shape, Client, Target string
	Need                          [][2]string // every pair required: one missing ⇒ denied
	Extra                         [][2]string // need present, one of these missing ⇒ undetermined
	GroupRPC                      bool
	ReadOnlyNoDocAction           bool // accepted-without-effect is an observation only
	Msgs                          []c15Msg
	Req                           string
	buildTarget                   string           // the target handed to the driver's Build
	delta                         map[string]int64 // messages an ALLOWED execution appends, per partition
	prep                          func() error
	run                           func(r *c15Res)
	settle                        func()
	worked                        func(r *c15Res, d0, d1 c15Digest) string // "" = worked
}

func (c *c15Call) msgDenied(pol *c15Policy, m c15Msg) bool {
	return !pol.has(c.Client, m.stream, "Publish")
}

func (c *c15Call) decide(pol *c15Policy) c15Dec {
	if c.GroupRPC {
		switch {
		case c15Lineless(c.Client):
			return c15Denied
		case c.Client == c15Admin:
			return c15Allowed
		}
		return c15Undet
	}
	if len(c.Msgs) > 0 {
		for _, m := range c.Msgs {
			if c.msgDenied(pol, m) {
				return c15Denied
			}
		}
		return c15Allowed
	}
	if !pol.hasAll(c.Client, c.Need) {
		return c15Denied
	}
	if !pol.hasAll(c.Client, c.Extra) {
		return c15Undet
	}
	return c15Allowed
}

// expectedDelta: what the call may legitimately append under this policy.
func (c *c15Call) expectedDelta(pol *c15Policy, dec c15Dec) map[string]int64 {
	out := map[string]int64{}
	if len(c.Msgs) > 0 {
		for _, m := range c.Msgs {
			if !c.msgDenied(pol, m) {
				out[c15PartKey(m.stream, m.part)]++
			}
		}
		return out
	}
	if dec == c15Allowed {
		for k, v := range c.delta {
			out[k] = v
		}
	}
	return out
}

type c15Driver struct {
	Shapes  []string
	Targets func(shape string) []string
	Build   func(w *c15World, shape, cli, target string, rng *kit.RNG) *c15Call
}

func c15LiveTargets(string) []string { return c15Live }

func (w *c15World) unaryRun(method, cli string, req gproto.Message, timeout time.Duration) func(r *c15Res) {
	return func(r *c15Res) { r.resp, r.err = w.call(method, cli, req, timeout) }
}

func (w *c15World) pausePrep(stream string, parts []int32, resumeAll bool) func() error {
	return func() error {
		return w.adminCall("PauseStream", &client.PauseStreamRequest{Name: stream, Partitions: parts, ResumeAll: resumeAll})
	}
}

// subscribeSettle waits until the only subscription loops left on the
// partition are those of the open standing subscriptions (logical quiescence:
// the loop of the examined call has exited and released its group entry).
func (w *c15World) subscribeSettle(stream string, part int32) func() {
	return func() {
		vfWait(5*time.Second, func() bool {
			p := w.srv.metadata.GetPartition(stream, part)
			if p == nil {
				return true
			}
			p.mu.RLock()
			n := p.subscriberCount
			p.mu.RUnlock()
			return n == w.openStandingOn(stream, part)
		})
	}
}

var c15Drivers = map[string]*c15Driver{
	"CreateStream": {
		Shapes:  []string{"new", "two-partitions"},
		Targets: func(string) []string { return c15New },
		Build: func(w *c15World, shape, cli, t string, rng *kit.RNG) *c15Call {
			parts := int32(1)
			if shape == "two-partitions" {
				parts = 2
			}
			req := &client.CreateStreamRequest{Name: t, Subject: c15Subject(t), Partitions: parts, ReplicationFactor: 1}
			return &c15Call{Need: [][2]string{{t, "CreateStream"}}, Req: c15Text(req),
				run: w.unaryRun("CreateStream", cli, req, c15Call45),
				worked: func(r *c15Res, d0, d1 c15Digest) string {
					if r.err != nil {
						return r.err.Error()
					}
					if _, ok := d1["stream/"+t]; !ok {
						return "stream does not exist after CreateStream"
					}
					return ""
				}}
		},
	},
	"DeleteStream": {
		Shapes: []string{"idle", "live"},
		Targets: func(shape string) []string {
			if shape == "live" {
				return []string{"s2"} // g0 consumes s0,s1 only: no asynchronous group notification
			}
			return c15Del
		},
		Build: func(w *c15World, shape, cli, t string, rng *kit.RNG) *c15Call {
			req := &client.DeleteStreamRequest{Name: t}
			return &c15Call{Need: [][2]string{{t, "DeleteStream"}}, Req: c15Text(req),
				run: w.unaryRun("DeleteStream", cli, req, c15Call45),
				worked: func(r *c15Res, d0, d1 c15Digest) string {
					if r.err != nil {
						return r.err.Error()
					}
					if _, ok := d1["stream/"+t]; ok {
						return "stream still exists after DeleteStream"
					}
					return ""
				}}
		},
	},
	"PauseStream": {
		Shapes:  []string{"one", "all", "resume-all"},
		Targets: c15LiveTargets,
		Build: func(w *c15World, shape, cli, t string, rng *kit.RNG) *c15Call {
			req := &client.PauseStreamRequest{Name: t}
			want := []int32{0, 1}
			switch shape {
			case "one":
				req.Partitions = []int32{0}
				want = []int32{0}
			case "resume-all":
				req.ResumeAll = true
			}
			return &c15Call{Need: [][2]string{{t, "PauseStream"}}, Req: c15Text(req),
				run: w.unaryRun("PauseStream", cli, req, c15Call45),
				worked: func(r *c15Res, d0, d1 c15Digest) string {
					if r.err != nil {
						return r.err.Error()
					}
					for _, p := range want {
						if d1["paused/"+c15PartKey(t, p)] != "true" {
							return fmt.Sprintf("partition %d not paused", p)
						}
					}
					return ""
				}}
		},
	},
	"SetStreamReadonly": {
		Shapes:  []string{"set-one", "unset", "set-all"},
		Targets: c15LiveTargets,
		Build: func(w *c15World, shape, cli, t string, rng *kit.RNG) *c15Call {
			req := &client.SetStreamReadonlyRequest{Name: t, Readonly: true}
			want := []int32{0, 1}
			var prep func() error
			switch shape {
			case "set-one":
				req.Partitions = []int32{0}
				want = []int32{0}
			case "unset":
				req.Partitions = []int32{0}
				req.Readonly = false
				want = []int32{0}
				prep = func() error {
					return w.adminCall("SetStreamReadonly", &client.SetStreamReadonlyRequest{Name: t, Partitions: []int32{0}, Readonly: true})
				}
			}
			return &c15Call{Need: [][2]string{{t, "SetStreamReadonly"}}, Req: c15Text(req), prep: prep,
				run: w.unaryRun("SetStreamReadonly", cli, req, c15Call45),
				worked: func(r *c15Res, d0, d1 c15Digest) string {
					if r.err != nil {
						return r.err.Error()
					}
					for _, p := range want {
						if d1["readonly/"+c15PartKey(t, p)] != fmt.Sprint(req.Readonly) {
							return fmt.Sprintf("partition %d read-only flag not %v", p, req.Readonly)
						}
					}
					return ""
				}}
		},
	},
	"Subscribe": {
		Shapes:  []string{"plain", "resume-paused", "takeover-equal-epoch", "takeover-newer-epoch", "takeover-same-consumer", "group-fresh"},
		Targets: c15LiveTargets,
		Build: func(w *c15World, shape, cli, t string, rng *kit.RNG) *c15Call {
			req := &client.SubscribeRequest{Stream: t, StartPosition: client.StartPosition_NEW_ONLY}
			var prep func() error
			wantReal := false
			switch shape {
			case "plain":
				req.StartPosition = client.StartPosition_EARLIEST
				wantReal = true
				prep = func() error {
					if p := w.srv.metadata.GetPartition(t, 0); p != nil && p.log.NewestOffset() < 0 {
						_, err := w.adminPublish(t, 0, []byte("seed"))
						return err
					}
					return nil
				}
			case "resume-paused":
				req.Resume = true
				prep = w.pausePrep(t, []int32{0}, false)
			case "takeover-equal-epoch":
				req.Partition = 1
				req.Consumer = &client.Consumer{GroupId: c15StdGroup, ConsumerId: "evil", GroupEpoch: c15StdEpoch}
			case "takeover-newer-epoch":
				req.Partition = 1
				req.Consumer = &client.Consumer{GroupId: c15StdGroup, ConsumerId: "evil", GroupEpoch: c15StdEpoch + 1}
			case "takeover-same-consumer":
				req.Partition = 1
				req.Consumer = &client.Consumer{GroupId: c15StdGroup, ConsumerId: c15StdCons, GroupEpoch: c15StdEpoch + 1}
			case "group-fresh":
				req.Consumer = &client.Consumer{GroupId: "gx", ConsumerId: "evil", GroupEpoch: 1}
			}
			part := req.Partition
			return &c15Call{Need: [][2]string{{t, "Subscribe"}}, Req: c15Text(req), prep: prep,
				settle: w.subscribeSettle(t, part),
				run: func(r *c15Res) {
					st, err := w.stream("Subscribe", cli, req)
					if err != nil {
						r.err = err
						return
					}
					first, to := st.next(c15Wait)
					if to {
						st.cancel()
						r.inconc = "Subscribe neither confirmed nor returned"
						return
					}
					if first != nil {
						r.delivered = 1
						if wantReal {
							if m, _ := st.next(c15Wait); m != nil {
								r.delivered++
							}
						}
					}
					st.cancel()
					if !st.waitDone(c15Wait) {
						r.inconc = "Subscribe handler did not return after its context ended"
						return
					}
					r.delivered += len(st.drain())
					if first == nil {
						r.err = st.result()
					}
				},
				worked: func(r *c15Res, d0, d1 c15Digest) string {
					if r.err != nil {
						return r.err.Error()
					}
					if r.delivered == 0 {
						return "no subscription confirmation"
					}
					if wantReal && r.delivered < 2 {
						return "no stored message delivered"
					}
					if shape == "resume-paused" && d1["paused/"+c15PartKey(t, 0)] != "false" {
						return "partition still paused"
					}
					return ""
				}}
		},
	},
	"FetchMetadata": {
		Shapes:  []string{"all", "named"},
		Targets: func(string) []string { return []string{"*"} },
		Build: func(w *c15World, shape, cli, t string, rng *kit.RNG) *c15Call {
			req := &client.FetchMetadataRequest{}
			if shape == "named" {
				req.Streams = []string{"s0", "s1"}
				req.Groups = []string{c15MetaGrp}
			}
			return &c15Call{Need: [][2]string{{"*", "FetchMetadata"}}, Req: c15Text(req),
				run: w.unaryRun("FetchMetadata", cli, req, c15Call45),
				worked: func(r *c15Res, d0, d1 c15Digest) string {
					if r.err != nil {
						return r.err.Error()
					}
					if m, ok := r.resp.(*client.FetchMetadataResponse); !ok || len(m.StreamMetadata) == 0 {
						return "no stream metadata returned"
					}
					return ""
				}}
		},
	},
	"FetchPartitionMetadata": {
		Shapes:  []string{"partition"},
		Targets: c15LiveTargets,
		Build: func(w *c15World, shape, cli, t string, rng *kit.RNG) *c15Call {
			req := &client.FetchPartitionMetadataRequest{Stream: t, Partition: 1}
			return &c15Call{Need: [][2]string{{t, "FetchPartitionMetadata"}}, Req: c15Text(req),
				run: w.unaryRun("FetchPartitionMetadata", cli, req, c15Call45),
				worked: func(r *c15Res, d0, d1 c15Digest) string {
					if r.err != nil {
						return r.err.Error()
					}
					m, ok := r.resp.(*client.FetchPartitionMetadataResponse)
					if !ok || m.Metadata == nil || fmt.Sprint(m.Metadata.NewestOffset) != d0["newest/"+c15PartKey(t, 1)] {
						return "partition metadata does not carry the newest offset"
					}
					return ""
				}}
		},
	},
	"Publish": {
		Shapes: []string{"ack", "paused", "no-ack-no-deadline", "resume-all", "cursors-stream"},
		Targets: func(shape string) []string {
			if shape == "cursors-stream" {
				return []string{c15CurStr}
			}
			return c15Live
		},
		Build: func(w *c15World, shape, cli, t string, rng *kit.RNG) *c15Call {
			req := &client.PublishRequest{Stream: t, Value: []byte("payload-" + cli), AckPolicy: client.AckPolicy_LEADER, Partition: int32(rng.Intn(2))}
			timeout := c15Wait
			var prep func() error
			switch shape {
			case "paused":
				req.Partition = 0
				prep = w.pausePrep(t, []int32{0}, false)
			case "no-ack-no-deadline":
				req.AckPolicy = client.AckPolicy_NONE
				timeout = 0
			case "resume-all":
				req.Partition = 1
				prep = w.pausePrep(t, nil, true)
			case "cursors-stream":
				cur := &proto.Cursor{Stream: "s0", Partition: 0, CursorId: "forged", Offset: 999}
				b, _ := cur.Marshal()
				req.Key = []byte("forged,s0,0")
				req.Value = b
			}
			pk := c15PartKey(t, req.Partition)
			return &c15Call{Need: [][2]string{{t, "Publish"}}, Req: c15Text(req), prep: prep, delta: map[string]int64{pk: 1},
				run: w.unaryRun("Publish", cli, req, timeout),
				worked: func(r *c15Res, d0, d1 c15Digest) string {
					if r.err != nil {
						return r.err.Error()
					}
					if req.AckPolicy != client.AckPolicy_NONE {
						if m, ok := r.resp.(*client.PublishResponse); !ok || m.Ack == nil {
							return "no ack"
						}
					}
					if (shape == "paused" || shape == "resume-all") && d1["paused/"+pk] != "false" {
						return "partition still paused after an authorised publish"
					}
					return ""
				}}
		},
	},
	"PublishAsync": {
		Shapes:  []string{"single-stream", "mixed-streams", "paused", "no-ack"},
		Targets: c15LiveTargets,
		Build: func(w *c15World, shape, cli, t string, rng *kit.RNG) *c15Call {
			var msgs []c15Msg
			pol := client.AckPolicy_LEADER
			var prep func() error
			switch shape {
			case "single-stream":
				for i := 0; i < 3; i++ {
					msgs = append(msgs, c15Msg{t, 0, fmt.Sprintf("a%d", i)})
				}
			case "mixed-streams":
				msgs = append(msgs, c15Msg{t, int32(rng.Intn(2)), "a0"})
				for i := 1; i < 5; i++ {
					msgs = append(msgs, c15Msg{c15Live[rng.Intn(len(c15Live))], int32(rng.Intn(2)), fmt.Sprintf("a%d", i)})
				}
			case "paused":
				prep = w.pausePrep(t, []int32{0}, false)
				msgs = []c15Msg{{t, 0, "a0"}, {t, 0, "a1"}}
			case "no-ack":
				pol = client.AckPolicy_NONE
				for i := 0; i < 3; i++ {
					msgs = append(msgs, c15Msg{t, 1, fmt.Sprintf("a%d", i)})
				}
			}
			var reqs []gproto.Message
			var txt []string
			for _, m := range msgs {
				reqs = append(reqs, &client.PublishRequest{Stream: m.stream, Partition: m.part, Value: []byte("async-" + cli + "-" + m.corr), CorrelationId: m.corr, AckPolicy: pol})
				txt = append(txt, fmt.Sprintf("%s/%d#%s", m.stream, m.part, m.corr))
			}
			return &c15Call{Msgs: msgs, Req: fmt.Sprintf("PublishAsync ackPolicy=%s messages=%v", pol, txt), prep: prep,
				run: func(r *c15Res) {
					st, err := w.stream("PublishAsync", cli, reqs...)
					if err != nil {
						r.err = err
						return
					}
					close(st.in) // client half-close: the handler sees io.EOF after the messages
					if !st.waitDone(c15Wait) {
						st.cancel()
						r.inconc = "PublishAsync handler did not return after the client closed the stream"
						return
					}
					r.err = st.result()
					for _, m := range st.drain() {
						r.resps = append(r.resps, m.(*client.PublishResponse))
					}
				},
				worked: func(r *c15Res, d0, d1 c15Digest) string {
					if r.err != nil {
						return r.err.Error()
					}
					// Acks are not demanded: the session decrements its in-flight
					// count before it sends the ack, so after the client's
					// half-close the handler may return before the last ack is
					// sent (not this property's business).  That every message
					// was appended is decided by the fence.
					for _, m := range msgs {
						for _, p := range r.resps {
							if p.CorrelationId == m.corr && p.AsyncError != nil {
								return fmt.Sprintf("message %s: async error %v", m.corr, p.AsyncError)
							}
						}
					}
					return ""
				}}
		},
	},
	"PublishToSubject": {
		Shapes:  []string{"ack", "no-ack-no-deadline", "partition-subject"},
		Targets: c15LiveTargets,
		Build: func(w *c15World, shape, cli, t string, rng *kit.RNG) *c15Call {
			req := &client.PublishToSubjectRequest{Subject: c15Subject(t), Value: []byte("pts-" + cli), AckPolicy: client.AckPolicy_LEADER}
			timeout := c15Wait
			part := int32(0)
			switch shape {
			case "no-ack-no-deadline":
				req.AckPolicy = client.AckPolicy_NONE
				timeout = 0
			case "partition-subject":
				req.Subject = c15Subject(t) + ".1"
				part = 1
			}
			return &c15Call{Need: [][2]string{{req.Subject, "PublishToSubject"}}, Req: c15Text(req), delta: map[string]int64{c15PartKey(t, part): 1},
				run: w.unaryRun("PublishToSubject", cli, req, timeout),
				worked: func(r *c15Res, d0, d1 c15Digest) string {
					if r.err != nil {
						return r.err.Error()
					}
					if req.AckPolicy != client.AckPolicy_NONE {
						if m, ok := r.resp.(*client.PublishToSubjectResponse); !ok || m.Ack == nil {
							return "no ack"
						}
					}
					return ""
				}}
		},
	},
	"SetCursor": {
		Shapes:  []string{"new", "overwrite"},
		Targets: c15LiveTargets,
		Build: func(w *c15World, shape, cli, t string, rng *kit.RNG) *c15Call {
			id := "cur0"
			if shape == "new" {
				id = fmt.Sprintf("k%d", rng.Intn(1000000))
			}
			off := int64(100 + rng.Intn(1000))
			req := &client.SetCursorRequest{Stream: t, Partition: 0, CursorId: id, Offset: off}
			key := fmt.Sprintf("%s,%s,%d", id, t, 0)
			cp := int32(hasher([]byte(key)) % uint32(w.nCurParts))
			return &c15Call{Need: [][2]string{{t, "SetCursor"}, {c15CurStr, "Publish"}}, Req: c15Text(req), delta: map[string]int64{c15PartKey(c15CurStr, cp): 1},
				run: w.unaryRun("SetCursor", cli, req, c15Call45),
				worked: func(r *c15Res, d0, d1 c15Digest) string {
					if r.err != nil {
						return r.err.Error()
					}
					if d1["cursor/"+key] != fmt.Sprint(off) {
						return fmt.Sprintf("cursor %s reads %q from the cursors log, expected %d", key, d1["cursor/"+key], off)
					}
					return ""
				}}
		},
	},
	"FetchCursor": {
		Shapes:  []string{"existing"},
		Targets: c15LiveTargets,
		Build: func(w *c15World, shape, cli, t string, rng *kit.RNG) *c15Call {
			req := &client.FetchCursorRequest{Stream: t, Partition: 0, CursorId: "cur0"}
			key := fmt.Sprintf("cur0,%s,0", t)
			return &c15Call{Need: [][2]string{{t, "FetchCursor"}}, Extra: [][2]string{{c15CurStr, "Subscribe"}, {c15CurStr, "Publish"}}, Req: c15Text(req),
				run: w.unaryRun("FetchCursor", cli, req, c15Call45),
				worked: func(r *c15Res, d0, d1 c15Digest) string {
					if r.err != nil {
						return r.err.Error()
					}
					m, ok := r.resp.(*client.FetchCursorResponse)
					if !ok || fmt.Sprint(m.Offset) != d0["cursor/"+key] {
						return fmt.Sprintf("FetchCursor returned %v, the cursors log holds %q", r.resp, d0["cursor/"+key])
					}
					return ""
				}}
		},
	},
	"JoinConsumerGroup": {
		Shapes:  []string{"existing-group", "new-group"},
		Targets: func(string) []string { return []string{c15MetaGrp} },
		Build: func(w *c15World, shape, cli, t string, rng *kit.RNG) *c15Call {
			req := &client.JoinConsumerGroupRequest{GroupId: c15MetaGrp, ConsumerId: "x-" + cli, Streams: []string{"s0"}}
			if shape == "new-group" {
				req.GroupId = "gnew"
				req.Streams = []string{"s1"}
			}
			return &c15Call{GroupRPC: true, Target: req.GroupId, Req: c15Text(req),
				run: w.unaryRun("JoinConsumerGroup", cli, req, c15Call45),
				worked: func(r *c15Res, d0, d1 c15Digest) string {
					if r.err != nil {
						return r.err.Error()
					}
					if _, ok := d1["gmember/"+req.GroupId+"/"+req.ConsumerId]; !ok {
						return "consumer is not a member after JoinConsumerGroup"
					}
					return ""
				}}
		},
	},
	"LeaveConsumerGroup": {
		Shapes:  []string{"other-member"},
		Targets: func(string) []string { return []string{c15MetaGrp} },
		Build: func(w *c15World, shape, cli, t string, rng *kit.RNG) *c15Call {
			req := &client.LeaveConsumerGroupRequest{GroupId: c15MetaGrp, ConsumerId: "m2"}
			return &c15Call{GroupRPC: true, Req: c15Text(req),
				run: w.unaryRun("LeaveConsumerGroup", cli, req, c15Call45),
				worked: func(r *c15Res, d0, d1 c15Digest) string {
					if r.err != nil {
						return r.err.Error()
					}
					if _, ok := d1["gmember/"+c15MetaGrp+"/m2"]; ok {
						return "member still present after LeaveConsumerGroup"
					}
					return ""
				}}
		},
	},
	"FetchConsumerGroupAssignments": {
		Shapes:  []string{"other-member"},
		Targets: func(string) []string { return []string{c15MetaGrp} },
		Build: func(w *c15World, shape, cli, t string, rng *kit.RNG) *c15Call {
			req := &client.FetchConsumerGroupAssignmentsRequest{GroupId: c15MetaGrp, ConsumerId: "m1"}
			return &c15Call{GroupRPC: true, ReadOnlyNoDocAction: true, Req: c15Text(req),
				run: func(r *c15Res) {
					if g := w.srv.metadata.GetConsumerGroup(c15MetaGrp); g != nil {
						_, req.Epoch = g.GetCoordinator()
					}
					r.resp, r.err = w.call("FetchConsumerGroupAssignments", cli, req, c15Call45)
				},
				worked: func(r *c15Res, d0, d1 c15Digest) string {
					if r.err != nil {
						return r.err.Error()
					}
					return ""
				}}
		},
	},
	"ReportConsumerGroupCoordinator": {
		Shapes:  []string{"other-member"},
		Targets: func(string) []string { return []string{c15MetaGrp} },
		Build: func(w *c15World, shape, cli, t string, rng *kit.RNG) *c15Call {
			req := &client.ReportConsumerGroupCoordinatorRequest{GroupId: c15MetaGrp, ConsumerId: "m1"}
			return &c15Call{GroupRPC: true, Req: c15Text(req),
				run: func(r *c15Res) {
					if g := w.srv.metadata.GetConsumerGroup(c15MetaGrp); g != nil {
						req.Coordinator, req.Epoch = g.GetCoordinator()
					}
					r.resp, r.err = w.call("ReportConsumerGroupCoordinator", cli, req, c15Call45)
				},
				worked: func(r *c15Res, d0, d1 c15Digest) string {
					if r.err != nil {
						return r.err.Error()
					}
					return ""
				}}
		},
	},
}

// c15CheckMethodCoverage: every method of client.APIServer needs a driver and
// must be reachable through the service descriptor; otherwise the run fails.
func c15CheckMethodCoverage(rep *kit.Report) []string {
	methods := c15APIMethods()
	rep.SetInfo("api_methods", methods)
	var ok []string
	for _, m := range methods {
		_, u := c15Unary[m]
		_, s := c15Stream[m]
		if !u && !s {
			rep.Violation("C15:method-not-dispatchable:"+m, "client.APIServer method "+m+" is not in the gRPC service descriptor: the monitor cannot drive it", nil)
			continue
		}
		if c15Drivers[m] == nil {
			rep.Violation("C15:method-without-driver:"+m, "client.APIServer has a method "+m+" for which the C15 monitor has no driver: an RPC that is not examined cannot be claimed to be refused when unauthorised", map[string]interface{}{"methods": methods})
			continue
		}
		ok = append(ok, m)
	}
	for m := range c15Drivers {
		found := false
		for _, x := range methods {
			if x == m {
				found = true
			}
		}
		if !found {
			rep.Inconc("driver for " + m + " has no counterpart in client.APIServer")
		}
	}
	return ok
}

// genCalls: for every method and shape one denied, one allowed (admin when no
// seeded client qualifies) and now and then one undetermined case.  The
// line-less caller of a denied case is, half the time, not the stranger (a
// named client without lines) but one of the identity-less / look-alike
// callers of c15IdentityKinds; and an identity sweep adds, for every other
// method (alternating from set to set), one call by the next kind in rotation,
// so that every method x kind pair comes up regularly whatever the seed.
func (w *c15World) genCalls(methods []string, rng *kit.RNG) []*c15Call {
	var out []*c15Call
	build := func(m, shape, cli, t string, r *kit.RNG) *c15Call {
		c := c15Drivers[m].Build(w, shape, cli, t, r)
		c.Method, c.Shape, c.Client, c.buildTarget = m, shape, cli, t
		if c.Target == "" {
			c.Target = t
		}
		return c
	}
	for _, m := range methods {
		d := c15Drivers[m]
		for _, shape := range d.Shapes {
			var den, all, und []*c15Call
			for _, t := range d.Targets(shape) {
				for _, cli := range append(append([]string{}, c15Cli...), c15Stranger) {
					c := build(m, shape, cli, t, rng.Fork(uint64(len(out))))
					switch c.decide(w.pol) {
					case c15Denied:
						den = append(den, c)
					case c15Allowed:
						all = append(all, c)
					default:
						und = append(und, c)
					}
				}
			}
			if len(den) > 0 {
				// prefer a client that holds other lines over the stranger half the time
				c := den[rng.Intn(len(den))]
				if c.Client == c15Stranger && rng.Chance(1, 2) {
					kind := c15IdentityKinds[rng.Intn(len(c15IdentityKinds))]
					c = build(m, shape, kind, c.buildTarget, rng.Fork(uint64(len(out))+1000))
				}
				out = append(out, c)
			}
			if len(all) > 0 {
				out = append(out, all[rng.Intn(len(all))])
			} else {
				ts := d.Targets(shape)
				t := ts[rng.Intn(len(ts))]
				out = append(out, build(m, shape, c15Admin, t, rng.Fork(77)))
			}
			if len(und) > 0 && rng.Chance(1, 3) {
				out = append(out, und[rng.Intn(len(und))])
			}
		}
	}
	// identity sweep
	rot := int(kit.Seed()%uint64(len(c15IdentityKinds))) + w.kindRot
	for mi, m := range methods {
		if (mi+w.sweeps)%2 != 0 {
			continue
		}
		d := c15Drivers[m]
		shape := d.Shapes[rng.Intn(len(d.Shapes))]
		ts := d.Targets(shape)
		t := ts[rng.Intn(len(ts))]
		kind := c15IdentityKinds[(rot+w.sweeps/2+mi/2+mi)%len(c15IdentityKinds)]
		out = append(out, build(m, shape, kind, t, rng.Fork(uint64(len(out))+2000)))
	}
	w.sweeps++
	// seeded order: the state left by one call is the start of the next
	for i := len(out) - 1; i > 0; i-- {
		j := rng.Intn(i + 1)
		out[i], out[j] = out[j], out[i]
	}
	return out
}

// exec runs one call under the oracle.
func (w *c15World) exec(set int, call *c15Call) {
	rep := w.rep
	tag := fmt.Sprintf("set %d %s/%s client=%s target=%s", set, call.Method, call.Shape, call.Client, call.Target)
	if err := w.normalize(); err != nil {
		rep.Inconc(tag + ": restoring the default world: " + err.Error())
		return
	}
	if call.prep != nil {
		if err := call.prep(); err != nil {
			rep.Inconc(tag + ": preparing the shape: " + err.Error())
			return
		}
		if err := w.ensureStanding(); err != nil {
			rep.Inconc(tag + ": standing subscriptions: " + err.Error())
			return
		}
	}
	if !w.quiesce() {
		rep.Inconc(tag + ": subscription loops ended by the preparation did not wind down")
		return
	}
	dec := call.decide(w.pol)
	delta := call.expectedDelta(w.pol, dec)
	d0 := w.digest()
	res := &c15Res{}
	call.run(res)
	if res.inconc != "" {
		rep.Inconc(tag + ": " + res.inconc)
		return
	}
	if call.settle != nil {
		call.settle()
	}
	d1 := w.digest()
	f := w.fence(d0, d1)
	for _, s := range f.inconc {
		rep.Inconc(tag + ": " + s)
	}
	if len(f.inconc) > 0 {
		return
	}
	rep.Eval()
	rep.Count("calls/"+call.Method, 1)
	rep.Count("decision/"+dec.String(), 1)

	// what was appended, per partition (fenced: by the marker's offset)
	var published []string
	for k, off := range f.offsets {
		n0, _ := strconv.ParseInt(d0["newest/"+k], 10, 64)
		if got := off - (n0 + 1); got != delta[k] {
			published = append(published, fmt.Sprintf("%s: %d message(s) appended, %d expected", k, got, delta[k]))
		}
	}
	for _, k := range f.unfenced {
		n0, _ := strconv.ParseInt(d0["newest/"+k], 10, 64)
		n1, e1 := strconv.ParseInt(d1["newest/"+k], 10, 64)
		if e1 == nil && n1-n0 != delta[k] {
			published = append(published, fmt.Sprintf("%s: %d message(s) appended, %d expected", k, n1-n0, delta[k]))
		}
	}
	sort.Strings(published)
	var delivered []string
	for key, n := range f.extra {
		sb := w.standing[key]
		if sb != nil && int64(n) != delta[c15PartKey(sb.stream, sb.part)] {
			delivered = append(delivered, fmt.Sprintf("%s received %d message(s) before the fence, %d expected", key, n, delta[c15PartKey(sb.stream, sb.part)]))
		}
	}
	sort.Strings(delivered)
	diff := c15DiffKeys(d0, d1)
	for _, k := range f.closed {
		if d1["sub/"+k] != "closed" {
			diff = append(diff, "sub/"+k)
			d1["sub/"+k] = "closed"
		}
	}
	witness := func() map[string]interface{} {
		var objs []string
		for _, n := range call.Need {
			objs = append(objs, n[0])
		}
		for _, m := range call.Msgs {
			objs = append(objs, m.stream)
		}
		objs = append(objs, call.Target)
		return map[string]interface{}{
			"seed": kit.Seed(), "policy_set": set, "policy_generation": w.pol.Gen, "client": call.Client, "client_identity": c15DescribeClient(call.Client),
			"client_policy_lines_on_these_resources": w.pol.linesOf(call.Client, objs...), "method": call.Method, "shape": call.Shape,
			"request": call.Req, "expected": dec.String(), "returned_error": fmt.Sprint(res.err), "state_diff": c15DescribeDiff(d0, d1, diff),
			"appended": published, "delivered_to_standing_subscriptions": delivered, "messages_handed_to_the_caller": res.delivered,
		}
	}

	if dec != c15Undet && w.sampled < 4 {
		w.sampled++
		rep.Sample(map[string]interface{}{"case": tag, "request": call.Req, "expected": dec.String(), "returned_error": fmt.Sprint(res.err),
			"state_diff": c15DescribeDiff(d0, d1, diff), "appended_unexpectedly": published, "fenced_partitions": len(f.offsets), "standing_subscriptions_checked": len(f.extra)})
	}
	switch dec {
	case c15Undet:
		rep.Count("undetermined/"+call.Method, 1)
		return
	case c15Allowed:
		reason := call.worked(res, d0, d1)
		if reason == "" && len(published) > 0 {
			reason = "appended messages differ: " + strings.Join(published, "; ")
		}
		if reason == "" {
			rep.Count("allowed_and_worked/"+call.Method, 1)
			rep.Nontrivial(call.Method + "/" + call.Shape + "/allowed")
			return
		}
		if c15AuthzError(res.err) || strings.Contains(reason, "PERMISSION_DENIED") {
			rep.Violation("C15:"+call.Method+":refused-although-authorised",
				fmt.Sprintf("%s: the policy holds every entry the documentation requires for this call, yet it was refused: %s", tag, reason), witness())
			return
		}
		rep.Inconc(tag + ": authorised call did not work (not an authorisation error): " + reason)
		return
	}

	// ---- denied
	rep.Nontrivial(call.Method + "/" + call.Shape + "/denied")
	if call.Client == c15Stranger {
		rep.Count("denied_stranger", 1)
	}
	kind := c15IdentityKind(call.Client)
	if kind != "" {
		rep.Count("denied_identity/"+kind, 1)
		rep.Nontrivial(call.Method + "/caller:" + kind + "/denied")
	}
	refused := res.err != nil
	var notRefused []string
	if len(call.Msgs) > 0 && res.err == nil {
		refused = true
		for _, m := range call.Msgs {
			if !call.msgDenied(w.pol, m) {
				continue
			}
			got := false
			for _, p := range res.resps {
				if p.CorrelationId == m.corr && p.AsyncError != nil {
					got = true
				}
			}
			if !got {
				refused = false
				notRefused = append(notRefused, m.corr)
			}
		}
	}
	has := func(prefix string) bool {
		for _, k := range diff {
			if strings.HasPrefix(k, prefix) {
				return true
			}
		}
		return false
	}
	effect := ""
	switch {
	case call.Method == "Subscribe" && has("paused/"):
		effect = "resumed-before-check"
	case call.Method == "Subscribe" && (has("sub/") || has("pcons/")):
		effect = "group-takeover-before-check"
	case call.Method == "Subscribe" && res.delivered > 0:
		effect = "delivered-despite-denial"
	case strings.HasPrefix(call.Method, "Publish") && len(published)+len(delivered) > 0:
		effect = "published-despite-denial"
	case strings.HasPrefix(call.Method, "Publish") && has("paused/"):
		effect = "resumed-despite-denial"
	case !refused && call.GroupRPC:
		effect = "no-check"
	case !refused:
		effect = "not-refused"
	case len(published)+len(delivered) > 0:
		effect = "published-despite-denial"
	case len(diff) > 0:
		cls := diff[0]
		if i := strings.Index(cls, "/"); i > 0 {
			cls = cls[:i]
		}
		effect = "state-changed:" + cls
	}
	if effect == "" {
		rep.Count("denied_refused_unchanged/"+call.Method, 1)
		return
	}
	if effect == "no-check" && call.ReadOnlyNoDocAction && len(diff) == 0 && len(published) == 0 {
		// read-only RPC for which the documentation defines no ACL action:
		// observation only
		rep.Count("observed_unguarded_readonly/"+call.Method, 1)
		return
	}
	what := fmt.Sprintf("%s: the client lacks the policy entry for this call (expected: refused, nothing changes). Observed: refused=%v err=%v", tag, refused, res.err)
	if kind != "" {
		what = fmt.Sprintf("%s: the caller (%s) holds no policy entry at all (expected: refused, nothing changes). Observed: refused=%v err=%v", tag, c15DescribeClient(call.Client), refused, res.err)
		effect += ":caller=" + c15IdentityClass(call.Client)
	}
	if len(notRefused) > 0 {
		what += fmt.Sprintf("; no error response for message(s) %v", notRefused)
	}
	if len(diff) > 0 {
		what += "; state changed:" + c15DescribeDiff(d0, d1, diff)
	}
	if len(published) > 0 {
		what += "; " + strings.Join(published, "; ")
	}
	if len(delivered) > 0 {
		what += "; " + strings.Join(delivered, "; ")
	}
	if res.delivered > 0 {
		what += fmt.Sprintf("; %d message(s) handed to the unauthorised subscriber", res.delivered)
	}
	rep.Violation("C15:"+call.Method+":"+effect, what, witness())
}

func c15Assumptions(rep *kit.Report) {
	rep.Assume("Authorisation is switched on the way an operator does it: the server is started with TLS key/cert (the repository's test certificates), TLSClientAuthz and generated model/policy files, so the casbin enforcer is the one startAPIServer builds. No TLS connection is made: calls are dispatched in-process through the generated gRPC service descriptor and the real AuthzUnaryInterceptor / AuthzStreamInterceptor, with peer info holding a verified chain whose leaf CommonName is the client id (what addUserContext reads). The TLS handshake itself and the gRPC transport are not exercised.")
	rep.Assume("Expected decisions come from documentation/authentication_authorization.md and the repository's authz tests: action = method name, resource = stream name, '*' for FetchMetadata, the NATS subject for PublishToSubject, and additionally Publish on __cursors for SetCursor; the casbin model is the documented exact-match ACL model (a '*' policy line is literal). PublishAsync is decided per message with action Publish. FetchCursor by a client holding FetchCursor on the stream but not every line on __cursors is left undetermined (the documentation is ambiguous).")
	rep.Assume("The client id is what the documentation says it is: the CommonName of the verified client certificate. A caller for whom no such name exists (no peer info, no verified chain, certificate without CommonName) therefore matches no policy line and must be refused like any client without lines; nothing in the documentation exempts calls without an identity while ACLs are on. The documented casbin model compares the subject exactly, so 'ADMIN', 'admin ' and ' ' are clients without lines.")
	rep.Assume("Consumer-group RPCs have no documented ACL action. They are judged only for a client with no policy line at all — the stranger and the identity-less callers — (must be refused, whatever the matching entry would be) and for the admin client holding the method name on group id, streams and '*' (must work); other clients are counted as undetermined. FetchConsumerGroupAssignments changes nothing and has no documented action: an accepted call by the stranger is counted as an observation (observed_unguarded_readonly), not as a violation.")
	rep.Assume("A reload is awaited on its logical effect (the enforcer answers with the generation marker line of the new file), never by sleeping. 'Reload never took effect' is reported as a violation only under a stuck-state predicate: SIGHUP was seen on a twin signal.Notify channel (the runtime hands a signal to every registered channel in one pass, so the server's channel received it too), was re-delivered three times, and authorised round trips through NATS and Raft completed in between while the enforcer kept answering with the old policy; a signal that is not dispatched or a process that makes no progress is inconclusive.")
	rep.Assume("'Nothing published' is decided by a fence: an authorised marker is published with AckPolicy ALL to every partition that is neither paused nor read-only; the server uses one NATS connection for all publishes, so anything the examined call put on a subject is sequenced before the marker and shows in the marker's offset. Paused / read-only partitions are compared by newest offset directly. Consumer and coordinator timeouts are set to one hour and auto-pause is off so that no wall-clock event changes the digest.")
}

// TestVerifC15ACL: shard C15_SHARD of C15_SHARDS.
func TestVerifC15ACL(t *testing.T) {
	shard := kit.EnvInt("C15_SHARD", 0)
	shards := kit.EnvInt("C15_SHARDS", 1)
	unit := os.Getenv("VERIF_UNIT")
	if unit == "" {
		unit = fmt.Sprintf("acl-%d", shard)
	}
	rep := kit.NewReport("C15", unit)
	defer rep.Write()
	rep.SetRule("Policy sets are generated from the seed: admin holds every line, 'stranger' none, c1..c3 each an independent random subset (density 1/4, 1/2 or 3/4) of {11 documented actions} x {3 live streams, their subjects, 2 deletable and 2 creatable stream names, '*', __cursors, a group id}. For every method of client.APIServer (listed by reflection; a method without a driver fails the run) and every request shape one denied and one allowed case (plus some undetermined ones) are chosen among clients x targets and executed in seeded order on one server; each policy set after the first is installed by rewriting the file and a real SIGHUP. Callers without a usable identity are a further client class that holds no line under any set: a context without peer info, a peer without credentials, a TLS state whose presented certificate is called admin but has no (or an empty) verified chain, a verified certificate without CommonName (SAN-only; client id = empty string; also with an issuer called admin), and verified look-alikes of admin (other case, trailing space, blank name). They replace the stranger in half of the denied cases that fall on it, and an identity sweep adds per set one call by the next kind in rotation for every other method (alternating), so every method x kind pair comes up; all of these must be refused and leave the digest unchanged (signature method/caller:kind/denied). A case is non-trivial when its decision is determined by the documented contract and the shape's precondition (paused partition, existing group subscriber, stored cursor, existing member) was established; signature = method/shape/decision.")
	c15Assumptions(rep)
	methods := c15CheckMethodCoverage(rep)
	sets := kit.Scale(40, 600)
	sets = kit.EnvInt("C15_SETS", sets)
	base := kit.NewRNG(kit.Mix(kit.Seed(), 0xc15a))
	var w *c15World
	defer func() {
		if w != nil {
			w.close()
		}
	}()
	gen := 0
	for set := 0; set < sets; set++ {
		rng := base.Fork(uint64(set))
		if set%shards != shard {
			continue
		}
		gen++
		pol := c15GenPolicy(rng.Fork(1), gen)
		if w == nil {
			var err error
			w, err = c15NewWorld(rep, fmt.Sprintf("s%d", shard), pol)
			if err != nil {
				rep.Inconc("server with authorisation did not come up: " + err.Error())
				return
			}
			w.kindRot = shard * 4 // the shards walk through different kinds per method
			rep.Count("policy_cold_loads", 1)
		} else {
			applied, err := w.setPolicy(pol)
			if err != nil {
				rep.Inconc(fmt.Sprintf("set %d: policy reload: %v", set, err))
				return
			}
			if !applied {
				rep.Eval()
				rep.Violation("C15:reload:not-applied", fmt.Sprintf("set %d: policy file rewritten and SIGHUP delivered %d times (each seen on the twin signal channel, the process kept serving authorised calls in between), but the enforcer still does not answer with the new policy after %v", set, 3, 3*c15Wait/2),
					map[string]interface{}{"seed": kit.Seed(), "policy_set": set, "policy_file": w.policyPath})
				return
			}
			rep.Count("policy_reloads_by_sighup", 1)
		}
		calls := w.genCalls(methods, rng.Fork(2))
		if gen == 1 {
			var lines int
			for _, c := range c15Cli {
				lines += len(pol.Lines[c])
			}
			rep.Sample(map[string]interface{}{"policy_set": set, "lines_of_c1_c2_c3": lines, "calls": len(calls), "first_call": fmt.Sprintf("%s/%s client=%s target=%s → %s", calls[0].Method, calls[0].Shape, calls[0].Client, calls[0].Target, calls[0].decide(pol))})
		}
		for _, c := range calls {
			w.exec(set, c)
		}
		rep.Count("policy_sets", 1)
	}
	if w != nil {
		rep.Count("sighup_sent", int64(w.reloads))
	}
}

// TestVerifC15Reload: many reloads, each with concurrent callers, then probes
// of every (client, stream) pair and a few full cases under the new policy.
func TestVerifC15Reload(t *testing.T) {
	rep := kit.NewReport("C15", "reload")
	defer rep.Write()
	rep.SetRule("Each round generates a new policy set from the seed, rewrites the policy file and delivers a real SIGHUP while two goroutines keep calling read-only RPCs whose decision is the same under the old and the new set. After the enforcer answers with the new generation marker, FetchPartitionMetadata for every client x live stream and FetchMetadata for every client (c1..c3, the stranger and, per round, two identity-less / look-alike callers in rotation, which no set gives a line) must be decided by the NEW set, and a few seeded full cases (state digest oracle) are run. A probe is non-trivial when its decision differs between the old and the new set; signature = probe/old→new.")
	c15Assumptions(rep)
	methods := c15CheckMethodCoverage(rep)
	rounds := kit.EnvInt("C15_ROUNDS", kit.Scale(100, 1000))
	base := kit.NewRNG(kit.Mix(kit.Seed(), 0xc15b))
	pol := c15GenPolicy(base.Fork(0), 0)
	w, err := c15NewWorld(rep, "rl", pol)
	if err != nil {
		rep.Inconc("server with authorisation did not come up: " + err.Error())
		return
	}
	defer w.close()
	type probe struct {
		method, cli, obj string
		req              gproto.Message
	}
	var probes []probe
	for _, cli := range append(append([]string{}, c15Cli...), c15Stranger) {
		probes = append(probes, probe{"FetchMetadata", cli, "*", &client.FetchMetadataRequest{}})
		for _, s := range c15Live {
			probes = append(probes, probe{"FetchPartitionMetadata", cli, s, &client.FetchPartitionMetadataRequest{Stream: s, Partition: 0}})
		}
	}
	baseProbes := probes
	for round := 1; round <= rounds; round++ {
		rng := base.Fork(uint64(round))
		next := c15GenPolicy(rng.Fork(1), round)
		old := w.pol
		// two identity-less / look-alike callers per round, in rotation: no
		// policy set gives them a line, before, during or after a reload
		probes = append([]probe{}, baseProbes...)
		for k := 0; k < 2; k++ {
			cli := c15IdentityKinds[(int(kit.Seed()%9)+2*round+k)%len(c15IdentityKinds)]
			probes = append(probes, probe{"FetchMetadata", cli, "*", &client.FetchMetadataRequest{}})
			for _, s := range c15Live {
				probes = append(probes, probe{"FetchPartitionMetadata", cli, s, &client.FetchPartitionMetadataRequest{Stream: s, Partition: 0}})
			}
		}
		if err := w.normalize(); err != nil {
			rep.Inconc(fmt.Sprintf("round %d: restoring the default world: %v", round, err))
			return
		}
		// concurrent callers on pairs whose decision does not change
		var stable []probe
		for _, p := range probes {
			if old.has(p.cli, p.obj, p.method) == next.has(p.cli, p.obj, p.method) {
				stable = append(stable, p)
			}
		}
		stop := make(chan struct{})
		var wg sync.WaitGroup
		var during int64
		for g := 0; g < 2 && len(stable) > 0; g++ {
			wg.Add(1)
			go func(g int) {
				defer wg.Done()
				for i := g; ; i++ {
					select {
					case <-stop:
						return
					default:
					}
					p := stable[i%len(stable)]
					_, err := w.call(p.method, p.cli, p.req, c15Wait)
					atomic.AddInt64(&during, 1)
					want := old.has(p.cli, p.obj, p.method)
					if (err == nil) != want && (err == nil || c15AuthzError(err)) {
						fp := "C15:reload:decision-changed-during-reload"
						if cls := c15IdentityClass(p.cli); cls != "" {
							fp = "C15:" + p.method + ":not-refused:caller=" + cls
						}
						rep.Violation(fp, fmt.Sprintf("round %d: %s by %s on %s is %v under the old and the new policy set, but a call made while the policy was being reloaded returned err=%v", round, p.method, p.cli, p.obj, want, err),
							map[string]interface{}{"seed": kit.Seed(), "round": round})
					}
				}
			}(g)
		}
		applied, err := w.setPolicy(next)
		close(stop)
		wg.Wait()
		rep.Count("calls_during_reload", atomic.LoadInt64(&during))
		if err != nil {
			rep.Inconc(fmt.Sprintf("round %d: policy reload: %v", round, err))
			return
		}
		if !applied {
			rep.Eval()
			rep.Violation("C15:reload:not-applied", fmt.Sprintf("round %d: policy file rewritten and SIGHUP delivered 3 times (each seen on the twin signal channel, the process kept serving authorised calls in between), but the enforcer still does not answer with the new policy after %v", round, 3*c15Wait/2),
				map[string]interface{}{"seed": kit.Seed(), "round": round, "policy_file": w.policyPath})
			return
		}
		rep.Count("policy_reloads_by_sighup", 1)
		for _, p := range probes {
			_, err := w.call(p.method, p.cli, p.req, c15Wait)
			was, now := old.has(p.cli, p.obj, p.method), next.has(p.cli, p.obj, p.method)
			rep.Eval()
			if err != nil && !c15AuthzError(err) {
				rep.Inconc(fmt.Sprintf("round %d: probe %s by %s on %s failed for another reason: %v", round, p.method, p.cli, p.obj, err))
				continue
			}
			if was != now {
				rep.Nontrivial(fmt.Sprintf("%s/%v→%v", p.method, was, now))
				rep.Count("probes_flipped", 1)
			}
			kind := c15IdentityKind(p.cli)
			if kind != "" {
				rep.Count("identity_probes", 1)
				rep.Nontrivial(p.method + "/caller:" + kind)
			}
			if (err == nil) == now {
				continue
			}
			fp := "C15:reload:wrong-decision"
			if was != now {
				fp = "C15:reload:stale-policy"
			}
			if kind != "" {
				fp = "C15:" + p.method + ":not-refused:caller=" + c15IdentityClass(p.cli)
			}
			rep.Violation(fp, fmt.Sprintf("round %d: after the reload %s by %s on %s must be allowed=%v (old set: %v) but returned err=%v", round, p.method, p.cli, p.obj, now, was, err),
				map[string]interface{}{"seed": kit.Seed(), "round": round, "client_lines": next.linesOf(p.cli, p.obj), "client_identity": c15DescribeClient(p.cli)})
		}
		// a few full cases under the new policy, preferring methods with effects
		calls := w.genCalls(methods, rng.Fork(2))
		n := 0
		for _, c := range calls {
			if n >= 4 {
				break
			}
			if c.decide(next) == c15Undet {
				continue
			}
			// only cases whose decision the reload changed or a seeded few
			changed := false
			for _, nd := range c.Need {
				if old.has(c.Client, nd[0], nd[1]) != next.has(c.Client, nd[0], nd[1]) {
					changed = true
				}
			}
			if !changed {
				continue
			}
			w.exec(round, c)
			n++
		}
		if round <= 2 {
			rep.Sample(map[string]interface{}{"round": round, "stable_pairs": len(stable), "calls_during_reload": atomic.LoadInt64(&during), "full_cases": n})
		}
	}
	rep.Count("sighup_sent", int64(w.reloads))
}
