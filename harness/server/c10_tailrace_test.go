//go:build verif

package server

// C10 — unit "tailrace": a subscription that was asked to keep waiting (stop
// on cancel) and has caught up with the HW must deliver every message that
// becomes committed afterwards, also when exactly ONE commit happens and
// nothing follows it.
//
// The other C10 units commit the fence while the subscription has been parked
// for a long time.  Here the commit is made to collide with the moment the
// subscription's committed reader goes to wait: the hook point
// reader.beforeWaitHW (fired by the reader right before it registers as an HW
// waiter) publishes "reader about to wait at HW h" through an atomic; the
// committer goroutine polls that atomic and issues the next single commit
// (SetHighWatermark(h+1) on pre-appended messages, or a Publish through the
// API on an RF=1 stream) after a seeded number of spin iterations while the
// reader itself spins a seeded number of iterations inside the hook — so both
// orders and everything in between are produced thousands of times.
//
// Bounded-progress oracle, decided by state only: the harness goroutine is
// the subscription's ONLY consumer.  While it has not received offset k and is
// not inside a receive, the subscribe loop cannot have handed k over; if at
// such a moment (log mutex held) some reader is registered in the log's
// hwWaiters and the log's HW is >= k, the subscription is parked on an HW
// value that already covers an undelivered message and no later event is
// pending that could wake it: violation.  On the unchanged code a reader only
// registers after re-checking the HW under the same mutex, so the predicate is
// never true.  A watchdog expiring without the predicate holding is
// inconclusive.

import (
	"context"
	"fmt"
	"reflect"
	"runtime"
	"sync"
	"sync/atomic"
	"testing"
	"time"
	"unsafe"

	client "github.com/liftbridge-io/liftbridge-api/v2/go"

	kit "github.com/liftbridge-io/liftbridge/internal/verifkit"
	"github.com/liftbridge-io/liftbridge/server/commitlog"
)

// c10Peek reads hwWaiters and hw of a commit log under the log's own mutex
// (unexported fields of another package, reached through reflect + unsafe;
// read-only).
type c10Peek struct {
	mu      *sync.RWMutex
	waiters reflect.Value
	hw      *int64
}

func c10NewPeek(l commitlog.CommitLog) (pk *c10Peek, err error) {
	defer func() {
		if p := recover(); p != nil {
			err = fmt.Errorf("commit log internals not reachable: %v", p)
		}
	}()
	v := reflect.ValueOf(l)
	if v.Kind() != reflect.Ptr || v.Elem().Kind() != reflect.Struct {
		return nil, fmt.Errorf("commit log is a %T", l)
	}
	e := v.Elem()
	fmu, fw, fhw := e.FieldByName("mu"), e.FieldByName("hwWaiters"), e.FieldByName("hw")
	if !fmu.IsValid() || !fw.IsValid() || !fhw.IsValid() || fmu.Type() != reflect.TypeOf(sync.RWMutex{}) ||
		fw.Kind() != reflect.Map || fhw.Kind() != reflect.Int64 {
		return nil, fmt.Errorf("commit log fields mu / hwWaiters / hw not found with the expected types")
	}
	return &c10Peek{
		mu:      (*sync.RWMutex)(unsafe.Pointer(fmu.UnsafeAddr())),
		waiters: reflect.NewAt(fw.Type(), unsafe.Pointer(fw.UnsafeAddr())).Elem(),
		hw:      (*int64)(unsafe.Pointer(fhw.UnsafeAddr())),
	}, nil
}

func (p *c10Peek) look() (parked int, hw int64) {
	p.mu.RLock()
	parked, hw = p.waiters.Len(), *p.hw
	p.mu.RUnlock()
	return
}

var (
	c10TRActive  atomic.Bool
	c10TRArrived atomic.Int64 // HW the reader is about to wait at, +1 (0 = none)
	c10TRSeq     atomic.Uint64
	c10TRSpinMax atomic.Int64
	c10TRHits    atomic.Int64
	c10TRSink    atomic.Uint64
)

func c10Spin(n int64) {
	x := uint64(n)
	for i := int64(0); i < n; i++ {
		x = x*6364136223846793005 + 1442695040888963407
	}
	if x == 42 {
		c10TRSink.Add(1)
	}
}

func c10TRHook(args ...interface{}) error {
	if !c10TRActive.Load() || len(args) == 0 {
		return nil
	}
	hw, ok := args[0].(int64)
	if !ok {
		return nil
	}
	c10TRHits.Add(1)
	c10TRArrived.Store(hw + 2) // hw >= -1
	if m := c10TRSpinMax.Load(); m > 0 {
		c10Spin(int64(kit.Mix(c10TRSeq.Add(1), 0xC105) % uint64(m)))
	}
	return nil
}

type c10TRVariant struct {
	Seg     int64  `json:"segment_max_bytes"`
	Mode    string `json:"mode"` // direct | publish
	Trials  int    `json:"trials"`
	SpinMax int64  `json:"spin_max_iterations"`
}

func c10TailRaceStream(rep *kit.Report, c *vfCluster, srv *Server, idx int, v c10TRVariant, seed uint64) {
	rng := kit.NewRNG(seed)
	name := fmt.Sprintf("c10tr%d", idx)
	witness := func(k int64, obs string) map[string]any {
		return map[string]any{"seed": kit.Seed(), "stream_seed": seed, "variant": v, "commit_of_offset": k, "observed": obs}
	}
	if err := c.CreateStream(&client.CreateStreamRequest{Subject: name + ".subj", Name: name, ReplicationFactor: 1,
		SegmentMaxBytes: &client.NullableInt64{Value: v.Seg}, CleanerInterval: &client.NullableInt64{Value: 3600 * 1000}}); err != nil {
		rep.Inconc("create stream: " + err.Error())
		return
	}
	if _, err := c.PartitionLeader(name, 0, c10Watchdog); err != nil {
		rep.Inconc(err.Error())
		return
	}
	p := srv.metadata.GetPartition(name, 0)
	pk, err := c10NewPeek(p.log)
	if err != nil {
		rep.Inconc("tailrace: " + err.Error())
		return
	}
	val := func(k int) []byte { return []byte(fmt.Sprintf("%s-%06d", name, k)) }
	if v.Mode == "direct" {
		for k := 0; k < v.Trials; {
			batch := make([]*commitlog.Message, 0, 200)
			for j := 0; j < 200 && k < v.Trials; j++ {
				batch = append(batch, &commitlog.Message{MagicByte: 1, Timestamp: c10Now(), LeaderEpoch: p.log.LastLeaderEpoch(), Value: val(k), Headers: map[string][]byte{}})
				k++
			}
			if _, err := p.log.Append(batch); err != nil {
				rep.Inconc("append: " + err.Error())
				return
			}
		}
	}
	ctx, cancel := context.WithCancel(context.Background())
	defer cancel()
	c10TRArrived.Store(0)
	c10TRSpinMax.Store(v.SpinMax)
	c10TRActive.Store(true)
	defer c10TRActive.Store(false)
	sub, err := srv.api.SubscribeInternal(ctx, &client.SubscribeRequest{Stream: name, StartPosition: client.StartPosition_OFFSET, StartOffset: 0})
	if err != nil {
		rep.Inconc("subscribe: " + err.Error())
		return
	}
	defer sub.Close()
	poll := time.NewTimer(time.Hour)
	defer poll.Stop()
	for k := int64(0); k < int64(v.Trials); k++ {
		// 1. the subscription's reader reaches its wait point with HW k-1
		arrived := false
		for i := 0; i < 200000 && !arrived; i++ {
			arrived = c10TRArrived.Load() == k+1
		}
		if !arrived {
			if !vfWait(c10Watchdog, func() bool { return c10TRArrived.Load() == k+1 }) {
				rep.Inconc(fmt.Sprintf("tailrace %s: watchdog, the caught-up subscription never reached its wait point at HW %d", name, k-1))
				return
			}
		}
		// 2. exactly one commit, aligned with the reader going to wait
		c10Spin(int64(rng.Intn(int(v.SpinMax) + 1)))
		if v.Mode == "direct" {
			p.log.SetHighWatermark(k)
		} else {
			pctx, pcancel := context.WithTimeout(context.Background(), c10Watchdog)
			_, err := srv.api.Publish(pctx, &client.PublishRequest{Stream: name, Value: val(int(k)), AckPolicy: client.AckPolicy_LEADER})
			pcancel()
			if err != nil {
				rep.Inconc("tailrace publish: " + err.Error())
				return
			}
		}
		// 3. it must be delivered; decided by state
		deadline := time.Now().Add(c10Watchdog)
		wait := 200 * time.Microsecond
		for got := false; !got; {
			if !poll.Stop() {
				select {
				case <-poll.C:
				default:
				}
			}
			poll.Reset(wait)
			select {
			case m := <-sub.Messages():
				if m.Offset != k || string(m.Value) != string(val(int(k))) {
					rep.Violation("C10:tailrace:wrong-delivery", fmt.Sprintf("caught-up subscription on %s: after the single commit of offset %d it delivered offset %d value %q", name, k, m.Offset, m.Value), witness(k, "wrong delivery"))
					return
				}
				got = true
			case s := <-sub.Errors():
				rep.Violation("C10:tailrace:ended", fmt.Sprintf("keep-waiting subscription on %s ended with %v %q before delivering committed offset %d", name, s.Code(), s.Message(), k), witness(k, "ended"))
				return
			case <-poll.C:
				parked, hw := pk.look()
				if parked > 0 && hw >= k {
					rep.Violation("C10:tailrace:lost-wakeup", fmt.Sprintf("caught-up keep-waiting subscription on %s (%s commits): offset %d is committed (HW %d) and not delivered, the subscription's reader is registered in hwWaiters and nothing else is pending: it waits until some LATER commit (commit #%d of this stream, reader wait points hit so far %d)", name, v.Mode, k, hw, k, c10TRHits.Load()), witness(k, "parked with HW >= undelivered offset"))
					return
				}
				if time.Now().After(deadline) {
					rep.Inconc(fmt.Sprintf("tailrace %s: watchdog, offset %d neither delivered nor the subscription parked (parked=%d hw=%d)", name, k, parked, hw))
					return
				}
				if wait < 5*time.Millisecond {
					wait *= 2
				}
			}
		}
		rep.Count("single_commits_delivered_"+v.Mode, 1)
	}
	rep.Eval()
	rep.Nontrivial(fmt.Sprintf("%s|seg=%d|spin=%d", v.Mode, v.Seg, v.SpinMax))
	sub.Close()
	cancel()
	dctx, dcancel := context.WithTimeout(context.Background(), c10Watchdog)
	srv.api.DeleteStream(dctx, &client.DeleteStreamRequest{Name: name}) // nolint: errcheck
	dcancel()
}

func TestVerifC10TailRace(t *testing.T) {
	rep := kit.NewReport("C10", "tailrace")
	defer rep.Write()
	c10InstallClock()
	rep.SetRule("one single-node server, one stream at a time (RF=1, segment size 4 KiB / 1 MiB), ONE forward subscription from offset 0 with stop-on-cancel consumed by the harness goroutine; per trial the harness waits (atomic set by the hook point reader.beforeWaitHW) until the subscription's committed reader is about to wait at HW k-1, then makes exactly one commit of offset k — mode direct: SetHighWatermark(k) on pre-appended messages; mode publish: a Publish through the API — after a seeded spin of 0..S iterations while the reader spins a seeded 0..S iterations inside the hook (S in {0, 60, 400, 3000}), and requires delivery of k before the next commit is made; verdict by state: reader registered in hwWaiters while HW >= an offset the only consumer has not received = lost wake-up; watchdog = inconclusive; non-trivial = a stream whose trials all completed; distinct = (mode, segment size, spin range)")
	rep.Assume("the harness goroutine is the only consumer of the subscription's unbuffered message channel, so 'not received by the harness' equals 'not handed over by the subscribe loop'")
	if runtime.GOMAXPROCS(0) < 2 {
		rep.Inconc("tailrace needs at least two CPUs")
		return
	}
	c, srv, err := vfSingle("c10tailrace", func(cfg *Config) {
		cfg.Streams.CleanerInterval = 3600 * 1e9
	})
	if err != nil {
		rep.Inconc("server start: " + err.Error())
		return
	}
	defer c.Cleanup()
	remove := vfHooks.On("reader.beforeWaitHW", c10TRHook)
	defer remove()
	root := kit.NewRNG(kit.Mix(kit.Seed(), 0xC107A))
	nd := kit.Scale(4000, 16000)
	np := kit.Scale(250, 1500)
	variants := []c10TRVariant{
		{Seg: 1 << 20, Mode: "direct", Trials: nd, SpinMax: 60},
		{Seg: 4096, Mode: "direct", Trials: nd, SpinMax: 400},
		{Seg: 1 << 20, Mode: "direct", Trials: nd, SpinMax: 0},
		{Seg: 1 << 20, Mode: "direct", Trials: nd, SpinMax: 3000},
		{Seg: 4096, Mode: "publish", Trials: np, SpinMax: 400},
		{Seg: 1 << 20, Mode: "publish", Trials: np, SpinMax: 3000},
	}
	for i, v := range variants {
		if rep.NumViolations() > 0 {
			break
		}
		c10TailRaceStream(rep, c, srv, i, v, root.Uint64())
		if i == 0 {
			rep.Sample(map[string]any{"variant": v, "reader_wait_points_hit": c10TRHits.Load()})
		}
	}
	rep.Count("reader_wait_points_hit", c10TRHits.Load())
}
