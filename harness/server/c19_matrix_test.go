//go:build verif

package server

// C19 — configuration and state corners of the telemetry switch (in-process).
//
// Phase A, "off means off whatever else the telemetry section says": every
// disabling route (programmatic Config, config file nested / dotted,
// LIFTBRIDGE_TELEMETRY_ENABLED=false with and without a config file) is crossed
// with every class of reporting interval an operator can write next to it
// (unset, positive, 0, negative; given in the file, through
// LIFTBRIDGE_TELEMETRY_INTERVAL_SECONDS or programmatically).  A real server is
// started, used and stopped per cell; the recorder that replaces
// http.DefaultTransport must hold ZERO requests when the last Stop() of the
// phase has returned.
//
// Phase B, "a report never carries anything but the random instance id":
// telemetry ON while the instance-id file <data dir>/.instance_id is in an
// unusual state (a directory at that path, a symlink that cannot be followed,
// an empty file, a file written by an earlier run) and the operator-chosen
// server id / namespace / data-directory name are needles.  Either no report
// is sent at all, or every report passes the judge of the in-process unit:
// instance_id looks like a version-4 UUID, keys whitelisted, no needle in URL /
// headers / body.
//
// The servers of a phase run concurrently (the recorder is process-global);
// the phases are strictly separated, so a request seen in phase A is a
// violation whoever sent it.  It is attributed to its cell through the
// instance-id file a collector leaves in the cell's data directory.

import (
	"context"
	"encoding/json"
	"fmt"
	"net/http"
	"os"
	"path/filepath"
	"runtime"
	"sort"
	"strings"
	"sync"
	"testing"
	"time"

	client "github.com/liftbridge-io/liftbridge-api/v2/go"

	kit "github.com/liftbridge-io/liftbridge/internal/verifkit"
)

const c19EnvInterval = "LIFTBRIDGE_TELEMETRY_INTERVAL_SECONDS"

var (
	c19mOffRoutes = []string{"programmatic", "config-file-nested", "config-file-dotted", "env-var:with-config-file", "env-var:no-config-file"}
	c19mIvClasses = []string{"unset", "positive", "zero", "negative"}
	// instance-id file states; "healthy" is the control that shows the
	// recorder alive in this phase
	c19mIDStates = []string{"healthy", "directory-at-path", "nonempty-directory-at-path", "dangling-symlink", "symlink-loop", "empty-file", "file-from-earlier-run", "file-with-trailing-newline"}
)

type c19mCell struct {
	Idx      int               `json:"idx"`
	Round    int               `json:"round"`
	Phase    string            `json:"phase"`
	Route    string            `json:"route"`
	IvClass  string            `json:"interval_class,omitempty"`
	IvVia    string            `json:"interval_given_through,omitempty"`
	Interval int               `json:"interval_seconds,omitempty"`
	IDState  string            `json:"instance_id_file_state,omitempty"`
	Spelling c19Spelling       `json:"optout_spelling"`
	Env      map[string]string `json:"env,omitempty"`
	File     string            `json:"config_file,omitempty"`
	Parsed   string            `json:"parsed_telemetry,omitempty"`
	Needles  c19Needles        `json:"needles"`
	rng      *kit.RNG          // the cell's own generator (forked before the phase starts)
	// filled while the cell runs
	dir       string
	dataDir   string
	natsURL   string
	listen    string
	completed bool
	collector string // "", "off", "on" (phase B: was a collector created)
}

func (c *c19mCell) tag() string {
	if c.Phase == "A" || c.Phase == "S" {
		sp := ""
		if c.Route != "programmatic" {
			sp = "|enabled=" + c.Spelling.Text
		}
		return fmt.Sprintf("%s%d:%s%s|interval=%s(%s)", c.Phase, c.Idx, c.Route, sp, c.IvClass, c.IvVia)
	}
	return fmt.Sprintf("B%d:%s|instance-id-file=%s", c.Idx, c.Route, c.IDState)
}

func c19mInterval(rng *kit.RNG, class string) int {
	switch class {
	case "positive":
		return []int{1, 2, 60, 3600, 86400}[rng.Intn(5)]
	case "zero":
		return 0
	case "negative":
		return -[]int{1, 2, 60, 86400, 1 << 30}[rng.Intn(5)]
	}
	return 0
}

var c19mEnvMu sync.Mutex // configurations are built one at a time: two routes go through the process environment

// c19mConfig builds the configuration of one cell.  The environment is only
// touched while NewConfig runs (it reads the variables at that moment).
func c19mConfig(c *c19mCell) (*Config, error) {
	c19mEnvMu.Lock()
	defer c19mEnvMu.Unlock()
	n := c.Needles
	os.Unsetenv(c19EnvVar)
	os.Unsetenv(c19EnvInterval)
	defer os.Unsetenv(c19EnvVar)
	defer os.Unsetenv(c19EnvInterval)
	setenv := func(k, v string) {
		os.Setenv(k, v)
		if c.Env == nil {
			c.Env = map[string]string{}
		}
		c.Env[k] = v
	}
	file := filepath.Join(c.dir, "liftbridge.yaml")
	fromFile := func(tel string) (*Config, error) {
		c.File = c19Yaml(n, c.natsURL, c.dataDir, tel)
		if err := os.WriteFile(file, []byte(c.File), 0644); err != nil {
			return nil, err
		}
		return NewConfig(file)
	}
	programmatic := func(cfg *Config) {
		cfg.Listen = HostPort{Host: "127.0.0.1", Port: 0}
		cfg.Host = n.AdvHost
		cfg.Port = 0
		cfg.DataDir = c.dataDir
		cfg.NATS.Servers = []string{c.natsURL}
		cfg.NATS.User, cfg.NATS.Password = n.NATSUser, n.NATSPass
		cfg.Clustering.ServerID = n.ServerID
		cfg.Clustering.Namespace = n.Namespace
		cfg.Clustering.RaftBootstrapSeed = true
		cfg.Clustering.MinISR = 1
	}
	nested := func(enabled string) string {
		s := "telemetry:\n"
		if enabled != "" {
			s += "  enabled: " + enabled + "\n"
		}
		if c.IvClass != "unset" && c.IvVia == "file" {
			s += fmt.Sprintf("  interval:\n    seconds: %d\n", c.Interval)
		}
		if s == "telemetry:\n" {
			return ""
		}
		return s
	}
	var cfg *Config
	var err error
	if c.Spelling.Text == "" {
		c.Spelling = c19Documented
	}
	off := c.Spelling.Text
	switch c.Route {
	case "programmatic":
		cfg = NewDefaultConfig()
		programmatic(cfg)
		cfg.Telemetry.Enabled = false
		if c.IvClass != "unset" {
			c.IvVia = "programmatic"
			cfg.Telemetry.IntervalSeconds = c.Interval
		}
	case "config-file-nested":
		if c.IvClass != "unset" {
			c.IvVia = "file"
		}
		cfg, err = fromFile(nested(off))
	case "config-file-dotted":
		tel := "telemetry.enabled: " + off + "\n"
		if c.IvClass != "unset" {
			c.IvVia = "file"
			tel += fmt.Sprintf("telemetry.interval.seconds: %d\n", c.Interval)
		}
		cfg, err = fromFile(tel)
	case "env-var:with-config-file":
		setenv(c19EnvVar, off)
		if c.IvClass != "unset" {
			if (c.Idx+c.Round)%2 == 0 {
				c.IvVia = "file"
			} else {
				c.IvVia = "env"
				setenv(c19EnvInterval, fmt.Sprint(c.Interval))
			}
		}
		cfg, err = fromFile(nested(""))
	case "env-var:no-config-file":
		// what main.go does without --config: NewConfig("") and then the flags
		setenv(c19EnvVar, off)
		if c.IvClass != "unset" && (c.Idx+c.Round)%2 == 0 {
			c.IvVia = "env"
			setenv(c19EnvInterval, fmt.Sprint(c.Interval))
		}
		cfg, err = NewConfig("")
		if err == nil {
			programmatic(cfg)
			if c.IvClass != "unset" && c.IvVia != "env" {
				c.IvVia = "programmatic"
				cfg.Telemetry.IntervalSeconds = c.Interval
			}
		}
	case "default-on":
		cfg = NewDefaultConfig()
		programmatic(cfg)
		cfg.Telemetry.IntervalSeconds = 1
	case "config-file-on":
		cfg, err = fromFile("telemetry:\n  enabled: true\n  interval:\n    seconds: 1\n")
	default:
		err = fmt.Errorf("unknown route %s", c.Route)
	}
	if err != nil {
		return nil, err
	}
	cfg.LogSilent = true
	c.Parsed = fmt.Sprintf("enabled=%v interval.seconds=%d", cfg.Telemetry.Enabled, cfg.Telemetry.IntervalSeconds)
	return cfg, nil
}

func c19mUUID(rng *kit.RNG) string {
	b := rng.Bytes(16)
	b[6] = (b[6] & 0x0f) | 0x40
	b[8] = (b[8] & 0x3f) | 0x80
	return fmt.Sprintf("%08x-%04x-%04x-%04x-%012x", b[0:4], b[4:6], b[6:8], b[8:10], b[10:16])
}

// c19mPrepareIDFile puts <data dir>/.instance_id into the cell's state before
// the server starts.
func c19mPrepareIDFile(c *c19mCell, rng *kit.RNG) error {
	if err := os.MkdirAll(c.dataDir, 0755); err != nil {
		return err
	}
	p := filepath.Join(c.dataDir, ".instance_id")
	switch c.IDState {
	case "healthy":
		return nil
	case "directory-at-path":
		return os.Mkdir(p, 0755)
	case "nonempty-directory-at-path":
		if err := os.Mkdir(p, 0755); err != nil {
			return err
		}
		return os.WriteFile(filepath.Join(p, "lost+found"), []byte("x"), 0644)
	case "dangling-symlink": // target lies in a directory that does not exist: neither readable nor creatable
		return os.Symlink(filepath.Join(c.dir, "no-such-dir", "id"), p)
	case "symlink-loop":
		return os.Symlink(".instance_id", p)
	case "empty-file":
		return os.WriteFile(p, nil, 0644)
	case "file-from-earlier-run":
		return os.WriteFile(p, []byte(c19mUUID(rng)), 0644)
	case "file-with-trailing-newline":
		return os.WriteFile(p, []byte(c19mUUID(rng)+"\n"), 0644)
	}
	return fmt.Errorf("unknown instance-id file state %s", c.IDState)
}

// c19mLife runs one server lifetime for a cell: start, become leader, a short
// needle-carrying activity, stop.  It returns a reason when the lifetime is
// not usable as an observation.
// c19AfterNew: *Config -> func() run between New(cfg) and Start() (an embedding
// program that adjusts its configuration after constructing the server).
var c19AfterNew sync.Map

func c19mLife(c *c19mCell, cfg *Config, waitReport func()) string {
	srv := New(cfg)
	if f, ok := c19AfterNew.LoadAndDelete(cfg); ok {
		f.(func())()
	}
	if err := srv.Start(); err != nil {
		return fmt.Sprintf("server did not start: %v", err)
	}
	c.listen = fmt.Sprintf("127.0.0.1:%d", srv.port)
	if c.Phase != "A" {
		c.collector = "off"
		if srv.telemetry != nil {
			c.collector = "on"
		}
	}
	if !c19WaitReady(srv) {
		srv.Stop()
		return "watchdog: server did not become metadata leader"
	}
	reason := ""
	n := c.Needles
	ctx, cancel := context.WithTimeout(context.Background(), 20*time.Second)
	_, err := srv.api.CreateStream(ctx, &client.CreateStreamRequest{Name: n.Stream, Subject: n.Subject, ReplicationFactor: 1, Group: n.Group})
	cancel()
	if err != nil {
		reason = fmt.Sprintf("activity incomplete: create stream: %v", err)
	} else if !vfWait(20*time.Second, func() bool {
		p := srv.metadata.GetPartition(n.Stream, 0)
		return p != nil && p.IsLeader()
	}) {
		reason = "activity incomplete: watchdog: stream has no leader"
	} else {
		ctx, cancel := context.WithTimeout(context.Background(), 20*time.Second)
		_, err := srv.api.Publish(ctx, &client.PublishRequest{Stream: n.Stream, Key: []byte(n.MsgKey), Value: []byte(n.MsgValue),
			Headers: map[string][]byte{"x-needle": []byte(n.HeaderVal)}, AckPolicy: client.AckPolicy_LEADER})
		cancel()
		if err != nil {
			reason = fmt.Sprintf("activity incomplete: publish: %v", err)
		}
	}
	if waitReport != nil && c.collector == "on" {
		waitReport()
	}
	if err := srv.Stop(); err != nil {
		return fmt.Sprintf("Stop failed: %v", err)
	}
	return reason
}

func TestVerifC19Matrix(t *testing.T) {
	rep := kit.NewReport("C19", "matrix")
	defer rep.Write()
	rep.SetRule("http.DefaultTransport is a recorder; real single-node servers, several at a time.  Phase S (spelling of the opt-out): every spelling of 'off' (false literals of strconv.ParseBool and of YAML 1.1 booleans, bare and — in a file — quoted, plus the word `disabled`; 21 in a file, 15 in the environment) x every route that takes text (config file nested / dotted, LIFTBRIDGE_TELEMETRY_ENABLED with / without a config file) is given to the real NewConfig; every combination that does not come out as disabled is run as a real server lifetime (at most 2 per route x class) and requests recorded there are the violation.  Phase A: {programmatic, config file nested, config file dotted, LIFTBRIDGE_TELEMETRY_ENABLED=<off> with a config file, the same without} x reporting interval {unset, positive, 0, negative} (seeded value; given in the file, through LIFTBRIDGE_TELEMETRY_INTERVAL_SECONDS or programmatically); the cell with the interval unset spells the opt-out `false` as documented, the other cells take the next spelling of a seeded rotation in which the classes alternate — each cell: start, leader, stream + publish with needles, Stop(); oracle when the last Stop() of the phase has returned: ZERO requests recorded (a request is attributed to its cell through the .instance_id file a collector left in the cell's data directory).  Phase B (after phase A has been judged): telemetry ON (defaults / config file, interval 1 s) x state of <data dir>/.instance_id {healthy (control), directory, non-empty directory, symlink into a missing directory, symlink loop, empty file, file of an earlier run, file with trailing newline}, operator-chosen server id / namespace / data-directory name / NATS credentials / stream, subject, message as needles; oracle: either no report, or every report passes the judge (instance_id is a version-4 UUID, whitelisted keys, documented endpoint, no needle of ANY concurrently running cell in URL, headers or body).  non-trivial = the cell's server came up, was used and stopped; distinct = phase x route x spelling (S) / interval class x how given x spelling class (A) / instance-id file state (B) x round")
	rep.Assume("'disabled' leaves no room for the interval: whatever the reporting interval next to an opt-out says (also a value that makes no sense for a ticker), no request may be made.  LIFTBRIDGE_TELEMETRY_INTERVAL_SECONDS is the variable config.go binds for the interval; it is used as an input only")
	rep.Assume("spelling: the documentation shows only `false`.  The other spellings are the closed set 'false literal of Go's ParseBool or of YAML 1.1 booleans, bare or quoted' plus the word `disabled`; every one of them (indeed every value that is not a true literal) switches telemetry off on the tree this check was built on, through every route.  A tree that REFUSES such a value with a configuration error is not judged (counted); one that starts and reports although the operator wrote an 'off' value is")
	rep.Assume("phase B demands nothing about WHETHER a server with an unusable instance-id file reports (staying off is what the unchanged code does); it only demands that whatever is sent identifies the installation by a random UUID and carries no operator-chosen name.  Telemetry ON is never combined with a non-positive interval (time.NewTicker would panic; not this property's subject)")
	rep.Assume("the process runs as uid 0 in the sandbox, so a read-only data directory cannot be produced with permissions; the unusable states used are independent of the uid")

	defer c19PlantEnv(rep)()

	rec := &kit.C19Recorder{}
	oldTransport := http.DefaultTransport
	http.DefaultTransport = rec
	defer func() { http.DefaultTransport = oldTransport }()
	for _, k := range []string{c19EnvVar, c19EnvInterval} {
		if old, had := os.LookupEnv(k); had {
			defer os.Setenv(k, old)
		}
		os.Unsetenv(k)
	}

	rounds := kit.Scale(1, 5)
	workers := kit.EnvInt("C19_MATRIX_WORKERS", 4)
	root := kit.NewRNG(kit.Mix(kit.Seed(), 0xC19A))
	base := vfWorkDir("c19m")
	defer os.RemoveAll(base)
	expect := kit.C19Expect{Version: Version, GOOS: runtime.GOOS, GOARCH: runtime.GOARCH, FreshInstance: true}

	runPhase := func(cells []*c19mCell, waitReport func()) {
		kit.Parallel(len(cells), workers, func(i int) {
			c := cells[i]
			rep.Eval()
			rng := c.rng
			c.dir = filepath.Join(base, fmt.Sprintf("%s%03d", c.Phase, c.Idx))
			c.dataDir = filepath.Join(c.dir, c.Needles.DirName)
			if err := os.MkdirAll(c.dir, 0755); err != nil {
				rep.Inconc(c.tag() + ": " + err.Error())
				return
			}
			ns, natsURL, _ := c19StartNATS(c.Needles.NATSUser, c.Needles.NATSPass)
			defer ns.Shutdown()
			c.natsURL = natsURL
			cfg, err := c19mConfig(c)
			if err != nil {
				rep.Inconc(fmt.Sprintf("%s: configuration could not be built: %v", c.tag(), err))
				return
			}
			if c.Phase == "A" && cfg.Telemetry.Enabled {
				// the route did not switch telemetry off: that is the finding of
				// the in-process unit (route ineffective); here it would only
				// blur the interval question — still run it, the oracle is the same
				rep.Count("phaseA_cells_parsed_enabled", 1)
			}
			if c.Phase == "B" {
				if err := c19mPrepareIDFile(c, rng); err != nil {
					rep.Inconc(fmt.Sprintf("%s: instance-id file state could not be produced: %v", c.tag(), err))
					return
				}
			}
			if reason := c19mLife(c, cfg, waitReport); reason != "" {
				rep.Inconc(c.tag() + ": " + reason)
				if !strings.HasPrefix(reason, "activity incomplete") {
					return
				}
			} else {
				c.completed = true
			}
			rep.Count("server_lifetimes_phase"+c.Phase, 1)
		})
	}

	// judgeOff: requests recorded while only servers with telemetry switched
	// off were running; each is attributed to its cell through the
	// .instance_id file a collector left in the cell's data directory.
	judgeOff := func(cellsA []*c19mCell, reqs []kit.C19Request, round int) {
		if len(reqs) > 0 {
			byID := map[string]*c19mCell{}
			for _, c := range cellsA {
				if b, err := os.ReadFile(filepath.Join(c.dataDir, ".instance_id")); err == nil {
					byID[strings.TrimSpace(string(b))] = c
				}
			}
			blamed := map[*c19mCell][]kit.C19Request{}
			var orphan []kit.C19Request
			for _, rq := range reqs {
				var doc struct {
					ID string `json:"instance_id"`
				}
				json.Unmarshal([]byte(rq.Body), &doc)
				if c := byID[doc.ID]; c != nil && doc.ID != "" {
					blamed[c] = append(blamed[c], rq)
				} else {
					orphan = append(orphan, rq)
				}
			}
			for c, rs := range blamed {
				fp := "C19:telemetry-sent-while-disabled:" + c.Route
				if c.Phase == "S" || c19SpellingIneffective(c.Route, c.Spelling) {
					fp += c19SpellingSuffix(c.Spelling)
				}
				if c.IvClass == "zero" || c.IvClass == "negative" {
					fp += ":interval-" + c.IvClass
				}
				rep.Violation(fp, fmt.Sprintf("telemetry switched off through route %q (opt-out written as %s) with reporting interval %s (%d s, given through %s), yet %d request(s) were made during the server's lifetime (first: %s %s); parsed: %s",
					c.Route, c19mWritten(c), c.IvClass, c.Interval, c.IvVia, len(rs), rs[0].Method, rs[0].URL, c.Parsed),
					map[string]any{"seed": kit.Seed(), "round": round, "cell": c, "requests": rs})
			}
			if len(orphan) > 0 {
				var tags []string
				for _, c := range cellsA {
					tags = append(tags, c.tag())
				}
				rep.Violation("C19:telemetry-sent-while-disabled:matrix", fmt.Sprintf("%d request(s) were made while only servers with telemetry switched off were running (first: %s %s); they could not be attributed to one cell", len(orphan), orphan[0].Method, orphan[0].URL),
					map[string]any{"seed": kit.Seed(), "round": round, "cells": tags, "requests": orphan})
			}
		}
	}

	idx := 0
	for round := 0; round < rounds; round++ {
		// ------------------------------------------------ phase S (once)
		// every spelling of the opt-out x every route that takes text: the
		// configuration is built by the real NewConfig; every combination the
		// tree does NOT turn into "disabled" is then run as a real server
		// lifetime, and only requests recorded there are a violation
		if round == 0 {
			var cellsS []*c19mCell
			perClass := map[string]int{}
			sweepDir := filepath.Join(base, "sweep")
			os.MkdirAll(sweepDir, 0755)
			for _, route := range c19mOffRoutes {
				if route == "programmatic" {
					continue
				}
				list := c19FileSpellings
				if strings.HasPrefix(route, "env-var") {
					list = c19EnvSpellings
				}
				for _, sp := range list {
					probe := &c19mCell{Phase: "S", Route: route, IvClass: "unset", IvVia: "none", Spelling: sp, Needles: c19NewNeedles(root.Fork(uint64(9000))), dir: sweepDir, dataDir: filepath.Join(sweepDir, "data"), natsURL: "nats://127.0.0.1:1"}
					cfg, err := c19mConfig(probe)
					rep.Eval()
					rep.Count("spelling_sweep_configurations_built", 1)
					switch {
					case err != nil:
						// a tree may refuse a spelling loudly; that is not "sent while disabled"
						rep.Count("spelling_sweep_refused_with_error/"+sp.Class, 1)
					case !cfg.Telemetry.Enabled:
						rep.Count("spelling_sweep_parsed_disabled/"+sp.Class, 1)
						rep.Nontrivial(fmt.Sprintf("S|%s|%s|parsed-disabled", route, sp.Text))
					default:
						rep.Count("spelling_sweep_parsed_ENABLED/"+sp.Class, 1)
						k := route + "|" + sp.Class
						if perClass[k] < 2 && len(cellsS) < 16 {
							perClass[k]++
							rng := root.Fork(uint64(8000 + len(cellsS)))
							cellsS = append(cellsS, &c19mCell{Idx: len(cellsS), Round: round, Phase: "S", Route: route, IvClass: "unset", IvVia: "none", Spelling: sp, Needles: c19NewNeedles(rng), rng: rng.Fork(1)})
						}
					}
				}
			}
			os.RemoveAll(sweepDir)
			if len(cellsS) > 0 {
				rec.Take()
				rec.SetMode(0)
				runPhase(cellsS, nil)
				reqs := rec.Take()
				rep.Count("requests_recorded_phaseS", int64(len(reqs)))
				judgeOff(cellsS, reqs, round)
				for _, c := range cellsS {
					if c.completed {
						rep.Nontrivial(fmt.Sprintf("S|%s|%s|lifetime", c.Route, c.Spelling.Text))
					}
					os.RemoveAll(c.dir)
				}
				// keep the verdict even if a later cell takes the process down
				rep.Write()
			}
		}

		// ------------------------------------------------ phase A
		// spellings: the cell with the interval left unset keeps the documented
		// `false`; the other three cells of a route take the next entries of a
		// seeded rotation over the remaining spellings (classes alternate)
		srng := root.Fork(uint64(6000 + round))
		fileRot := c19SpellingRotation(srng, c19FileSpellings)
		envRot := c19SpellingRotation(srng, c19EnvSpellings)
		nf, ne := round*6, round*6
		var cellsA []*c19mCell
		for _, route := range c19mOffRoutes {
			for _, cls := range c19mIvClasses {
				rng := root.Fork(uint64(idx))
				c := &c19mCell{Idx: idx, Round: round, Phase: "A", Route: route, IvClass: cls, IvVia: "none", Interval: c19mInterval(rng, cls), Needles: c19NewNeedles(rng), rng: rng.Fork(1)}
				c.Spelling = c19Documented
				if cls != "unset" {
					switch {
					case strings.HasPrefix(route, "config-file"):
						c.Spelling = fileRot[nf%len(fileRot)]
						nf++
					case strings.HasPrefix(route, "env-var"):
						c.Spelling = envRot[ne%len(envRot)]
						ne++
					}
				}
				cellsA = append(cellsA, c)
				idx++
			}
		}
		// seeded order so that the cells sharing a batch differ from round to round
		prng := root.Fork(uint64(7000 + round))
		for i := len(cellsA) - 1; i > 0; i-- {
			j := prng.Intn(i + 1)
			cellsA[i], cellsA[j] = cellsA[j], cellsA[i]
		}
		rec.Take()
		rec.SetMode(round % 3)
		runPhase(cellsA, nil)
		// every server of the phase has been stopped (Stop joins a collector): the record is final
		reqs := rec.Take()
		rep.Count("requests_recorded_phaseA", int64(len(reqs)))
		judgeOff(cellsA, reqs, round)
		for _, c := range cellsA {
			if c.completed {
				if len(reqs) == 0 {
					rep.Count("disabled_lifetimes_with_zero_requests", 1)
					rep.Count("silent/interval-"+c.IvClass+"/"+c.IvVia, 1)
				}
				rep.Nontrivial(fmt.Sprintf("A|%s|%s|%s|%s|round%d", c.Route, c.IvClass, c.IvVia, c.Spelling.Class, round))
				if c.Route != "programmatic" {
					rep.Count("lifetimes_spelling_"+c.Spelling.Class, 1)
				}
			}
			os.RemoveAll(c.dir)
		}
		if round == 0 && len(cellsA) > 0 {
			for _, c := range cellsA[:3] {
				rep.Sample(map[string]any{"cell": c.tag(), "optout_written_as": c19mWritten(c), "parsed": c.Parsed, "env": c.Env, "config_file_telemetry_part": c19mTelemetryPart(c.File), "requests_in_phase": len(reqs)})
			}
		}

		// ------------------------------------------------ phase B
		var cellsB []*c19mCell
		for si, state := range c19mIDStates {
			route := []string{"default-on", "config-file-on"}[(si+round)%2]
			rng := root.Fork(uint64(idx))
			cellsB = append(cellsB, &c19mCell{Idx: idx, Round: round, Phase: "B", Route: route, IDState: state, Needles: c19NewNeedles(rng), rng: rng.Fork(1)})
			idx++
		}
		rec.Take()
		rec.SetMode((round + 1) % 3)
		// observation aid only: a cell whose collector exists stays up until the
		// recorder has seen more requests than when its activity ended (so that
		// a report built after the user data exists is among those judged)
		waitReport := func() {
			k := rec.Len()
			vfWait(5*time.Second, func() bool { return rec.Len() > k })
		}
		runPhase(cellsB, waitReport)
		reqs = rec.Take()
		rep.Count("requests_recorded_phaseB", int64(len(reqs)))
		needles := map[string]string{}
		var tagsB []string
		controlRan := false
		for _, c := range cellsB {
			tagsB = append(tagsB, c.tag()+" collector="+c.collector)
			if c.collector != "" {
				rep.Count("phaseB_collector_"+c.collector+"/"+c.IDState, 1)
			}
			if c.IDState == "healthy" && c.completed {
				controlRan = true
			}
			for l, n := range c.Needles.asMap(c.natsURL, c.listen) {
				who := fmt.Sprintf("(cell %s)", c.tag())
				if strings.Contains(l, "#") {
					needles[l+" "+who] = n
				} else {
					needles[l+"#"+who] = n
				}
			}
		}
		sort.Strings(tagsB)
		for _, rq := range reqs {
			issues, _ := kit.C19Judge(rq, needles, expect)
			rep.Count("requests_judged", 1)
			for _, is := range issues {
				rep.Violation(is.Fingerprint, is.What+" — telemetry enabled, cells running concurrently: "+strings.Join(tagsB, "; "),
					map[string]any{"seed": kit.Seed(), "round": round, "cells": cellsB, "request": rq})
			}
		}
		if controlRan && len(reqs) == 0 {
			rep.Inconc("phase B: the control cell with a healthy data directory ran but the recorder saw no request — the recorder would be blind to a leak")
		}
		for _, c := range cellsB {
			if c.completed && (len(reqs) > 0 || !controlRan) {
				rep.Nontrivial(fmt.Sprintf("B|%s|%s|round%d", c.Route, c.IDState, round))
			}
			os.RemoveAll(c.dir)
		}
		if round == 0 {
			s := map[string]any{"phase": "B", "cells": tagsB, "requests": len(reqs)}
			if len(reqs) > 0 {
				s["first_request"] = reqs[0]
			}
			rep.Sample(s)
		}
	}
}

// c19mWritten: the opt-out as the operator wrote it.
func c19mWritten(c *c19mCell) string {
	switch {
	case c.Route == "programmatic":
		return "Config.Telemetry.Enabled = false"
	case strings.HasPrefix(c.Route, "env-var"):
		return c19EnvVar + "=" + c.Spelling.Text
	case c.Route == "config-file-dotted":
		return "`telemetry.enabled: " + c.Spelling.Text + "`"
	}
	return "`telemetry: {enabled: " + c.Spelling.Text + "}`"
}

// c19mTelemetryPart: the lines of a generated config file that concern telemetry.
func c19mTelemetryPart(y string) string {
	i := strings.Index(y, "telemetry")
	if i < 0 {
		return ""
	}
	return y[i:]
}
