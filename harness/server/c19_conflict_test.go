//go:build verif

package server

// C19 — DISAGREEING sources of the telemetry switch (in-process).
//
// The other units give the switch through ONE source per server.  Operators
// combine them: a shipped / shared configuration file that spells out
// `telemetry: {enabled: true}` and a per-deployment opt-out through the
// environment; a configuration object obtained from NewConfig and switched off
// in code afterwards; an opt-out in the file while the environment still
// carries a reporting interval.  server/config.go calls the variables
// "Environment variables overriding the telemetry settings" and CHANGELOG.md
// documents `export LIFTBRIDGE_TELEMETRY_ENABLED=false` as an opt-out, so:
//
//	file says enabled (nested / dotted, with / without an interval)
//	   x LIFTBRIDGE_TELEMETRY_ENABLED=<off, every spelling class>   => ZERO requests
//	NewConfig(file says enabled | environment says enabled), then
//	   Config.Telemetry.Enabled = false in code                     => ZERO requests
//	file says disabled x LIFTBRIDGE_TELEMETRY_INTERVAL_SECONDS=<n>  => ZERO requests
//	file says disabled x LIFTBRIDGE_TELEMETRY_ENABLED=<on>          => only counted
//	   (the variable overrides the file; enabling is not an opt-out) — whatever
//	   is sent is judged like every other report
//
// Phases are strictly separated; the recorder replaces http.DefaultTransport.

import (
	"encoding/json"
	"fmt"
	"net/http"
	"os"
	"path/filepath"
	"runtime"
	"sort"
	"strings"
	"testing"
	"time"

	kit "github.com/liftbridge-io/liftbridge/internal/verifkit"
)

type c19xCell struct {
	c19mCell
	Kind        string `json:"kind"`                   // env-off-vs-file-on | programmatic-off-after-NewConfig | file-off-env-interval | file-off-vs-env-on | control-both-on
	FileForm    string `json:"file_form"`              // nested | dotted | none (no config file)
	FileEnabled string `json:"file_enabled,omitempty"` // as written in the file; "" = not mentioned
	FileIv      string `json:"file_interval,omitempty"`
	EnvEnabled  string `json:"env_enabled,omitempty"` // "" = variable unset
	EnvIv       string `json:"env_interval,omitempty"`
	ProgOff     bool   `json:"enabled_set_false_in_code_after_NewConfig,omitempty"`
	ProgOffLate bool   `json:"enabled_set_false_in_code_between_New_and_Start,omitempty"`
	KeepEnv     bool   `json:"environment_kept_for_the_server_lifetime,omitempty"` // only for a cell that runs alone
	Expect      string `json:"expect"`                                             // zero | count | some
}

func (c *c19xCell) xtag() string {
	s := fmt.Sprintf("%s%d:%s|file(%s)", c.Phase, c.Idx, c.Kind, c.FileForm)
	if c.FileEnabled != "" {
		s += " enabled=" + c.FileEnabled
	}
	if c.FileIv != "" {
		s += " interval=" + c.FileIv
	}
	if c.EnvEnabled != "" {
		s += "|" + c19EnvVar + "=" + c.EnvEnabled
	}
	if c.EnvIv != "" {
		s += "|" + c19EnvInterval + "=" + c.EnvIv
	}
	if c.ProgOff {
		s += "|then Config.Telemetry.Enabled=false"
	}
	if c.KeepEnv {
		s += "|variables stay set while the server runs"
	}
	return s
}

// c19xTelemetryYaml: the telemetry part of the cell's configuration file.
func c19xTelemetryYaml(c *c19xCell) string {
	switch c.FileForm {
	case "nested":
		s := "telemetry:\n"
		if c.FileEnabled != "" {
			s += "  enabled: " + c.FileEnabled + "\n"
		}
		if c.FileIv != "" {
			s += "  interval:\n    seconds: " + c.FileIv + "\n"
		}
		if s == "telemetry:\n" {
			return ""
		}
		return s
	case "dotted":
		s := ""
		if c.FileEnabled != "" {
			s += "telemetry.enabled: " + c.FileEnabled + "\n"
		}
		if c.FileIv != "" {
			s += "telemetry.interval.seconds: " + c.FileIv + "\n"
		}
		return s
	}
	return ""
}

// c19xConfig builds the cell's configuration through the real NewConfig.  The
// environment is only touched while NewConfig runs.
func c19xConfig(c *c19xCell) (*Config, error) {
	c19mEnvMu.Lock()
	defer c19mEnvMu.Unlock()
	os.Unsetenv(c19EnvVar)
	os.Unsetenv(c19EnvInterval)
	if !c.KeepEnv {
		defer os.Unsetenv(c19EnvVar)
		defer os.Unsetenv(c19EnvInterval)
	}
	c.Env = map[string]string{}
	if c.EnvEnabled != "" {
		os.Setenv(c19EnvVar, c.EnvEnabled)
		c.Env[c19EnvVar] = c.EnvEnabled
	}
	if c.EnvIv != "" {
		os.Setenv(c19EnvInterval, c.EnvIv)
		c.Env[c19EnvInterval] = c.EnvIv
	}
	n := c.Needles
	var cfg *Config
	var err error
	if c.FileForm == "none" {
		// what main.go does without --config: NewConfig("") and then the flags
		if cfg, err = NewConfig(""); err == nil {
			cfg.Listen = HostPort{Host: "127.0.0.1", Port: 0}
			cfg.Host = n.AdvHost
			cfg.Port = 0
			cfg.DataDir = c.dataDir
			cfg.NATS.Servers = []string{c.natsURL}
			cfg.NATS.User, cfg.NATS.Password = n.NATSUser, n.NATSPass
			cfg.Clustering.ServerID = n.ServerID
			cfg.Clustering.Namespace = n.Namespace
			cfg.Clustering.RaftBootstrapSeed = true
			cfg.Clustering.MinISR = 1
		}
	} else {
		file := filepath.Join(c.dir, "liftbridge.yaml")
		c.File = c19Yaml(n, c.natsURL, c.dataDir, c19xTelemetryYaml(c))
		if err = os.WriteFile(file, []byte(c.File), 0644); err == nil {
			cfg, err = NewConfig(file)
		}
	}
	if err != nil {
		return nil, err
	}
	c.Parsed = fmt.Sprintf("enabled=%v interval.seconds=%d", cfg.Telemetry.Enabled, cfg.Telemetry.IntervalSeconds)
	if c.ProgOff && c.ProgOffLate {
		c19AfterNew.Store(cfg, func() { cfg.Telemetry.Enabled = false })
		c.Parsed += " (NewConfig) -> enabled=false (set in code between New(cfg) and Start())"
	} else if c.ProgOff {
		cfg.Telemetry.Enabled = false
		c.Parsed += " (NewConfig) -> enabled=false (set in code)"
	}
	cfg.LogSilent = true
	return cfg, nil
}

func c19xFingerprint(c *c19xCell) string {
	switch c.Kind {
	case "env-off-vs-file-on":
		fp := "C19:telemetry-sent-while-disabled:env-var:config-file-says-enabled"
		// the spelling is named only when it is ineffective on its own (no
		// disagreeing file): then it is the spelling defect, not the precedence
		if c19SpellingIneffective("env-var:with-config-file", c.Spelling) {
			fp += c19SpellingSuffix(c.Spelling)
		}
		return fp
	case "programmatic-off-after-NewConfig":
		if c.ProgOffLate {
			return "C19:telemetry-sent-while-disabled:programmatic:between-New-and-Start"
		}
		return "C19:telemetry-sent-while-disabled:programmatic:after-NewConfig"
	case "file-off-env-interval":
		fp := "C19:telemetry-sent-while-disabled:config-file-" + c.FileForm + ":env-interval"
		if c.IvClass == "zero" || c.IvClass == "negative" {
			fp += ":interval-" + c.IvClass
		}
		return fp
	}
	return "C19:telemetry-sent-while-disabled:" + c.Kind
}

func TestVerifC19Conflict(t *testing.T) {
	rep := kit.NewReport("C19", "conflict")
	defer rep.Write()
	rep.SetRule("http.DefaultTransport is a recorder; real single-node servers configured through the real NewConfig from TWO sources that disagree.  Sweep (configuration level): every spelling of 'off' for LIFTBRIDGE_TELEMETRY_ENABLED (15) x a config file that says enabled: true {nested, dotted} x {no interval, interval in the file}; every combination that does NOT come out disabled is run as a real server lifetime (at most 2 per file form x spelling class).  Phase Z (must stay silent; real lifetimes: start, leader, stream + publish with needles, Stop()): file enabled: true {nested, dotted} x {no interval, interval in the file / through LIFTBRIDGE_TELEMETRY_INTERVAL_SECONDS} x LIFTBRIDGE_TELEMETRY_ENABLED=<off> with the spelling classes documented / go-bool / yaml11-bool / word rotating (seeded member); NewConfig(file says enabled) resp. NewConfig(\"\") with the variable saying true, then Config.Telemetry.Enabled=false in code, before New(cfg) and — one cell — between New(cfg) and Start() (the variables back to unset while the servers run; phase P repeats it with ONE server running alone and LIFTBRIDGE_TELEMETRY_ENABLED=<on> + the interval variable kept in the process environment for its whole lifetime); file enabled: false {nested, dotted} x LIFTBRIDGE_TELEMETRY_INTERVAL_SECONDS {positive, 0, negative}.  Oracle when the last Stop() of the phase has returned: ZERO requests recorded (a request is attributed to its cell through the .instance_id file its collector left).  Phase E (only counted + judged like any report): file enabled: false x LIFTBRIDGE_TELEMETRY_ENABLED=<on>, and a control with both sources saying on (shows the recorder alive).  non-trivial = server came up, was used and stopped (sweep: configuration built); distinct = kind x file form x intervals x spelling")
	rep.Assume("precedence: server/config.go declares the two variables as 'Environment variables overriding the telemetry settings' and CHANGELOG.md documents `export LIFTBRIDGE_TELEMETRY_ENABLED=false` as an opt-out without any condition on the configuration file, so an opt-out through the environment must hold whatever the file says.  The reverse disagreement (file says false, variable says true) is NOT judged: by the same rule the variable wins on the tree this check was built on and the operator asked for telemetry explicitly; it is counted (file_off_env_on/...) and what is sent is judged like every report")
	rep.Assume("Config.Telemetry.Enabled=false assigned after NewConfig returned is the programmatic opt-out of an embedding program; New(config) must honour the value it is given")
	defer c19PlantEnv(rep)()

	rec := &kit.C19Recorder{}
	oldTransport := http.DefaultTransport
	http.DefaultTransport = rec
	defer func() { http.DefaultTransport = oldTransport }()
	for _, k := range []string{c19EnvVar, c19EnvInterval} {
		if old, had := os.LookupEnv(k); had {
			defer os.Setenv(k, old)
		}
		os.Unsetenv(k)
	}

	workers := kit.EnvInt("C19_MATRIX_WORKERS", 4)
	root := kit.NewRNG(kit.Mix(kit.Seed(), 0xC19D))
	base := vfWorkDir("c19x")
	defer os.RemoveAll(base)
	expect := kit.C19Expect{Version: Version, GOOS: runtime.GOOS, GOARCH: runtime.GOARCH, FreshInstance: true}
	rounds := kit.Scale(1, 4)

	runPhase := func(cells []*c19xCell, waitReport func()) {
		kit.Parallel(len(cells), workers, func(i int) {
			c := cells[i]
			rep.Eval()
			c.dir = filepath.Join(base, fmt.Sprintf("%s%03d", c.Phase, c.Idx))
			c.dataDir = filepath.Join(c.dir, c.Needles.DirName)
			if err := os.MkdirAll(c.dir, 0755); err != nil {
				rep.Inconc(c.xtag() + ": " + err.Error())
				return
			}
			ns, natsURL, _ := c19StartNATS(c.Needles.NATSUser, c.Needles.NATSPass)
			defer ns.Shutdown()
			c.natsURL = natsURL
			cfg, err := c19xConfig(c)
			if err != nil {
				// a tree may refuse a combination loudly; that is not "sent while disabled"
				rep.Count("configuration_refused/"+c.Kind, 1)
				return
			}
			if c.Expect == "zero" && cfg.Telemetry.Enabled {
				rep.Count("phaseZ_cells_parsed_enabled", 1)
			}
			if reason := c19mLife(&c.c19mCell, cfg, waitReport); reason != "" {
				rep.Inconc(c.xtag() + ": " + reason)
				if !strings.HasPrefix(reason, "activity incomplete") {
					return
				}
			} else {
				c.completed = true
			}
			rep.Count("server_lifetimes_phase"+c.Phase, 1)
		})
	}

	judgeZero := func(cells []*c19xCell, reqs []kit.C19Request, round int) {
		if len(reqs) == 0 {
			return
		}
		byID := map[string]*c19xCell{}
		for _, c := range cells {
			if b, err := os.ReadFile(filepath.Join(c.dataDir, ".instance_id")); err == nil {
				byID[strings.TrimSpace(string(b))] = c
			}
		}
		blamed := map[*c19xCell][]kit.C19Request{}
		var orphan []kit.C19Request
		for _, rq := range reqs {
			var doc struct {
				ID string `json:"instance_id"`
			}
			json.Unmarshal([]byte(rq.Body), &doc)
			if c := byID[doc.ID]; c != nil && doc.ID != "" {
				blamed[c] = append(blamed[c], rq)
			} else {
				orphan = append(orphan, rq)
			}
		}
		for c, rs := range blamed {
			rep.Violation(c19xFingerprint(c), fmt.Sprintf("two sources disagree and the opt-out lost: %s — parsed: %s — yet %d request(s) were made during the server's lifetime (first: %s %s)",
				c.xtag(), c.Parsed, len(rs), rs[0].Method, rs[0].URL),
				map[string]any{"seed": kit.Seed(), "round": round, "cell": c, "requests": rs})
		}
		if len(orphan) > 0 {
			var tags []string
			for _, c := range cells {
				tags = append(tags, c.xtag())
			}
			rep.Violation("C19:telemetry-sent-while-disabled:conflict-matrix", fmt.Sprintf("%d request(s) were made while only servers with an opt-out in force were running (first: %s %s); they could not be attributed to one cell", len(orphan), orphan[0].Method, orphan[0].URL),
				map[string]any{"seed": kit.Seed(), "round": round, "cells": tags, "requests": orphan})
		}
	}

	// members of the spelling classes, seeded
	byClass := map[string][]c19Spelling{}
	for _, sp := range c19EnvSpellings {
		byClass[sp.Class] = append(byClass[sp.Class], sp)
	}
	classes := []string{"documented", "yaml11-bool", "go-bool", "word"}
	pick := func(rng *kit.RNG, class string) c19Spelling {
		l := byClass[class]
		return l[rng.Intn(len(l))]
	}
	fileShapes := []struct{ form, iv string }{{"nested", ""}, {"dotted", ""}, {"nested", "1"}, {"dotted", "3600"}}

	idx := 0
	for round := 0; round < rounds; round++ {
		var cellsZ []*c19xCell
		newCell := func(phase, kind, expect string) *c19xCell {
			rng := root.Fork(uint64(idx))
			c := &c19xCell{Kind: kind, Expect: expect}
			c.Idx, c.Round, c.Phase = idx, round, phase
			c.Route, c.IvClass, c.IvVia = kind, "unset", "none"
			c.Needles = c19NewNeedles(rng)
			c.rng = rng.Fork(1)
			idx++
			return c
		}

		// ------------------------------------------------ sweep (once)
		if round == 0 {
			perClass := map[string]int{}
			sweepDir := filepath.Join(base, "sweep")
			os.MkdirAll(sweepDir, 0755)
			for _, fs := range fileShapes {
				for _, sp := range c19EnvSpellings {
					probe := &c19xCell{Kind: "env-off-vs-file-on", FileForm: fs.form, FileEnabled: "true", FileIv: fs.iv, EnvEnabled: sp.Text}
					probe.Spelling = sp
					probe.Needles = c19NewNeedles(root.Fork(9000))
					probe.dir, probe.dataDir, probe.natsURL = sweepDir, filepath.Join(sweepDir, "data"), "nats://127.0.0.1:1"
					cfg, err := c19xConfig(probe)
					rep.Eval()
					rep.Count("sweep_configurations_built", 1)
					switch {
					case err != nil:
						rep.Count("sweep_refused_with_error/"+sp.Class, 1)
					case !cfg.Telemetry.Enabled:
						rep.Count("sweep_env_off_wins_over_file_on/"+sp.Class, 1)
						rep.Nontrivial(fmt.Sprintf("sweep|%s|iv=%s|%s|parsed-disabled", fs.form, fs.iv, sp.Text))
					default:
						rep.Count("sweep_parsed_ENABLED_despite_env_off/"+sp.Class, 1)
						k := fs.form + "|" + sp.Class
						if perClass[k] < 2 && len(cellsZ) < 8 {
							perClass[k]++
							c := newCell("Z", "env-off-vs-file-on", "zero")
							c.FileForm, c.FileEnabled, c.FileIv, c.EnvEnabled, c.Spelling = fs.form, "true", fs.iv, sp.Text, sp
							cellsZ = append(cellsZ, c)
						}
					}
				}
			}
			os.RemoveAll(sweepDir)
		}

		// ------------------------------------------------ phase Z
		// file says enabled x environment says off: every file shape twice, every
		// spelling class twice per round
		prng := root.Fork(uint64(5000 + round))
		for k := 0; k < 2*len(fileShapes); k++ {
			fs := fileShapes[k%len(fileShapes)]
			c := newCell("Z", "env-off-vs-file-on", "zero")
			c.Spelling = pick(prng, classes[(k+k/len(fileShapes)+round)%len(classes)])
			c.FileForm, c.FileEnabled, c.FileIv, c.EnvEnabled = fs.form, "true", fs.iv, c.Spelling.Text
			if k >= len(fileShapes) && fs.iv == "" {
				// the interval comes through the environment as well
				c.EnvIv = []string{"1", "60"}[k%2]
			}
			cellsZ = append(cellsZ, c)
		}
		// switched off in code after NewConfig
		{
			c := newCell("Z", "programmatic-off-after-NewConfig", "zero")
			c.FileForm, c.FileEnabled, c.FileIv, c.ProgOff = []string{"nested", "dotted"}[round%2], "true", "1", true
			cellsZ = append(cellsZ, c)
			c = newCell("Z", "programmatic-off-after-NewConfig", "zero")
			c.FileForm, c.EnvEnabled, c.EnvIv, c.ProgOff = "none", []string{"true", "1", "TRUE", "t"}[round%4], "1", true
			cellsZ = append(cellsZ, c)
			// ... and switched off between New(cfg) and Start(): the server
			// reads its configuration when it starts
			c = newCell("Z", "programmatic-off-after-NewConfig", "zero")
			c.FileForm, c.FileEnabled, c.FileIv, c.ProgOff, c.ProgOffLate = []string{"dotted", "nested"}[round%2], "true", "1", true, true
			cellsZ = append(cellsZ, c)
		}
		// file says off, the environment still carries an interval
		for k, iv := range []struct{ class, val string }{{"positive", "1"}, {"zero", "0"}, {"negative", fmt.Sprint(-prng.Range(1, 86400))}} {
			c := newCell("Z", "file-off-env-interval", "zero")
			c.FileForm, c.FileEnabled, c.EnvIv = []string{"nested", "dotted"}[(k+round)%2], "false", iv.val
			c.IvClass, c.IvVia = iv.class, "env"
			c.Spelling = c19Documented
			cellsZ = append(cellsZ, c)
		}
		for i := len(cellsZ) - 1; i > 0; i-- {
			j := prng.Intn(i + 1)
			cellsZ[i], cellsZ[j] = cellsZ[j], cellsZ[i]
		}
		rec.Take()
		rec.SetMode(round % 3)
		runPhase(cellsZ, nil)
		// every server of the phase has been stopped (Stop joins a collector): the record is final
		reqs := rec.Take()
		rep.Count("requests_recorded_phaseZ", int64(len(reqs)))
		judgeZero(cellsZ, reqs, round)
		for _, c := range cellsZ {
			if c.completed {
				if len(reqs) == 0 {
					rep.Count("optout_lifetimes_with_zero_requests/"+c.Kind, 1)
				}
				rep.Nontrivial(fmt.Sprintf("Z|%s|%s|fileiv=%s|enviv=%s|%s|round%d", c.Kind, c.FileForm, c.FileIv, c.EnvIv, c.Spelling.Class, round))
				if c.Kind == "env-off-vs-file-on" {
					rep.Count("env_off_vs_file_on_lifetimes_spelling_"+c.Spelling.Class, 1)
				}
			}
			os.RemoveAll(c.dir)
		}
		if round == 0 {
			for _, c := range cellsZ[:3] {
				rep.Sample(map[string]any{"cell": c.xtag(), "parsed": c.Parsed, "env": c.Env, "config_file_telemetry_part": c19mTelemetryPart(c.File), "requests_in_phase": len(reqs)})
			}
		}
		rep.Write() // keep the verdict even if a later cell takes the process down

		// ------------------------------------------------ phase P (one server, alone)
		// an embedding program started with the variable saying on switches
		// telemetry off in code; the variables stay in the process environment
		// for the whole lifetime of the server
		{
			c := newCell("P", "programmatic-off-after-NewConfig", "zero")
			c.FileForm, c.EnvEnabled, c.EnvIv, c.ProgOff, c.KeepEnv = []string{"none", "nested"}[round%2], []string{"true", "1"}[round%2], "1", true, true
			cellsP := []*c19xCell{c}
			rec.Take()
			rec.SetMode(0)
			runPhase(cellsP, nil)
			os.Unsetenv(c19EnvVar)
			os.Unsetenv(c19EnvInterval)
			reqs := rec.Take()
			rep.Count("requests_recorded_phaseP", int64(len(reqs)))
			judgeZero(cellsP, reqs, round)
			if c.completed {
				if len(reqs) == 0 {
					rep.Count("optout_lifetimes_with_zero_requests/"+c.Kind+":environment-kept", 1)
				}
				rep.Nontrivial(fmt.Sprintf("P|%s|%s|env-kept|round%d", c.Kind, c.FileForm, round))
			}
			os.RemoveAll(c.dir)
		}

		// ------------------------------------------------ phase E
		var cellsE []*c19xCell
		for k, on := range []string{"true", "1"} {
			c := newCell("E", "file-off-vs-env-on", "count")
			c.FileForm, c.FileEnabled, c.EnvEnabled, c.EnvIv = []string{"nested", "dotted"}[(k+round)%2], "false", on, "1"
			cellsE = append(cellsE, c)
		}
		ctl := newCell("E", "control-both-on", "some")
		ctl.FileForm, ctl.FileEnabled, ctl.FileIv, ctl.EnvEnabled = "nested", "true", "1", "true"
		cellsE = append(cellsE, ctl)
		rec.Take()
		rec.SetMode(0)
		waitReport := func() {
			k := rec.Len()
			vfWait(5*time.Second, func() bool { return rec.Len() > k })
		}
		runPhase(cellsE, waitReport)
		reqs = rec.Take()
		rep.Count("requests_recorded_phaseE", int64(len(reqs)))
		needles := map[string]string{}
		var tagsE []string
		for _, c := range cellsE {
			tagsE = append(tagsE, c.xtag()+" parsed: "+c.Parsed+" collector="+c.collector)
			if c.Kind == "file-off-vs-env-on" && c.collector != "" {
				rep.Count("file_off_env_on/collector_"+c.collector, 1)
			}
			for l, n := range c.Needles.asMap(c.natsURL, c.listen) {
				who := fmt.Sprintf("(cell %s%d)", c.Phase, c.Idx)
				if strings.Contains(l, "#") {
					needles[l+" "+who] = n
				} else {
					needles[l+"#"+who] = n
				}
			}
		}
		sort.Strings(tagsE)
		for _, rq := range reqs {
			issues, _ := kit.C19Judge(rq, needles, expect)
			rep.Count("requests_judged", 1)
			for _, is := range issues {
				rep.Violation(is.Fingerprint, is.What+" — telemetry enabled, cells running concurrently: "+strings.Join(tagsE, "; "),
					map[string]any{"seed": kit.Seed(), "round": round, "cells": cellsE, "request": rq})
			}
		}
		if ctl.completed && ctl.collector == "on" && len(reqs) == 0 {
			rep.Inconc("phase E: the control with both sources saying on ran but the recorder saw no request — the recorder would be blind")
		}
		if ctl.completed && ctl.collector != "on" {
			rep.Count("control_both_on_without_collector", 1)
		}
		for _, c := range cellsE {
			if c.completed {
				rep.Nontrivial(fmt.Sprintf("E|%s|%s|collector=%s|round%d", c.Kind, c.FileForm, c.collector, round))
			}
			os.RemoveAll(c.dir)
		}
		if round == 0 {
			rep.Sample(map[string]any{"phase": "E", "cells": tagsE, "requests": len(reqs)})
		}
	}
}
