//go:build verif

package server

// C17 — lifecycle unit: an encrypted stream stays encrypted whatever happens
// to its partition object.
//
// The `server` unit works on partitions that were created a moment ago (plus
// one plain restart).  A partition object is however rebuilt from the stream's
// STORED configuration many times in its life: when a paused stream is resumed
// by the next publish, when the server restarts and replays its Raft log, when
// it restarts from a Raft snapshot, and when a replica installs a snapshot sent
// by the metadata leader.  Whether the rebuilt partition seals and opens values
// depends on what that stored configuration says (per-stream Encryption option)
// and on the server-wide default (streams.encryption) — so both ways of asking
// for encryption are used, the per-stream option with the server default OFF.
//
//   - single-node scenarios (TestVerifC17Lifecycle, most of the budget): a
//     seeded program of lifecycle events (pause, pause with resume-all,
//     read-only on/off, forced Raft snapshot, restart, snapshot then restart,
//     pause then (snapshot then) restart); after EVERY event each affected
//     stream gets new publishes (one alone, then several in flight), the
//     stored values and every file of the partition directory are searched for
//     all values published so far, and a subscriber from the earliest offset
//     must receive exactly all values, old and new.
//   - one 3-node scenario per run: a replica that was down while the stream's
//     Raft entries were compacted away must install a snapshot; the other
//     follower restarts from its own snapshot; then a subscriber reading from
//     each replica must get the published values, and after the old leader is
//     stopped the new leader (a partition rebuilt from a snapshot) takes
//     publishes that are read back and searched for in its files.

import (
	"bytes"
	"context"
	"fmt"
	"os"
	"strings"
	"testing"
	"time"

	client "github.com/liftbridge-io/liftbridge-api/v2/go"

	kit "github.com/liftbridge-io/liftbridge/internal/verifkit"
)

type c17LStream struct {
	name   string
	how    string // how encryption was requested
	vals   []c17Val
	paused bool
}

type c17Life struct {
	rep    *kit.Report
	c      *vfCluster
	id     int
	events []string
	dead   bool
	replay map[string]any
}

func (l *c17Life) srv() *Server { return l.c.Nodes["a"].Server() }

func (l *c17Life) inconc(what string) {
	l.rep.Inconc(fmt.Sprintf("scenario %d [%s]: %s", l.id, strings.Join(l.events, " "), what))
	l.dead = true
}

func (l *c17Life) rp(st *c17LStream, kv ...any) map[string]any {
	r := c17With(l.replay, "events", append([]string(nil), l.events...), "stream", st.name, "encryption_requested_by", st.how, "messages_in_stream", len(st.vals))
	return c17With(r, kv...)
}

// c17LifeValues: n values for one judging step; mostly needles (random bytes /
// structured text of >= 8 bytes), now and then an empty or very short one.
func c17LifeValues(rng *kit.RNG, n int) []c17Val {
	var out []c17Val
	for i := 0; i < n; i++ {
		switch rng.Intn(8) {
		case 0:
			l := rng.Intn(8)
			out = append(out, c17Val{"short", rng.Bytes(l), false})
		case 1, 2:
			l := rng.Range(24, 900)
			out = append(out, c17Val{"text", c17Text(rng, l), true})
		case 3:
			out = append(out, c17Val{"random", rng.Bytes(rng.Range(2000, 9000)), true})
		default:
			out = append(out, c17Val{"random", rng.Bytes(rng.Range(8, 400)), true})
		}
	}
	return out
}

// judge: what the property says, asked right after `event` happened to st.
func (l *c17Life) judge(st *c17LStream, event string, rng *kit.RNG) {
	if l.dead {
		return
	}
	rep := l.rep
	srv := l.srv()
	before := len(st.vals)
	wasPaused := st.paused
	vals := c17LifeValues(rng, rng.Range(5, 9))
	// the first publish alone (it is the one that resumes a paused partition),
	// the rest with several in flight (batch-fill Seal call sites)
	off, err := c17Publish(srv, st.name, vals[0].V)
	st.paused = false
	if err != nil {
		if strings.HasPrefix(err.Error(), "inconclusive") {
			// a publish that ran into a timeout (Raft / ack / deadline on a loaded
			// machine) says nothing about the property
			l.inconc(fmt.Sprintf("after [%s] publish to %s: %v", event, st.name, err))
			return
		}
		rep.Violation("C17:publish-failed:after-"+event, fmt.Sprintf("after [%s] a publish of a %d-byte value to encrypted stream %s (encryption by %s) failed: %v", event, len(vals[0].V), st.name, st.how, err), l.rp(st))
		l.dead = true
		return
	}
	if off != int64(before) {
		l.inconc(fmt.Sprintf("ack offset %d for message %d of %s", off, before, st.name))
		return
	}
	if wasPaused {
		rep.Count("publishes_that_resumed_a_paused_partition", 1)
	}
	rest, err := c17PublishAll(srv, st.name, before+1, vals[1:], 6)
	if err != nil {
		if strings.HasPrefix(err.Error(), "inconclusive") {
			l.inconc(err.Error())
		} else {
			rep.Violation("C17:publish-failed:after-"+event, fmt.Sprintf("after [%s]: %v", event, err), l.rp(st))
			l.dead = true
		}
		return
	}
	st.vals = append(append(st.vals, vals[0]), rest...)
	rep.Count("messages_published", int64(len(vals)))
	rep.Count("judged_after_"+event, 1)
	for range vals {
		rep.Eval()
	}
	nv := rep.NumViolations()
	// the object that now serves the stream: does it have a codec at all
	if p := l.c.Nodes["a"].Partition(st.name, 0); p != nil && p.encryptionHandler == nil {
		rep.Violation("C17:stream-not-encrypted:after-"+event, fmt.Sprintf("after [%s] the partition object of stream %s (encryption requested by %s) has no encryption handler: values are stored and delivered as they come", event, st.name, st.how), l.rp(st))
		l.dead = true
	}
	scanned := c17ScanStored(rep, l.c, srv, st.name, st.vals, l.rp(st, "phase", "after-"+event))
	if !scanned && rep.NumViolations() > nv {
		// values are in clear: a subscriber would hand plaintext to Read — the
		// delivery is still looked at (it is what a user would see), but the
		// scenario ends here
		l.dead = true
	}
	g := c17Collect(srv, st.name, len(st.vals), 60*time.Second)
	delivered := c17CheckDelivery(rep, "after-"+event, g, st.vals, l.rp(st))
	if !delivered {
		l.dead = true
		return
	}
	if scanned && !l.dead {
		rep.Count("streams_read_back_identically", 1)
		rep.Count("messages_delivered_identically", int64(len(st.vals)))
		for _, v := range vals {
			rep.Nontrivial(fmt.Sprintf("%s|after-%s|%s|%s", st.how, event, v.Class, c17LenClassS(len(v.V))))
		}
		rep.Nontrivial(fmt.Sprintf("%s|after-%s|old-values-reread", st.how, event))
	}
}

func (l *c17Life) settle(streams []*c17LStream) bool {
	if _, err := l.c.MetaLeader(40 * time.Second); err != nil {
		l.inconc("no metadata leader after restart: " + err.Error())
		return false
	}
	for _, st := range streams {
		st := st
		ok := vfWait(40*time.Second, func() bool {
			s := l.srv()
			if s == nil {
				return false
			}
			stream := s.metadata.GetStream(st.name)
			if stream == nil {
				return false
			}
			p := stream.GetPartition(0)
			return p != nil && (p.IsPaused() || p.IsLeader())
		})
		if !ok {
			l.inconc("stream " + st.name + " not back after restart")
			return false
		}
	}
	return true
}

func (l *c17Life) restart(streams []*c17LStream) bool {
	if err := l.c.StopNode("a"); err != nil {
		l.inconc("stop: " + err.Error())
		return false
	}
	if err := l.c.StartNode("a"); err != nil {
		// the master key did not change: a server that cannot come back with
		// its encrypted streams is not "always returns it"; but a start failure
		// can have other reasons, so it is reported as what it is
		l.inconc("restart: " + err.Error())
		return false
	}
	return l.settle(streams)
}

var c17LifeEvents = []string{"pause", "pause-resumeall", "readonly-cycle", "snapshot", "restart", "snapshot-restart", "pause-restart", "pause-snapshot-restart"}

// c17LifeProgram: every scenario holds a pause, a read-only cycle and a
// snapshot-then-restart; the fourth event rotates through the remaining kinds
// with the scenario number, the rest is drawn.
func c17LifeProgram(id int, rng *kit.RNG) []string {
	evs := []string{"pause", "readonly-cycle", "snapshot-restart",
		[]string{"restart", "pause-snapshot-restart", "pause-resumeall", "pause-restart", "snapshot"}[(id/2)%5]}
	for i := rng.Intn(2); i > 0; i-- {
		evs = append(evs, c17LifeEvents[rng.Intn(len(c17LifeEvents))])
	}
	for i := len(evs) - 1; i > 0; i-- {
		j := rng.Intn(i + 1)
		evs[i], evs[j] = evs[j], evs[i]
	}
	return evs
}

func c17LifeScenario(rep *kit.Report, id int, rng *kit.RNG, key string) {
	serverWide := id%2 == 1
	batchWait := rng.Bool()
	c, _, err := vfSingle(fmt.Sprintf("c17l-%d", id), func(cfg *Config) {
		cfg.Streams.Encryption = serverWide
		if batchWait {
			cfg.BatchMaxTime = 3 * time.Millisecond
		}
	})
	if err != nil {
		rep.Inconc("server did not start: " + err.Error())
		return
	}
	defer c.Cleanup()
	l := &c17Life{rep: rep, c: c, id: id, replay: map[string]any{"scenario": id, "seed": kit.Seed(), "master_key": key,
		"server_streams.encryption": serverWide, "batch.max.time>0": batchWait}}
	l.events = append(l.events, fmt.Sprintf("server(streams.encryption=%v)", serverWide))
	var streams []*c17LStream
	for i := 0; i < 2; i++ {
		st := &c17LStream{name: fmt.Sprintf("c17l%d-%d", id, i), how: "CreateStreamRequest.Encryption=true(server-default-off)"}
		req := &client.CreateStreamRequest{Subject: st.name, Name: st.name, ReplicationFactor: 1}
		switch {
		case serverWide && i == 1:
			st.how = "streams.encryption=true(server-wide)"
		case serverWide:
			st.how = "CreateStreamRequest.Encryption=true(server-default-on)"
			req.Encryption = &client.NullableBool{Value: true}
		default:
			req.Encryption = &client.NullableBool{Value: true}
		}
		if i == 1 {
			// several small segments: the raw scan then covers rolled files too
			req.SegmentMaxBytes = &client.NullableInt64{Value: 8 * 1024}
		}
		if err := c.CreateStream(req); err != nil {
			if c17CreateNoVerdict(err) {
				l.inconc("creating the stream got no verdict: " + err.Error())
				return
			}
			rep.Violation("C17:create-encrypted-stream-failed", "creating an encrypted stream with a valid master key failed: "+err.Error(), l.rp(st))
			return
		}
		if err := c17WaitLeader(c, st.name); err != nil {
			rep.Inconc(err.Error())
			return
		}
		streams = append(streams, st)
	}
	for _, st := range streams {
		l.judge(st, "create", rng)
	}
	// control: an unencrypted stream of the same server shows its needles in its
	// files (the scanner sees plaintext where there is plaintext)
	if !serverWide && !l.dead {
		plain := fmt.Sprintf("c17lplain%d", id)
		if err := c.CreateStream(&client.CreateStreamRequest{Subject: plain, Name: plain, ReplicationFactor: 1}); err == nil && c17WaitLeader(c, plain) == nil {
			needle := rng.Bytes(24)
			c17Publish(l.srv(), plain, needle)
			found := 0
			if files, err := c17SegmentFiles(c.Nodes["a"].Cfg.DataDir, plain); err == nil {
				for _, b := range files {
					if bytes.Contains(b, needle) {
						found = 1
					}
				}
			}
			rep.Count("control_plain_needles_found_in_files", int64(found))
			if found == 0 {
				rep.Inconc("control: the needle of an UNencrypted stream was not found in its segment files — the raw scan would not see plaintext")
			}
		}
	}
	ctx := context.Background()
	kinds := map[string]int{}
	for _, ev := range c17LifeProgram(id, rng) {
		if l.dead {
			break
		}
		st := streams[rng.Intn(len(streams))]
		l.events = append(l.events, ev+"("+st.name+")")
		kinds[ev]++
		rep.Count("event_"+ev, 1)
		pause := func(all bool) bool {
			cctx, cancel := context.WithTimeout(ctx, 20*time.Second)
			defer cancel()
			if _, err := l.srv().api.PauseStream(cctx, &client.PauseStreamRequest{Name: st.name, ResumeAll: all}); err != nil {
				l.inconc("pause " + st.name + ": " + err.Error())
				return false
			}
			st.paused = true
			return true
		}
		snapshot := func() bool {
			if err := l.srv().getRaft().Snapshot().Error(); err != nil {
				l.inconc("raft snapshot: " + err.Error())
				return false
			}
			rep.Count("raft_snapshots_forced", 1)
			return true
		}
		targets := []*c17LStream{st}
		ok := true
		switch ev {
		case "pause":
			ok = pause(false)
		case "pause-resumeall":
			ok = pause(true)
		case "readonly-cycle":
			for _, ro := range []bool{true, false} {
				cctx, cancel := context.WithTimeout(ctx, 20*time.Second)
				_, err := l.srv().api.SetStreamReadonly(cctx, &client.SetStreamReadonlyRequest{Name: st.name, Readonly: ro})
				cancel()
				if err != nil {
					l.inconc("set readonly: " + err.Error())
					ok = false
					break
				}
				if ro {
					// a reader of the read-only stream still gets every value
					g := c17Collect(l.srv(), st.name, len(st.vals), 60*time.Second)
					if !c17CheckDelivery(rep, "while-readonly", g, st.vals, l.rp(st)) {
						l.dead = true
					} else {
						rep.Count("readonly_streams_read_back_identically", 1)
					}
				}
			}
		case "snapshot":
			ok = snapshot()
			targets = streams
		case "restart":
			ok = l.restart(streams)
			targets = streams
		case "snapshot-restart":
			ok = snapshot() && l.restart(streams)
			targets = streams
		case "pause-restart":
			ok = pause(false) && l.restart(streams)
			targets = streams
		case "pause-snapshot-restart":
			ok = pause(false) && snapshot() && l.restart(streams)
			targets = streams
		}
		if !ok {
			return
		}
		for _, t := range targets {
			l.judge(t, ev, rng)
		}
	}
	if l.dead {
		return
	}
	rep.Count("scenarios_completed", 1)
	if id < 2 {
		total := 0
		for _, st := range streams {
			total += len(st.vals)
		}
		rep.Sample(map[string]any{"scenario": strings.Join(l.events, " "), "messages": total})
	}
}

// ------------------------------------------------------------ replicas

// c17Replica: a replica that rebuilt the stream from a snapshot (installed from
// the leader resp. its own after a restart) must open and seal like the
// replica that created it.
func c17ReplicaScenario(rep *kit.Report, id int, rng *kit.RNG, key string) {
	c, err := vfNewCluster(fmt.Sprintf("c17r-%d", id), 3, func(cfg *Config) {
		cfg.Clustering.ReplicaMaxLeaderTimeout = 1200 * time.Millisecond
		cfg.Clustering.ReplicaMaxIdleWait = 250 * time.Millisecond
		cfg.Clustering.ReplicaFetchTimeout = 400 * time.Millisecond
		cfg.Clustering.ReplicaMaxLagTime = 1500 * time.Millisecond
	})
	if err != nil {
		rep.Inconc("replica scenario: cluster did not start: " + err.Error())
		return
	}
	defer c.Cleanup()
	stream := fmt.Sprintf("c17r%d", id)
	how := "CreateStreamRequest.Encryption=true(server-default-off)"
	events := []string{"cluster(3 nodes, streams.encryption=false)"}
	replay := func(kv ...any) map[string]any {
		return c17With(map[string]any{"scenario": fmt.Sprintf("replica-%d", id), "seed": kit.Seed(), "master_key": key, "stream": stream, "encryption_requested_by": how,
			"events": append([]string(nil), events...)}, kv...)
	}
	inconc := func(what string) {
		rep.Inconc(fmt.Sprintf("replica scenario %d [%s]: %s", id, strings.Join(events, " "), what))
	}
	if err := c.CreateStream(&client.CreateStreamRequest{Subject: stream, Name: stream, ReplicationFactor: 3, Encryption: &client.NullableBool{Value: true}}); err != nil {
		if c17CreateNoVerdict(err) {
			inconc("creating the stream got no verdict: " + err.Error())
			return
		}
		rep.Violation("C17:create-encrypted-stream-failed", "creating an encrypted stream with a valid master key failed: "+err.Error(), replay())
		return
	}
	leader, err := c.PartitionLeader(stream, 0, 30*time.Second)
	if err != nil {
		inconc(err.Error())
		return
	}
	meta, err := c.MetaLeader(20 * time.Second)
	if err != nil {
		inconc(err.Error())
		return
	}
	var vals []c17Val
	publish := func(n int, phase string) bool {
		ln, err := c.PartitionLeader(stream, 0, 40*time.Second)
		if err != nil {
			inconc(err.Error())
			return false
		}
		for _, v := range c17LifeValues(rng, n) {
			ctx, cancel := context.WithTimeout(context.Background(), 20*time.Second)
			resp, err := ln.Server().api.Publish(ctx, &client.PublishRequest{Stream: stream, Value: v.V, AckPolicy: client.AckPolicy_ALL})
			cancel()
			if err != nil || resp.Ack == nil {
				// a cluster in transition may refuse a publish for reasons that
				// have nothing to do with encryption
				inconc(fmt.Sprintf("publish (%s) got no ack: %v", phase, err))
				return false
			}
			if resp.Ack.Offset != int64(len(vals)) {
				inconc(fmt.Sprintf("ack offset %d for message %d", resp.Ack.Offset, len(vals)))
				return false
			}
			vals = append(vals, v)
			rep.Eval()
		}
		rep.Count("replica_messages_published", int64(n))
		return true
	}
	if !publish(6, "all replicas up") {
		return
	}
	// the replica that will have to install a snapshot: neither leader
	var lagger string
	for _, nid := range c.IDs {
		if nid != leader.ID && nid != meta.config.Clustering.ServerID {
			lagger = nid
		}
	}
	if lagger == "" {
		inconc("no node that is neither metadata nor partition leader")
		return
	}
	if err := c.StopNode(lagger); err != nil {
		inconc("stop: " + err.Error())
		return
	}
	events = append(events, "stop("+lagger+")")
	// Raft entries the stopped replica misses
	for i := 0; i < 3; i++ {
		n := fmt.Sprintf("c17rfill%d-%d", id, i)
		if err := c.CreateStream(&client.CreateStreamRequest{Subject: n, Name: n, ReplicationFactor: 1}); err != nil {
			inconc("filler stream: " + err.Error())
			return
		}
	}
	// wait until the leader has dropped the stopped replica from the ISR, so
	// that publishes with AckPolicy ALL are acknowledged again
	if !vfWait(40*time.Second, func() bool {
		p := leader.Partition(stream, 0)
		return p != nil && len(p.GetISR()) == 2
	}) {
		inconc("stopped replica not removed from the ISR")
		return
	}
	if !publish(5, "one replica down") {
		return
	}
	// every running server snapshots; on the metadata leader the log is
	// compacted completely so that the stopped replica cannot be caught up
	// from the log
	for _, n := range c.Running() {
		s := n.Server()
		r := s.getRaft()
		if s == meta {
			rc := r.ReloadableConfig()
			rc.TrailingLogs = 0
			if err := r.ReloadConfig(rc); err != nil {
				inconc("raft ReloadConfig: " + err.Error())
				return
			}
		}
		if err := r.Snapshot().Error(); err != nil {
			inconc("raft snapshot on " + n.ID + ": " + err.Error())
			return
		}
		rep.Count("raft_snapshots_forced", 1)
	}
	events = append(events, "snapshot(all running; metadata leader keeps no trailing log)")
	// the other follower restarts from its own snapshot
	var other string
	for _, nid := range c.IDs {
		if nid != lagger && nid != leader.ID && nid != meta.config.Clustering.ServerID {
			other = nid
		}
	}
	if other != "" {
		if err := c.StopNode(other); err != nil {
			inconc("stop: " + err.Error())
			return
		}
		if err := c.StartNode(other); err != nil {
			inconc("restart of " + other + ": " + err.Error())
			return
		}
		events = append(events, "restart("+other+")")
	}
	if err := c.StartNode(lagger); err != nil {
		inconc("start of " + lagger + ": " + err.Error())
		return
	}
	events = append(events, "start("+lagger+")")
	// the stopped replica never made a snapshot itself: a snapshot index in its
	// Raft statistics means it installed the one of the metadata leader
	installed := ""
	if !vfWait(40*time.Second, func() bool {
		s := c.Nodes[lagger].Server()
		if s == nil || s.getRaft() == nil {
			return false
		}
		installed = s.getRaft().Stats()["last_snapshot_index"]
		return installed != "" && installed != "0" && c.Nodes[lagger].Partition(stream, 0) != nil
	}) {
		inconc("the stopped replica did not install a snapshot")
		return
	}
	rep.Count("replica_installed_snapshot_from_leader", 1)
	if p := c.Nodes[lagger].Partition(stream, 0); p.encryptionHandler == nil {
		rep.Violation("C17:stream-not-encrypted:replica:follower-that-installed-a-snapshot", fmt.Sprintf("the partition object that server %s built for encrypted stream %s from the snapshot it installed has no encryption handler", lagger, stream), replay("server", lagger))
	}
	// A partition restored by a snapshot that arrives AFTER the server finished
	// its start-up replay is not started by this tree (it waits for a recovery
	// end that already happened) — not this property's subject.  The replica
	// is restarted so that it serves the stream from the installed snapshot.
	if err := c.StopNode(lagger); err != nil {
		inconc("stop: " + err.Error())
		return
	}
	if err := c.StartNode(lagger); err != nil {
		inconc("restart of " + lagger + ": " + err.Error())
		return
	}
	events = append(events, "restart("+lagger+")")
	// a server whose snapshot covers its whole Raft log starts the restored
	// partitions when the next metadata operation is applied: give it one
	{
		n := fmt.Sprintf("c17rfill%d-after", id)
		if err := c.CreateStream(&client.CreateStreamRequest{Subject: n, Name: n, ReplicationFactor: 1}); err != nil {
			inconc("filler stream: " + err.Error())
			return
		}
	}
	// all three know the stream, follow the same leader and hold every message
	if _, err := c.PartitionLeader(stream, 0, 60*time.Second); err != nil {
		inconc(err.Error())
		return
	}
	caughtUp := vfWait(60*time.Second, func() bool {
		for _, n := range c.Running() {
			p := n.Partition(stream, 0)
			if p == nil || p.IsPaused() || p.log.NewestOffset() != int64(len(vals))-1 || p.log.HighWatermark() != int64(len(vals))-1 {
				return false
			}
		}
		return len(c.Running()) == 3
	})
	if !caughtUp {
		inconc("replicas did not catch up after the restarts:" + c17ReplicaView(c, stream))
		return
	}
	rep.Count("replica_rebuilt_from_installed_snapshot", 1)
	// read from every replica
	for _, n := range c.Running() {
		role := "follower"
		if n.ID == leader.ID {
			role = "leader"
		}
		how2 := role
		if n.ID == lagger {
			how2 = "follower-restarted-from-installed-snapshot"
		} else if n.ID == other {
			how2 = "follower-restarted-from-own-snapshot"
		}
		if p := n.Partition(stream, 0); p != nil && p.encryptionHandler == nil {
			rep.Violation("C17:stream-not-encrypted:replica:"+how2, fmt.Sprintf("the partition object of encrypted stream %s on server %s (%s) has no encryption handler", stream, n.ID, how2), replay("server", n.ID))
		}
		g := c17CollectFrom(n.Server(), stream, len(vals), 60*time.Second, n.ID != leader.ID)
		if c17CheckDelivery(rep, "replica:"+how2, g, vals, replay("server", n.ID, "role", how2)) {
			rep.Count("replica_read_back_identically/"+how2, 1)
			rep.Nontrivial("replica-read|" + how2)
		}
	}
	if rep.NumViolations() > 0 {
		return
	}
	// the creator of the partition goes away: a rebuilt partition leads now
	if err := c.StopNode(leader.ID); err != nil {
		inconc("stop leader: " + err.Error())
		return
	}
	events = append(events, "stop(partition leader "+leader.ID+")")
	nl, err := c.PartitionLeader(stream, 0, 60*time.Second)
	if err != nil {
		view := c17ReplicaView(c, stream)
		inconc(err.Error() + view)
		return
	}
	if !vfWait(40*time.Second, func() bool {
		p := nl.Partition(stream, 0)
		return p != nil && len(p.GetISR()) == 2
	}) {
		inconc("stopped leader not removed from the ISR")
		return
	}
	before := len(vals)
	if !publish(6, "rebuilt partition leads") {
		return
	}
	role := "new-leader-rebuilt-from-own-snapshot"
	if nl.ID == lagger {
		role = "new-leader-rebuilt-from-installed-snapshot"
	}
	p := nl.Partition(stream, 0)
	recs, err := vfReadLog(p.log, 0, true)
	if err != nil || len(recs) != len(vals) {
		inconc(fmt.Sprintf("stored-form scan on %s: %d of %d records (err=%v)", nl.ID, len(recs), len(vals), err))
		return
	}
	files, ferr := c17SegmentFiles(nl.Cfg.DataDir, stream)
	if ferr != nil {
		inconc("segment files: " + ferr.Error())
		return
	}
	clean := true
	for i, r := range recs {
		v := vals[i]
		rep.Count("stored_values_scanned", 1)
		if bytes.Equal(r.Value, v.V) && len(v.V) > 0 || (len(v.V) >= 8 && bytes.Contains(r.Value, v.V)) {
			clean = false
			rep.Violation("C17:stored-equals-plaintext", fmt.Sprintf("offset %d of encrypted stream %s on server %s (%s) stores the %d-byte value in clear", i, stream, nl.ID, role, len(v.V)), replay("server", nl.ID, "role", role, "offset", i, "value_hex", c17Hex(v.V)))
			break
		}
	}
	for i, v := range vals {
		if !v.Needle || !clean {
			continue
		}
		rep.Count("needles_searched_in_raw_files", 1)
		for name, b := range files {
			if at := bytes.Index(b, v.V); at >= 0 {
				clean = false
				rep.Violation("C17:segment-file-contains-plaintext", fmt.Sprintf("the %d-byte value published at offset %d is in clear in %s of server %s (%s)", len(v.V), i, name, nl.ID, role), replay("server", nl.ID, "role", role, "offset", i, "value_hex", c17Hex(v.V)))
				break
			}
		}
	}
	g := c17CollectFrom(nl.Server(), stream, len(vals), 60*time.Second, false)
	if c17CheckDelivery(rep, "replica:"+role, g, vals, replay("server", nl.ID, "role", role)) && clean {
		rep.Count("replica_read_back_identically/"+role, 1)
		for _, v := range vals[before:] {
			rep.Nontrivial(fmt.Sprintf("replica-leads|%s|%s", role, v.Class))
		}
	}
	rep.Sample(map[string]any{"scenario": strings.Join(events, " "), "messages": len(vals), "snapshot_index_installed_on_stopped_replica": installed})
}

func c17ReplicaView(c *vfCluster, stream string) string {
	view := ""
	for _, n := range c.Running() {
		p := n.Partition(stream, 0)
		if p == nil {
			view += fmt.Sprintf(" %s{no partition object; metaleader=%v}", n.ID, n.Server().IsLeader())
			continue
		}
		ld, ep := p.GetLeader()
		view += fmt.Sprintf(" %s{leader=%s epoch=%d isr=%v paused=%v newest=%d hw=%d metaleader=%v}", n.ID, ld, ep, p.GetISR(), p.IsPaused(), p.log.NewestOffset(), p.log.HighWatermark(), n.Server().IsLeader())
	}
	return view
}

// c17CollectFrom is c17Collect with the option to read from a follower.
func c17CollectFrom(s *Server, stream string, want int, watchdog time.Duration, fromFollower bool) c17Got {
	if !fromFollower {
		return c17Collect(s, stream, want, watchdog)
	}
	var g c17Got
	ctx, cancel := context.WithCancel(context.Background())
	defer cancel()
	sub, err := s.api.SubscribeInternal(ctx, &client.SubscribeRequest{Stream: stream, Partition: 0, StartPosition: client.StartPosition_EARLIEST, ReadISRReplica: true})
	if err != nil {
		g.Timeout = true // a follower may refuse (not in ISR yet): not judged
		return g
	}
	defer sub.Close()
	wd := time.After(watchdog)
	for len(g.Vals) < want {
		select {
		case m := <-sub.Messages():
			g.Vals = append(g.Vals, append([]byte(nil), m.Value...))
			g.Offs = append(g.Offs, m.Offset)
		case st := <-sub.Errors():
			g.Err = st
			return g
		case <-wd:
			g.Timeout = true
			return g
		}
	}
	return g
}

func TestVerifC17Lifecycle(t *testing.T) {
	rep := kit.NewReport("C17", "lifecycle")
	defer rep.Write()
	rep.SetRule("real single-node servers (Raft + BoltDB + file snapshots, private NATS), 2 encrypted streams each: encryption asked for by CreateStreamRequest.Encryption=true with the server-wide default OFF (even scenarios) resp. by streams.encryption=true and by both (odd scenarios); one stream with 8 KiB segments; batch.max.time 0 or 3 ms; seeded program of lifecycle events per scenario — always a pause (resumed by the next publish), a read-only on/off cycle and a forced Raft snapshot followed by stop+start, plus restart / pause+snapshot+restart / pause with resume-all / pause+restart / snapshot alone in rotation and up to one drawn event, in seeded order.  After EVERY event each affected stream gets 5..9 new values (one alone, the rest 6 in flight), then: partition object has an encryption handler; every stored value and every file of the partition directory is searched for ALL values published so far; a subscriber from the earliest offset must receive exactly all values, old and new.  Plus one 3-node scenario: stream with 3 replicas, one replica stopped while Raft entries are compacted away on the metadata leader (trailing log 0) so that it must INSTALL a snapshot, the other follower restarted from its own snapshot; every replica is read (followers through ReadISRReplica), then the old leader is stopped and the new leader — a partition rebuilt from a snapshot — takes publishes that are scanned and read back.  non-trivial = values published after the event, stored forms scanned and everything read back identically; distinct = how encryption was requested x event x content class x length class")
	rep.Assume("raw files are searched only for high-entropy values of >= 8 bytes (as in the server unit); message keys and headers are stored in clear by design")
	rep.Assume("the master key stays the same during a run (one process environment); restarts under another master key are the server unit's subject")
	rep.Assume("a publish that gets no acknowledgement while the 3-node cluster is in transition, or a follower that refuses a subscription, makes that scenario inconclusive — only delivered values and stored bytes are judged")
	root := kit.NewRNG(kit.Mix(kit.Seed(), 0xC17F))
	key := c17PrintableKey(root, []int{16, 32}[int(kit.Seed()%2)])
	old, had := os.LookupEnv(c17KeyEnv)
	os.Setenv(c17KeyEnv, key)
	defer func() {
		if had {
			os.Setenv(c17KeyEnv, old)
		} else {
			os.Unsetenv(c17KeyEnv)
		}
	}()
	sites := &c17SealSites{lines: map[int]int64{}}
	defer vfHooks.On("partition.seal", sites.hook)()
	defer sites.report(rep)
	n := kit.EnvInt("C17_LIFE_SCENARIOS", kit.Scale(6, 30))
	nrep := kit.EnvInt("C17_LIFE_REPLICA_SCENARIOS", kit.Scale(1, 4))
	rngs := make([]*kit.RNG, n+nrep)
	for i := range rngs {
		rngs[i] = root.Fork(uint64(i))
	}
	// the replica scenarios first in the queue: they are the longest
	kit.Parallel(n+nrep, kit.EnvInt("C17_LIFE_WORKERS", 5), func(i int) {
		if rep.NumViolations() >= 6 {
			return
		}
		if i < nrep {
			c17ReplicaScenario(rep, i, rngs[n+i], key)
			return
		}
		c17LifeScenario(rep, i-nrep, rngs[i-nrep], key)
	})
}
