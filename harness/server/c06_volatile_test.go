//go:build verif

package server

// C06, VOLATILE CONTROLLER-LOCAL STATE while replicated operations are applied.
//
// The metadata leader keeps state that is neither replicated nor persisted:
// for every partition whose leader was reported by an in-sync follower below
// the quorum a failoverStatus (witnesses + expiry timer) in
// metadataAPI.partitionFailovers, and the same per consumer group whose
// coordinator was reported by a member (metadataAPI.groupFailovers).  The FSM
// apply functions run on every server, on the metadata leader WITH such state
// present and on the others (and on the same server after a restart) WITHOUT
// it — so nothing an apply function writes into the replicated state may
// depend on it.  The histories of the other C06 units never contain reports,
// hence never had any of this state.
//
// c06Vol gives ONE of the compared instances that state, through the real
// entry points (metadataAPI.ReportLeader / ReportGroupCoordinator), always
// below the quorum (a report that reaches the quorum proposes a leader change,
// which is a replicated operation and would have to be part of the history):
//   - Level 1 (replay / redundant): server A only, which is made to believe it
//     is the metadata leader (a raftNode with the leader flag and no Raft behind
//     it; below the quorum the report path does not touch Raft).  Twin B, the
//     late / free-running servers and every restarted server have none.
//   - Level 2 (restart / redundant-restart): the running single-node server,
//     before ShrinkISR / ExpandISR / ChangeLeader / pause / resume / read-only /
//     delete / group operations; the restart drops it.
// Reports come from one or several followers / members (as many as the quorum
// leaves room for), are sometimes repeated, and a fifth of them is expired
// (pending timer stopped, failover.OnExpired invoked — what the timer does).
// The oracles are the existing digest comparisons; this file has no oracle.

import (
	"context"
	"fmt"
	"sort"
	"testing"
	"time"

	kit "github.com/liftbridge-io/liftbridge/internal/verifkit"
	proto "github.com/liftbridge-io/liftbridge/server/protocol"
)

type c06Vol struct {
	rep *kit.Report
	rng *kit.RNG
}

func c06NewVol(rep *kit.Report, seed uint64) *c06Vol {
	return &c06Vol{rep: rep, rng: kit.NewRNG(kit.Mix(seed, 0x701A711E))}
}

// c06MakeController lets a never-started server answer IsLeader() with true.
// Must be called at most once per server, before anything calls getRaft().
func c06MakeController(s *Server) {
	s.setRaft(&raftNode{leader: 1})
}

// guarded runs a report; on a never-started server a report that (against the
// computation below) reaches the quorum ends in a nil Raft and panics.
func (v *c06Vol) guarded(what string, f func()) {
	defer func() {
		if r := recover(); r != nil {
			v.rep.Count("volatile_"+what+"_reached_quorum_unexpectedly", 1)
		}
	}()
	f()
}

func (v *c06Vol) pick(room int, fresh []string) []string {
	if room < 1 || len(fresh) == 0 {
		return nil
	}
	perm := append([]string(nil), fresh...)
	for i := len(perm) - 1; i > 0; i-- {
		j := v.rng.Intn(i + 1)
		perm[i], perm[j] = perm[j], perm[i]
	}
	if room > len(perm) {
		room = len(perm)
	}
	return perm[:v.rng.Range(1, room)]
}

func (v *c06Vol) expireStatus(fo *failoverStatus) bool {
	fo.mu.Lock()
	armed := fo.timer != nil && fo.timer.Stop()
	fo.mu.Unlock()
	if armed {
		fo.failover.OnExpired()
	}
	return armed
}

// leaderReports leaves p with reports of its current leader pending on s.
// Returns whether the code tracks a failover with witnesses for p afterwards.
func (v *c06Vol) leaderReports(s *Server, p *partition) bool {
	m := s.metadata
	leader, epoch := p.GetLeader()
	isr := p.GetISR()
	quorum := (len(isr) - 1) / 2 // partitionFailover.Quorum
	m.mu.Lock()
	fo := m.partitionFailovers[p]
	m.mu.Unlock()
	existing := map[string]bool{}
	if fo != nil {
		fo.mu.Lock()
		if fo.generation == epoch {
			for w := range fo.witnesses {
				existing[w] = true
			}
		}
		fo.mu.Unlock()
	}
	var fresh, again []string
	sort.Strings(isr)
	for _, r := range isr {
		switch {
		case r == leader:
		case existing[r]:
			again = append(again, r)
		default:
			fresh = append(fresh, r)
		}
	}
	who := v.pick(quorum-len(existing), fresh)
	if len(who) == 0 && len(again) > 0 && len(existing) <= quorum && v.rng.Chance(1, 2) {
		who = []string{again[v.rng.Intn(len(again))]} // a repeated report only re-arms the timer
	}
	for _, r := range who {
		v.guarded("leader_report", func() {
			ctx, cancel := context.WithTimeout(context.Background(), 5*time.Second)
			defer cancel()
			st := m.ReportLeader(ctx, &proto.ReportLeaderOp{Stream: p.Stream, Partition: p.Id, Replica: r, Leader: leader, LeaderEpoch: epoch})
			if st == nil {
				v.rep.Count("volatile_leader_reports_accepted", 1)
			} else {
				v.rep.Count("volatile_leader_reports_refused", 1)
			}
		})
	}
	if l2, e2 := p.GetLeader(); l2 != leader || e2 != epoch {
		v.rep.Count("volatile_leader_report_changed_leader", 1)
	}
	m.mu.Lock()
	fo = m.partitionFailovers[p]
	m.mu.Unlock()
	if fo == nil {
		return false
	}
	if v.rng.Chance(1, 5) && v.expireStatus(fo) {
		v.rep.Count("volatile_leader_reports_expired", 1)
		m.mu.Lock()
		fo = m.partitionFailovers[p]
		m.mu.Unlock()
		if fo == nil {
			return false
		}
	}
	fo.mu.Lock()
	n := len(fo.witnesses)
	fo.mu.Unlock()
	return n > 0
}

// coordinatorReports: the same for a consumer group (quorum = members / 2; the
// code keeps witnesses that left the group, so all of them count for the room).
func (v *c06Vol) coordinatorReports(s *Server, g *consumerGroup) bool {
	m := s.metadata
	coord, epoch := g.GetCoordinator()
	members := g.GetMembers()
	quorum := len(members) / 2 // groupFailover.Quorum
	m.consumerGroupsMu.Lock()
	fo := m.groupFailovers[g]
	m.consumerGroupsMu.Unlock()
	existing := map[string]bool{}
	if fo != nil {
		fo.mu.Lock()
		for w := range fo.witnesses {
			existing[w] = true
		}
		fo.mu.Unlock()
	}
	var fresh, again []string
	for _, id := range kit.SortedKeys(members) {
		if existing[id] {
			again = append(again, id)
		} else {
			fresh = append(fresh, id)
		}
	}
	who := v.pick(quorum-len(existing), fresh)
	if len(who) == 0 && len(again) > 0 && len(existing) <= quorum && v.rng.Chance(1, 2) {
		who = []string{again[v.rng.Intn(len(again))]}
	}
	for _, id := range who {
		v.guarded("coordinator_report", func() {
			ctx, cancel := context.WithTimeout(context.Background(), 5*time.Second)
			defer cancel()
			st := m.ReportGroupCoordinator(ctx, &proto.ReportConsumerGroupCoordinatorOp{GroupId: g.GetID(), ConsumerId: id, Coordinator: coord, Epoch: epoch})
			if st == nil {
				v.rep.Count("volatile_coordinator_reports_accepted", 1)
			} else {
				v.rep.Count("volatile_coordinator_reports_refused", 1)
			}
		})
	}
	if c2, e2 := g.GetCoordinator(); c2 != coord || e2 != epoch {
		v.rep.Count("volatile_coordinator_report_changed_coordinator", 1)
	}
	m.consumerGroupsMu.Lock()
	fo = m.groupFailovers[g]
	m.consumerGroupsMu.Unlock()
	if fo == nil {
		return false
	}
	if v.rng.Chance(1, 5) && v.expireStatus(fo) {
		v.rep.Count("volatile_coordinator_reports_expired", 1)
		m.consumerGroupsMu.Lock()
		fo = m.groupFailovers[g]
		m.consumerGroupsMu.Unlock()
		if fo == nil {
			return false
		}
	}
	fo.mu.Lock()
	n := len(fo.witnesses)
	fo.mu.Unlock()
	return n > 0
}

// failoverByReports (Level 2, "volatile-restart" unit only): instead of
// proposing the history's CHANGE_LEADER entry directly, half of the time let the
// running controller decide it: in-sync followers report the leader until the
// controller replaces it.  The replica it selects becomes the model's leader.
// What stays behind on this server — and only here, until the restart — is the
// failover bookkeeping of a COMPLETED failover.
func (v *c06Vol) failoverByReports(s *Server, m *c06Model, op *c06Op) (string, bool) {
	if m.focus == 0 || op.Kind != "leader" || !v.rng.Chance(1, 2) {
		return "", false
	}
	l := &proto.RaftLog{}
	if err := l.Unmarshal(op.data); err != nil || l.ChangeLeaderOp == nil {
		return "", false
	}
	ms := m.Streams[op.Stream]
	pid := l.ChangeLeaderOp.Partition
	p := s.metadata.GetPartition(op.Stream, pid)
	if ms == nil || p == nil || int(pid) >= len(ms.Parts) {
		return "", false
	}
	leader, epoch := p.GetLeader()
	isr := p.GetISR()
	sort.Strings(isr)
	for i := len(isr) - 1; i > 0; i-- {
		j := v.rng.Intn(i + 1)
		isr[i], isr[j] = isr[j], isr[i]
	}
	for _, r := range isr {
		if r == leader {
			continue
		}
		ctx, cancel := context.WithTimeout(context.Background(), 10*time.Second)
		s.metadata.ReportLeader(ctx, &proto.ReportLeaderOp{Stream: op.Stream, Partition: pid, Replica: r, Leader: leader, LeaderEpoch: epoch})
		cancel()
		if l2, e2 := p.GetLeader(); l2 != leader || e2 != epoch {
			mp := ms.Parts[pid]
			mp.Leader, mp.LeaderEpoch = l2, e2
			v.rep.Count("volatile_leader_changes_decided_by_reports", 1)
			return fmt.Sprintf("[decided by the controller after reports: -> %s]", l2), true
		}
	}
	v.rep.Count("volatile_reports_of_all_followers_without_leader_change", 1)
	return "", false
}

// before is called right before op is applied to / proposed on s: the objects
// the operation names get reports with probability 3/4, every other partition
// and group with probability 1/4.
func (v *c06Vol) before(s *Server, op *c06Op) {
	m := s.metadata
	streams := m.GetStreams()
	sort.Slice(streams, func(i, j int) bool { return streams[i].GetName() < streams[j].GetName() })
	pendingOnTarget := false
	for _, st := range streams {
		target := st.GetName() == op.Stream
		parts := st.GetPartitions()
		ids := make([]int, 0, len(parts))
		for id := range parts {
			ids = append(ids, int(id))
		}
		sort.Ints(ids)
		for _, id := range ids {
			num := 1
			if target {
				num = 3
			}
			if !v.rng.Chance(num, 4) {
				continue
			}
			if v.leaderReports(s, parts[int32(id)]) && target {
				pendingOnTarget = true
			}
		}
	}
	if pendingOnTarget {
		v.rep.Count(fmt.Sprintf("volatile_op_applied_with_leader_reports_pending_on_its_stream_%s", op.Kind), 1)
	}
	groups := m.GetConsumerGroups()
	sort.Slice(groups, func(i, j int) bool { return groups[i].GetID() < groups[j].GetID() })
	for _, g := range groups {
		target := g.GetID() == op.Group
		num := 1
		if target {
			num = 3
		}
		if !v.rng.Chance(num, 4) {
			continue
		}
		if v.coordinatorReports(s, g) && target {
			v.rep.Count(fmt.Sprintf("volatile_op_applied_with_coordinator_reports_pending_on_its_group_%s", op.Kind), 1)
		}
	}
}

// c06VolatileNote records in the evidence of a unit that its histories run with
// volatile state present (level 1: on server A only; level 2: on the running server).
func c06VolatileNote(rep *kit.Report, level int) {
	where := "server A only (made to answer IsLeader() with true); twin B, the late / free-running servers and every restarted server have none"
	if level == 2 {
		where = "the running server, which loses it at every restart"
	}
	rep.Assume("volatile controller-local state while the operations are applied: before every operation ReportLeader calls from in-sync followers (current leader / epoch, below the quorum, sometimes repeated, a fifth expired through failover.OnExpired) on the partitions of the stream it names (probability 3/4) and on the others (1/4), ReportGroupCoordinator calls from a member on groups with two or more members; on " + where + "; counters volatile_* show how often an operation was applied with such state pending on its stream / group")
}

const c06VolatileRule = "same histories and oracles as the %s unit with the generator focused on leadership state (streams with 3..5 replicas out of five brokers; three fifths of the draws are ShrinkISR / ExpandISR / ChangeLeader / pause / resume / read-only, in every third history consumer-group create / join / leave / coordinator change instead) and, as in the %s unit, VOLATILE controller-local state on %s while the operations are applied: before every operation the partitions of the stream it names (probability 3/4) and every other partition (1/4) get ReportLeader calls from one or two in-sync followers naming the current (leader, epoch), always below the quorum, sometimes repeated, a fifth of them expired (pending timer stopped, failover.OnExpired invoked); consumer groups with two or more members get ReportGroupCoordinator calls from a member the same way%s; the replicated state must not depend on any of it; non-trivial = the usual rule; distinct = history text"

// TestVerifC06Volatile: Level 1 (never-started servers, twin comparison after
// every step, every snapshot/replay split) with the focused generator; server A
// carries the volatile state, every other compared server does not.
func TestVerifC06Volatile(t *testing.T) {
	rep := kit.NewReport("C06", "volatile")
	defer rep.Write()
	rep.SetRule(fmt.Sprintf(c06VolatileRule, "replay", "replay", "server A only (made to answer IsLeader() with true; twin B, the late / free-running servers and all restarted servers have none)", ""))
	rep.Assume("a report below the quorum does not touch Raft, so it can be made on a never-started server that merely believes it is the metadata leader; whether a report stays below the quorum is computed with the code's own formulas ((ISR size - 1) / 2 resp. members / 2) from the witnesses the code currently holds")
	rep.Assume("restart model and compared digest as in the replay unit")
	c06VolatileNote(rep, 1)
	root := kit.NewRNG(kit.Mix(kit.Seed(), 0xC06F))
	nh := kit.EnvInt("C06_VOL_HISTORIES", kit.Scale(60, 600))
	seeds := make([]uint64, nh)
	for i := range seeds {
		seeds[i] = root.Uint64()
	}
	kit.Parallel(nh, kit.Workers(), func(i int) {
		if rep.NumViolations() >= 60 {
			return
		}
		c06RunHistoryMode(rep, i, seeds[i], 0, 1+i%3/2) // every third history is focused on consumer groups
	})
}

// TestVerifC06VolatileRestart: Level 2 (real Raft, forced snapshots, real
// restarts) with the focused generator; the running server carries the volatile
// state — pending reports and the bookkeeping left behind by failovers it
// decided itself — and loses it at every restart.
func TestVerifC06VolatileRestart(t *testing.T) {
	rep := kit.NewReport("C06", "volatile-restart")
	defer rep.Write()
	rep.SetRule(fmt.Sprintf(c06VolatileRule, "restart", "restart", "the running single-node server (it loses it at every restart)", "; half of the history's leader changes are not proposed directly but decided by the controller itself after in-sync followers reported the leader until it was replaced (the replica the controller selects becomes the model's leader; its failover bookkeeping stays behind on that server)"))
	rep.Assume("Level 2 waits for logical conditions only (leader elected, Raft barrier applied, group members no longer list a deleted stream); a watchdog expiry is reported as inconclusive")
	c06VolatileNote(rep, 2)
	root := kit.NewRNG(kit.Mix(kit.Seed(), 0xC070))
	nsc := kit.EnvInt("C06_VOL_L2_SCENARIOS", kit.Scale(6, 48))
	seeds := make([]uint64, nsc)
	for i := range seeds {
		seeds[i] = root.Uint64()
	}
	workers := kit.EnvInt("C06_L2_WORKERS", 3)
	kit.Parallel(nsc, workers, func(i int) {
		if rep.NumViolations() >= 60 {
			return
		}
		c06RunL2Mode(rep, i, seeds[i], 0, 1+i%3/2) // every third scenario is focused on consumer groups
	})
}
