package verifkit

// C19 — facts of the HOST ENVIRONMENT as needles.  The property says a report
// carries a random instance id, the version, the operating system, CPU and
// memory figures "and never ... addresses or credentials".  Besides what a user
// types into Liftbridge (stream names, subjects, ...) a report must therefore
// not carry anything that is specific to the machine / container / account the
// server runs in: its host name (the address it is reachable under), domain
// name, the account's name and home, the working directory, the command line,
// values of environment variables.  The judge cannot know every harmless
// string, so every needle that is searched is listed (C19HostFacts.Describe)
// and a fact that occurs in a string a report may legitimately carry (Go OS /
// architecture / runtime version, Liftbridge version, the kernel's name,
// release, version and machine type, the distribution's name, the documented
// endpoint) is dropped and listed as dropped.

import (
	"fmt"
	"os"
	"os/user"
	"path/filepath"
	"runtime"
	"sort"
	"strings"
	"syscall"
)

// C19HostFacts is a set of label -> needle built from the environment of a
// process (this one, or a child whose environment the harness builds).
type C19HostFacts struct {
	Needles map[string]string // label ("class#detail") -> needle
	Dropped map[string]string // label -> why it is not searched
	Legit   []string          // strings a report may legitimately contain
}

func c19Uts[T int8 | uint8](f []T) string {
	b := make([]byte, 0, len(f))
	for _, c := range f {
		if c == 0 {
			break
		}
		b = append(b, byte(c))
	}
	return strings.TrimSpace(string(b))
}

// C19Uname returns the five utsname fields plus the NIS domain name.
func C19Uname() (sysname, nodename, release, version, machine, domain string) {
	var u syscall.Utsname
	if syscall.Uname(&u) != nil {
		return
	}
	return c19Uts(u.Sysname[:]), c19Uts(u.Nodename[:]), c19Uts(u.Release[:]), c19Uts(u.Version[:]), c19Uts(u.Machine[:]), c19Uts(u.Domainname[:])
}

// C19OSReleaseNames returns the distribution names an os-release(5) file of
// this machine states (NAME, PRETTY_NAME, ID, VERSION...): legitimate content
// of the documented field "operating system".
func C19OSReleaseNames() []string {
	var out []string
	for _, f := range []string{"/etc/os-release", "/usr/lib/os-release"} {
		b, err := os.ReadFile(f)
		if err != nil {
			continue
		}
		for _, ln := range strings.Split(string(b), "\n") {
			k, v, ok := strings.Cut(strings.TrimSpace(ln), "=")
			if !ok || strings.HasPrefix(k, "#") {
				continue
			}
			v = strings.Trim(strings.TrimSpace(v), `"'`)
			if v != "" {
				out = append(out, v)
			}
		}
	}
	return out
}

// C19LegitStrings: what a report may carry by the documentation (plus the
// kernel's own description of itself, which names no machine).
func C19LegitStrings(version string) []string {
	sys, _, rel, ver, mach, _ := C19Uname()
	l := []string{runtime.GOOS, runtime.GOARCH, runtime.Version(), version, "Liftbridge/" + version,
		"https://" + C19DocumentedHost + "/api/v1/liftbridge/telemetry", "application/json", sys, rel, ver, mach}
	return append(l, C19OSReleaseNames()...)
}

// NewC19HostFacts starts an empty set with the given legitimate strings.
func NewC19HostFacts(legit []string) *C19HostFacts {
	return &C19HostFacts{Needles: map[string]string{}, Dropped: map[string]string{}, Legit: legit}
}

// Add registers one fact.  Facts shorter than 5 characters (the judge would
// find them by accident) and facts contained in a legitimate string are
// dropped, and so are exact duplicates of a value already registered under the
// same class.
func (h *C19HostFacts) Add(label, value string) {
	value = strings.TrimSpace(value)
	if value == "" || value == "(none)" {
		return
	}
	if len(value) < 5 {
		h.Dropped[label] = fmt.Sprintf("%q is too short to be searched for", value)
		return
	}
	lv := strings.ToLower(value)
	for _, l := range h.Legit {
		if l != "" && strings.Contains(strings.ToLower(l), lv) {
			h.Dropped[label] = fmt.Sprintf("%q occurs in the legitimate string %q", value, l)
			return
		}
	}
	cls, _, _ := strings.Cut(label, "#")
	for l, v := range h.Needles {
		if c, _, _ := strings.Cut(l, "#"); c == cls && v == value {
			return
		}
	}
	h.Needles[label] = value
}

// AddHostName registers a host name: as a whole, its first label and its DNS
// domain part.
func (h *C19HostFacts) AddHostName(detail, name string) {
	h.Add("host name#"+detail, name)
	if first, rest, ok := strings.Cut(name, "."); ok {
		h.Add("host name#"+detail+"-first-label", first)
		h.Add("domain name#"+detail+"-dns-part", rest)
	}
}

// AddPath registers a directory or file path: as a whole and its last element.
func (h *C19HostFacts) AddPath(label, p string) {
	h.Add(label, p)
	if b := filepath.Base(p); b != p && b != "/" && b != "." {
		h.Add(label+"-base", b)
	}
}

// AddCommandLine registers executable and arguments.
func (h *C19HostFacts) AddCommandLine(args []string) {
	for i, a := range args {
		if i == 0 {
			h.AddPath("command line#executable", a)
			continue
		}
		if len(a) >= 8 {
			h.Add(fmt.Sprintf("command line#arg%d", i), a)
		}
	}
}

// AddThisProcess registers the facts of the calling process: host name
// (os.Hostname and uname nodename), domain name, user name and home directory
// (account database and $USER / $LOGNAME / $HOME), working directory, command
// line, content of the host identity files /etc/hostname and /etc/machine-id.
func (h *C19HostFacts) AddThisProcess() {
	if n, err := os.Hostname(); err == nil {
		h.AddHostName("os.Hostname", n)
	}
	_, node, _, _, _, dom := C19Uname()
	h.AddHostName("uname-nodename", node)
	h.Add("domain name#uname", dom)
	if u, err := user.Current(); err == nil {
		h.Add("user name#account", u.Username)
		h.Add("user name#full-name", u.Name)
		h.Add("home directory#account", u.HomeDir)
	}
	for _, k := range []string{"USER", "LOGNAME", "USERNAME"} {
		h.Add("user name#$"+k, os.Getenv(k))
	}
	h.Add("home directory#$HOME", os.Getenv("HOME"))
	if wd, err := os.Getwd(); err == nil {
		h.AddPath("working directory", wd)
	}
	if exe, err := os.Executable(); err == nil {
		h.AddPath("command line#os.Executable", exe)
	}
	h.AddCommandLine(os.Args)
	h.AddIdentityFiles()
}

// AddIdentityFiles registers what the host identity files of this machine
// hold: /etc/hostname and /etc/machine-id (the latter also written as a UUID).
func (h *C19HostFacts) AddIdentityFiles() {
	if b, err := os.ReadFile("/etc/hostname"); err == nil {
		h.AddHostName("/etc/hostname", strings.TrimSpace(string(b)))
	}
	for _, f := range []string{"/etc/machine-id", "/var/lib/dbus/machine-id"} {
		if b, err := os.ReadFile(f); err == nil {
			m := strings.TrimSpace(string(b))
			h.Add("host identity file#"+f, m)
			if len(m) == 32 {
				h.Add("host identity file#"+f+"-as-uuid", m[0:8]+"-"+m[8:12]+"-"+m[12:16]+"-"+m[16:20]+"-"+m[20:])
			}
		}
	}
}

// Merge copies the host facts into a needle map of the judge.
func (h *C19HostFacts) Merge(into map[string]string) {
	for l, v := range h.Needles {
		into[l] = v
	}
}

// Describe lists exactly which host facts are searched and which are not.
func (h *C19HostFacts) Describe() string {
	var s, d []string
	for l, v := range h.Needles {
		s = append(s, fmt.Sprintf("%s=%q", l, v))
	}
	for l, why := range h.Dropped {
		d = append(d, l+": "+why)
	}
	sort.Strings(s)
	sort.Strings(d)
	out := "host-environment needles searched in URL, headers and body of every judged report (as is, lower / upper case, hex, base64, URL-escaped): " + strings.Join(s, "; ")
	if len(d) > 0 {
		out += ".  NOT searched: " + strings.Join(d, "; ")
	}
	return out
}

// C19EnvPlantNames are environment variables the harness sets with distinctive
// values around an enabled collector: the names under which orchestrators and
// shells hand the machine's / pod's identity and secrets to a process.
var C19EnvPlantNames = []string{"HOSTNAME", "POD_NAME", "POD_NAMESPACE", "POD_IP", "NODE_NAME", "KUBERNETES_SERVICE_HOST", "AWS_SECRET_ACCESS_KEY", "C19_OPERATOR_NOTE"}

// C19EnvPlants returns name -> distinctive value for C19EnvPlantNames.
func C19EnvPlants(rng *RNG) map[string]string {
	const al = "abcdefghijklmnopqrstuvwxyz0123456789"
	w := func() string {
		b := make([]byte, 10)
		for i := range b {
			b[i] = al[rng.Intn(len(al))]
		}
		return string(b)
	}
	m := map[string]string{}
	for _, k := range C19EnvPlantNames {
		switch k {
		case "POD_IP", "KUBERNETES_SERVICE_HOST":
			m[k] = fmt.Sprintf("10.%d.%d.%d", 100+rng.Intn(100), 100+rng.Intn(100), 100+rng.Intn(100))
		case "HOSTNAME", "POD_NAME", "NODE_NAME":
			m[k] = "env" + strings.ToLower(strings.ReplaceAll(k, "_", "")) + "-" + w()
		default:
			m[k] = "envval-" + w()
		}
	}
	return m
}

// AddEnv registers the values of planted environment variables.
func (h *C19HostFacts) AddEnv(plants map[string]string) {
	for k, v := range plants {
		h.Add("environment variable#$"+k, v)
	}
}
