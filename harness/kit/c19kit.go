package verifkit

// C19 helpers shared by the server-package and telemetry-package harnesses of
// property C19 (telemetry can be switched off and never carries user data):
// an http.RoundTripper that records every request instead of sending it, and
// the judge that compares one recorded telemetry request with what the
// documentation allows.  Everything here is prefixed C19.

import (
	"bytes"
	"encoding/base64"
	"encoding/hex"
	"encoding/json"
	"fmt"
	"io"
	"net/http"
	"net/url"
	"regexp"
	"sort"
	"strings"
	"sync"
)

// C19Request is one recorded outgoing HTTP request.
type C19Request struct {
	Method string              `json:"method"`
	URL    string              `json:"url"`
	Header map[string][]string `json:"header"`
	Body   string              `json:"body"`
}

// C19Recorder replaces an HTTP transport.  Nothing leaves the process.
type C19Recorder struct {
	mu   sync.Mutex
	reqs []C19Request
	// Mode: 0 answer 200, 1 answer 500, 2 return a transport error.
	Mode int
}

func (r *C19Recorder) RoundTrip(req *http.Request) (*http.Response, error) {
	var body []byte
	if req.Body != nil {
		body, _ = io.ReadAll(req.Body)
		req.Body.Close()
	}
	h := map[string][]string{}
	for k, v := range req.Header {
		h[k] = append([]string(nil), v...)
	}
	r.mu.Lock()
	r.reqs = append(r.reqs, C19Request{Method: req.Method, URL: req.URL.String(), Header: h, Body: string(body)})
	mode := r.Mode
	r.mu.Unlock()
	switch mode {
	case 2:
		return nil, fmt.Errorf("c19 recorder: simulated network failure")
	case 1:
		return &http.Response{StatusCode: 500, Status: "500 Internal Server Error", Proto: "HTTP/1.1", ProtoMajor: 1, ProtoMinor: 1,
			Header: http.Header{}, Body: io.NopCloser(bytes.NewReader(nil)), Request: req}, nil
	}
	return &http.Response{StatusCode: 200, Status: "200 OK", Proto: "HTTP/1.1", ProtoMajor: 1, ProtoMinor: 1,
		Header: http.Header{}, Body: io.NopCloser(strings.NewReader("{}")), Request: req}, nil
}

func (r *C19Recorder) SetMode(m int) { r.mu.Lock(); r.Mode = m; r.mu.Unlock() }

// Len is the number of requests recorded since the last Take.
func (r *C19Recorder) Len() int { r.mu.Lock(); defer r.mu.Unlock(); return len(r.reqs) }

// Take returns the recorded requests and clears the record.
func (r *C19Recorder) Take() []C19Request {
	r.mu.Lock()
	defer r.mu.Unlock()
	out := r.reqs
	r.reqs = nil
	return out
}

// C19DocumentedHost is where the documentation (CHANGELOG.md, "Anonymous
// Telemetry") says the data is sent.
const C19DocumentedHost = "telemetry.basekick.net"

// C19Whitelist is the set of JSON key paths a telemetry report may contain.
// Documented (CHANGELOG.md "What's Collected"): instance id (random UUID),
// Liftbridge version, OS information (name, version, architecture), CPU cores
// (physical/logical), total system memory.  Three more keys of the payload are
// counted into those categories (stated as an assumption by the harness): the
// report's own timestamp, os.platform (= the three documented OS values joined)
// and cpu.frequency_mhz (a CPU figure, always null).
var C19Whitelist = map[string]string{
	"instance_id":        "string",
	"timestamp":          "string",
	"liftbridge_version": "string",
	"os":                 "object",
	"os.name":            "string",
	"os.version":         "string",
	"os.architecture":    "string",
	"os.platform":        "string",
	"cpu":                "object",
	"cpu.physical_cores": "figure",
	"cpu.logical_cores":  "figure",
	"cpu.frequency_mhz":  "figure",
	"memory":             "object",
	"memory.total_gb":    "figure",
}

var c19AllowedHeaders = map[string]bool{"Content-Type": true, "User-Agent": true, "Content-Length": true, "Accept-Encoding": true}

var c19UUID = regexp.MustCompile(`^[0-9a-f]{8}-[0-9a-f]{4}-4[0-9a-f]{3}-[89ab][0-9a-f]{3}-[0-9a-f]{12}$`)

// C19Issue is one deviation found in a recorded request.
type C19Issue struct {
	Fingerprint string
	What        string
}

// C19Expect carries what the judge may compare values with.
type C19Expect struct {
	Version string // server.Version
	GOOS    string
	GOARCH  string
	// FreshInstance: the data directory was new (wording of the message only;
	// the instance id must look like a random version-4 UUID in every report).
	FreshInstance bool
}

func c19Kind(v any) string {
	switch v.(type) {
	case nil:
		return "null"
	case string:
		return "string"
	case float64, json.Number:
		return "number"
	case bool:
		return "bool"
	case map[string]any:
		return "object"
	case []any:
		return "array"
	}
	return "?"
}

func c19Walk(path string, v any, keys *[]string, issues *[]C19Issue) {
	switch x := v.(type) {
	case map[string]any:
		ks := make([]string, 0, len(x))
		for k := range x {
			ks = append(ks, k)
		}
		sort.Strings(ks)
		for _, k := range ks {
			p := k
			if path != "" {
				p = path + "." + k
			}
			*keys = append(*keys, p)
			want, ok := C19Whitelist[p]
			if !ok {
				*issues = append(*issues, C19Issue{"C19:payload-unknown-field:" + p, fmt.Sprintf("telemetry payload carries the undocumented field %q (value kind %s)", p, c19Kind(x[k]))})
				continue
			}
			got := c19Kind(x[k])
			okKind := got == want || (want == "figure" && (got == "number" || got == "null"))
			if !okKind {
				*issues = append(*issues, C19Issue{"C19:payload-field-kind:" + p, fmt.Sprintf("telemetry field %q is a %s, documented as %s", p, got, want)})
				continue
			}
			if got == "object" {
				c19Walk(p, x[k], keys, issues)
			}
		}
	case []any:
		*issues = append(*issues, C19Issue{"C19:payload-unknown-field:" + path + "[]", fmt.Sprintf("telemetry payload carries a list at %q", path)})
	}
}

// C19Needles expands each needle into the spellings searched for (as is,
// lower case, upper case, hex, base64 std/url, URL-escaped).
func c19Spellings(n string) []string {
	s := []string{n, strings.ToLower(n), strings.ToUpper(n), hex.EncodeToString([]byte(n)),
		base64.StdEncoding.EncodeToString([]byte(n)), base64.RawURLEncoding.EncodeToString([]byte(n)), url.QueryEscape(n)}
	seen := map[string]bool{}
	var out []string
	for _, x := range s {
		if !seen[x] {
			seen[x] = true
			out = append(out, x)
		}
	}
	return out
}

// C19Judge checks one recorded request.  needles maps a label (what kind of
// user data it is) to the distinctive string.  It returns the deviations and
// the key paths seen.
func C19Judge(rq C19Request, needles map[string]string, ex C19Expect) (issues []C19Issue, keys []string) {
	u, err := url.Parse(rq.URL)
	if err != nil {
		issues = append(issues, C19Issue{"C19:unparsable-url", "telemetry request URL does not parse: " + rq.URL})
	} else {
		if u.Hostname() != C19DocumentedHost {
			issues = append(issues, C19Issue{"C19:unexpected-endpoint", fmt.Sprintf("request goes to %q, documentation names %q", u.Host, C19DocumentedHost)})
		}
		if u.RawQuery != "" || u.User != nil || u.Fragment != "" {
			issues = append(issues, C19Issue{"C19:url-carries-data", "telemetry URL has a query string / user info / fragment: " + rq.URL})
		}
	}
	for h := range rq.Header {
		if !c19AllowedHeaders[http.CanonicalHeaderKey(h)] {
			issues = append(issues, C19Issue{"C19:unexpected-header:" + http.CanonicalHeaderKey(h), fmt.Sprintf("telemetry request carries the header %q: %q", h, rq.Header[h])})
		}
	}
	// needles anywhere in URL, headers, body
	var hay strings.Builder
	hay.WriteString(rq.URL)
	hay.WriteString("\n")
	hk := make([]string, 0, len(rq.Header))
	for h := range rq.Header {
		hk = append(hk, h)
	}
	sort.Strings(hk)
	for _, h := range hk {
		hay.WriteString(h + ": " + strings.Join(rq.Header[h], ",") + "\n")
	}
	hay.WriteString(rq.Body)
	all := hay.String()
	labels := make([]string, 0, len(needles))
	for l := range needles {
		labels = append(labels, l)
	}
	sort.Strings(labels)
	for _, l := range labels {
		n := needles[l]
		if len(n) < 4 {
			continue
		}
		for _, sp := range c19Spellings(n) {
			if strings.Contains(all, sp) {
				cls := l
				if i := strings.Index(cls, "#"); i >= 0 {
					cls = cls[:i]
				}
				issues = append(issues, C19Issue{"C19:request-carries-user-data:" + cls, fmt.Sprintf("telemetry request contains the %s %q (as %q)", l, n, sp)})
				break
			}
		}
	}
	// body: JSON object with whitelisted keys only
	var doc any
	dec := json.NewDecoder(strings.NewReader(rq.Body))
	if err := dec.Decode(&doc); err != nil {
		issues = append(issues, C19Issue{"C19:payload-not-json", "telemetry body is not JSON: " + err.Error()})
		return issues, nil
	}
	if dec.More() {
		issues = append(issues, C19Issue{"C19:payload-trailing-data", "telemetry body has data after the JSON document"})
	}
	obj, ok := doc.(map[string]any)
	if !ok {
		issues = append(issues, C19Issue{"C19:payload-not-object", "telemetry body is not a JSON object"})
		return issues, nil
	}
	c19Walk("", obj, &keys, &issues)
	str := func(path ...string) (string, bool) {
		var cur any = obj
		for _, p := range path {
			m, ok := cur.(map[string]any)
			if !ok {
				return "", false
			}
			cur = m[p]
		}
		s, ok := cur.(string)
		return s, ok
	}
	eq := func(fp, want string, path ...string) {
		if got, ok := str(path...); ok && want != "" && got != want {
			issues = append(issues, C19Issue{"C19:payload-value:" + fp, fmt.Sprintf("telemetry field %s is %q, expected the documented kind of value %q", strings.Join(path, "."), got, want)})
		}
	}
	eq("liftbridge_version", ex.Version, "liftbridge_version")
	eq("os.name", ex.GOOS, "os", "name")
	eq("os.architecture", ex.GOARCH, "os", "architecture")
	// os.version / os.platform: only their kind and the absence of needles
	// are judged (the documentation does not say how the version is spelled)
	// The one identifying field is documented as "random UUID, persistent per
	// installation": in every report it must be there and must look like one
	// (version 4, RFC 4122 variant) — on a fresh data directory and on one
	// that already holds an id file alike (only the collector writes that file).
	if id, ok := str("instance_id"); !ok {
		if _, present := obj["instance_id"]; !present {
			issues = append(issues, C19Issue{"C19:instance-id-missing", "telemetry report has no instance_id (documented: random UUID)"})
		}
	} else if !c19UUID.MatchString(id) {
		what := "an installation"
		if ex.FreshInstance {
			what = "a fresh installation"
		}
		issues = append(issues, C19Issue{"C19:instance-id-not-random-uuid", fmt.Sprintf("instance_id %q of %s is not a version-4 UUID (documented: random UUID)", id, what)})
	}
	return issues, keys
}
