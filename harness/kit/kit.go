// Package verifkit is the small runtime shared by all /verif harnesses.  It is
// overlaid into the repository at build time as internal/verifkit (it is never
// written into /repo).  It provides: a deterministic PRNG seeded from
// VERIF_SEED, tier selection, and a thread-safe Report that the harness fills
// with what its monitors actually observed and which the ./check driver turns
// into the evidence file, VIOLATION / KNOWN-FINDING / INCONCLUSIVE lines.
package verifkit

import (
	"encoding/json"
	"fmt"
	"os"
	"sort"
	"strconv"
	"sync"
	"time"
)

// ---------------------------------------------------------------- PRNG

// RNG is splitmix64.  Not safe for concurrent use; Fork per goroutine.
type RNG struct{ s uint64 }

func NewRNG(seed uint64) *RNG { return &RNG{s: seed} }

func (r *RNG) Uint64() uint64 {
	r.s += 0x9e3779b97f4a7c15
	z := r.s
	z = (z ^ (z >> 30)) * 0xbf58476d1ce4e5b9
	z = (z ^ (z >> 27)) * 0x94d049bb133111eb
	return z ^ (z >> 31)
}

// Intn returns a value in [0,n).  n<=0 returns 0.
func (r *RNG) Intn(n int) int {
	if n <= 0 {
		return 0
	}
	return int(r.Uint64() % uint64(n))
}

// Range returns a value in [lo,hi] inclusive.
func (r *RNG) Range(lo, hi int) int {
	if hi <= lo {
		return lo
	}
	return lo + r.Intn(hi-lo+1)
}

func (r *RNG) Bool() bool { return r.Uint64()&1 == 1 }

// Chance returns true with probability num/den.
func (r *RNG) Chance(num, den int) bool { return r.Intn(den) < num }

func (r *RNG) Bytes(n int) []byte {
	b := make([]byte, n)
	for i := 0; i < n; i += 8 {
		v := r.Uint64()
		for j := 0; j < 8 && i+j < n; j++ {
			b[i+j] = byte(v >> (8 * j))
		}
	}
	return b
}

// Fork derives an independent generator (stable for a given label).
func (r *RNG) Fork(label uint64) *RNG {
	return &RNG{s: r.Uint64() ^ (label * 0xd6e8feb86659fd93)}
}

// Mix hashes two values into one seed without consuming generator state.
func Mix(a, b uint64) uint64 {
	x := &RNG{s: a ^ (b+0x632be59bd9b4e019)*0x9e3779b97f4a7c15}
	return x.Uint64()
}

// ---------------------------------------------------------------- env

func Seed() uint64 {
	v := os.Getenv("VERIF_SEED")
	if v == "" {
		return 1
	}
	n, err := strconv.ParseInt(v, 10, 64)
	if err != nil {
		u, err2 := strconv.ParseUint(v, 10, 64)
		if err2 != nil {
			return 1
		}
		return u
	}
	return uint64(n)
}

func Tier() string {
	if os.Getenv("VERIF_TIER") == "thorough" {
		return "thorough"
	}
	return "quick"
}

func Thorough() bool { return Tier() == "thorough" }

// Scale picks a workload size by tier.
func Scale(quick, thorough int) int {
	if Thorough() {
		return thorough
	}
	return quick
}

// EnvInt reads an integer knob (used by replay / sensitivity runs).
func EnvInt(name string, def int) int {
	v := os.Getenv(name)
	if v == "" {
		return def
	}
	n, err := strconv.Atoi(v)
	if err != nil {
		return def
	}
	return n
}

// ---------------------------------------------------------------- report

type Violation struct {
	// Fingerprint identifies the specific failing input / call site /
	// history shape.  known_findings.json is matched against it.
	Fingerprint string `json:"fingerprint"`
	What        string `json:"what"`
	Replay      any    `json:"replay,omitempty"`
	Count       int    `json:"count"`
}

type Report struct {
	mu           sync.Mutex
	Property     string            `json:"property"`
	Unit         string            `json:"unit"`
	Seed         uint64            `json:"seed"`
	Tier         string            `json:"tier"`
	Evaluations  int               `json:"evaluations"`
	distinct     map[string]struct{}
	Distinct     int               `json:"distinct_nontrivial"`
	Rule         string            `json:"rule"`
	Samples      []any             `json:"samples"`
	Counts       map[string]int64  `json:"counts"`
	Info         map[string]any    `json:"info"`
	Violations   []*Violation      `json:"violations"`
	vidx         map[string]*Violation
	Inconclusive []string          `json:"inconclusive"`
	Assumptions  []string          `json:"assumptions"`
	Exhaustive   bool              `json:"exhaustive"`
	WallS        float64           `json:"wall_s"`
	Completed    bool              `json:"completed"`
	start        time.Time
	maxSamples   int
}

func NewReport(property, unit string) *Report {
	return &Report{
		Property: property, Unit: unit, Seed: Seed(), Tier: Tier(),
		distinct: map[string]struct{}{}, Counts: map[string]int64{},
		Info: map[string]any{}, vidx: map[string]*Violation{},
		start: time.Now(), maxSamples: 6,
	}
}

func (r *Report) SetRule(s string) { r.mu.Lock(); r.Rule = s; r.mu.Unlock() }
func (r *Report) Assume(s string) {
	r.mu.Lock()
	r.Assumptions = append(r.Assumptions, s)
	r.mu.Unlock()
}
func (r *Report) SetExhaustive(b bool) { r.mu.Lock(); r.Exhaustive = b; r.mu.Unlock() }

// Eval counts one executed case.
func (r *Report) Eval() { r.mu.Lock(); r.Evaluations++; r.mu.Unlock() }

// Nontrivial records the signature of a case that met the non-triviality
// rule; distinct signatures are counted.
func (r *Report) Nontrivial(sig string) {
	r.mu.Lock()
	if len(r.distinct) < 2000000 {
		r.distinct[sig] = struct{}{}
	}
	r.mu.Unlock()
}

func (r *Report) Count(key string, n int64) {
	r.mu.Lock()
	r.Counts[key] += n
	r.mu.Unlock()
}

func (r *Report) Max(key string, n int64) {
	r.mu.Lock()
	if n > r.Counts[key] {
		r.Counts[key] = n
	}
	r.mu.Unlock()
}

func (r *Report) Get(key string) int64 {
	r.mu.Lock()
	defer r.mu.Unlock()
	return r.Counts[key]
}

func (r *Report) SetInfo(key string, v any) { r.mu.Lock(); r.Info[key] = v; r.mu.Unlock() }

// Sample keeps the first few cases written out.
func (r *Report) Sample(v any) {
	r.mu.Lock()
	if len(r.Samples) < r.maxSamples {
		r.Samples = append(r.Samples, v)
	}
	r.mu.Unlock()
}

// Violation records a violation.  Same fingerprint is recorded once (count
// incremented), so one defect does not flood the output.
func (r *Report) Violation(fingerprint, what string, replay any) {
	r.mu.Lock()
	defer r.mu.Unlock()
	if v, ok := r.vidx[fingerprint]; ok {
		v.Count++
		return
	}
	v := &Violation{Fingerprint: fingerprint, What: what, Replay: replay, Count: 1}
	r.vidx[fingerprint] = v
	r.Violations = append(r.Violations, v)
	fmt.Fprintf(os.Stderr, "verif: violation %s fingerprint=%s: %s\n", r.Property, fingerprint, what)
}

func (r *Report) NumViolations() int {
	r.mu.Lock()
	defer r.mu.Unlock()
	return len(r.Violations)
}

func (r *Report) Inconc(what string) {
	r.mu.Lock()
	if len(r.Inconclusive) < 50 {
		r.Inconclusive = append(r.Inconclusive, what)
	}
	r.Counts["inconclusive"]++
	r.mu.Unlock()
	fmt.Fprintf(os.Stderr, "verif: inconclusive %s: %s\n", r.Property, what)
}

// Write stores the report at $VERIF_OUT (or stdout when unset).  Call it
// last; a report that was never written means the harness died.
func (r *Report) Write() {
	r.mu.Lock()
	defer r.mu.Unlock()
	r.Distinct = len(r.distinct)
	r.WallS = time.Since(r.start).Seconds()
	r.Completed = true
	if r.Samples == nil {
		r.Samples = []any{}
	}
	if r.Violations == nil {
		r.Violations = []*Violation{}
	}
	if r.Inconclusive == nil {
		r.Inconclusive = []string{}
	}
	if r.Assumptions == nil {
		r.Assumptions = []string{}
	}
	b, err := json.MarshalIndent(r, "", " ")
	if err != nil {
		panic(err)
	}
	out := os.Getenv("VERIF_OUT")
	if out == "" {
		os.Stdout.Write(b)
		os.Stdout.Write([]byte("\n"))
		return
	}
	tmp := out + ".tmp"
	if err := os.WriteFile(tmp, b, 0644); err != nil {
		panic(err)
	}
	if err := os.Rename(tmp, out); err != nil {
		panic(err)
	}
}

// SortedKeys is a helper for deterministic iteration.
func SortedKeys[V any](m map[string]V) []string {
	ks := make([]string, 0, len(m))
	for k := range m {
		ks = append(ks, k)
	}
	sort.Strings(ks)
	return ks
}

// Workers is the default parallelism for independent cases.
func Workers() int {
	n := EnvInt("VERIF_WORKERS", 0)
	if n > 0 {
		return n
	}
	return 8
}

// Parallel runs fn(i) for i in [0,n) on up to workers goroutines.  Cases must
// be independent; order of execution is not part of any oracle.
func Parallel(n, workers int, fn func(i int)) {
	if workers < 1 {
		workers = 1
	}
	var wg sync.WaitGroup
	ch := make(chan int)
	for w := 0; w < workers; w++ {
		wg.Add(1)
		go func() {
			defer wg.Done()
			for i := range ch {
				fn(i)
			}
		}()
	}
	for i := 0; i < n; i++ {
		ch <- i
	}
	close(ch)
	wg.Wait()
}
