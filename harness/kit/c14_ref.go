package verifkit

// C14 — reference model of the Liftbridge envelope, written from
// documentation/envelope_protocol.md only (it shares no code with
// server/protocol/envelope.go), the structure-aware corpus generator and a
// reflection-based random filler for message values.  Lives in the kit because
// both the `protocol` and the `server` harness need it; standard library only.
//
// Header (documentation/envelope_protocol.md):
//
//	0..3  magic B9 0E 43 B4
//	4     version (only 0x00 is supported)
//	5     HeaderLen = offset of the payload
//	6     flags, bit 0 = CRC-32C enabled
//	7     MsgType (0..14)
//	8..11 CRC-32C (Castagnoli) of the payload, present when flag bit 0 is set

import (
	"encoding/binary"
	"fmt"
	"hash/crc32"
	"reflect"
	"strings"
	"unicode/utf8"
)

var (
	c14Magic = [4]byte{0xB9, 0x0E, 0x43, 0xB4}
	c14Table = crc32.MakeTable(crc32.Castagnoli)
)

// Verdicts of the reference decoder.
const (
	// C14Invalid: not an envelope (of any type).  Every decoder must return an
	// error; the publish path must store the bytes verbatim.
	C14Invalid = iota
	// C14Valid: an envelope as documented.  The decoder of its MsgType must
	// return the message encoded by Payload (or an error if Payload is not a
	// well-formed protobuf of that type).
	C14Valid
	// C14Unspec: a corner the documentation does not pin (header length below
	// the 8 fixed bytes, undefined flag bits, CRC flag with a header longer than
	// 12 bytes).  Rejecting is fine; if accepted, the payload is
	// data[HeaderLen:] as documented, nothing else.
	C14Unspec
)

// C14Env is what the reference decoder says about a byte string.
type C14Env struct {
	Verdict int
	Class   string // stable name of the input class (used in fingerprints)
	HasType bool   // the 8 fixed header bytes are present
	Type    byte
	Payload []byte // only for Valid / Unspec
}

func (e C14Env) VerdictName() string {
	switch e.Verdict {
	case C14Valid:
		return "valid"
	case C14Unspec:
		return "unspecified"
	}
	return "invalid"
}

// C14Classify is the reference envelope decoder.
func C14Classify(data []byte) C14Env {
	if len(data) < 8 {
		return C14Env{Verdict: C14Invalid, Class: "short"}
	}
	e := C14Env{HasType: true, Type: data[7]}
	for i := 0; i < 4; i++ {
		if data[i] != c14Magic[i] {
			e.Class = "magic"
			return e
		}
	}
	if data[4] != 0 {
		e.Class = "version"
		return e
	}
	hl := int(data[5])
	flags := data[6]
	if hl > len(data) {
		// The payload offset lies behind the end of the message.
		e.Class = "headerLen>len"
		return e
	}
	crc := flags&1 != 0
	if crc && hl < 12 {
		// CRC announced but the header has no room for it (pinned by the
		// repository's TestUnmarshalEnvelopeMissingCRC as well).
		e.Class = "crc-flag-no-room"
		return e
	}
	payload := data[hl:]
	if crc {
		want := binary.BigEndian.Uint32(data[8:12])
		if crc32.Checksum(payload, c14Table) != want {
			e.Class = "crc-bad"
			return e
		}
	}
	e.Payload = payload
	switch {
	case flags&0xFE != 0:
		e.Verdict, e.Class = C14Unspec, "undefined-flags"
	case hl < 8:
		e.Verdict, e.Class = C14Unspec, "headerLen<8"
	case crc && hl > 12:
		e.Verdict, e.Class = C14Unspec, "crc-ok-long-header"
	case crc:
		e.Verdict, e.Class = C14Valid, "crc-ok"
	case hl > 8:
		e.Verdict, e.Class = C14Valid, "long-header"
	default:
		e.Verdict, e.Class = C14Valid, "plain"
	}
	return e
}

// C14Header returns the 8 fixed header bytes.
func C14Header(version, headerLen, flags, typ byte) []byte {
	return []byte{c14Magic[0], c14Magic[1], c14Magic[2], c14Magic[3], version, headerLen, flags, typ}
}

// C14Encode is the reference encoder: plain (8-byte header) or with CRC-32C
// (12-byte header).
func C14Encode(typ byte, payload []byte, withCRC bool) []byte {
	if !withCRC {
		return append(C14Header(0, 8, 0, typ), payload...)
	}
	out := append(C14Header(0, 12, 1, typ), 0, 0, 0, 0)
	binary.BigEndian.PutUint32(out[8:12], crc32.Checksum(payload, c14Table))
	return append(out, payload...)
}

// C14FixCRC writes the CRC-32C of data[HeaderLen:] (right) or a value that
// differs from it (wrong) into bytes 8..11, when the message has room for it.
// Reports whether it did.
func C14FixCRC(data []byte, right bool, r *RNG) bool {
	if len(data) < 12 {
		return false
	}
	hl := int(data[5])
	if hl < 12 || hl > len(data) {
		return false
	}
	c := crc32.Checksum(data[hl:], c14Table)
	if !right {
		c ^= 1 << uint(r.Intn(32))
	}
	binary.BigEndian.PutUint32(data[8:12], c)
	return true
}

// C14Input is one corpus element.
type C14Input struct {
	Data []byte
	Tag  string // how it was made
}

// C14Bodies returns a well-formed payload for message type t (may return nil
// for "none available").
type C14Bodies func(t byte, r *RNG) []byte

func c14Cat(parts ...[]byte) []byte {
	var out []byte
	for _, p := range parts {
		out = append(out, p...)
	}
	return out
}

// C14Grid is the structure-aware, enumerated part of the corpus.  types are the
// message types to put the emphasis on; level 0 = quick, 1 = thorough (more
// rest-of-message shapes).
func C14Grid(r *RNG, bodies C14Bodies, types []byte, level int) []C14Input {
	var out []C14Input
	add := func(tag string, d []byte) { out = append(out, C14Input{Data: d, Tag: tag}) }
	body := func(t byte) []byte {
		if b := bodies(t%15, r); b != nil {
			return b
		}
		return []byte{}
	}
	for _, t := range types {
		// ---- G1: every header-length byte, with and without CRC flag.
		rests := [][]byte{{}, r.Bytes(4), body(t), c14Cat([]byte{0, 0, 0, 0}, body(t))}
		if level > 0 {
			rests = append(rests, r.Bytes(9), r.Bytes(40), c14Cat(r.Bytes(4), r.Bytes(28)), r.Bytes(250), c14Cat(r.Bytes(4), make([]byte, 260)))
		} else {
			rests = append(rests, r.Bytes(40), r.Bytes(250))
		}
		for hl := 0; hl < 256; hl++ {
			for ri, rest := range rests {
				tag := fmt.Sprintf("hl-sweep t=%d hl=%d rest#%d", t, hl, ri)
				add(tag, c14Cat(C14Header(0, byte(hl), 0, t), rest))
				d := c14Cat(C14Header(0, byte(hl), 1, t), rest)
				if C14FixCRC(d, true, r) {
					add(tag+" crc=right", d)
					w := append([]byte(nil), d...)
					C14FixCRC(w, false, r)
					add(tag+" crc=wrong", w)
				} else {
					add(tag+" crc-flag", d)
				}
			}
		}
		// ---- G2: every flag byte.
		for fl := 0; fl < 256; fl++ {
			for _, hl := range []int{8, 12, 13, 5, 200} {
				d := c14Cat(C14Header(0, byte(hl), byte(fl), t), []byte{0, 0, 0, 0, 0}, body(t))
				tag := fmt.Sprintf("flag-sweep t=%d fl=%#02x hl=%d", t, fl, hl)
				if fl&1 != 0 && r.Chance(3, 4) && C14FixCRC(d, true, r) {
					tag += " crc=right"
				}
				add(tag, d)
			}
		}
		// ---- G4: every truncation of a plain and of a CRC envelope.
		for _, withCRC := range []bool{false, true} {
			full := C14Encode(t, body(t), withCRC)
			if len(full) > 80 {
				full = C14Encode(t, r.Bytes(30), withCRC)
			}
			for n := 0; n <= len(full); n++ {
				add(fmt.Sprintf("truncate t=%d crc=%v n=%d/%d", t, withCRC, n, len(full)), append([]byte(nil), full[:n]...))
			}
		}
		// ---- G5: payload lengths 0..40, plain / right CRC / wrong CRC.
		for n := 0; n <= 40; n++ {
			pls := [][]byte{r.Bytes(n)}
			if b := body(t); len(b) >= n {
				pls = append(pls, append([]byte(nil), b[:n]...))
			}
			for pi, pl := range pls {
				tag := fmt.Sprintf("paylen t=%d n=%d src#%d", t, n, pi)
				add(tag+" plain", C14Encode(t, pl, false))
				good := C14Encode(t, pl, true)
				add(tag+" crc=right", good)
				bad := append([]byte(nil), good...)
				bad[8+r.Intn(4)] ^= 1 << uint(r.Intn(8))
				add(tag+" crc=wrong(crc bit)", bad)
				if n > 0 {
					bad2 := append([]byte(nil), good...)
					bad2[12+r.Intn(n)] ^= 1 << uint(r.Intn(8))
					add(tag+" crc=wrong(payload bit)", bad2)
				}
				// CRC present but flag clear: bytes 8..11 are header padding.
				noflag := append([]byte(nil), bad...)
				noflag[6] = 0
				add(tag+" crc-bytes-without-flag", noflag)
			}
		}
		// ---- G6: magic number and version.
		for _, withCRC := range []bool{false, true} {
			good := C14Encode(t, body(t), withCRC)
			for bit := 0; bit < 32; bit++ {
				d := append([]byte(nil), good...)
				d[bit/8] ^= 1 << uint(bit%8)
				add(fmt.Sprintf("magic-bitflip t=%d bit=%d crc=%v", t, bit, withCRC), d)
			}
			for v := 1; v < 256; v++ {
				d := append([]byte(nil), good...)
				d[4] = byte(v)
				add(fmt.Sprintf("version t=%d v=%d crc=%v", t, v, withCRC), d)
			}
		}
	}
	// ---- G3: every type byte.
	for ty := 0; ty < 256; ty++ {
		t := byte(ty)
		add(fmt.Sprintf("type-sweep t=%d empty", ty), C14Encode(t, nil, false))
		add(fmt.Sprintf("type-sweep t=%d empty crc", ty), C14Encode(t, nil, true))
		for _, bt := range []byte{t % 15, types[ty%len(types)]} {
			b := body(bt)
			add(fmt.Sprintf("type-sweep t=%d body-of=%d", ty, bt), C14Encode(t, b, false))
			add(fmt.Sprintf("type-sweep t=%d body-of=%d crc", ty, bt), C14Encode(t, b, true))
		}
	}
	// ---- headers of 0..12 bytes made of the magic number prefix only.
	for n := 0; n <= 12; n++ {
		d := make([]byte, n)
		copy(d, c14Magic[:])
		add(fmt.Sprintf("magic-prefix n=%d", n), d)
	}
	return out
}

var c14HL = []int{0, 1, 7, 8, 9, 11, 12, 13, 16, 20, 40, 64, 127, 128, 200, 255}

// C14Seeded returns one seeded random corpus element.
func C14Seeded(r *RNG, bodies C14Bodies, types []byte) C14Input {
	t := types[r.Intn(len(types))]
	if r.Chance(1, 6) {
		t = byte(r.Intn(15))
	}
	body := func() []byte {
		if b := bodies(t%15, r); b != nil {
			return b
		}
		return []byte{}
	}
	switch k := r.Intn(10); {
	case k == 0:
		return C14Input{r.Bytes(r.Intn(65)), "random"}
	case k == 1:
		return C14Input{c14Cat(c14Magic[:], r.Bytes(r.Intn(40))), "magic+random"}
	case k <= 4:
		// magic, version 0, interesting header-length / flag / type, random or
		// well-formed rest, CRC fixed up half the time.
		hl := c14HL[r.Intn(len(c14HL))]
		if r.Chance(1, 3) {
			hl = r.Intn(256)
		}
		fl := byte(r.Intn(2))
		if r.Chance(1, 8) {
			fl = byte(r.Intn(256))
		}
		ty := t
		if r.Chance(1, 8) {
			ty = byte(r.Intn(256))
		}
		var rest []byte
		switch r.Intn(4) {
		case 0:
			rest = r.Bytes(r.Intn(48))
		case 1:
			rest = body()
		case 2:
			rest = c14Cat(r.Bytes(4), body())
		default:
			pad := hl - 8
			if pad < 0 || pad > 64 {
				pad = r.Intn(8)
			}
			rest = c14Cat(r.Bytes(pad), body())
		}
		d := c14Cat(C14Header(0, byte(hl), fl, ty), rest)
		tag := fmt.Sprintf("semi hl=%d fl=%#02x t=%d", hl, fl, ty)
		if fl&1 != 0 && r.Bool() {
			if C14FixCRC(d, r.Chance(2, 3), r) {
				tag += " crc-fixed"
			}
		}
		return C14Input{d, tag}
	default:
		// a well-formed envelope of a well-formed value, then one mutation.
		var d []byte
		form := r.Intn(3)
		b := body()
		switch form {
		case 0:
			d = C14Encode(t, b, false)
		case 1:
			d = C14Encode(t, b, true)
		default:
			hl := 9 + r.Intn(24)
			d = c14Cat(C14Header(0, byte(hl), 0, t), r.Bytes(hl-8), b)
		}
		tag := fmt.Sprintf("mutated t=%d form=%d", t, form)
		switch m := r.Intn(9); m {
		case 0:
			tag += " none"
		case 1:
			if len(d) > 0 {
				i := r.Intn(len(d))
				d[i] ^= 1 << uint(r.Intn(8))
				tag += fmt.Sprintf(" bitflip@%d", i)
			}
		case 2:
			if len(d) > 8 {
				i := 8 + r.Intn(len(d)-8)
				d[i] = byte(r.Intn(256))
				tag += fmt.Sprintf(" byteset@%d", i)
			}
		case 3:
			d = d[:r.Intn(len(d)+1)]
			tag += fmt.Sprintf(" truncated->%d", len(d))
		case 4:
			d = append(d, r.Bytes(1+r.Intn(12))...)
			tag += " extended"
		case 5:
			d[5] = byte(r.Intn(256))
			tag += fmt.Sprintf(" hl:=%d", d[5])
		case 6:
			d[7] = byte(r.Intn(18))
			tag += fmt.Sprintf(" type:=%d", d[7])
		case 7:
			d[6] = byte(r.Intn(4))
			tag += fmt.Sprintf(" flags:=%d", d[6])
		default:
			// change the payload but keep a stale CRC / keep the CRC and drop a byte
			if len(d) > 13 {
				d = append(d[:12], d[13:]...)
				tag += " dropbyte@12"
			}
		}
		return C14Input{d, tag}
	}
}

// C14Sig is the coverage signature of an input: reference class plus the header
// fields and the length, so that distinct signatures = distinct header shapes.
func C14Sig(data []byte, e C14Env) string {
	if len(data) < 8 {
		return fmt.Sprintf("%s|n%d", e.Class, len(data))
	}
	if e.Class == "magic" {
		return fmt.Sprintf("magic|%x|n%d", data[:4], len(data))
	}
	return fmt.Sprintf("%s|v%d|hl%d|f%02x|t%d|n%d", e.Class, data[4], data[5], data[6], data[7], len(data))
}

// ---------------------------------------------------------------- values

// C14FillOpts bounds the random values.
type C14FillOpts struct {
	MaxBlob  int // upper bound of an "extreme" string / bytes field
	Extreme  int // 1-in-N chance per blob of being extreme (0 = never)
	MaxDepth int
}

var c14Ints = []int64{0, 1, -1, 2, 127, 128, 255, 256, 1<<31 - 1, -1 << 31, 1 << 32, 1<<63 - 1, -1 << 63}

var c14Runes = []rune("abcdefghijklmnopqrstuvwxyzABCXYZ0123456789.-_/ :*>\t\n\x00éüλ世界\U0001F600")

func c14String(r *RNG, o C14FillOpts) string {
	n := 0
	switch k := r.Intn(10); {
	case k < 2:
		n = 0
	case k < 9:
		n = 1 + r.Intn(12)
	default:
		n = 13 + r.Intn(60)
	}
	if o.Extreme > 0 && r.Intn(o.Extreme) == 0 {
		n = r.Intn(o.MaxBlob + 1)
	}
	var sb strings.Builder
	for i := 0; i < n; i++ {
		sb.WriteRune(c14Runes[r.Intn(len(c14Runes))])
	}
	s := sb.String()
	if !utf8.ValidString(s) {
		panic("c14String produced invalid UTF-8")
	}
	return s
}

func c14Blob(r *RNG, o C14FillOpts) []byte {
	n := 0
	switch k := r.Intn(10); {
	case k < 2:
		return nil
	case k < 9:
		n = 1 + r.Intn(16)
	default:
		n = 17 + r.Intn(100)
	}
	if o.Extreme > 0 && r.Intn(o.Extreme) == 0 {
		n = r.Intn(o.MaxBlob + 1)
	}
	return r.Bytes(n)
}

func c14Int(r *RNG) int64 {
	if r.Bool() {
		return c14Ints[r.Intn(len(c14Ints))]
	}
	return int64(r.Uint64() >> uint(r.Intn(64)))
}

// C14Fill fills the exported, non-XXX_ fields of the struct pointed to by p
// with seeded random values (strings are valid UTF-8, as proto3 requires).
func C14Fill(p any, r *RNG, o C14FillOpts) {
	if o.MaxDepth == 0 {
		o.MaxDepth = 4
	}
	if o.MaxBlob == 0 {
		o.MaxBlob = 1 << 16
	}
	c14FillValue(reflect.ValueOf(p).Elem(), r, o, 0)
}

func c14FillValue(v reflect.Value, r *RNG, o C14FillOpts, depth int) {
	switch v.Kind() {
	case reflect.Struct:
		t := v.Type()
		for i := 0; i < t.NumField(); i++ {
			f := t.Field(i)
			if f.PkgPath != "" || strings.HasPrefix(f.Name, "XXX_") {
				continue
			}
			if r.Chance(1, 5) {
				continue // leave the zero value
			}
			c14FillValue(v.Field(i), r, o, depth)
		}
	case reflect.Ptr:
		if v.Type().Elem().Kind() != reflect.Struct {
			return
		}
		if depth >= o.MaxDepth || r.Chance(1, 4) {
			return
		}
		n := reflect.New(v.Type().Elem())
		c14FillValue(n.Elem(), r, o, depth+1)
		v.Set(n)
	case reflect.String:
		v.SetString(c14String(r, o))
	case reflect.Bool:
		v.SetBool(r.Bool())
	case reflect.Int32:
		if v.Type().Name() != "int32" {
			// enum: known and unknown values (proto3 enums are open)
			v.SetInt([]int64{0, 1, 2, 3, 4, 7, 11, 100, -1, 1<<31 - 1}[r.Intn(10)])
		} else {
			v.SetInt(int64(int32(c14Int(r))))
		}
	case reflect.Int64:
		v.SetInt(c14Int(r))
	case reflect.Uint32:
		v.SetUint(uint64(uint32(c14Int(r))))
	case reflect.Uint64:
		v.SetUint(uint64(c14Int(r)))
	case reflect.Slice:
		et := v.Type().Elem()
		if et.Kind() == reflect.Uint8 {
			v.SetBytes(c14Blob(r, o))
			return
		}
		n := r.Intn(4)
		if o.Extreme > 0 && r.Intn(o.Extreme*4) == 0 {
			n = 50 + r.Intn(200)
		}
		if et.Kind() == reflect.Ptr && depth >= o.MaxDepth {
			return
		}
		s := reflect.MakeSlice(v.Type(), n, n)
		for i := 0; i < n; i++ {
			if et.Kind() == reflect.Ptr {
				// repeated message fields must not hold nil elements
				e := reflect.New(et.Elem())
				c14FillValue(e.Elem(), r, o, depth+1)
				s.Index(i).Set(e)
			} else {
				c14FillValue(s.Index(i), r, o, depth)
			}
		}
		if n > 0 {
			v.Set(s)
		}
	case reflect.Map:
		n := r.Intn(4)
		if n == 0 {
			return
		}
		m := reflect.MakeMap(v.Type())
		for i := 0; i < n; i++ {
			k := reflect.New(v.Type().Key()).Elem()
			c14FillValue(k, r, o, depth)
			e := reflect.New(v.Type().Elem()).Elem()
			c14FillValue(e, r, o, depth)
			if e.Kind() == reflect.Slice && e.IsNil() {
				e.Set(reflect.MakeSlice(e.Type(), 0, 0))
			}
			m.SetMapIndex(k, e)
		}
		v.Set(m)
	}
}
