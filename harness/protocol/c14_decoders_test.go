//go:build verif

package protocol

// C14 (a) — every Unmarshal* function of the envelope protocol is total and
// agrees with an independent reference decoder (kit.C14Classify, written from
// documentation/envelope_protocol.md): a structure-aware corpus plus seeded
// random byte strings is fed to ALL 15 decoders, and seeded random values of
// every envelope message type are round-tripped.  The decoder calls run in
// child processes (a Go fatal error cannot be recovered); every input is logged
// before it is executed, so that a dead child names its input.

import (
	"bufio"
	"bytes"
	"context"
	"encoding/binary"
	"encoding/hex"
	"encoding/json"
	"fmt"
	"os"
	"os/exec"
	"path/filepath"
	"regexp"
	"runtime"
	"strings"
	"sync"
	"testing"
	"time"

	pb "github.com/golang/protobuf/proto"
	client "github.com/liftbridge-io/liftbridge-api/v2/go"

	kit "github.com/liftbridge-io/liftbridge/internal/verifkit"
)

// c14Dec describes one decoder.  The type numbers are those of the table in
// documentation/envelope_protocol.md (not the iota of envelope.go).
type c14Dec struct {
	Name string
	Type byte
	New  func() pb.Message                // nil for ReplicationResponse
	Call func([]byte) (pb.Message, error) // protobuf decoders
	Enc  func(pb.Message) ([]byte, error) // matching Marshal* (nil if none)
}

func c14Decoders() []c14Dec {
	return []c14Dec{
		{"Publish", 0, func() pb.Message { return new(client.Message) },
			func(b []byte) (pb.Message, error) { return UnmarshalPublish(b) },
			func(m pb.Message) ([]byte, error) { return MarshalPublish(m.(*client.Message)) }},
		{"Ack", 1, func() pb.Message { return new(client.Ack) },
			func(b []byte) (pb.Message, error) { return UnmarshalAck(b) },
			func(m pb.Message) ([]byte, error) { return MarshalAck(m.(*client.Ack)) }},
		{"ReplicationRequest", 2, func() pb.Message { return new(ReplicationRequest) },
			func(b []byte) (pb.Message, error) { return UnmarshalReplicationRequest(b) },
			func(m pb.Message) ([]byte, error) { return MarshalReplicationRequest(m.(*ReplicationRequest)) }},
		{"ReplicationResponse", 3, nil, nil, nil},
		{"RaftJoinRequest", 4, func() pb.Message { return new(RaftJoinRequest) },
			func(b []byte) (pb.Message, error) { return UnmarshalRaftJoinRequest(b) },
			func(m pb.Message) ([]byte, error) { return MarshalRaftJoinRequest(m.(*RaftJoinRequest)) }},
		{"RaftJoinResponse", 5, func() pb.Message { return new(RaftJoinResponse) },
			func(b []byte) (pb.Message, error) { return UnmarshalRaftJoinResponse(b) },
			func(m pb.Message) ([]byte, error) { return MarshalRaftJoinResponse(m.(*RaftJoinResponse)) }},
		{"LeaderEpochOffsetRequest", 6, func() pb.Message { return new(LeaderEpochOffsetRequest) },
			func(b []byte) (pb.Message, error) { return UnmarshalLeaderEpochOffsetRequest(b) },
			func(m pb.Message) ([]byte, error) {
				return MarshalLeaderEpochOffsetRequest(m.(*LeaderEpochOffsetRequest))
			}},
		{"LeaderEpochOffsetResponse", 7, func() pb.Message { return new(LeaderEpochOffsetResponse) },
			func(b []byte) (pb.Message, error) { return UnmarshalLeaderEpochOffsetResponse(b) },
			func(m pb.Message) ([]byte, error) {
				return MarshalLeaderEpochOffsetResponse(m.(*LeaderEpochOffsetResponse))
			}},
		{"PropagatedRequest", 8, func() pb.Message { return new(PropagatedRequest) },
			func(b []byte) (pb.Message, error) { return UnmarshalPropagatedRequest(b) },
			func(m pb.Message) ([]byte, error) { return MarshalPropagatedRequest(m.(*PropagatedRequest)) }},
		{"PropagatedResponse", 9, func() pb.Message { return new(PropagatedResponse) },
			func(b []byte) (pb.Message, error) { return UnmarshalPropagatedResponse(b) },
			func(m pb.Message) ([]byte, error) { return MarshalPropagatedResponse(m.(*PropagatedResponse)) }},
		{"ServerInfoRequest", 10, func() pb.Message { return new(ServerInfoRequest) },
			func(b []byte) (pb.Message, error) { return UnmarshalServerInfoRequest(b) },
			func(m pb.Message) ([]byte, error) { return MarshalServerInfoRequest(m.(*ServerInfoRequest)) }},
		{"ServerInfoResponse", 11, func() pb.Message { return new(ServerInfoResponse) },
			func(b []byte) (pb.Message, error) { return UnmarshalServerInfoResponse(b) },
			func(m pb.Message) ([]byte, error) { return MarshalServerInfoResponse(m.(*ServerInfoResponse)) }},
		{"PartitionStatusRequest", 12, func() pb.Message { return new(PartitionStatusRequest) },
			func(b []byte) (pb.Message, error) { return UnmarshalPartitionStatusRequest(b) },
			func(m pb.Message) ([]byte, error) { return MarshalPartitionStatusRequest(m.(*PartitionStatusRequest)) }},
		{"PartitionStatusResponse", 13, func() pb.Message { return new(PartitionStatusResponse) },
			func(b []byte) (pb.Message, error) { return UnmarshalPartitionStatusResponse(b) },
			func(m pb.Message) ([]byte, error) {
				return MarshalPartitionStatusResponse(m.(*PartitionStatusResponse))
			}},
		{"PartitionNotification", 14, func() pb.Message { return new(PartitionNotification) },
			func(b []byte) (pb.Message, error) { return UnmarshalPartitionNotification(b) },
			func(m pb.Message) ([]byte, error) { return MarshalPartitionNotification(m.(*PartitionNotification)) }},
	}
}

func c14FillOpts() kit.C14FillOpts {
	return kit.C14FillOpts{MaxBlob: kit.Scale(1<<16, 1<<20), Extreme: kit.Scale(400, 300)}
}

// c14Value returns a seeded random value of message type t (nil for type 3).
func c14Value(decs []c14Dec, t byte, r *kit.RNG, o kit.C14FillOpts) pb.Message {
	d := decs[t]
	if d.New == nil {
		return nil
	}
	m := d.New()
	kit.C14Fill(m, r, o)
	return m
}

// c14Bodies builds well-formed payloads: protobuf of a random value, or for
// ReplicationResponse (type 3) epoch, HW and message-set bytes.
func c14Bodies(decs []c14Dec) kit.C14Bodies {
	small := kit.C14FillOpts{MaxBlob: 64, Extreme: 0}
	return func(t byte, r *kit.RNG) []byte {
		if t == 3 {
			return r.Bytes(16 + r.Intn(40))
		}
		b, err := pb.Marshal(c14Value(decs, t, r, small))
		if err != nil {
			panic(fmt.Sprintf("c14: reference marshal of a generated value failed: %v", err))
		}
		if b == nil {
			b = []byte{}
		}
		return b
	}
}

// ---------------------------------------------------------------- calling

type c14Viol struct {
	FP     string         `json:"fp"`
	What   string         `json:"what"`
	Replay map[string]any `json:"replay"`
}

type c14Result struct {
	Done     bool             `json:"done"`
	Evals    int64            `json:"evals"`
	Counts   map[string]int64 `json:"counts"`
	Sigs     []string         `json:"sigs"`
	Viols    []c14Viol        `json:"viols"`
	Samples  []map[string]any `json:"samples"`
	sigs     map[string]struct{}
	violSeen map[string]int
}

func (c *c14Result) viol(fp, what string, replay map[string]any) {
	if c.violSeen == nil {
		c.violSeen = map[string]int{}
	}
	c.violSeen[fp]++
	c.Counts["violating_calls"]++
	if c.violSeen[fp] > 1 {
		return
	}
	c.Viols = append(c.Viols, c14Viol{fp, what, replay})
}

// c14PanicFrame names the innermost repository function on the stack of a
// recovered panic (harness frames excluded).
func c14PanicFrame() string {
	pcs := make([]uintptr, 64)
	n := runtime.Callers(3, pcs)
	frames := runtime.CallersFrames(pcs[:n])
	for {
		f, more := frames.Next()
		if strings.Contains(f.Function, "github.com/liftbridge-io/liftbridge/server") &&
			!strings.Contains(f.File, "zz_verif_") && !strings.Contains(f.File, "/harness/") {
			name := f.Function[strings.LastIndex(f.Function, "/")+1:]
			if i := strings.Index(name, "."); i >= 0 {
				name = name[i+1:]
			}
			return name
		}
		if !more {
			return "?"
		}
	}
}

// c14Safe runs fn and turns a panic into (frame, text).
func c14Safe(fn func()) (frame, text string, panicked bool) {
	defer func() {
		if p := recover(); p != nil {
			frame, text, panicked = c14PanicFrame(), fmt.Sprint(p), true
		}
	}()
	fn()
	return
}

func c14Hex(b []byte) string {
	if len(b) > 400 {
		return hex.EncodeToString(b[:400]) + fmt.Sprintf("...(%d bytes)", len(b))
	}
	return hex.EncodeToString(b)
}

// c14CheckInput feeds one byte string to all decoders and compares each result
// with the reference.
func c14CheckInput(res *c14Result, decs []c14Dec, idx int, in kit.C14Input) {
	data := in.Data
	env := kit.C14Classify(data)
	keep := append([]byte(nil), data...)
	res.Counts["inputs"]++
	res.Counts["class_"+env.Class]++
	if env.Class != "magic" && env.Class != "short" {
		res.sigs[kit.C14Sig(data, env)] = struct{}{}
	}
	for _, d := range decs {
		res.Evals++
		mustErr := env.Verdict == kit.C14Invalid || !env.HasType || env.Type != d.Type
		class := env.Class
		if env.Verdict != kit.C14Invalid && env.HasType && env.Type != d.Type {
			class = "type-mismatch"
		}
		replay := func(extra map[string]any) map[string]any {
			m := map[string]any{"decoder": "Unmarshal" + d.Name, "input_hex": c14Hex(keep), "input_len": len(keep),
				"made_by": in.Tag, "corpus_index": idx, "reference": env.VerdictName() + "/" + env.Class}
			for k, v := range extra {
				m[k] = v
			}
			return m
		}
		if d.New == nil {
			// UnmarshalReplicationResponse: payload = epoch(8) hw(8) data
			var (
				ep   uint64
				hw   int64
				rest []byte
				err  error
			)
			frame, text, panicked := c14Safe(func() { ep, hw, rest, err = UnmarshalReplicationResponse(data) })
			if panicked {
				res.viol("C14:"+frame+":"+class, fmt.Sprintf("UnmarshalReplicationResponse panicked (%s) on a %d-byte input of class %s", text, len(keep), class), replay(map[string]any{"panic": text}))
				continue
			}
			if !mustErr && len(env.Payload) < 16 {
				mustErr, class = true, class+"/short-payload"
			}
			switch {
			case mustErr && err == nil:
				res.viol("C14:accepted-invalid:"+class, fmt.Sprintf("UnmarshalReplicationResponse accepted an input the reference rejects (%s)", class), replay(nil))
			case mustErr:
				res.Counts["agree_error"]++
			case err != nil && env.Verdict == kit.C14Valid:
				res.viol("C14:rejected-valid:"+class, fmt.Sprintf("UnmarshalReplicationResponse rejected a valid envelope (%s): %v", class, err), replay(nil))
			case err != nil:
				res.Counts["unspecified_rejected"]++
			default:
				wantEp := binary.BigEndian.Uint64(env.Payload[:8])
				wantHW := int64(binary.BigEndian.Uint64(env.Payload[8:16]))
				if ep != wantEp || hw != wantHW || !bytes.Equal(rest, env.Payload[16:]) {
					res.viol("C14:wrong-value:"+class, fmt.Sprintf("UnmarshalReplicationResponse returned (%d,%d,%d bytes), reference (%d,%d,%d bytes)", ep, hw, len(rest), wantEp, wantHW, len(env.Payload)-16), replay(nil))
				} else if env.Verdict == kit.C14Valid {
					res.Counts["agree_value"]++
				} else {
					res.Counts["unspecified_accepted_consistent"]++
				}
			}
			continue
		}
		var (
			got pb.Message
			err error
		)
		frame, text, panicked := c14Safe(func() { got, err = d.Call(data) })
		if panicked {
			res.viol("C14:"+frame+":"+class, fmt.Sprintf("Unmarshal%s panicked (%s) on a %d-byte input of class %s", d.Name, text, len(keep), class), replay(map[string]any{"panic": text}))
			continue
		}
		var want pb.Message
		if !mustErr {
			want = d.New()
			if uerr := pb.Unmarshal(env.Payload, want); uerr != nil {
				mustErr, class = true, class+"/bad-protobuf"
			}
		}
		switch {
		case mustErr && err == nil:
			res.viol("C14:accepted-invalid:"+class, fmt.Sprintf("Unmarshal%s accepted an input the reference rejects (%s) and returned %v", d.Name, class, got), replay(nil))
		case mustErr:
			res.Counts["agree_error"]++
		case err != nil && env.Verdict == kit.C14Valid:
			res.viol("C14:rejected-valid:"+class, fmt.Sprintf("Unmarshal%s rejected a valid envelope (%s): %v", d.Name, class, err), replay(nil))
		case err != nil:
			res.Counts["unspecified_rejected"]++
		case !pb.Equal(got, want):
			res.viol("C14:wrong-value:"+class, fmt.Sprintf("Unmarshal%s returned %v, the envelope encodes %v", d.Name, got, want), replay(nil))
		case env.Verdict == kit.C14Valid:
			res.Counts["agree_value"]++
		default:
			res.Counts["unspecified_accepted_consistent"]++
		}
	}
	if !bytes.Equal(keep, data) {
		res.viol("C14:input-modified", "a decoder modified its input buffer", map[string]any{"input_hex": c14Hex(keep), "after_hex": c14Hex(data), "made_by": in.Tag})
	}
}

// c14RoundTrip: marshal∘unmarshal = identity for one seeded value of type t,
// through the plain form produced by Marshal* and the CRC form produced by the
// reference encoder; the encoder's output must be what the document describes.
func c14RoundTrip(res *c14Result, decs []c14Dec, idx int, r *kit.RNG, o kit.C14FillOpts) {
	t := byte(idx % 15)
	d := decs[t]
	res.Evals++
	res.Counts["roundtrips"]++
	if d.New == nil {
		ep, hw, msgs := r.Uint64(), int64(r.Uint64()), r.Bytes(r.Intn(200))
		if r.Chance(1, 4) {
			msgs = nil
		}
		buf := new(bytes.Buffer)
		var n int
		frame, text, panicked := c14Safe(func() { n = WriteReplicationResponseHeader(buf) })
		if panicked {
			res.viol("C14:"+frame+":marshal", "WriteReplicationResponseHeader panicked: "+text, nil)
			return
		}
		binary.Write(buf, binary.BigEndian, ep)
		binary.Write(buf, binary.BigEndian, hw)
		buf.Write(msgs)
		b := buf.Bytes()
		env := kit.C14Classify(b)
		if n != 8 || env.Verdict != kit.C14Valid || env.Class != "plain" || env.Type != 3 {
			res.viol("C14:marshal-nonconforming:ReplicationResponse", fmt.Sprintf("WriteReplicationResponseHeader wrote %x (n=%d), not a plain type-3 header", b[:8], n), nil)
			return
		}
		var (
			gep  uint64
			ghw  int64
			grst []byte
			err  error
		)
		frame, text, panicked = c14Safe(func() { gep, ghw, grst, err = UnmarshalReplicationResponse(b) })
		if panicked {
			res.viol("C14:"+frame+":roundtrip", "UnmarshalReplicationResponse panicked on a well-formed response: "+text, map[string]any{"input_hex": c14Hex(b)})
			return
		}
		if err != nil || gep != ep || ghw != hw || !bytes.Equal(grst, msgs) {
			res.viol("C14:roundtrip:ReplicationResponse", fmt.Sprintf("round trip of (%d,%d,%d bytes) gave (%d,%d,%d bytes) err=%v", ep, hw, len(msgs), gep, ghw, len(grst), err), map[string]any{"input_hex": c14Hex(b)})
		}
		res.sigs[fmt.Sprintf("rt|3|n%d", len(msgs))] = struct{}{}
		return
	}
	v := c14Value(decs, t, r, o)
	refPayload, merr := pb.Marshal(v)
	if merr != nil {
		panic(fmt.Sprintf("c14: generated %s not marshalable: %v", d.Name, merr))
	}
	rp := map[string]any{"type": d.Name, "roundtrip_index": idx, "value": fmt.Sprintf("%.600v", v)}
	var (
		b   []byte
		err error
	)
	frame, text, panicked := c14Safe(func() { b, err = d.Enc(v) })
	if panicked {
		res.viol("C14:"+frame+":marshal", fmt.Sprintf("Marshal%s panicked: %s", d.Name, text), rp)
		return
	}
	if err != nil {
		res.viol("C14:marshal-error:"+d.Name, fmt.Sprintf("Marshal%s failed on a well-formed value: %v", d.Name, err), rp)
		return
	}
	// the bytes must be what the document describes
	env := kit.C14Classify(b)
	chk := d.New()
	if env.Verdict != kit.C14Valid || env.Type != t || pb.Unmarshal(env.Payload, chk) != nil || !pb.Equal(chk, v) {
		res.viol("C14:marshal-nonconforming:"+d.Name, fmt.Sprintf("Marshal%s output is not a documented envelope of type %d carrying the value (reference: %s/%s type %d)", d.Name, t, env.VerdictName(), env.Class, env.Type), rp)
		return
	}
	forms := []struct {
		name string
		data []byte
	}{{"plain", b}, {"crc", kit.C14Encode(t, refPayload, true)}}
	for _, f := range forms {
		var got pb.Message
		frame, text, panicked := c14Safe(func() { got, err = d.Call(f.data) })
		if panicked {
			res.viol("C14:"+frame+":roundtrip", fmt.Sprintf("Unmarshal%s panicked on a well-formed %s envelope: %s", d.Name, f.name, text), rp)
			return
		}
		if err != nil || !pb.Equal(got, v) {
			res.viol("C14:roundtrip:"+f.name, fmt.Sprintf("Marshal→Unmarshal%s (%s form) is not the identity: err=%v got %.300v", d.Name, f.name, err, got), rp)
			return
		}
		// and again: the decoded value re-encodes to an envelope of the same value
		if f.name == "plain" {
			b2, err2 := d.Enc(got)
			got2 := d.New()
			e2 := kit.C14Classify(b2)
			if err2 != nil || e2.Verdict != kit.C14Valid || pb.Unmarshal(e2.Payload, got2) != nil || !pb.Equal(got2, v) {
				res.viol("C14:roundtrip:reencode", fmt.Sprintf("re-encoding the decoded %s changed the value (err=%v)", d.Name, err2), rp)
				return
			}
		}
	}
	// one corrupted checksum / payload byte must be rejected
	bad := kit.C14Encode(t, refPayload, true)
	pos := 8 + r.Intn(len(bad)-8)
	bad[pos] ^= 1 << uint(r.Intn(8))
	frame, text, panicked = c14Safe(func() { _, err = d.Call(bad) })
	if panicked {
		res.viol("C14:"+frame+":crc-bad", fmt.Sprintf("Unmarshal%s panicked on a corrupted CRC envelope: %s", d.Name, text), map[string]any{"input_hex": c14Hex(bad)})
		return
	}
	if err == nil {
		res.viol("C14:accepted-invalid:crc-bad", fmt.Sprintf("Unmarshal%s accepted an envelope whose checksum does not match (bit flipped at byte %d)", d.Name, pos), map[string]any{"input_hex": c14Hex(bad), "type": d.Name})
		return
	}
	res.Counts["roundtrip_ok"]++
	res.Counts["roundtrip_payload_bytes_max"] = max(res.Counts["roundtrip_payload_bytes_max"], int64(len(refPayload)))
	res.sigs[fmt.Sprintf("rt|%d|n%d", t, len(refPayload))] = struct{}{}
	if len(res.Samples) < 2 && len(refPayload) > 0 && len(refPayload) < 200 {
		res.Samples = append(res.Samples, map[string]any{"roundtrip": d.Name, "envelope_hex": c14Hex(b)})
	}
}

// ---------------------------------------------------------------- corpus

type c14Spec struct {
	Seed    uint64 `json:"seed"`
	Level   int    `json:"level"`
	NSeeded int    `json:"nseeded"`
	NRound  int    `json:"nround"`
	Lo      int    `json:"lo"` // first case index (inclusive)
	Hi      int    `json:"hi"` // last case index (exclusive)
	Log     string `json:"log"`
	Out     string `json:"out"`
}

// The case space is [grid | seeded random inputs | round trips]; case i is a
// pure function of (seed, i).
type c14Corpus struct {
	decs   []c14Dec
	bodies kit.C14Bodies
	grid   []kit.C14Input
	spec   c14Spec
}

func c14NewCorpus(spec c14Spec) *c14Corpus {
	c := &c14Corpus{decs: c14Decoders(), spec: spec}
	c.bodies = c14Bodies(c.decs)
	all := make([]byte, 15)
	for i := range all {
		all[i] = byte(i)
	}
	c.grid = kit.C14Grid(kit.NewRNG(kit.Mix(spec.Seed, 0xC14A)), c.bodies, all, spec.Level)
	return c
}

func (c *c14Corpus) total() int { return len(c.grid) + c.spec.NSeeded + c.spec.NRound }

var c14AllTypes = []byte{0, 1, 2, 3, 4, 5, 6, 7, 8, 9, 10, 11, 12, 13, 14}

func (c *c14Corpus) run(res *c14Result, i int, logw *os.File) {
	switch {
	case i < len(c.grid):
		in := c.grid[i]
		fmt.Fprintf(logw, "%d D %s\n", i, hex.EncodeToString(in.Data))
		c14CheckInput(res, c.decs, i, in)
	case i < len(c.grid)+c.spec.NSeeded:
		in := kit.C14Seeded(kit.NewRNG(kit.Mix(kit.Mix(c.spec.Seed, 0xC14B), uint64(i))), c.bodies, c14AllTypes)
		fmt.Fprintf(logw, "%d D %s\n", i, hex.EncodeToString(in.Data))
		c14CheckInput(res, c.decs, i, in)
	default:
		fmt.Fprintf(logw, "%d R\n", i)
		c14RoundTrip(res, c.decs, i, kit.NewRNG(kit.Mix(kit.Mix(c.spec.Seed, 0xC14C), uint64(i))), c14FillOpts())
	}
}

// TestVerifC14DecodersChild executes cases [Lo,Hi) of the spec named by
// C14_CHILD_SPEC; it is only ever started by TestVerifC14Decoders.
func TestVerifC14DecodersChild(t *testing.T) {
	sp := os.Getenv("C14_CHILD_SPEC")
	if sp == "" {
		t.Skip("child of TestVerifC14Decoders")
	}
	var spec c14Spec
	raw, err := os.ReadFile(sp)
	if err != nil {
		t.Fatal(err)
	}
	if err := json.Unmarshal(raw, &spec); err != nil {
		t.Fatal(err)
	}
	logw, err := os.OpenFile(spec.Log, os.O_CREATE|os.O_WRONLY|os.O_APPEND, 0644)
	if err != nil {
		t.Fatal(err)
	}
	defer logw.Close()
	c := c14NewCorpus(spec)
	res := &c14Result{Counts: map[string]int64{}, sigs: map[string]struct{}{}}
	for i := spec.Lo; i < spec.Hi; i++ {
		c.run(res, i, logw)
		if i < len(c.grid) && len(res.Samples) < 4 && i%997 == 5 {
			in := c.grid[i]
			e := kit.C14Classify(in.Data)
			res.Samples = append(res.Samples, map[string]any{"input_hex": c14Hex(in.Data), "made_by": in.Tag, "reference": e.VerdictName() + "/" + e.Class})
		}
	}
	for s := range res.sigs {
		res.Sigs = append(res.Sigs, s)
	}
	res.Done = true
	out, _ := json.Marshal(res)
	if err := os.WriteFile(spec.Out+".tmp", out, 0644); err != nil {
		t.Fatal(err)
	}
	os.Rename(spec.Out+".tmp", spec.Out)
}

// c14LastLogged returns the index of the last case a child logged (-1: none).
func c14LastLogged(path string) (idx int, line string) {
	idx = -1
	f, err := os.Open(path)
	if err != nil {
		return
	}
	defer f.Close()
	sc := bufio.NewScanner(f)
	sc.Buffer(make([]byte, 1<<20), 1<<26)
	for sc.Scan() {
		var i int
		if _, err := fmt.Sscanf(sc.Text(), "%d ", &i); err == nil {
			idx, line = i, sc.Text()
		}
	}
	return
}

var c14CrashFrameRe = regexp.MustCompile(`(?m)^(github\.com/liftbridge-io/liftbridge/server[^\n]*)\([^\n]*\)\n\t(\S+):\d+`)

// c14CrashInfo extracts the first line and the innermost repository frame of a
// crash from a child's output.
func c14CrashInfo(out string) (line, frame string) {
	frame = "?"
	i := strings.Index(out, "panic: ")
	if j := strings.Index(out, "fatal error: "); j >= 0 && (i < 0 || j < i) {
		i = j
	}
	if i < 0 {
		return "no panic / fatal error line in the child's output", frame
	}
	tail := out[i:]
	line = strings.SplitN(tail, "\n", 2)[0]
	for _, m := range c14CrashFrameRe.FindAllStringSubmatch(tail, -1) {
		if strings.Contains(m[2], "zz_verif_") {
			continue
		}
		name := m[1][strings.LastIndex(m[1], "/")+1:]
		if k := strings.Index(name, "."); k >= 0 {
			name = name[k+1:]
		}
		return line, name
	}
	return line, frame
}

func c14Self() string {
	if s := os.Getenv("VERIF_SELF"); s != "" {
		return s
	}
	s, _ := os.Executable()
	return s
}

func TestVerifC14Decoders(t *testing.T) {
	rep := kit.NewReport("C14", "decoders")
	defer rep.Write()
	rep.SetRule("case space = structure-aware grid (for each of the 15 message types: every header-length byte 0..255 x 6-9 rest-of-message shapes x {no flag, CRC flag with right / wrong checksum}; every flag byte x 5 header lengths; every truncation of a plain and a CRC envelope; payload lengths 0..40 plain / right CRC / wrong CRC (crc bit, payload bit); 32 magic bit flips; versions 1..255; every type byte 0..255; magic-prefix-only strings) + seeded random inputs (random bytes, magic+random, semi-valid headers, mutated well-formed envelopes) each fed to ALL 15 Unmarshal* functions in child processes and compared with the reference decoder written from documentation/envelope_protocol.md, + seeded random values of every message type round-tripped (Marshal*, reference check of the bytes, Unmarshal*, CRC form, corrupted CRC). evaluations = decoder calls + round trips; non-trivial = input passes the magic-number gate (header fields are interpreted); distinct = (reference class, version, header length, flags, type, length)")
	rep.Assume("corners the envelope document does not pin are checked for safety only (no crash; if accepted, the value must be the one encoded by data[HeaderLen:]): header length < 8, undefined flag bits, CRC flag with a header longer than 12 bytes")
	rep.Assume("a header longer than 8 bytes without CRC flag is valid (HeaderLen is documented as the payload offset); CRC flag with a header shorter than 12 bytes is invalid (pinned by the repository's TestUnmarshalEnvelopeMissingCRC)")
	rep.Assume("protobuf decoding of the payload itself (github.com/golang/protobuf) is trusted: the reference uses the same library on the payload it located independently")

	work := os.Getenv("VERIF_WORK")
	if work == "" {
		work = t.TempDir()
	}
	spec := c14Spec{Seed: kit.Seed(), Level: kit.Scale(0, 1), NSeeded: kit.Scale(90000, 560000), NRound: kit.Scale(9000, 45000)}
	spec.NSeeded = kit.EnvInt("C14_NSEEDED", spec.NSeeded)
	probe := c14NewCorpus(spec)
	total := probe.total()
	rep.SetInfo("grid_inputs", len(probe.grid))
	rep.SetInfo("seeded_inputs", spec.NSeeded)
	rep.SetInfo("roundtrip_values", spec.NRound)
	rep.SetInfo("decoders", 15)

	nchild := kit.Workers()
	if nchild > 12 {
		nchild = 12
	}
	type seg struct{ lo, hi int }
	var (
		mu    sync.Mutex
		sigs  = map[string]struct{}{}
		evals int64
	)
	merge := func(r *c14Result) {
		mu.Lock()
		defer mu.Unlock()
		evals += r.Evals
		for k, v := range r.Counts {
			if strings.HasSuffix(k, "_max") {
				rep.Max(k, v)
			} else {
				rep.Count(k, v)
			}
		}
		for _, s := range r.Sigs {
			sigs[s] = struct{}{}
		}
		for _, v := range r.Viols {
			rep.Violation(v.FP, v.What, v.Replay)
		}
		for _, s := range r.Samples {
			rep.Sample(s)
		}
	}
	// Interleaved split: child k runs contiguous slices so that a dead child can
	// be resumed right after the case that killed it.
	per := (total + nchild - 1) / nchild
	kit.Parallel(nchild, nchild, func(k int) {
		s := seg{k * per, min((k+1)*per, total)}
		for attempt := 0; s.lo < s.hi; attempt++ {
			if attempt > 20 {
				rep.Inconc(fmt.Sprintf("child %d: more than 20 crashes, cases %d..%d not executed", k, s.lo, s.hi))
				return
			}
			sp := spec
			sp.Lo, sp.Hi = s.lo, s.hi
			base := filepath.Join(work, fmt.Sprintf("dec-child-%d-%d", k, attempt))
			sp.Log, sp.Out = base+".inputs.log", base+".result.json"
			raw, _ := json.Marshal(sp)
			os.WriteFile(base+".spec.json", raw, 0644)
			ctx, cancel := context.WithTimeout(context.Background(), time.Duration(kit.Scale(8, 40))*time.Minute)
			cmd := exec.CommandContext(ctx, c14Self(), "-test.run", "^TestVerifC14DecodersChild$", "-test.count", "1", "-test.timeout", "0")
			cmd.Env = append(os.Environ(), "C14_CHILD_SPEC="+base+".spec.json")
			var outb bytes.Buffer
			cmd.Stdout, cmd.Stderr = &outb, &outb
			err := cmd.Run()
			timedOut := ctx.Err() != nil
			cancel()
			os.WriteFile(base+".output.txt", outb.Bytes(), 0644)
			var r c14Result
			if raw, rerr := os.ReadFile(sp.Out); rerr == nil && json.Unmarshal(raw, &r) == nil && r.Done {
				merge(&r)
				os.Remove(sp.Log)
				return
			}
			if timedOut {
				rep.Inconc(fmt.Sprintf("child %d: watchdog expired while running cases %d..%d", k, s.lo, s.hi))
				return
			}
			// The child died: the last logged case is the witness.
			idx, line := c14LastLogged(sp.Log)
			cl, frame := c14CrashInfo(outb.String())
			rep.Count("child_deaths", 1)
			if idx < 0 {
				rep.Inconc(fmt.Sprintf("child %d died before its first case (err=%v): %s", k, err, cl))
				return
			}
			class := "roundtrip"
			if f := strings.Fields(line); len(f) == 3 {
				if b, herr := hex.DecodeString(f[2]); herr == nil {
					class = kit.C14Classify(b).Class
				}
			}
			tail := outb.String()
			if len(tail) > 6000 {
				tail = tail[:6000]
			}
			rep.Violation("C14:"+frame+":"+class, "the process running the decoders died (unrecoverable): "+cl,
				map[string]any{"last_logged_case": line, "child_output": tail, "err": fmt.Sprint(err)})
			s.lo = idx + 1
		}
	})
	for i := int64(0); i < evals; i++ {
		rep.Eval()
	}
	for s := range sigs {
		rep.Nontrivial(s)
	}
}
