//go:build verif

package encryption

// C17 — long-lived handler unit (codec level).
//
// The roundtrip and tamper units use a handler for a few hundred values.  In a
// server ONE LocalEncryptionHandler instance belongs to one partition object
// and lives as long as that object: it seals every message the partition
// leads (millions) and, at the same time, opens stored forms for every
// subscriber — its own and older ones made under other data keys.  Whatever a
// handler accumulates over such a life (counters, cached keys, cached wrapped
// keys, reused buffers, a rotation schedule by count or by volume) is state
// that the short units never build up.
//
// TestVerifC17LongLived therefore runs a few *lives*: one handler instance
// seals tens of thousands (quick) up to 2^20+ (thorough) values, or several
// hundred MiB (quick) up to > 4 GiB (thorough) of large values, in one of four
// usage shapes (see c17LifeModes), and every sealed form is judged by
//
//   - the sealing instance itself,
//   - a companion instance built from the same master key before the life
//     started (a follower / a long-lived reader), and
//   - brand-new instances built at checkpoints (a restart at that moment),
//     which re-read a retained sample (the first 64 forms, every form around
//     powers of two and round decimal counts, a stride) — as does the sealer
//     itself, so that OLD forms are read after MANY later seals.
//
// Oracle as in roundtrip: Read(Seal(v)) == v for each of these readers, the
// sealed form is not / does not contain the value; at checkpoints single-byte
// corruptions of the newest form and a form spliced with the wrapped key of
// another handler must be refused by the long-lived instances.  No timing.

import (
	"bytes"
	"encoding/binary"
	"encoding/hex"
	"fmt"
	"math/bits"
	"runtime/debug"
	"strings"
	"sync"
	"sync/atomic"
	"testing"

	kit "github.com/liftbridge-io/liftbridge/internal/verifkit"
)

// Usage shapes of a handler's life.
//
//	interleaved  seal, then read at once by sealer and companion (leader with a
//	             live subscriber)
//	sealonly     no Read on the sealing instance until the life is over (leader
//	             without subscribers); the companion reads every form at once,
//	             the sealer reads the retained sample at the end
//	mixed        like interleaved, and between seals the sealer opens forms that
//	             a sibling handler sealed (other data key, same master key: the
//	             older segments of its own partition) and the companion seals too
//	concurrent   one goroutine seals while two others call Read on the same
//	             instance (what subscriber goroutines do in the server)
var c17LifeModes = []string{"interleaved", "sealonly", "mixed", "concurrent"}

type c17LifeSpec struct {
	ID      int
	Mode    string
	KeyLen  int
	Profile string // small | volume
	N       int    // values sealed by the ONE instance
}

// c17Keep: ordinals (1-based count of seals of the instance) whose forms are
// retained for the deferred reads.
func c17Keep(i, stride int) bool {
	if i <= 64 || i%stride == 0 {
		return true
	}
	for d := -2; d <= 2; d++ {
		x := i + d
		if x > 0 && x&(x-1) == 0 {
			return true
		}
	}
	for p := 100; p <= i+1; p *= 10 {
		for _, m := range []int{1, 2, 5} {
			if i >= p*m-1 && i <= p*m+1 {
				return true
			}
		}
	}
	return false
}

// c17IsCheckpoint: after this many seals a brand-new handler is built and the
// retained sample is re-read (by it and by the sealer).
func c17IsCheckpoint(i, n int) bool {
	if i == n {
		return true
	}
	return i >= 256 && (i&(i-1) == 0 || (i-1)&(i-2) == 0)
}

type c17Kept struct {
	ord    int
	plain  []byte
	sealed []byte
}

type c17LifeRun struct {
	rep   *kit.Report
	spec  c17LifeSpec
	key   []byte
	mu    sync.Mutex
	fails map[string]*c17LifeFailure // kind|reader -> earliest failure of this life
	agg   *c17LifeAgg
	cnt   map[string]int64
	evals int
	// plaintext bytes sealed by the instance so far (for the replay)
	sealedBytes atomic.Int64
}

// count: per-life counters, flushed into the report at the end of the life
// (the report's mutex would otherwise be taken ~10 times per sealed value by
// every life).
func (l *c17LifeRun) count(k string) {
	l.mu.Lock()
	l.cnt[k]++
	l.mu.Unlock()
}

func (l *c17LifeRun) flush() {
	l.mu.Lock()
	defer l.mu.Unlock()
	for k, n := range l.cnt {
		l.rep.Count(k, n)
	}
	for i := 0; i < l.evals; i++ {
		l.rep.Eval()
	}
	l.cnt, l.evals = map[string]int64{}, 0
}

func (l *c17LifeRun) band(ord int) string {
	prior := ord - 1
	if prior <= 0 {
		return "first-seal"
	}
	return fmt.Sprintf("after-2^%d-seals", bits.Len(uint(prior))-1)
}

// c17LifeFailure is the failing check with the smallest seal number that one
// life saw for one (kind, reader).
type c17LifeFailure struct {
	kind, reader string
	ord, n       int
	band, what   string
	replay       map[string]any
}

// c17LifeAgg collects the failures of all lives; report() turns them into ONE
// violation per failure kind (read-error, roundtrip-mismatch, tamper-accepted:
// <mutation>, ...): the fingerprint carries the kind and how much an instance
// had sealed before the EARLIEST failing form was made (so that a defect tied
// to another count is another fingerprint); which readers and lives saw it is
// in the text and the replay.
type c17LifeAgg struct {
	mu   sync.Mutex
	list []*c17LifeFailure
}

func (a *c17LifeAgg) report(rep *kit.Report) {
	a.mu.Lock()
	defer a.mu.Unlock()
	byKind := map[string][]*c17LifeFailure{}
	for _, f := range a.list {
		byKind[f.kind] = append(byKind[f.kind], f)
	}
	for _, kind := range kit.SortedKeys(byKind) {
		fs := byKind[kind]
		first := fs[0]
		total := 0
		readers := map[string]int{}
		var also []string
		for _, f := range fs {
			if f.ord < first.ord {
				first = f
			}
			total += f.n
			readers[f.reader] += f.n
		}
		for _, f := range fs {
			also = append(also, fmt.Sprintf("life %v reader %q: %d failing checks, earliest at seal #%d", f.replay["life"], f.reader, f.n, f.ord))
		}
		r := map[string]any{}
		for k, v := range first.replay {
			r[k] = v
		}
		r["failing_checks_by_reader"] = readers
		r["all_lives_and_readers"] = also
		rep.Violation(fmt.Sprintf("C17:long-lived-handler:%s:%s", kind, first.band),
			fmt.Sprintf("%s (%d failing checks of this kind; readers: %s)", first.what, total, strings.Join(kit.SortedKeys(readers), ", ")), r)
	}
}

// fail records a failing check; per life and (kind, reader) the one with the
// smallest seal number is kept, the others are counted.
func (l *c17LifeRun) fail(kind, reader string, ord int, what string, v, sealed []byte, extra map[string]any) {
	l.mu.Lock()
	defer l.mu.Unlock()
	l.cnt["failed_checks"]++
	key := kind + "|" + reader
	f := l.fails[key]
	if f != nil && f.ord <= ord {
		f.n++
		return
	}
	r := map[string]any{"seed": kit.Seed(), "life": l.spec.ID, "mode": l.spec.Mode, "profile": l.spec.Profile, "master_key_hex": hex.EncodeToString(l.key),
		"seals_planned_for_the_instance": l.spec.N, "failing_form_is_seal_number": ord, "bytes_sealed_by_the_instance_when_the_check_failed": l.sealedBytes.Load(), "reader": reader, "value_len": len(v), "sealed_len": len(sealed),
		"sealed_prefix_hex": hex.EncodeToString(sealed[:c17min(len(sealed), 96)])}
	if len(v) <= 256 {
		r["value_hex"] = hex.EncodeToString(v)
	}
	for k, x := range extra {
		r[k] = x
	}
	nf := &c17LifeFailure{kind: kind, reader: reader, ord: ord, n: 1, band: l.band(ord), replay: r,
		what: fmt.Sprintf("life %d (%s, %s values, %d-byte master key): %s — form made by seal #%d of ONE handler instance", l.spec.ID, l.spec.Mode, l.spec.Profile, len(l.key), what, ord)}
	if f != nil {
		nf.n = f.n + 1
		*f = *nf
		return
	}
	l.fails[key] = nf
	l.agg.mu.Lock()
	l.agg.list = append(l.agg.list, nf)
	l.agg.mu.Unlock()
}

// check reads one genuine form with one reader.
func (l *c17LifeRun) check(reader string, h *LocalEncryptionHandler, ord int, v, sealed []byte) bool {
	var (
		got []byte
		err error
		pv  any
	)
	func() {
		defer func() {
			if p := recover(); p != nil {
				pv = fmt.Sprintf("%v\n%s", p, debug.Stack())
			}
		}()
		got, err = h.Read(sealed)
	}()
	l.count("reads_by_" + reader)
	switch {
	case pv != nil:
		l.fail("read-panic", reader, ord, "Read of a genuine sealed form panicked", v, sealed, map[string]any{"panic": pv})
	case err != nil:
		l.fail("read-error", reader, ord, fmt.Sprintf("Read of a genuine sealed form by the %s failed: %v", c17ReaderName(reader), err), v, sealed, map[string]any{"error": err.Error()})
	case !bytes.Equal(got, v):
		l.fail("roundtrip-mismatch", reader, ord, fmt.Sprintf("Read by the %s returned %d bytes that differ from the %d-byte value sealed", c17ReaderName(reader), len(got), len(v)), v, sealed, map[string]any{"got_prefix_hex": hex.EncodeToString(got[:c17min(len(got), 96)])})
	default:
		return true
	}
	return false
}

func c17ReaderName(r string) string {
	switch r {
	case "sealer":
		return "sealing instance (right after the seal)"
	case "companion":
		return "companion instance (same master key, built before the life)"
	case "sealer-late":
		return "sealing instance (after it sealed many more values)"
	case "fresh":
		return "brand-new instance built from the same master key at a checkpoint"
	case "sealer-foreign":
		return "long-lived sealing instance opening a form of a sibling handler (other data key, same master key)"
	case "sealer-reads-companion-form":
		return "long-lived sealing instance opening a form that the companion instance sealed (seal number = the companion's)"
	case "sealer-concurrent":
		return "sealing instance, Read called from another goroutine while it keeps sealing"
	}
	return r
}

// refuse: a corrupted form must make Read return an error.
func (l *c17LifeRun) refuse(reader string, h *LocalEncryptionHandler, ord int, kind string, in, v, genuine []byte) {
	var (
		got []byte
		err error
		pv  any
	)
	func() {
		defer func() {
			if p := recover(); p != nil {
				pv = fmt.Sprintf("%v\n%s", p, debug.Stack())
			}
		}()
		got, err = h.Read(in)
	}()
	l.count("corrupted_forms_given_to_long_lived_instances")
	switch {
	case pv != nil:
		l.fail("tamper-panic:"+kind, reader, ord, "Read panicked on a corrupted form ("+kind+", reader "+reader+")", v, genuine, map[string]any{"panic": pv, "input_prefix_hex": hex.EncodeToString(in[:c17min(len(in), 96)])})
	case err == nil:
		same := "other bytes"
		if bytes.Equal(got, v) {
			same = "the original plaintext"
		}
		l.fail("tamper-accepted:"+kind, reader, ord, fmt.Sprintf("Read by the long-lived %s returned %d bytes (%s) instead of an error for a corrupted form (%s)", reader, len(got), same, kind), v, genuine, map[string]any{"input_prefix_hex": hex.EncodeToString(in[:c17min(len(in), 96)])})
	default:
		l.count("corrupted_forms_refused")
	}
}

func c17LifeValue(rng *kit.RNG, pool []byte, profile string, ord int) []byte {
	var n int
	if profile == "volume" {
		n = []int{16 << 10, 32 << 10, 48 << 10, 64 << 10}[rng.Intn(4)] + rng.Intn(3) - 1
	} else {
		switch rng.Intn(16) {
		case 0:
			n = 0
		case 1:
			n = rng.Range(1, 7)
		case 2:
			n = rng.Range(97, 1500)
		default:
			n = rng.Range(8, 96)
		}
	}
	v := make([]byte, n)
	off := rng.Intn(len(pool) - n)
	copy(v, pool[off:off+n])
	if n >= 8 {
		// the ordinal makes every value of a life distinct
		binary.BigEndian.PutUint64(v, uint64(ord)<<16|uint64(pool[off])<<8|0xC1)
		if n >= 16 {
			copy(v[8:16], pool[(off+ord)%(len(pool)-8):])
		}
	}
	return v
}

func TestVerifC17LongLived(t *testing.T) {
	rep := kit.NewReport("C17", "longlived")
	defer rep.Write()
	rep.SetRule("lives of ONE LocalEncryptionHandler instance: it seals N values (quick: 3*2^15+ small values per life, up to 2^17+; thorough: up to 2^20+; 'volume' lives: 16-64 KiB values up to > 256 MiB quick / > 4 GiB thorough) under a 16- or 32-byte master key in one of four usage shapes (interleaved seal/read; seal-only, read at the end; mixed with reads of a sibling handler's forms and seals by the companion; Read from other goroutines while sealing).  EVERY sealed form is read back by the sealing instance and by a companion instance built from the same master key before the life; at checkpoints (each power of two from 256, the count after it, the end) a brand-new instance and the sealer re-read the retained sample (first 64 forms, forms within 2 of every power of two and next to 1/2/5*10^k, a stride), and single-byte corruptions (one per region) of the newest form plus a splice with a sibling's wrapped key must be refused by the long-lived instances.  Oracle: Read(Seal(v)) == v for every reader; sealed form != v and (>= 8 bytes) does not contain v; corrupted form -> error.  non-trivial = a power-of-two band of the life in which every check held; distinct = mode x key length x profile x band")
	rep.Assume("a handler instance is used by one sealing goroutine at a time (partition.messageProcessingLoop); Read may be called from other goroutines at any time (subscriber goroutines) — the 'concurrent' life does exactly that and nothing more")
	rep.Assume("a rotation schedule driven by wall-clock time cannot be reached (the handler reads no clock on this tree); schedules by number of seals and by bytes sealed are covered up to the counts listed under max_seals_by_one_handler / max_bytes_sealed_by_one_handler")

	root := kit.NewRNG(kit.Mix(kit.Seed(), 0xC17E))
	pool := root.Bytes(1 << 20)

	var specs []c17LifeSpec
	add := func(mode string, keyLen int, profile string, n int) {
		specs = append(specs, c17LifeSpec{ID: len(specs), Mode: mode, KeyLen: keyLen, Profile: profile, N: n})
	}
	// the seed rotates which shape gets which key length and the longest life
	rot := int(kit.Seed() % 4)
	mode := func(i int) string { return c17LifeModes[(i+rot)%4] }
	kl := func(i int) int { return []int{16, 32}[(i+int(kit.Seed()>>2))%2] }
	jit := func() int { return root.Intn(2000) }
	if kit.Thorough() {
		add(mode(0), kl(0), "small", 1<<20+5000+jit())
		add(mode(1), kl(1), "small", 1<<20+5000+jit())
		add(mode(2), kl(0), "small", 1<<19+5000+jit())
		add(mode(3), kl(1), "small", 1<<19+5000+jit())
		add(mode(0), kl(1), "small", 1<<18+jit())
		add(mode(1), kl(0), "small", 1<<18+jit())
		add("interleaved", kl(0), "volume", 110000+jit()) // > 4 GiB
		add("sealonly", kl(1), "volume", 20000+jit())
	} else {
		add(mode(0), kl(0), "small", 1<<17+3000+jit())
		add(mode(1), kl(1), "small", 3<<15+jit())
		add(mode(2), kl(0), "small", 3<<15+jit())
		add(mode(3), kl(1), "small", 3<<15+jit())
		add("interleaved", kl(1), "volume", 7000+jit()) // > 256 MiB
		add("mixed", kl(0), "volume", 2500+jit())
	}
	rep.SetInfo("lives", specs)
	rngs := make([]*kit.RNG, len(specs))
	for i := range specs {
		rngs[i] = root.Fork(uint64(1000 + i))
	}

	agg := &c17LifeAgg{}
	defer agg.report(rep)
	kit.Parallel(len(specs), kit.Workers(), func(si int) {
		spec := specs[si]
		rng := rngs[si]
		key := c17MasterKey(rng, spec.KeyLen, si%2 == 0)
		l := &c17LifeRun{rep: rep, spec: spec, key: key, fails: map[string]*c17LifeFailure{}, agg: agg, cnt: map[string]int64{}}
		defer l.flush()
		newH := func(what string) *LocalEncryptionHandler {
			h, err := c17NewHandler(key)
			if err != nil {
				rep.Violation("C17:handler-not-reproducible", what+": handler for an accepted master key could not be built: "+err.Error(), map[string]any{"master_key_hex": hex.EncodeToString(key)})
				return nil
			}
			return h
		}
		sealer, companion, sibling := newH("sealer"), newH("companion"), newH("sibling")
		if sealer == nil || companion == nil || sibling == nil {
			return
		}
		// forms of the sibling (another data key under the same master key)
		type foreign struct{ plain, sealed []byte }
		var foreigns []foreign
		for i := 0; i < 32; i++ {
			v := c17LifeValue(rng, pool, "small", 1<<30+i)
			s, err := sibling.Seal(v)
			if err != nil {
				rep.Inconc("sibling handler could not seal: " + err.Error())
				return
			}
			foreigns = append(foreigns, foreign{v, s})
		}

		stride := spec.N/1500 + 1
		var kept []c17Kept
		wrapped := map[string]int{} // wrapped-key bytes -> first ordinal (observation only)
		bandOK := true
		bandStart := 1
		closeBand := func(upto int) {
			if bandOK {
				rep.Nontrivial(fmt.Sprintf("%s|k%d|%s|%s", spec.Mode, spec.KeyLen, spec.Profile, l.band(bandStart)))
			}
			bandOK, bandStart = true, upto+1
		}

		// concurrent mode: two goroutines call Read on the SEALING instance
		type rdJob struct {
			ord       int
			v, sealed []byte
		}
		var rdCh chan rdJob
		var rdWG sync.WaitGroup
		var rdBad atomic.Int64
		if spec.Mode == "concurrent" {
			rdCh = make(chan rdJob, 64)
			for g := 0; g < 2; g++ {
				rdWG.Add(1)
				go func() {
					defer rdWG.Done()
					for j := range rdCh {
						if !l.check("sealer-concurrent", sealer, j.ord, j.v, j.sealed) {
							rdBad.Add(1)
						}
					}
				}()
			}
		}

		var sealedBytes int64
		companionSeals := 0
		for ord := 1; ord <= spec.N; ord++ {
			l.evals++
			v := c17LifeValue(rng, pool, spec.Profile, ord)
			sealed, err := sealer.Seal(v)
			if err != nil {
				bandOK = false
				l.fail("seal-error", "-", ord, "Seal failed: "+err.Error(), v, nil, nil)
				continue
			}
			sealedBytes += int64(len(v))
			l.sealedBytes.Store(sealedBytes)
			l.count("seals_by_long_lived_instances")
			ok := true
			if bytes.Equal(sealed, v) {
				ok = false
				l.fail("stored-equals-plaintext", "-", ord, "sealed form equals the value", v, sealed, nil)
			} else if len(v) >= 8 && bytes.Contains(sealed, v) {
				ok = false
				l.fail("stored-contains-plaintext", "-", ord, fmt.Sprintf("sealed form contains the %d-byte value in clear at byte %d", len(v), bytes.Index(sealed, v)), v, sealed, nil)
			}
			if len(sealed) > 0 && int(sealed[0])+1 <= len(sealed) {
				wk := string(sealed[:int(sealed[0])+1])
				if _, seen := wrapped[wk]; !seen && len(wrapped) < 4096 {
					wrapped[wk] = ord
				}
			}
			switch spec.Mode {
			case "interleaved", "mixed":
				ok = l.check("sealer", sealer, ord, v, sealed) && ok
				ok = l.check("companion", companion, ord, v, sealed) && ok
			case "concurrent":
				rdCh <- rdJob{ord, v, sealed}
				ok = l.check("companion", companion, ord, v, sealed) && ok
			case "sealonly":
				// the SEALING instance never reads during its life; the companion
				// (a follower / a subscriber served elsewhere) reads every form
				ok = l.check("companion", companion, ord, v, sealed) && ok
			}
			if spec.Mode == "mixed" {
				switch rng.Intn(8) {
				case 0: // the long-lived sealer opens an older form (other data key)
					f := foreigns[rng.Intn(len(foreigns))]
					ok = l.check("sealer-foreign", sealer, ord, f.plain, f.sealed) && ok
				case 1: // the companion seals too (its own seal count); the long-lived sealer must open that
					cv := c17LifeValue(rng, pool, "small", ord)
					if cs, err := companion.Seal(cv); err == nil {
						companionSeals++
						ok = l.check("sealer-reads-companion-form", sealer, companionSeals, cv, cs) && ok
					}
				}
			}
			if c17Keep(ord, stride) {
				kept = append(kept, c17Kept{ord, v, sealed})
			}
			if !ok {
				bandOK = false
			}
			if c17IsCheckpoint(ord, spec.N) {
				l.count("checkpoints")
				fresh := newH("checkpoint")
				if fresh == nil {
					return
				}
				// sample re-read: in a seal-only life the sealer reads nothing
				// before the end; elsewhere the retained sample is re-read by a
				// brand-new instance and by the sealer at every checkpoint
				if spec.Mode != "sealonly" {
					from := 0
					if len(kept) > 600 && ord != spec.N {
						from = len(kept) - 600 // the newest 600 + the first 64 below
						for _, k := range kept[:64] {
							bandOK = l.check("fresh", fresh, k.ord, k.plain, k.sealed) && bandOK
							bandOK = l.check("sealer-late", sealer, k.ord, k.plain, k.sealed) && bandOK
						}
					}
					for _, k := range kept[from:] {
						bandOK = l.check("fresh", fresh, k.ord, k.plain, k.sealed) && bandOK
						bandOK = l.check("sealer-late", sealer, k.ord, k.plain, k.sealed) && bandOK
					}
				} else {
					// a restart at this moment: the brand-new instance reads the
					// newest forms; the sealer still never reads
					from := len(kept) - 64
					if from < 0 {
						from = 0
					}
					for _, k := range kept[from:] {
						bandOK = l.check("fresh", fresh, k.ord, k.plain, k.sealed) && bandOK
					}
				}
				// corrupted forms must still be refused by the long-lived instances
				if spec.Mode != "sealonly" && len(sealed) > 30 {
					ks := int(sealed[0])
					pos := []int{0, 1 + rng.Intn(ks), ks + 1 + rng.Intn(12), len(sealed) - 1 - rng.Intn(16)}
					if len(sealed)-ks-13-16 > 0 {
						pos = append(pos, ks+13+rng.Intn(len(sealed)-ks-13-16))
					}
					for _, p := range pos {
						in := append([]byte(nil), sealed...)
						in[p] ^= byte(1 << uint(rng.Intn(8)))
						region := c17Region(sealed, p)
						if p == 0 {
							// a changed key-size byte moves the boundary between the
							// wrapped key and the ciphertext: still a corruption
							region = "keysize"
						}
						l.refuse("sealing instance", sealer, ord, "flip:"+region, in, v, sealed)
						l.refuse("companion instance", companion, ord, "flip:"+region, in, v, sealed)
					}
					f := foreigns[rng.Intn(len(foreigns))]
					fks := int(f.sealed[0])
					sp := append(append([]byte(nil), f.sealed[:fks+1]...), sealed[ks+1:]...)
					l.refuse("sealing instance", sealer, ord, "splice", sp, v, sealed)
					l.refuse("companion instance", companion, ord, "splice", sp, v, sealed)
				}
				if ord&(ord-1) == 0 || ord == spec.N {
					closeBand(ord)
				}
			}
		}
		if rdCh != nil {
			close(rdCh)
			rdWG.Wait()
			if rdBad.Load() == 0 {
				rep.Nontrivial(fmt.Sprintf("%s|k%d|%s|reads-from-other-goroutines", spec.Mode, spec.KeyLen, spec.Profile))
			}
		}
		if spec.Mode == "sealonly" {
			// end of the life: the sealer's first Reads ever, on the retained sample
			allOK := true
			for _, k := range kept {
				allOK = l.check("sealer-late", sealer, k.ord, k.plain, k.sealed) && allOK
			}
			if allOK {
				rep.Nontrivial(fmt.Sprintf("%s|k%d|%s|read-at-end", spec.Mode, spec.KeyLen, spec.Profile))
			}
		}
		l.mu.Lock()
		nf := 0
		for _, f := range l.fails {
			nf += f.n
		}
		l.mu.Unlock()
		rep.Max("max_seals_by_one_handler", int64(spec.N))
		rep.Max("max_bytes_sealed_by_one_handler", sealedBytes)
		rep.Max("max_distinct_wrapped_keys_in_forms_of_one_handler", int64(len(wrapped)))
		rep.Count("lives_completed", 1)
		if si < 3 {
			rep.Sample(map[string]any{"life": spec.ID, "mode": spec.Mode, "master_key_len": spec.KeyLen, "profile": spec.Profile, "seals_by_the_one_instance": spec.N,
				"bytes_sealed": sealedBytes, "forms_retained_for_deferred_reads": len(kept), "distinct_wrapped_keys_in_its_forms": len(wrapped), "failed_checks": nf})
		}
	})
}
