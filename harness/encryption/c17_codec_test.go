//go:build verif

package encryption

// C17 — encrypted streams never store plaintext and always return it
// (codec level).  The real LocalEncryptionHandler is driven with seeded values
// and master keys:
//
//   - TestVerifC17Roundtrip (in-process): Read(Seal(v)) == v for the sealing
//     handler and for a second handler built from the same master key (= the
//     partition after a restart); the sealed form differs from v and, for
//     values >= 8 bytes, does not contain it.
//   - TestVerifC17Tamper (parent) + TestVerifC17Child (children): every
//     tampered / truncated / extended / spliced / foreign-key form must make
//     Read return an *error*.  A Go panic is a violation (recovered in the
//     child and classified); a death of the child (fatal error, kill) is
//     classified by the parent from the cursor file that the child writes
//     before every single call.

import (
	"bytes"
	"encoding/hex"
	"encoding/json"
	"fmt"
	"os"
	"os/exec"
	"path/filepath"
	"regexp"
	"runtime/debug"
	"sort"
	"strings"
	"sync"
	"testing"
	"time"

	kit "github.com/liftbridge-io/liftbridge/internal/verifkit"
)

// ---------------------------------------------------------------- keys, values

var c17EnvMu sync.Mutex

// c17NewHandler builds a real handler for the given master key.  The key is
// supplied the only way the code accepts it: the LIFTBRIDGE_ENCRYPTION_KEY
// environment variable (process global, hence the mutex).
func c17NewHandler(master []byte) (*LocalEncryptionHandler, error) {
	c17EnvMu.Lock()
	defer c17EnvMu.Unlock()
	if err := os.Setenv(masterKeyVarName, string(master)); err != nil {
		return nil, fmt.Errorf("setenv: %v", err)
	}
	defer os.Unsetenv(masterKeyVarName)
	return NewLocalEncryptionHandler()
}

// c17MasterKey makes a key of n bytes.  An environment variable cannot carry
// NUL, so key bytes are drawn from 1..255 (binary) or from printable ASCII.
func c17MasterKey(rng *kit.RNG, n int, printable bool) []byte {
	k := make([]byte, n)
	for i := range k {
		if printable {
			k[i] = byte(33 + rng.Intn(94))
		} else {
			k[i] = byte(1 + rng.Intn(255))
		}
	}
	return k
}

type c17Value struct {
	Class string
	V     []byte
}

func c17Structured(rng *kit.RNG, n int) []byte {
	var b bytes.Buffer
	for i := 0; b.Len() < n; i++ {
		fmt.Fprintf(&b, `{"id":%d,"user":"u%04d","card":"4111-1111-1111-%04d","note":"secret %d"},`, i, rng.Intn(10000), rng.Intn(10000), rng.Intn(1000))
	}
	return b.Bytes()[:n]
}

// c17Values is the seeded value list: empty, every length 1..64, sizes around
// powers of two up to 64 KiB, random lengths; contents random, constant,
// periodic, structured text, and values that are themselves sealed forms.
func c17Values(rng *kit.RNG, nRandomSizes int) []c17Value {
	var out []c17Value
	add := func(class string, v []byte) { out = append(out, c17Value{class, v}) }
	add("empty", []byte{})
	for n := 1; n <= 64; n++ {
		switch n % 4 {
		case 0:
			add("random", rng.Bytes(n))
		case 1:
			add("zeros", make([]byte, n))
		case 2:
			add("text", c17Structured(rng, n))
		default:
			add("ff", bytes.Repeat([]byte{0xff}, n))
		}
	}
	for _, n := range []int{127, 128, 129, 255, 256, 257, 1023, 1024, 1025, 4095, 4096, 4097, 16384, 32768, 65535, 65536} {
		add("random", rng.Bytes(n))
		if n%2 == 0 {
			add("text", c17Structured(rng, n))
		} else {
			add("periodic", bytes.Repeat([]byte("abc"), n/3+1)[:n])
		}
	}
	for i := 0; i < nRandomSizes; i++ {
		var n int
		switch rng.Intn(3) {
		case 0:
			n = rng.Range(1, 200)
		case 1:
			n = rng.Range(200, 5000)
		default:
			n = rng.Range(5000, 65536)
		}
		switch rng.Intn(4) {
		case 0:
			add("text", c17Structured(rng, n))
		case 1:
			add("zeros", make([]byte, n))
		default:
			add("random", rng.Bytes(n))
		}
	}
	return out
}

func c17LenClass(n int) string {
	switch {
	case n == 0:
		return "0"
	case n < 8:
		return "1-7"
	case n < 16:
		return "8-15"
	case n == 16:
		return "16"
	case n <= 64:
		return "17-64"
	case n <= 1024:
		return "65-1K"
	case n <= 16384:
		return "1K-16K"
	default:
		return "16K-64K"
	}
}

// ---------------------------------------------------------------- roundtrip

func TestVerifC17Roundtrip(t *testing.T) {
	rep := kit.NewReport("C17", "roundtrip")
	defer rep.Write()
	rep.SetRule("seeded values (empty, every length 1..64, sizes around powers of two up to 64 KiB, random sizes; random / zeros / 0xff / periodic / structured text / a sealed form as value) x master keys of 16, 24 and 32 bytes (printable and binary); Seal by handler A, Read by A and by a fresh handler with the same master key; non-trivial = value sealed and read back by both handlers; distinct = key length x content class x length class")
	rep.Assume("documentation (configuration.md, client_implementation.md) requires a 128-bit or 256-bit master key: a 24-byte key may be refused when the handler is built (counted as key_refused); if it is accepted it must round-trip like any other")
	rep.Assume("containment of the plaintext in the sealed form is asserted only for values of >= 8 bytes (shorter values can occur in ciphertext by chance)")
	rng := kit.NewRNG(kit.Mix(kit.Seed(), 0xC17))
	type keyCase struct {
		key []byte
		a   *LocalEncryptionHandler
		b   *LocalEncryptionHandler
	}
	var keys []*keyCase
	nk := kit.Scale(2, 6)
	for _, n := range []int{16, 24, 32} {
		for i := 0; i < nk; i++ {
			k := c17MasterKey(rng, n, i%2 == 0)
			a, err := c17NewHandler(k)
			if err != nil {
				rep.Eval()
				rep.Count(fmt.Sprintf("key_refused_len%d", n), 1)
				if n != 24 {
					rep.Violation(fmt.Sprintf("C17:handler-refuses-%d-byte-key", n),
						fmt.Sprintf("NewLocalEncryptionHandler refused a documented %d-bit master key: %v", n*8, err),
						map[string]any{"master_key_hex": hex.EncodeToString(k)})
				}
				continue
			}
			b, err := c17NewHandler(k)
			if err != nil {
				rep.Violation("C17:handler-not-reproducible", "second handler for the same master key failed: "+err.Error(), map[string]any{"master_key_hex": hex.EncodeToString(k)})
				continue
			}
			rep.Count(fmt.Sprintf("key_accepted_len%d", n), 1)
			keys = append(keys, &keyCase{k, a, b})
		}
	}
	vals := c17Values(rng, kit.Scale(60, 1500))
	// a sealed form as a value (nesting)
	if len(keys) > 0 {
		for i := 0; i < 3; i++ {
			s, err := keys[0].a.Seal(vals[rng.Intn(len(vals))].V)
			if err == nil && len(s) <= 70000 {
				vals = append(vals, c17Value{"sealed-form", s})
			}
		}
	}
	for _, kc := range keys {
		for vi, v := range vals {
			rep.Eval()
			replay := func(extra map[string]any) map[string]any {
				m := map[string]any{"master_key_hex": hex.EncodeToString(kc.key), "value_len": len(v.V), "value_class": v.Class}
				if len(v.V) <= 256 {
					m["value_hex"] = hex.EncodeToString(v.V)
				}
				for k, x := range extra {
					m[k] = x
				}
				return m
			}
			orig := append([]byte(nil), v.V...)
			sealed, err := kc.a.Seal(v.V)
			if err != nil {
				rep.Violation("C17:seal-error", fmt.Sprintf("Seal failed for a %d-byte %s value: %v", len(v.V), v.Class, err), replay(nil))
				continue
			}
			if !bytes.Equal(orig, v.V) {
				rep.Violation("C17:seal-mutates-input", "Seal modified the caller's value", replay(nil))
			}
			if bytes.Equal(sealed, v.V) {
				rep.Violation("C17:stored-equals-plaintext", "sealed form equals the plaintext", replay(nil))
			}
			if len(v.V) >= 8 && bytes.Contains(sealed, v.V) {
				rep.Violation("C17:stored-contains-plaintext", fmt.Sprintf("sealed form contains the %d-byte plaintext in clear at byte %d", len(v.V), bytes.Index(sealed, v.V)), replay(map[string]any{"sealed_prefix_hex": hex.EncodeToString(sealed[:c17min(len(sealed), 160)])}))
			}
			rep.Count("stored_forms_scanned", 1)
			okBoth := true
			for hi, h := range []*LocalEncryptionHandler{kc.a, kc.b} {
				got, err := h.Read(sealed)
				if err != nil {
					okBoth = false
					rep.Violation(fmt.Sprintf("C17:read-error:handler%d", hi), fmt.Sprintf("Read of a genuine sealed form failed (handler %d: 0 = sealer, 1 = fresh handler with the same master key): %v", hi, err), replay(nil))
					continue
				}
				if !bytes.Equal(got, v.V) {
					okBoth = false
					rep.Violation(fmt.Sprintf("C17:roundtrip-mismatch:handler%d", hi), fmt.Sprintf("Read(Seal(v)) != v for a %d-byte %s value (got %d bytes)", len(v.V), v.Class, len(got)), replay(nil))
				}
			}
			if okBoth {
				rep.Count("roundtrips_ok", 1)
				rep.Nontrivial(fmt.Sprintf("k%d|%s|%s", len(kc.key), v.Class, c17LenClass(len(v.V))))
			}
			if vi < 2 && len(kc.key) == 16 {
				rep.Sample(map[string]any{"master_key_len": len(kc.key), "value_class": v.Class, "value_len": len(v.V), "sealed_len": len(sealed)})
			}
		}
	}
	rep.SetInfo("values", len(vals))
	rep.SetInfo("handlers", len(keys))
}

func c17min(a, b int) int {
	if a < b {
		return a
	}
	return b
}

// ---------------------------------------------------------------- tamper jobs

// c17Job is one batch of Read calls on one reader handler.  The inputs are
// *derived* from the job by c17JobInput (same code in parent and child), so a
// (job, idx) cursor identifies the exact input.
type c17Job struct {
	ID        int    `json:"id"`
	ReaderKey string `json:"reader_key"` // hex master key of the handler that calls Read
	SealKey   string `json:"seal_key"`   // hex master key the base form was sealed under
	Base      string `json:"base"`       // hex sealed form (genuine)
	Other     string `json:"other,omitempty"`
	Plain     string `json:"plain"` // hex plaintext of Base
	// Mode: flipall (every pos x every other value), flips (explicit list),
	// trunc (prefixes), misc (extensions, suffixes, empty, splices), foreign
	// (the genuine form read under another master key).
	Mode    string   `json:"mode"`
	Flips   [][2]int `json:"flips,omitempty"`
	Truncs  []int    `json:"truncs,omitempty"`
	Control bool     `json:"control"` // Read(Base) by the reader must succeed and equal Plain
	// Reseal: the child's reader handler seals Plain itself and corrupts THAT
	// form, so that the reader is the very handler that produced the form (it
	// holds the data key); otherwise the reader is a fresh handler built from
	// the master key (= the partition after a restart).
	Reseal bool `json:"reseal"`
	base   []byte
	other  []byte
}

func (j *c17Job) decode() {
	j.base, _ = hex.DecodeString(j.Base)
	j.other, _ = hex.DecodeString(j.Other)
}

const c17MiscN = 14

func (j *c17Job) n() int {
	switch j.Mode {
	case "flipall":
		return len(j.base) * 255
	case "flips":
		return len(j.Flips)
	case "trunc":
		return len(j.Truncs)
	case "misc":
		return c17MiscN
	case "foreign":
		return 1
	}
	return 0
}

// c17Layout is the documented layout of a sealed form (handler_interface.go):
// key size | wrapped key | nonce | ciphertext | tag.
func c17Region(base []byte, pos int) string {
	if len(base) == 0 {
		return "none"
	}
	ks := int(base[0])
	switch {
	case pos == 0:
		return "keysize"
	case pos <= ks:
		return "wrappedkey"
	case pos <= ks+12:
		return "nonce"
	case pos >= len(base)-16:
		return "tag"
	default:
		return "ciphertext"
	}
}

// input returns the idx-th input of the job and a label for its mutation.
func (j *c17Job) input(idx int) (in []byte, kind, detail string) {
	b := j.base
	switch j.Mode {
	case "flipall":
		pos := idx / 255
		d := idx%255 + 1 // xor-free "every other value": old + d mod 256
		in = append([]byte(nil), b...)
		in[pos] = byte(int(b[pos]) + d)
		return in, "flip:" + c17Region(b, pos), fmt.Sprintf("pos=%d %02x->%02x", pos, b[pos], in[pos])
	case "flips":
		pos, val := j.Flips[idx][0], j.Flips[idx][1]
		if byte(val) == b[pos] {
			// the list was drawn against the parent's form; after a re-seal
			// the byte may already have that value: always change it
			val = int(b[pos]) ^ 0x01
		}
		in = append([]byte(nil), b...)
		in[pos] = byte(val)
		return in, "flip:" + c17Region(b, pos), fmt.Sprintf("pos=%d %02x->%02x", pos, b[pos], in[pos])
	case "trunc":
		n := j.Truncs[idx]
		return append([]byte(nil), b[:n]...), "trunc", fmt.Sprintf("prefix of %d of %d bytes", n, len(b))
	case "foreign":
		return append([]byte(nil), b...), "foreign-key", "genuine form sealed under another master key"
	case "misc":
		ks := 0
		if len(b) > 0 {
			ks = int(b[0])
		}
		cut := func(k int) []byte {
			if k > len(b) {
				k = len(b)
			}
			return append([]byte(nil), b[k:]...)
		}
		switch idx {
		case 0:
			return nil, "empty", "nil input"
		case 1:
			return []byte{}, "empty", "zero-length input"
		case 2:
			return append(append([]byte(nil), b...), 0), "extend", "+1 byte 0x00"
		case 3:
			return append(append([]byte(nil), b...), 0xA5), "extend", "+1 byte 0xa5"
		case 4:
			return append(append([]byte(nil), b...), b[len(b)-16:]...), "extend", "+16 bytes (tag repeated)"
		case 5:
			return append(append([]byte(nil), b...), b...), "extend", "form appended to itself"
		case 6:
			return cut(1), "suffix", "first byte dropped"
		case 7:
			return cut(ks + 1), "suffix", "key size and wrapped key dropped"
		case 8:
			return cut(ks + 13), "suffix", "everything before the ciphertext dropped"
		case 9:
			// splice: key material of Other (different DEK) + nonce/ciphertext of Base
			o := j.other
			if len(o) == 0 {
				return []byte{0}, "splice", "single zero byte"
			}
			oks := int(o[0])
			return append(append([]byte(nil), o[:oks+1]...), b[ks+1:]...), "splice", "wrapped key of another form + this ciphertext"
		case 10:
			// nonce/tag of Base, ciphertext body of Other
			o := j.other
			if len(o) == 0 {
				return []byte{1, 2}, "splice", "two bytes"
			}
			oks := int(o[0])
			in = append([]byte(nil), b[:ks+13]...)
			in = append(in, o[oks+13:]...)
			return in, "splice", "this key+nonce + ciphertext/tag of another form"
		case 11:
			// tag removed
			return append([]byte(nil), b[:len(b)-16]...), "trunc", "tag removed"
		case 12:
			// all-zero form of the same length, key size kept
			in = make([]byte, len(b))
			in[0] = b[0]
			return in, "zeroed", "all bytes but the key size zeroed"
		case 13:
			// only the key-size byte
			return []byte{b[0]}, "trunc", "key-size byte only"
		}
	}
	return nil, "?", ""
}

// c17InputClass names the length relations of an input that the documented
// layout needs (used in panic fingerprints: which bounds check was missing).
func c17InputClass(in []byte) string {
	if len(in) == 0 {
		return "empty-input"
	}
	ks := int(in[0])
	if ks+1 > len(in) {
		return "keysize>len"
	}
	if len(in)-(ks+1) < 12 {
		return "ciphertext<nonce"
	}
	return "lengths-ok"
}

type c17ChildSpec struct {
	Jobs     []*c17Job `json:"jobs"`
	StartJob int       `json:"start_job"`
	StartIdx int       `json:"start_idx"`
	Cursor   string    `json:"cursor"`
	Out      string    `json:"out"`
}

// c17Event is one line of the child's output file.
type c17Event struct {
	Type   string           `json:"type"` // anomaly | jobdone | done | rebase
	Base   string           `json:"base,omitempty"`
	Job    int              `json:"job"`
	Idx    int              `json:"idx"`
	Kind   string           `json:"kind,omitempty"` // panic | accepted | control-failed | ctor-error
	Msg    string           `json:"msg,omitempty"`
	Func   string           `json:"func,omitempty"`
	Line   int              `json:"line,omitempty"`
	OutLen int              `json:"out_len,omitempty"`
	SameAs string           `json:"same_as,omitempty"`
	Calls  int              `json:"calls,omitempty"`
	Errors map[string]int64 `json:"errors,omitempty"`
	Panics int              `json:"panics,omitempty"`
}

var c17FrameRe = regexp.MustCompile(`(?m)^(\S*liftbridge/server/encryption\.\S+)\(.*\)\n\t\S*/(localkey_handler\.go):(\d+)`)

func c17TopFrame(stack string) (string, int) {
	m := c17FrameRe.FindStringSubmatch(stack)
	if m == nil {
		return "?", 0
	}
	fn := m[1]
	if i := strings.LastIndex(fn, "encryption."); i >= 0 {
		fn = fn[i+len("encryption."):]
	}
	fn = strings.NewReplacer("(*", "", ")", "").Replace(fn)
	var line int
	fmt.Sscanf(m[3], "%d", &line)
	return fn, line
}

func c17ErrClass(err error) string {
	s := err.Error()
	if len(s) > 60 {
		s = s[:60]
	}
	return s
}

// TestVerifC17Child executes the Read calls of a batch.  It is only active
// when re-executed by TestVerifC17Tamper.
func TestVerifC17Child(t *testing.T) {
	specPath := os.Getenv("VERIF_C17_CHILD")
	if specPath == "" {
		t.Skip("child only")
	}
	raw, err := os.ReadFile(specPath)
	if err != nil {
		t.Fatal(err)
	}
	var spec c17ChildSpec
	if err := json.Unmarshal(raw, &spec); err != nil {
		t.Fatal(err)
	}
	cur, err := os.OpenFile(spec.Cursor, os.O_CREATE|os.O_WRONLY, 0644)
	if err != nil {
		t.Fatal(err)
	}
	out, err := os.OpenFile(spec.Out, os.O_CREATE|os.O_WRONLY|os.O_APPEND, 0644)
	if err != nil {
		t.Fatal(err)
	}
	emit := func(e c17Event) {
		b, _ := json.Marshal(e)
		out.Write(append(b, '\n'))
	}
	curBuf := make([]byte, 24)
	for ji := spec.StartJob; ji < len(spec.Jobs); ji++ {
		j := spec.Jobs[ji]
		j.decode()
		start := 0
		if ji == spec.StartJob {
			start = spec.StartIdx
		}
		rk, _ := hex.DecodeString(j.ReaderKey)
		h, err := c17NewHandler(rk)
		if err != nil {
			emit(c17Event{Type: "anomaly", Job: j.ID, Idx: -1, Kind: "ctor-error", Msg: err.Error()})
			emit(c17Event{Type: "jobdone", Job: j.ID})
			continue
		}
		plain, _ := hex.DecodeString(j.Plain)
		if j.Reseal {
			ns, err := h.Seal(append([]byte(nil), plain...))
			if err != nil || len(ns) != len(j.base) {
				emit(c17Event{Type: "anomaly", Job: j.ID, Idx: -1, Kind: "control-failed", Msg: fmt.Sprintf("re-sealing in the child: err=%v, %d bytes (parent: %d)", err, len(ns), len(j.base))})
				emit(c17Event{Type: "jobdone", Job: j.ID})
				continue
			}
			j.base = ns
			emit(c17Event{Type: "rebase", Job: j.ID, Base: hex.EncodeToString(ns)})
		}
		if j.Control && (start == 0 || j.Reseal) {
			got, err := h.Read(append([]byte(nil), j.base...))
			if err != nil || !bytes.Equal(got, plain) {
				emit(c17Event{Type: "anomaly", Job: j.ID, Idx: -1, Kind: "control-failed", Msg: fmt.Sprintf("Read of the untampered form: err=%v, %d bytes", err, len(got))})
			}
		}
		errs := map[string]int64{}
		calls, panics, emitted := 0, 0, 0
		n := j.n()
		for idx := start; idx < n; idx++ {
			in, _, _ := j.input(idx)
			// cursor first: if this call kills the process the parent knows the input
			copy(curBuf, fmt.Sprintf("%-11d %-11d\n", ji, idx))
			cur.WriteAt(curBuf, 0)
			var (
				res  []byte
				rerr error
				pv   any
				stk  string
			)
			func() {
				defer func() {
					if p := recover(); p != nil {
						pv = p
						stk = string(debug.Stack())
					}
				}()
				res, rerr = h.Read(in)
			}()
			calls++
			switch {
			case pv != nil:
				panics++
				if emitted < 400 {
					emitted++
					fn, line := c17TopFrame(stk)
					emit(c17Event{Type: "anomaly", Job: j.ID, Idx: idx, Kind: "panic", Msg: fmt.Sprint(pv), Func: fn, Line: line})
				}
			case rerr == nil:
				if emitted < 400 {
					emitted++
					same := "other"
					if bytes.Equal(res, plain) {
						same = "original-plaintext"
					}
					emit(c17Event{Type: "anomaly", Job: j.ID, Idx: idx, Kind: "accepted", OutLen: len(res), SameAs: same})
				}
			default:
				errs[c17ErrClass(rerr)]++
			}
		}
		emit(c17Event{Type: "jobdone", Job: j.ID, Calls: calls, Errors: errs, Panics: panics})
	}
	emit(c17Event{Type: "done"})
	out.Close()
	cur.Close()
}

// ---------------------------------------------------------------- tamper parent

type c17Sealed struct {
	key    []byte
	plain  []byte
	sealed []byte
	class  string
}

func TestVerifC17Tamper(t *testing.T) {
	rep := kit.NewReport("C17", "tamper")
	defer rep.Write()
	rep.SetRule("genuine sealed forms (master keys of 16 and 32 bytes, seeded values) are corrupted and given to Read in child processes: for forms of <= 128 bytes EVERY position x EVERY other byte value, above that every header/tag position plus sampled positions; every prefix (truncation), extensions, suffixes, splices of two forms, and the untouched form under every other master key (every ordered pair of distinct keys).  Oracle: Read returns an error — returning data or panicking is a violation.  Half of the batches are read by a fresh handler built from the master key (the partition after a restart), half by the handler that sealed the form (it holds the data key).  Before each batch the child checks the control: the untouched form reads back the plaintext.  non-trivial = batch whose control held; distinct = mode x key length x sealed length class")
	rep.Assume("a tampered form that decrypts successfully by chance has probability <= 2^-64 per case (KWP integrity value, 128-bit GCM tag) and is treated as impossible")
	self := os.Getenv("VERIF_SELF")
	if self == "" {
		self, _ = os.Executable()
	}
	work := os.Getenv("VERIF_WORK")
	if work == "" {
		work = os.TempDir()
	}
	dir, err := os.MkdirTemp(work, "c17-tamper-")
	if err != nil {
		rep.Inconc("cannot create work dir: " + err.Error())
		return
	}
	defer os.RemoveAll(dir)

	rng := kit.NewRNG(kit.Mix(kit.Seed(), 0xC17A))
	// master keys: 16 and 32 bytes (24 is refused by the constructor; see the
	// roundtrip unit) — every ordered pair of distinct keys is exercised.
	type hk struct {
		key []byte
		h   *LocalEncryptionHandler
	}
	var keys []hk
	nk := kit.Scale(4, 8)
	for i := 0; i < nk; i++ {
		for _, n := range []int{16, 32} {
			k := c17MasterKey(rng, n, i%2 == 1)
			h, err := c17NewHandler(k)
			if err != nil {
				rep.Violation(fmt.Sprintf("C17:handler-refuses-%d-byte-key", n), err.Error(), map[string]any{"master_key_hex": hex.EncodeToString(k)})
				continue
			}
			keys = append(keys, hk{k, h})
		}
	}
	if len(keys) < 2 {
		rep.Inconc("fewer than two usable master keys")
		return
	}
	seal := func(k hk, v []byte, class string) (c17Sealed, bool) {
		s, err := k.h.Seal(v)
		if err != nil {
			rep.Violation("C17:seal-error", err.Error(), map[string]any{"master_key_hex": hex.EncodeToString(k.key), "value_len": len(v)})
			return c17Sealed{}, false
		}
		return c17Sealed{k.key, v, s, class}, true
	}

	var jobs []*c17Job
	newJob := func(s c17Sealed, reader []byte, mode string, control bool) *c17Job {
		j := &c17Job{ID: len(jobs), ReaderKey: hex.EncodeToString(reader), SealKey: hex.EncodeToString(s.key),
			Base: hex.EncodeToString(s.sealed), Plain: hex.EncodeToString(s.plain), Mode: mode, Control: control}
		j.Reseal = mode != "foreign" && len(jobs)%2 == 0
		j.decode()
		jobs = append(jobs, j)
		return j
	}

	// (1) exhaustive single-byte corruption of short forms (<= 128 bytes:
	// value length 0..59).
	exLens := []int{0, 1, 7, 8, 16, 33, 59}
	nEx := kit.Scale(40, 400)
	for i := 0; i < nEx; i++ {
		k := keys[i%len(keys)]
		var n int
		if i < len(exLens) {
			n = exLens[i]
		} else {
			n = rng.Range(0, 59)
		}
		v := rng.Bytes(n)
		if i%3 == 2 {
			v = c17Structured(rng, n)
		}
		s, ok := seal(k, v, "short")
		if !ok {
			continue
		}
		if len(s.sealed) > 128 {
			rep.Count("short_form_longer_than_128", 1)
		}
		newJob(s, k.key, "flipall", true)
	}
	// (2) sampled corruption of longer forms.
	longLens := []int{60, 100, 255, 1024, 4096, 65536}
	nLong := kit.Scale(8, 60)
	for i := 0; i < nLong; i++ {
		k := keys[(i*5+1)%len(keys)]
		var n int
		if i < len(longLens) {
			n = longLens[i]
		} else {
			n = rng.Range(60, 20000)
		}
		s, ok := seal(k, rng.Bytes(n), "long")
		if !ok {
			continue
		}
		L := len(s.sealed)
		j := newJob(s, k.key, "flips", true)
		addFlip := func(pos, val int) {
			if pos >= 0 && pos < L && byte(val) != s.sealed[pos] {
				j.Flips = append(j.Flips, [2]int{pos, val & 0xff})
			}
		}
		for pos := 0; pos < 64 && pos < L; pos++ { // key size, wrapped key, nonce, first ciphertext bytes
			addFlip(pos, int(s.sealed[pos])^1)
			addFlip(pos, int(s.sealed[pos])^0x80)
			addFlip(pos, rng.Intn(256))
		}
		for v := 0; v < 256; v++ { // the key-size byte: every value
			addFlip(0, v)
		}
		for pos := L - 17; pos < L; pos++ { // last ciphertext byte and the tag
			addFlip(pos, int(s.sealed[pos])^1)
			addFlip(pos, rng.Intn(256))
		}
		for q := 0; q < kit.Scale(300, 1500); q++ {
			addFlip(rng.Intn(L), rng.Intn(256))
		}
	}
	// (3) truncations / misc on a mix of forms; splices need a second form.
	nTr := kit.Scale(10, 80)
	for i := 0; i < nTr; i++ {
		k := keys[(i*3+2)%len(keys)]
		n := []int{0, 1, 16, 59, 200, 5000}[i%6]
		if i >= 6 {
			n = rng.Range(0, 3000)
		}
		s, ok := seal(k, rng.Bytes(n), "trunc")
		if !ok {
			continue
		}
		L := len(s.sealed)
		j := newJob(s, k.key, "trunc", true)
		if L <= 200 {
			for p := 0; p < L; p++ {
				j.Truncs = append(j.Truncs, p)
			}
		} else {
			for p := 0; p <= 90; p++ {
				j.Truncs = append(j.Truncs, p)
			}
			for _, p := range []int{L - 1, L - 2, L - 15, L - 16, L - 17, L / 2} {
				j.Truncs = append(j.Truncs, p)
			}
			for q := 0; q < 40; q++ {
				j.Truncs = append(j.Truncs, rng.Range(91, L-1))
			}
		}
		// misc job: other form sealed by a *fresh* handler of the same master
		// key (different data key), value of another length
		h2, err := c17NewHandler(k.key)
		if err != nil {
			continue
		}
		s2, ok := seal(hk{k.key, h2}, rng.Bytes(n+rng.Range(0, 9)), "other")
		if !ok {
			continue
		}
		mj := newJob(s, k.key, "misc", true)
		mj.Other = hex.EncodeToString(s2.sealed)
		mj.decode()
	}
	// (4) every ordered pair of distinct master keys: a genuine form of A read
	// under B.
	pairVals := [][]byte{{}, rng.Bytes(5), rng.Bytes(16), c17Structured(rng, 300)}
	pairs := 0
	for ai, a := range keys {
		var forms []c17Sealed
		for _, v := range pairVals[:kit.Scale(2, 4)] {
			if s, ok := seal(a, v, "pair"); ok {
				forms = append(forms, s)
			}
		}
		for bi, b := range keys {
			if ai == bi {
				continue
			}
			pairs++
			for _, s := range forms {
				newJob(s, b.key, "foreign", false)
			}
		}
	}
	rep.SetInfo("master_keys", len(keys))
	rep.SetInfo("ordered_key_pairs", pairs)
	rep.SetInfo("jobs", len(jobs))

	// ---- distribute over children (a child per batch)
	total := 0
	for _, j := range jobs {
		total += j.n()
	}
	rep.SetInfo("planned_read_calls", total)
	nb := kit.Workers() * 2
	batches := make([][]*c17Job, nb)
	load := make([]int, nb)
	order := make([]int, len(jobs))
	for i := range order {
		order[i] = i
	}
	sort.SliceStable(order, func(a, b int) bool { return jobs[order[a]].n() > jobs[order[b]].n() })
	for _, ji := range order {
		m := 0
		for b := range load {
			if load[b] < load[m] {
				m = b
			}
		}
		batches[m] = append(batches[m], jobs[ji])
		load[m] += jobs[ji].n() + 50
	}

	var mu sync.Mutex
	errClasses := map[string]int64{}
	samples := 0
	handle := func(j *c17Job, ev c17Event) {
		in, kind, detail := []byte(nil), "", ""
		if ev.Idx >= 0 {
			in, kind, detail = j.input(ev.Idx)
		}
		replay := map[string]any{"reader_master_key_hex": j.ReaderKey, "sealed_under_master_key_hex": j.SealKey,
			"plaintext_hex": c17Short(j.Plain), "genuine_sealed_hex": c17Short(j.Base), "mutation": kind + " " + detail,
			"input_len": len(in), "job_mode": j.Mode, "job_idx": ev.Idx, "reader_is_the_sealing_handler": j.Reseal}
		if len(in) <= 200 {
			replay["input_hex"] = hex.EncodeToString(in)
		}
		switch ev.Kind {
		case "panic":
			rep.Count("read_panics", 1)
			replay["panic"] = ev.Msg
			replay["at"] = fmt.Sprintf("%s (localkey_handler.go:%d)", ev.Func, ev.Line)
			rep.Violation(fmt.Sprintf("C17:read-panic:%s:%s", ev.Func, c17InputClass(in)),
				fmt.Sprintf("Read panicked instead of returning an error (%s at %s, localkey_handler.go:%d) on a %s input: %s", ev.Msg, ev.Func, ev.Line, kind, detail), replay)
		case "accepted":
			rep.Count("tampered_accepted", 1)
			replay["returned_len"] = ev.OutLen
			replay["returned"] = ev.SameAs
			fp := "C17:tamper-accepted:" + kind
			if kind == "foreign-key" {
				fp = "C17:foreign-key-accepted"
			}
			rep.Violation(fp, fmt.Sprintf("Read returned %d bytes of data (%s) instead of an error for a %s input: %s", ev.OutLen, ev.SameAs, kind, detail), replay)
		case "control-failed":
			rep.Violation("C17:control-read-failed", "the untampered sealed form did not read back under its own master key in the child: "+ev.Msg, replay)
		case "ctor-error":
			rep.Inconc("child could not build the reader handler: " + ev.Msg)
		case "child-died":
			rep.Count("child_deaths", 1)
			replay["child_output_tail"] = ev.Msg
			rep.Violation(fmt.Sprintf("C17:read-kills-process:%s", c17InputClass(in)),
				fmt.Sprintf("the process calling Read died (not a recoverable panic) on a %s input: %s", kind, detail), replay)
		}
	}

	kit.Parallel(len(batches), kit.Workers(), func(bi int) {
		batch := batches[bi]
		if len(batch) == 0 {
			return
		}
		byID := map[int]*c17Job{}
		for _, j := range batch {
			byID[j.ID] = j
		}
		startJob, startIdx := 0, 0
		controlBad := map[int]bool{}
		done := map[int]bool{}
		for attempt := 0; attempt < 40; attempt++ {
			tag := fmt.Sprintf("b%02d-%02d", bi, attempt)
			spec := c17ChildSpec{Jobs: batch, StartJob: startJob, StartIdx: startIdx,
				Cursor: filepath.Join(dir, tag+".cursor"), Out: filepath.Join(dir, tag+".out")}
			sb, _ := json.Marshal(spec)
			specPath := filepath.Join(dir, tag+".spec.json")
			os.WriteFile(specPath, sb, 0644)
			cmd := exec.Command(self, "-test.run", "^TestVerifC17Child$", "-test.count", "1", "-test.timeout", "30m")
			cmd.Env = append(os.Environ(), "VERIF_C17_CHILD="+specPath, "VERIF_OUT="+filepath.Join(dir, tag+".ignored.json"))
			var ob bytes.Buffer
			cmd.Stdout, cmd.Stderr = &ob, &ob
			timedOut := false
			if err := cmd.Start(); err != nil {
				rep.Inconc("cannot start child: " + err.Error())
				return
			}
			timer := time.AfterFunc(25*time.Minute, func() { timedOut = true; cmd.Process.Kill() })
			cmd.Wait()
			timer.Stop()
			finished := false
			if f, err := os.ReadFile(spec.Out); err == nil {
				for _, ln := range bytes.Split(f, []byte("\n")) {
					if len(ln) == 0 {
						continue
					}
					var ev c17Event
					if json.Unmarshal(ln, &ev) != nil {
						continue
					}
					switch ev.Type {
					case "done":
						finished = true
					case "jobdone":
						j := byID[ev.Job]
						done[ev.Job] = true
						for i := 0; i < ev.Calls; i++ {
							rep.Eval()
						}
						rep.Count("read_calls_"+j.Mode, int64(ev.Calls))
						mu.Lock()
						for k, v := range ev.Errors {
							errClasses[k] += v
						}
						mu.Unlock()
						var rejected int64
						for _, v := range ev.Errors {
							rejected += v
						}
						rep.Count("rejected_with_error", rejected)
						if !controlBad[ev.Job] && ev.Calls > 0 {
							rd := "fresh-reader"
							if j.Reseal {
								rd = "reader-is-sealer"
							}
							rep.Count("batches_"+rd, 1)
							rep.Nontrivial(fmt.Sprintf("%s|k%d|%s|%s", j.Mode, len(j.ReaderKey)/2, c17LenClass(len(j.base)), rd))
						}
						mu.Lock()
						if samples < 5 && ev.Calls > 0 {
							samples++
							in, kind, detail := j.input(0)
							rep.Sample(map[string]any{"mode": j.Mode, "reader_key_len": len(j.ReaderKey) / 2, "sealed_len": len(j.base), "plaintext_len": len(j.Plain) / 2, "read_calls": ev.Calls, "rejected": rejected, "panics": ev.Panics, "first_input": kind + " " + detail, "first_input_len": len(in)})
						}
						mu.Unlock()
					case "rebase":
						j := byID[ev.Job]
						j.Base = ev.Base
						j.decode()
					case "anomaly":
						if ev.Kind == "control-failed" {
							controlBad[ev.Job] = true
						}
						handle(byID[ev.Job], ev)
					}
				}
			}
			if finished {
				return
			}
			if timedOut {
				rep.Inconc(fmt.Sprintf("watchdog: child of batch %d did not finish", bi))
				return
			}
			// the child died: the cursor names the input it was executing
			cb, err := os.ReadFile(spec.Cursor)
			var cj, ci int
			if err != nil || len(cb) == 0 {
				rep.Inconc(fmt.Sprintf("child of batch %d died before its first call: %s", bi, c17Tail(ob.String(), 600)))
				return
			}
			if _, err := fmt.Sscanf(string(cb), "%d %d", &cj, &ci); err != nil {
				rep.Inconc("unreadable cursor of a dead child")
				return
			}
			j := batch[cj]
			handle(j, c17Event{Type: "anomaly", Job: j.ID, Idx: ci, Kind: "child-died", Msg: c17Tail(ob.String(), 1500)})
			// count the calls of the interrupted job that did complete
			from := 0
			if cj == startJob {
				from = startIdx
			}
			for i := from; i <= ci; i++ {
				rep.Eval()
			}
			rep.Count("read_calls_"+j.Mode, int64(ci-from+1))
			startJob, startIdx = cj, ci+1
			if startIdx >= j.n() {
				startJob, startIdx = cj+1, 0
			}
			if startJob >= len(batch) {
				return
			}
		}
		rep.Inconc(fmt.Sprintf("batch %d: too many child deaths, remaining inputs not executed", bi))
	})
	// what kinds of refusals were seen
	ks := kit.SortedKeys(errClasses)
	ec := map[string]int64{}
	for _, k := range ks {
		ec[k] = errClasses[k]
	}
	rep.SetInfo("error_classes", ec)
}

func c17Short(h string) string {
	if len(h) > 400 {
		return h[:400] + fmt.Sprintf("...(%d bytes)", len(h)/2)
	}
	return h
}

func c17Tail(s string, n int) string {
	if len(s) > n {
		return s[len(s)-n:]
	}
	return s
}
