//go:build verif

package encryption

// C17 unit `keys` — master keys of EVERY length and pairs of RELATED distinct
// master keys.
//
// The roundtrip and tamper units use independent random master keys of the
// documented lengths.  This unit varies what they never varied:
//
//   - the length of the master key: every length 0..80 and a few longer ones,
//     printable and binary.  Whether the constructor accepts a length is not
//     judged here (the roundtrip unit judges the documented 128/256-bit keys);
//     whatever IS accepted becomes a master key and is held to the property;
//   - the relation between two DISTINCT master keys A != B: B differs from A in
//     one byte (first / middle / last / byte 15,16,31,32), one bit, is A cut by
//     one byte at either end, A extended by one byte at either end, A's first
//     16 / 24 / 32 bytes, A's last 16 / 32 bytes, A with another tail behind the
//     first 16 / 32 bytes, A with another head before the last 16 / 32 bytes, A
//     reversed, A in the other letter case.
//
// Oracle (property text: "a stored value ... sealed under a different master
// key yields an error instead of data"): for every pair of distinct accepted
// keys, a genuine form sealed under A must make B's Read return an error, both
// ways; and every accepted key must round-trip through a fresh handler.

import (
	"bytes"
	"encoding/hex"
	"fmt"
	"runtime/debug"
	"strings"
	"testing"

	kit "github.com/liftbridge-io/liftbridge/internal/verifkit"
)

type c17RelKey struct {
	rel string
	key []byte
}

func c17Related(rng *kit.RNG, a []byte) []c17RelKey {
	n := len(a)
	var out []c17RelKey
	add := func(rel string, k []byte) {
		if len(k) == 0 || bytes.Equal(k, a) || bytes.IndexByte(k, 0) >= 0 {
			return
		}
		out = append(out, c17RelKey{rel, k})
	}
	cp := func() []byte { return append([]byte(nil), a...) }
	flip := func(pos int, rel string) {
		if pos < 0 || pos >= n {
			return
		}
		k := cp()
		k[pos] ^= 0x01
		if k[pos] == 0 {
			k[pos] = 0x03
		}
		add(rel, k)
	}
	flip(0, "bit-first-byte")
	flip(n/2, "bit-middle-byte")
	flip(n-1, "bit-last-byte")
	for _, p := range []int{15, 16, 23, 24, 31, 32, 33, 63} {
		flip(p, fmt.Sprintf("bit-byte-%d", p))
	}
	if n > 1 {
		add("cut-last-byte", cp()[:n-1])
		add("cut-first-byte", cp()[1:])
	}
	add("extended-by-one-byte", append(cp(), byte(1+rng.Intn(255))))
	add("prefixed-by-one-byte", append([]byte{byte(1 + rng.Intn(255))}, a...))
	for _, m := range []int{16, 24, 32} {
		if n > m {
			add(fmt.Sprintf("first-%d-bytes", m), cp()[:m])
			add(fmt.Sprintf("last-%d-bytes", m), cp()[n-m:])
			k := cp()
			for i := m; i < n; i++ {
				k[i] = byte(1 + rng.Intn(255))
			}
			add(fmt.Sprintf("same-first-%d-other-tail", m), k)
			k = cp()
			for i := 0; i < n-m; i++ {
				k[i] = byte(1 + rng.Intn(255))
			}
			add(fmt.Sprintf("same-last-%d-other-head", m), k)
		}
	}
	// doubled key (A || A) and its halves
	add("doubled", append(cp(), a...))
	rev := cp()
	for i, j := 0, n-1; i < j; i, j = i+1, j-1 {
		rev[i], rev[j] = rev[j], rev[i]
	}
	add("reversed", rev)
	add("upper-case", []byte(strings.ToUpper(string(a))))
	add("lower-case", []byte(strings.ToLower(string(a))))
	return out
}

// c17ReadGuard calls Read and turns a panic into a string.
func c17ReadGuard(h *LocalEncryptionHandler, in []byte) (out []byte, err error, pan string) {
	defer func() {
		if r := recover(); r != nil {
			pan = fmt.Sprintf("%v\n%s", r, debug.Stack())
		}
	}()
	out, err = h.Read(in)
	return
}

func TestVerifC17Keys(t *testing.T) {
	rep := kit.NewReport("C17", "keys")
	defer rep.Write()
	rep.SetRule("master keys of every length 0..80 and 96, 128, 255, 256 bytes (printable and binary) are offered to the real constructor; every ACCEPTED key must round-trip through a fresh handler, and for every accepted key A a family of RELATED distinct keys B (one bit changed at the first / middle / last byte and at bytes 15,16,23,24,31,32,33,63; cut or extended by one byte at either end; A's first / last 16, 24, 32 bytes; same first / last 16, 24, 32 bytes with another tail / head; doubled; reversed; other letter case) is offered too: for every accepted B, forms sealed under A must make B's Read return an error and forms sealed under B must make A's Read return an error (data or a panic is a violation).  non-trivial = a pair of distinct accepted keys judged both ways; distinct = key length x relation")
	rep.Assume("which key lengths the constructor accepts is not judged here (the roundtrip unit judges the documented 128- and 256-bit keys); every accepted key is a master key in the sense of the property")
	rep.Assume("a foreign form that unwraps and decrypts by chance has probability <= 2^-64 per case and is treated as impossible")
	rng := kit.NewRNG(kit.Mix(kit.Seed(), 0xC17CE))
	lengths := []int{}
	for n := 0; n <= 80; n++ {
		lengths = append(lengths, n)
	}
	lengths = append(lengths, 96, 128, 255, 256)
	values := [][]byte{{}, rng.Bytes(1), rng.Bytes(16), c17Structured(rng, 200), rng.Bytes(kit.Scale(2000, 70000))}
	perLen := kit.Scale(2, 6)
	accepted := map[int]int{}
	for _, n := range lengths {
		for rnd := 0; rnd < perLen; rnd++ {
			rep.Eval()
			a := c17MasterKey(rng, n, rnd%2 == 0)
			ha, err := c17NewHandler(a)
			if err != nil {
				rep.Count("keys_refused", 1)
				continue
			}
			accepted[n]++
			rep.Count("keys_accepted", 1)
			// sealed forms under A, read back by a fresh handler of A
			hb, err := c17NewHandler(a)
			if err != nil {
				rep.Violation("C17:handler-not-reproducible", "second handler for the same master key failed: "+err.Error(), map[string]any{"master_key_hex": hex.EncodeToString(a)})
				continue
			}
			var formsA [][]byte
			okA := true
			for _, v := range values {
				s, err := ha.Seal(v)
				if err != nil {
					okA = false
					rep.Violation(fmt.Sprintf("C17:seal-error:keylen=%d", n), fmt.Sprintf("Seal failed under an accepted %d-byte master key: %v", n, err), map[string]any{"master_key_hex": hex.EncodeToString(a), "value_len": len(v)})
					continue
				}
				got, err, pan := c17ReadGuard(hb, s)
				if pan != "" || err != nil || !bytes.Equal(got, v) {
					okA = false
					rep.Violation(fmt.Sprintf("C17:roundtrip-mismatch:keylen=%d", n), fmt.Sprintf("a fresh handler with the same accepted %d-byte master key does not return the value (err=%v panic=%q got %d bytes want %d)", n, err, c17Tail(pan, 300), len(got), len(v)), map[string]any{"master_key_hex": hex.EncodeToString(a), "value_len": len(v)})
					continue
				}
				if len(v) >= 8 && bytes.Contains(s, v) {
					rep.Violation(fmt.Sprintf("C17:stored-contains-plaintext:keylen=%d", n), "sealed form contains the plaintext in clear", map[string]any{"master_key_hex": hex.EncodeToString(a), "value_len": len(v)})
				}
				formsA = append(formsA, s)
			}
			if !okA {
				continue
			}
			rep.Count("accepted_keys_roundtripped", 1)
			for _, rk := range c17Related(rng, a) {
				rep.Eval()
				hr, err := c17NewHandler(rk.key)
				if err != nil {
					rep.Count("related_keys_refused", 1)
					continue
				}
				rep.Count("related_keys_accepted", 1)
				replay := func(dir string, vi int) map[string]any {
					return map[string]any{"key_a_hex": hex.EncodeToString(a), "key_b_hex": hex.EncodeToString(rk.key), "relation": rk.rel, "direction": dir, "value_len": len(values[vi])}
				}
				bad := false
				// A's forms under B
				for vi, s := range formsA {
					got, err, pan := c17ReadGuard(hr, s)
					rep.Count("foreign_reads", 1)
					if pan != "" {
						bad = true
						rep.Violation("C17:read-panic:related-key:"+rk.rel, fmt.Sprintf("Read panicked on a genuine form sealed under a related master key (%s, key lengths %d / %d): %s", rk.rel, len(a), len(rk.key), c17Tail(pan, 600)), replay("A->B", vi))
					} else if err == nil {
						bad = true
						what := "other data"
						if bytes.Equal(got, values[vi]) {
							what = "the PLAINTEXT"
						}
						rep.Violation("C17:foreign-key-accepted:related:"+rk.rel, fmt.Sprintf("a form sealed under master key A (%d bytes) was read under the DISTINCT master key B (%d bytes, relation: %s) without error and returned %s (%d bytes)", len(a), len(rk.key), rk.rel, what, len(got)), replay("A->B", vi))
					}
				}
				// B's forms under A
				for vi, v := range values[:3] {
					s, err := hr.Seal(v)
					if err != nil {
						continue
					}
					got, err, pan := c17ReadGuard(ha, s)
					rep.Count("foreign_reads", 1)
					if pan != "" {
						bad = true
						rep.Violation("C17:read-panic:related-key:"+rk.rel, fmt.Sprintf("Read panicked on a genuine form sealed under a related master key (%s): %s", rk.rel, c17Tail(pan, 600)), replay("B->A", vi))
					} else if err == nil {
						bad = true
						what := "other data"
						if bytes.Equal(got, v) {
							what = "the PLAINTEXT"
						}
						rep.Violation("C17:foreign-key-accepted:related:"+rk.rel, fmt.Sprintf("a form sealed under master key B (%d bytes, relation to A: %s) was read under the DISTINCT master key A (%d bytes) without error and returned %s", len(rk.key), rk.rel, len(a), what), replay("B->A", vi))
					}
				}
				if !bad {
					rep.Count("related_pairs_refused_both_ways", 1)
				}
				rep.Nontrivial(fmt.Sprintf("k%d|%s", n, rk.rel))
			}
		}
	}
	var acc []string
	for _, n := range lengths {
		if accepted[n] > 0 {
			acc = append(acc, fmt.Sprint(n))
		}
	}
	rep.SetInfo("accepted_key_lengths", strings.Join(acc, ","))
	rep.SetInfo("key_lengths_offered", len(lengths))
	rep.Sample(map[string]any{"accepted_key_lengths": strings.Join(acc, ","), "relations_per_key": len(c17Related(rng, c17MasterKey(rng, 32, true)))})
}
