//go:build verif

package telemetry

// C19 — telemetry can be switched off and never carries user data (collector
// level).  The real Collector is run with a millisecond interval so that the
// periodic path sends many reports; http.DefaultTransport (the transport its
// http.Client uses) is a recorder.  A disabled collector must never send; every
// report of an enabled one is judged against the documented field whitelist
// and searched for the needle placed in the only user-controlled input the
// collector receives (the data directory path).

import (
	"fmt"
	"net/http"
	"os"
	"path/filepath"
	"runtime"
	"testing"
	"time"

	kit "github.com/liftbridge-io/liftbridge/internal/verifkit"
	"github.com/liftbridge-io/liftbridge/server/logger"
)

func c19Wait(timeout time.Duration, cond func() bool) bool {
	deadline := time.Now().Add(timeout)
	for {
		if cond() {
			return true
		}
		if time.Now().After(deadline) {
			return false
		}
		time.Sleep(2 * time.Millisecond)
	}
}

var c19IDStates = []string{"directory-at-path", "nonempty-directory-at-path", "dangling-symlink", "symlink-loop", "empty-file", "file-from-earlier-run", "file-with-trailing-newline"}

// c19PrepareIDFile puts <dataDir>/.instance_id into the given state; for the
// states that model an id written by an earlier run it returns that id.
func c19PrepareIDFile(dataDir, scratch, state string, rng *kit.RNG) (string, error) {
	if err := os.MkdirAll(dataDir, 0755); err != nil {
		return "", err
	}
	p := filepath.Join(dataDir, instanceIDFile)
	uuid := func() string {
		b := rng.Bytes(16)
		b[6] = (b[6] & 0x0f) | 0x40
		b[8] = (b[8] & 0x3f) | 0x80
		return fmt.Sprintf("%08x-%04x-%04x-%04x-%012x", b[0:4], b[4:6], b[6:8], b[8:10], b[10:16])
	}
	switch state {
	case "directory-at-path":
		return "", os.Mkdir(p, 0755)
	case "nonempty-directory-at-path":
		if err := os.Mkdir(p, 0755); err != nil {
			return "", err
		}
		return "", os.WriteFile(filepath.Join(p, "lost+found"), []byte("x"), 0644)
	case "dangling-symlink":
		return "", os.Symlink(filepath.Join(scratch, "no-such-dir", "id"), p)
	case "symlink-loop":
		return "", os.Symlink(instanceIDFile, p)
	case "empty-file":
		return "", os.WriteFile(p, nil, 0644)
	case "file-from-earlier-run":
		id := uuid()
		return id, os.WriteFile(p, []byte(id), 0644)
	case "file-with-trailing-newline":
		id := uuid()
		return id, os.WriteFile(p, []byte(id+"\n"), 0644)
	}
	return "", fmt.Errorf("unknown state %s", state)
}

func TestVerifC19Collector(t *testing.T) {
	rep := kit.NewReport("C19", "collector")
	defer rep.Write()
	rep.SetRule("real telemetry.Collector with http.DefaultTransport replaced by a recorder; seeded cases: Enabled=false with an interval from every class (1..5 ms, 0, negative, the 24 h default, huge) (Start, Stop) => zero requests when Stop() has returned; every third enabled case finds <data dir>/.instance_id in an unusual state (directory, non-empty directory, symlink into a missing directory, symlink loop, empty file, id file of an earlier run with / without trailing newline): New may refuse (the collector stays off) — if it returns a collector, that one is run and judged like any other and an id of an earlier run must be the one reported; Enabled=true with an interval of 1..5 ms => wait for N reports, Stop(), judge every report (whitelisted JSON keys, documented endpoint, no unknown header, no needle from the data-directory path; recorder answering 200 / 500 / network error); instance id: version-4 UUID on a fresh directory, stable across collectors on the same directory, different across directories; after every enabled case a collector with Enabled=false is started and stopped on the directory the enabled one has just used => zero requests.  non-trivial = collector ran Start..Stop (enabled: >= N reports judged); distinct = enabled x interval x recorder answer x case number")
	// facts of the environment the collectors run in are needles of every
	// judged report (kit/c19host.go), and so are the values of identity /
	// secret carrying environment variables planted here
	host := kit.NewC19HostFacts(kit.C19LegitStrings(""))
	host.AddThisProcess()
	plants := kit.C19EnvPlants(kit.NewRNG(kit.Mix(kit.Seed(), 0xC19E)))
	for k, v := range plants {
		if o, had := os.LookupEnv(k); had {
			defer os.Setenv(k, o)
		} else {
			defer os.Unsetenv(k)
		}
		os.Setenv(k, v)
	}
	host.AddEnv(plants)
	rep.Assume(host.Describe())
	rep.Count("host_environment_needles_searched", int64(len(host.Needles)))
	rec := &kit.C19Recorder{}
	old := http.DefaultTransport
	http.DefaultTransport = rec
	defer func() { http.DefaultTransport = old }()
	work := os.Getenv("VERIF_WORK")
	if work == "" {
		work = os.TempDir()
	}
	log := logger.NewLogger(0)
	log.Silent(true)
	rng := kit.NewRNG(kit.Mix(kit.Seed(), 0xC19C))
	ncases := kit.Scale(120, 4000)
	ids := map[string]int{}
	freshDisabledSent := false // a disabled collector on a fresh directory made a request
	for i := 0; i < ncases; i++ {
		rep.Eval()
		enabled := i%4 != 0
		mode := rng.Intn(3)
		interval := time.Duration(rng.Range(1, 5)) * time.Millisecond
		needle := fmt.Sprintf("dirneedle-%08x", rng.Uint64()&0xffffffff)
		dir, err := os.MkdirTemp(work, "c19c-")
		if err != nil {
			rep.Inconc(err.Error())
			return
		}
		dataDir := filepath.Join(dir, needle)
		version := fmt.Sprintf("v9.%d.%d-test", rng.Intn(100), rng.Intn(100))
		replay := map[string]any{"case": i, "enabled": enabled, "interval": interval.String(), "recorder_mode": mode, "data_dir": dataDir, "seed": kit.Seed()}
		rec.Take()
		rec.SetMode(mode)
		// disabled collectors: every class of interval an operator may have
		// written next to the opt-out (the interval must not matter)
		ivClass := "ms"
		if !enabled {
			switch (i / 4) % 5 {
			case 1:
				ivClass, interval = "zero", 0
			case 2:
				ivClass, interval = "negative", -time.Duration(rng.Range(1, 100000))*time.Second
			case 3:
				ivClass, interval = "default-24h", DefaultInterval
			case 4:
				ivClass, interval = "huge", time.Duration(1<<62)
			}
			replay["interval"] = interval.String()
		}
		// enabled collectors: every third one meets an instance-id file in an
		// unusual state
		idState, preID := "healthy", ""
		if enabled && i%3 == 1 {
			idState = c19IDStates[(i/3)%len(c19IDStates)]
			var err error
			if preID, err = c19PrepareIDFile(dataDir, dir, idState, rng); err != nil {
				rep.Inconc(fmt.Sprintf("instance-id file state %s could not be produced: %v", idState, err))
				os.RemoveAll(dir)
				continue
			}
			replay["instance_id_file_state"] = idState
		}
		c, err := New(&Config{Enabled: enabled, Interval: interval, DataDir: dataDir}, version, log)
		if err != nil && idState != "healthy" {
			// the collector stays off: nothing can be sent under any identity
			if n := rec.Len(); n > 0 {
				replay["requests"] = rec.Take()
				rep.Violation("C19:request-without-collector", fmt.Sprintf("New refused (instance-id file: %s) but %d request(s) were made", idState, n), replay)
			}
			rep.Count("unusable_id_file_collector_stays_off/"+idState, 1)
			rep.Nontrivial(fmt.Sprintf("on|idfile=%s|off", idState))
			os.RemoveAll(dir)
			continue
		}
		if err != nil {
			rep.Inconc("New failed: " + err.Error())
			os.RemoveAll(dir)
			continue
		}
		want := rng.Range(3, 12)
		c.Start()
		if enabled {
			if !c19Wait(20*time.Second, func() bool { return rec.Len() >= want }) {
				rep.Inconc(fmt.Sprintf("watchdog: enabled collector sent %d of %d reports", rec.Len(), want))
			}
		}
		c.Stop()
		reqs := rec.Take()
		if !enabled {
			if len(reqs) > 0 {
				replay["requests"] = reqs
				freshDisabledSent = true
				fp := "C19:telemetry-sent-while-disabled:collector"
				if ivClass == "zero" || ivClass == "negative" {
					fp += ":interval-" + ivClass
				}
				rep.Violation(fp, fmt.Sprintf("a collector with Enabled=false and interval %s made %d request(s)", interval, len(reqs)), replay)
			} else {
				rep.Count("disabled_collectors_silent", 1)
				rep.Count("disabled_silent/interval-"+ivClass, 1)
				rep.Nontrivial(fmt.Sprintf("off|%s|%d", ivClass, i))
			}
		} else {
			ex := kit.C19Expect{Version: version, GOOS: runtime.GOOS, GOARCH: runtime.GOARCH, FreshInstance: true}
			for _, rq := range reqs {
				needles := map[string]string{"data directory": needle}
				host.Merge(needles)
				issues, _ := kit.C19Judge(rq, needles, ex)
				rep.Count("reports_judged", 1)
				for _, is := range issues {
					r := map[string]any{"request": rq}
					for k, v := range replay {
						r[k] = v
					}
					rep.Violation(is.Fingerprint, is.What, r)
				}
			}
			if len(reqs) >= want {
				rep.Nontrivial(fmt.Sprintf("on|%s|mode%d|%d", interval, mode, i))
				if idState != "healthy" {
					rep.Count("unusual_id_file_collector_reports/"+idState, 1)
					rep.Nontrivial(fmt.Sprintf("on|idfile=%s|reports", idState))
				}
			}
			if preID != "" && c.GetInstanceID() != preID {
				rep.Violation("C19:instance-id-not-persistent", fmt.Sprintf("the data directory already held the instance id %q (%s), the collector reports %q", preID, idState, c.GetInstanceID()), replay)
			}
			if i < 8 && len(reqs) > 0 {
				rep.Sample(map[string]any{"interval": interval.String(), "recorder_mode": mode, "reports": len(reqs), "first": reqs[0]})
			}
			// instance id: stable on the same directory, new on another one
			id := c.GetInstanceID()
			ids[id]++
			if ids[id] > 1 {
				rep.Violation("C19:instance-id-not-random", fmt.Sprintf("two fresh data directories got the same instance id %q", id), replay)
			}
			if c2, err := New(&Config{Enabled: false, Interval: time.Hour, DataDir: dataDir}, version, log); err == nil {
				if c2.GetInstanceID() != id {
					rep.Violation("C19:instance-id-not-persistent", fmt.Sprintf("second collector on the same directory reports %q, first %q", c2.GetInstanceID(), id), replay)
				}
				// the operator opts out after a run with telemetry on: a disabled
				// collector on the directory the enabled one has just used (its
				// instance id and whatever else it left are there) stays silent
				rec.Take()
				c2.Start()
				c2.Stop()
				if late := rec.Take(); len(late) > 0 {
					replay["requests_of_the_disabled_collector"] = late
					// the history of the directory is named only while disabled
					// collectors on fresh directories have stayed silent in this run
					fp := "C19:telemetry-sent-while-disabled:collector"
					if !freshDisabledSent {
						fp += ":data-dir-of-enabled-run"
					}
					rep.Violation(fp, fmt.Sprintf("a collector with Enabled=false made %d request(s) on a data directory an enabled collector had used before (first: %s %s)", len(late), late[0].Method, late[0].URL), replay)
				} else {
					rep.Count("disabled_collectors_silent_after_enabled_run", 1)
				}
			}
		}
		os.RemoveAll(dir)
	}
	rep.SetInfo("distinct_instance_ids", len(ids))
}
