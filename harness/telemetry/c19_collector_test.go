//go:build verif

package telemetry

// C19 — telemetry can be switched off and never carries user data (collector
// level).  The real Collector is run with a millisecond interval so that the
// periodic path sends many reports; http.DefaultTransport (the transport its
// http.Client uses) is a recorder.  A disabled collector must never send; every
// report of an enabled one is judged against the documented field whitelist
// and searched for the needle placed in the only user-controlled input the
// collector receives (the data directory path).

import (
	"fmt"
	"net/http"
	"os"
	"path/filepath"
	"runtime"
	"testing"
	"time"

	kit "github.com/liftbridge-io/liftbridge/internal/verifkit"
	"github.com/liftbridge-io/liftbridge/server/logger"
)

func c19Wait(timeout time.Duration, cond func() bool) bool {
	deadline := time.Now().Add(timeout)
	for {
		if cond() {
			return true
		}
		if time.Now().After(deadline) {
			return false
		}
		time.Sleep(2 * time.Millisecond)
	}
}

func TestVerifC19Collector(t *testing.T) {
	rep := kit.NewReport("C19", "collector")
	defer rep.Write()
	rep.SetRule("real telemetry.Collector with http.DefaultTransport replaced by a recorder; seeded cases: Enabled=false (Start, Stop) => zero requests when Stop() has returned; Enabled=true with an interval of 1..5 ms => wait for N reports, Stop(), judge every report (whitelisted JSON keys, documented endpoint, no unknown header, no needle from the data-directory path; recorder answering 200 / 500 / network error); instance id: version-4 UUID on a fresh directory, stable across collectors on the same directory, different across directories.  non-trivial = collector ran Start..Stop (enabled: >= N reports judged); distinct = enabled x interval x recorder answer x case number")
	rec := &kit.C19Recorder{}
	old := http.DefaultTransport
	http.DefaultTransport = rec
	defer func() { http.DefaultTransport = old }()
	work := os.Getenv("VERIF_WORK")
	if work == "" {
		work = os.TempDir()
	}
	log := logger.NewLogger(0)
	log.Silent(true)
	rng := kit.NewRNG(kit.Mix(kit.Seed(), 0xC19C))
	ncases := kit.Scale(120, 4000)
	ids := map[string]int{}
	for i := 0; i < ncases; i++ {
		rep.Eval()
		enabled := i%4 != 0
		mode := rng.Intn(3)
		interval := time.Duration(rng.Range(1, 5)) * time.Millisecond
		needle := fmt.Sprintf("dirneedle-%08x", rng.Uint64()&0xffffffff)
		dir, err := os.MkdirTemp(work, "c19c-")
		if err != nil {
			rep.Inconc(err.Error())
			return
		}
		dataDir := filepath.Join(dir, needle)
		version := fmt.Sprintf("v9.%d.%d-test", rng.Intn(100), rng.Intn(100))
		replay := map[string]any{"case": i, "enabled": enabled, "interval": interval.String(), "recorder_mode": mode, "data_dir": dataDir, "seed": kit.Seed()}
		rec.Take()
		rec.SetMode(mode)
		c, err := New(&Config{Enabled: enabled, Interval: interval, DataDir: dataDir}, version, log)
		if err != nil {
			rep.Inconc("New failed: " + err.Error())
			os.RemoveAll(dir)
			continue
		}
		want := rng.Range(3, 12)
		c.Start()
		if enabled {
			if !c19Wait(20*time.Second, func() bool { return rec.Len() >= want }) {
				rep.Inconc(fmt.Sprintf("watchdog: enabled collector sent %d of %d reports", rec.Len(), want))
			}
		}
		c.Stop()
		reqs := rec.Take()
		if !enabled {
			if len(reqs) > 0 {
				replay["requests"] = reqs
				rep.Violation("C19:telemetry-sent-while-disabled:collector", fmt.Sprintf("a collector with Enabled=false made %d request(s)", len(reqs)), replay)
			} else {
				rep.Count("disabled_collectors_silent", 1)
				rep.Nontrivial(fmt.Sprintf("off|%d", i))
			}
		} else {
			ex := kit.C19Expect{Version: version, GOOS: runtime.GOOS, GOARCH: runtime.GOARCH, FreshInstance: true}
			for _, rq := range reqs {
				issues, _ := kit.C19Judge(rq, map[string]string{"data directory": needle}, ex)
				rep.Count("reports_judged", 1)
				for _, is := range issues {
					r := map[string]any{"request": rq}
					for k, v := range replay {
						r[k] = v
					}
					rep.Violation(is.Fingerprint, is.What, r)
				}
			}
			if len(reqs) >= want {
				rep.Nontrivial(fmt.Sprintf("on|%s|mode%d|%d", interval, mode, i))
			}
			if i < 8 && len(reqs) > 0 {
				rep.Sample(map[string]any{"interval": interval.String(), "recorder_mode": mode, "reports": len(reqs), "first": reqs[0]})
			}
			// instance id: stable on the same directory, new on another one
			id := c.GetInstanceID()
			ids[id]++
			if ids[id] > 1 {
				rep.Violation("C19:instance-id-not-random", fmt.Sprintf("two fresh data directories got the same instance id %q", id), replay)
			}
			if c2, err := New(&Config{Enabled: false, Interval: time.Hour, DataDir: dataDir}, version, log); err == nil {
				if c2.GetInstanceID() != id {
					rep.Violation("C19:instance-id-not-persistent", fmt.Sprintf("second collector on the same directory reports %q, first %q", c2.GetInstanceID(), id), replay)
				}
				c2.Stop()
			}
		}
		os.RemoveAll(dir)
	}
	rep.SetInfo("distinct_instance_ids", len(ids))
}
