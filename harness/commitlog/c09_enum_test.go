//go:build verif

package commitlog

// C09 small-scope enumeration: ALL layouts of up to N segments with 1, 2 or 3
// messages per segment (50 bytes per message, one timestamp per segment),
// crossed with a grid of message limits x byte limits x every position of the
// age cutoff (off, nothing old, first a segments old, everything old).
//
// Second family (last-write times NON-MONOTONIC across segments, as after
// leader changes between brokers with skewed clocks): every assignment of an
// "expired / not expired" flag to every segment, incl. the newest -
//   - all 2^n assignments over n = 4, 5 segments of one message each,
//   - all assignments that are not of the monotonic form E..En..n over ALL
//     layouts of up to 3 (thorough: 4) segments with 1, 2 or 3 messages each,
// crossed with a (smaller) grid of message and byte limits.

import (
	"fmt"
	"os"
	"strings"
	"testing"

	kit "github.com/liftbridge-io/liftbridge/internal/verifkit"
)

// c09Shard: the enumeration is split over several units (processes) by case
// index; VERIF_SHARD = "i/n".
func c09Shard() (int, int) {
	var i, n int
	if _, err := fmt.Sscanf(os.Getenv("VERIF_SHARD"), "%d/%d", &i, &n); err != nil || n < 1 || i < 0 || i >= n {
		return 0, 1
	}
	return i, n
}

type c09EnumCase struct {
	layout []int
	msgs   int64
	bytes  int64
	ageCut int // -1 = off, a = the first a segments are older than the cutoff
	// agePat (second family): agePat[i] = segment i was last written before the
	// age cutoff; nil = first family (ageCut)
	agePat []bool
}

func c09PatString(p []bool) string {
	b := make([]byte, len(p))
	for i, x := range p {
		b[i] = 'n'
		if x {
			b[i] = 'E'
		}
	}
	return string(b)
}

// c09PatMonotonic: E..En..n, i.e. what non-decreasing last-write times give.
func c09PatMonotonic(p []bool) bool {
	for i := 1; i < len(p); i++ {
		if p[i] && !p[i-1] {
			return false
		}
	}
	return true
}

// c09Patterns: all 2^n flag assignments over n segments.
func c09Patterns(n int) [][]bool {
	var out [][]bool
	for m := 0; m < 1<<n; m++ {
		p := make([]bool, n)
		for i := range p {
			p[i] = m>>i&1 == 1
		}
		out = append(out, p)
	}
	return out
}

func TestVerifC09Enum(t *testing.T) {
	shard, nshards := c09Shard()
	rep := kit.NewReport("C09", fmt.Sprintf("enum%d", shard))
	defer rep.Write()
	defer c09InstallTTL()()
	// grids[n] = (message limits, byte limits) used for layouts of n segments
	type grid struct{ msgs, bytes []int64 }
	full := grid{[]int64{0, 1, 2, 4, 6}, []int64{0, 50, 149, 150, 300}}
	grids := map[int]grid{1: full, 2: full, 3: full}
	if kit.Thorough() {
		full = grid{[]int64{0, 1, 2, 3, 4, 5, 6, 7, 9, 12}, []int64{0, 50, 149, 150, 151, 250, 300, 450, 600}}
		grids = map[int]grid{1: full, 2: full, 3: full,
			4: {[]int64{0, 3, 7}, []int64{0, 151, 400}},
			5: {[]int64{0, 5}, []int64{0, 301}}}
	}
	maxSegs := len(grids)
	// grids of the non-monotonic family: skewOnes for 4 and 5 one-message
	// segments, skewAll[n] for all layouts of n segments
	skewOnes := grid{[]int64{0, 2, 4}, []int64{0, 149}}
	skewAll := map[int]grid{2: {[]int64{0, 2, 4}, []int64{0, 150}}, 3: {[]int64{0, 2, 4}, []int64{0, 150}}}
	if kit.Thorough() {
		skewOnes = grid{[]int64{0, 1, 2, 3, 4, 5}, []int64{0, 50, 149, 151, 249}}
		g := grid{[]int64{0, 1, 2, 3, 4, 6, 7}, []int64{0, 50, 149, 150, 300, 450}}
		skewAll = map[int]grid{2: g, 3: g, 4: {[]int64{0, 3, 7}, []int64{0, 151, 400}}}
	}
	var gdesc []string
	for n := 1; n <= maxSegs; n++ {
		gdesc = append(gdesc, fmt.Sprintf("%d segments: msgs %v x bytes %v", n, grids[n].msgs, grids[n].bytes))
	}
	rep.SetRule(fmt.Sprintf("small-scope enumeration: ALL layouts of 1..%d segments with 1,2,3 messages per segment (50 bytes per message, segment i written at time 1000+10i) x a grid of message and byte limits (0 = off) per layout size [%s] x age cutoff in {off, before all, after the first a segments for every a, after all}; PLUS the non-monotonic family (last-write times going backwards between segments): every expired/not-expired flag assignment (incl. the newest segment) over 4 and 5 one-message segments x msgs %v x bytes %v, and every assignment that is not of the monotonic form E..En..n over ALL layouts of 2..%d segments with 1,2,3 messages each x a reduced limit grid; one Clean with the full oracle, a second Clean that must remove nothing; non-trivial = removed >=1 segment; distinct = layout + limits", maxSegs, strings.Join(gdesc, "; "), skewOnes.msgs, skewOnes.bytes, len(skewAll)+1))
	rep.SetExhaustive(true)
	rep.Assume("age limit with non-monotonic last-write times: a segment is removed for age only if it is itself expired; an expired segment behind a retained unexpired one legitimately stays ('every configured limit holds' is read for age as 'the oldest surviving segment is not expired, or only the newest remains')")
	var cases []c09EnumCase
	var gen func(prefix []int)
	gen = func(prefix []int) {
		if n := len(prefix); n > 0 {
			mg, bg := grids[n].msgs, grids[n].bytes
			for _, m := range mg {
				for _, b := range bg {
					for a := -1; a <= n; a++ {
						cases = append(cases, c09EnumCase{layout: append([]int(nil), prefix...), msgs: m, bytes: b, ageCut: a})
					}
				}
			}
		}
		if len(prefix) == maxSegs {
			return
		}
		for c := 1; c <= 3; c++ {
			gen(append(prefix, c))
		}
	}
	gen(nil)
	// second family: non-monotonic last-write times
	firstFamily := len(cases)
	addSkew := func(layout []int, g grid, all bool) {
		for _, pat := range c09Patterns(len(layout)) {
			if !all && c09PatMonotonic(pat) {
				continue // covered by the first family
			}
			for _, m := range g.msgs {
				for _, b := range g.bytes {
					cases = append(cases, c09EnumCase{layout: append([]int(nil), layout...), msgs: m, bytes: b, agePat: pat})
				}
			}
		}
	}
	for n := 4; n <= 5; n++ {
		ones := make([]int, n)
		for i := range ones {
			ones[i] = 1
		}
		addSkew(ones, skewOnes, true)
	}
	var genSkew func(prefix []int)
	genSkew = func(prefix []int) {
		if g, ok := skewAll[len(prefix)]; ok {
			addSkew(prefix, g, false)
		}
		if len(prefix) == len(skewAll)+1 {
			return
		}
		for c := 1; c <= 3; c++ {
			genSkew(append(prefix, c))
		}
	}
	genSkew(nil)
	rep.SetInfo("cases_first_family_all_shards", firstFamily)
	rep.SetInfo("cases_nonmonotonic_family_all_shards", len(cases)-firstFamily)
	rep.SetInfo("cases_enumerated_all_shards", len(cases))
	rep.SetInfo("shard", fmt.Sprintf("%d of %d (case index mod %d)", shard, nshards, nshards))
	kit.Parallel(len(cases), kit.Workers(), func(i int) {
		if i%nshards != shard || rep.NumViolations() >= 12 {
			return
		}
		c := cases[i]
		lim := c09Limits{Msgs: c.msgs, Bytes: c.bytes}
		if c.agePat != nil {
			lim.Age = c09AgeFor(995) // expired segments are written at 900+10i, the others at 1100+10i
		} else if c.ageCut >= 0 {
			lim.Age = c09AgeFor(1000 + 10*int64(c.ageCut) - 5)
		}
		e, err := newC09Env(rep, "enum", 1, lim)
		if err != nil {
			rep.Violation("C09:open-error", err.Error(), nil)
			return
		}
		defer e.close()
		for s, n := range c.layout {
			ts := make([]int64, n)
			for j := range ts {
				ts[j] = 1000 + 10*int64(s)
				if c.agePat != nil {
					ts[j] = 1100 + 10*int64(s)
					if c.agePat[s] {
						ts[j] = 900 + 10*int64(s)
					}
				}
			}
			if !e.appendBatch(6, ts) {
				return
			}
		}
		e.setHW(e.next - 1)
		rng := kit.NewRNG(uint64(i))
		k, ok := e.cleanAndCheck(rng, true)
		if !ok {
			return
		}
		exposed := e.ageExposed
		k2, ok := e.cleanAndCheck(rng, false)
		if !ok {
			return
		}
		if k2 != 0 && !exposed { // exposed: already reported by the first clean's sufficiency check
			e.fail("C09:second-clean-removed", fmt.Sprintf("a second Clean with unchanged limits and cutoff removed %d more segments", k2), nil)
		}
		switch {
		case k == 0:
			rep.Count("clean_removed_none", 1)
		case k == len(c.layout)-1:
			rep.Count("clean_removed_all_but_newest", 1)
		default:
			rep.Count("clean_removed_some", 1)
		}
		if i%2999 == 0 {
			rep.Sample(e.replay(map[string]any{"layout": fmt.Sprint(c.layout), "removed_segments": k}))
		}
		ls := make([]string, len(c.layout))
		for j, n := range c.layout {
			ls[j] = fmt.Sprint(n)
		}
		age := fmt.Sprint(c.ageCut)
		if c.agePat != nil {
			age = c09PatString(c.agePat)
			rep.Count("cases_nonmonotonic_family", 1)
		}
		e.finish(fmt.Sprintf("%s|%d|%d|%s", strings.Join(ls, ""), c.msgs, c.bytes, age), k > 0)
	})
}
