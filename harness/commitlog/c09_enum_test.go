//go:build verif

package commitlog

// C09 small-scope enumeration: ALL layouts of up to N segments with 1, 2 or 3
// messages per segment (50 bytes per message, one timestamp per segment),
// crossed with a grid of message limits x byte limits x every position of the
// age cutoff (off, nothing old, first a segments old, everything old).

import (
	"fmt"
	"os"
	"strings"
	"testing"

	kit "github.com/liftbridge-io/liftbridge/internal/verifkit"
)

// c09Shard: the enumeration is split over several units (processes) by case
// index; VERIF_SHARD = "i/n".
func c09Shard() (int, int) {
	var i, n int
	if _, err := fmt.Sscanf(os.Getenv("VERIF_SHARD"), "%d/%d", &i, &n); err != nil || n < 1 || i < 0 || i >= n {
		return 0, 1
	}
	return i, n
}

type c09EnumCase struct {
	layout []int
	msgs   int64
	bytes  int64
	ageCut int // -1 = off, a = the first a segments are older than the cutoff
}

func TestVerifC09Enum(t *testing.T) {
	shard, nshards := c09Shard()
	rep := kit.NewReport("C09", fmt.Sprintf("enum%d", shard))
	defer rep.Write()
	defer c09InstallTTL()()
	// grids[n] = (message limits, byte limits) used for layouts of n segments
	type grid struct{ msgs, bytes []int64 }
	full := grid{[]int64{0, 1, 2, 4, 6}, []int64{0, 50, 149, 150, 300}}
	grids := map[int]grid{1: full, 2: full, 3: full}
	if kit.Thorough() {
		full = grid{[]int64{0, 1, 2, 3, 4, 5, 6, 7, 9, 12}, []int64{0, 50, 149, 150, 151, 250, 300, 450, 600}}
		grids = map[int]grid{1: full, 2: full, 3: full,
			4: {[]int64{0, 3, 7}, []int64{0, 151, 400}},
			5: {[]int64{0, 5}, []int64{0, 301}}}
	}
	maxSegs := len(grids)
	var gdesc []string
	for n := 1; n <= maxSegs; n++ {
		gdesc = append(gdesc, fmt.Sprintf("%d segments: msgs %v x bytes %v", n, grids[n].msgs, grids[n].bytes))
	}
	rep.SetRule(fmt.Sprintf("small-scope enumeration: ALL layouts of 1..%d segments with 1,2,3 messages per segment (50 bytes per message, segment i written at time 1000+10i) x a grid of message and byte limits (0 = off) per layout size [%s] x age cutoff in {off, before all, after the first a segments for every a, after all}; one Clean with the full oracle, a second Clean that must remove nothing; non-trivial = removed >=1 segment; distinct = layout + limits", maxSegs, strings.Join(gdesc, "; ")))
	rep.SetExhaustive(true)
	var cases []c09EnumCase
	var gen func(prefix []int)
	gen = func(prefix []int) {
		if n := len(prefix); n > 0 {
			mg, bg := grids[n].msgs, grids[n].bytes
			for _, m := range mg {
				for _, b := range bg {
					for a := -1; a <= n; a++ {
						cases = append(cases, c09EnumCase{layout: append([]int(nil), prefix...), msgs: m, bytes: b, ageCut: a})
					}
				}
			}
		}
		if len(prefix) == maxSegs {
			return
		}
		for c := 1; c <= 3; c++ {
			gen(append(prefix, c))
		}
	}
	gen(nil)
	rep.SetInfo("cases_enumerated_all_shards", len(cases))
	rep.SetInfo("shard", fmt.Sprintf("%d of %d (case index mod %d)", shard, nshards, nshards))
	kit.Parallel(len(cases), kit.Workers(), func(i int) {
		if i%nshards != shard || rep.NumViolations() >= 12 {
			return
		}
		c := cases[i]
		lim := c09Limits{Msgs: c.msgs, Bytes: c.bytes}
		if c.ageCut >= 0 {
			lim.Age = c09AgeFor(1000 + 10*int64(c.ageCut) - 5)
		}
		e, err := newC09Env(rep, "enum", 1, lim)
		if err != nil {
			rep.Violation("C09:open-error", err.Error(), nil)
			return
		}
		defer e.close()
		for s, n := range c.layout {
			ts := make([]int64, n)
			for j := range ts {
				ts[j] = 1000 + 10*int64(s)
			}
			if !e.appendBatch(6, ts) {
				return
			}
		}
		e.setHW(e.next - 1)
		rng := kit.NewRNG(uint64(i))
		k, ok := e.cleanAndCheck(rng, true)
		if !ok {
			return
		}
		k2, ok := e.cleanAndCheck(rng, false)
		if !ok {
			return
		}
		if k2 != 0 {
			e.fail("C09:second-clean-removed", fmt.Sprintf("a second Clean with unchanged limits and cutoff removed %d more segments", k2), nil)
		}
		switch {
		case k == 0:
			rep.Count("clean_removed_none", 1)
		case k == len(c.layout)-1:
			rep.Count("clean_removed_all_but_newest", 1)
		default:
			rep.Count("clean_removed_some", 1)
		}
		if i%2999 == 0 {
			rep.Sample(e.replay(map[string]any{"layout": fmt.Sprint(c.layout), "removed_segments": k}))
		}
		ls := make([]string, len(c.layout))
		for j, n := range c.layout {
			ls[j] = fmt.Sprint(n)
		}
		e.finish(fmt.Sprintf("%s|%d|%d|%d", strings.Join(ls, ""), c.msgs, c.bytes, c.ageCut), k > 0)
	})
}
