//go:build verif

package commitlog

// C09 faulted unit: retention passes in whose HISTORY an earlier pass did not
// run to its end, or met files that were already partly gone.
//
// Every other C09 unit runs cleans in which every unlink succeeds the first
// time, so each segment is deleted exactly once and the segment list is
// swapped by the same pass that removed the files.  Here the pass is
// interrupted between "files removed" and "list swapped", and a later pass has
// to complete it:
//
//	obstacle  a file-system obstacle makes one unlink fail: a non-empty
//	          directory sits at the path of the .index (or the .log) file of a
//	          segment that the limits condemn (the real file is moved aside);
//	          1-3 cleans run against it, then the obstacle goes away - the
//	          file it stood for is either back (a transient failure: the pass
//	          left a whole segment / a lone .index behind) or gone;
//	inject    an error injected at a verifhook point of the pass:
//	          segdelete.afterLogRemove at the n-th deleted segment (its .log is
//	          gone, its .index stays) or clean.afterCleanSegments (all files
//	          gone, the list not swapped);
//	missing   before the pass, files of a condemned segment are already gone
//	          (only the .index left, only the .log left, neither) as an
//	          interrupted pass of an earlier process life or an operator's rm
//	          leaves them - no failing clean at all;
//
// in any combination, on one or two segments at any position of the condemned
// prefix (oldest, middle, the last condemned one), optionally with appends and
// rolls between the interrupted pass and the one that completes it.
//
// Oracle.  While a fault is present only SAFETY is judged after each failing
// Clean: whatever disappeared (file gone or dropped from the segment list) is a
// segment that the limits condemn (necessity, the shared predicate) and never
// the newest; every other .log file is byte-identical; a reader positioned at
// the first message that has to survive reads the whole surviving suffix.
// Once the faults are gone the very next Clean must return no error and
// establish the complete post-condition of the shared oracle relative to the
// files as they were BEFORE the interrupted pass (plus what was appended
// since): prefix of whole segments, newest kept, necessity, sufficiency,
// survivors untouched, files = segment list, OldestOffset / NewestOffset,
// forward / reverse reads from 0, the new oldest offset, the removed range; no
// .log / .index of a removed segment is left; 1-2 further cleans remove
// nothing and return no error.  Nothing here depends on time.

import (
	"bytes"
	"errors"
	"fmt"
	"os"
	"path/filepath"
	"runtime"
	"strings"
	"sync"
	"testing"

	kit "github.com/liftbridge-io/liftbridge/internal/verifkit"
	"github.com/liftbridge-io/liftbridge/server/verifhook"
)

var errC09Injected = errors.New("c09 injected error")

// c09FaultPlan is the error injection of ONE Clean call; the verifhook handler
// is process-global, cases run in parallel and Clean runs on the calling
// goroutine, so plans are keyed by goroutine id.
type c09FaultPlan struct {
	point string // hook point at which to fail
	occ   int    // at its occ-th occurrence within this Clean
	seen  map[string]int
	fired int
}

var c09FaultPlans sync.Map // goroutine id -> *c09FaultPlan

func c09Gid() uint64 {
	var b [48]byte
	n := runtime.Stack(b[:], false)
	// "goroutine 123 [running]:"
	var id uint64
	for _, c := range b[len("goroutine "):n] {
		if c < '0' || c > '9' {
			break
		}
		id = id*10 + uint64(c-'0')
	}
	return id
}

func c09FaultHook(name string, args ...interface{}) error {
	if name != "segdelete.afterLogRemove" && name != "clean.afterCleanSegments" && name != "clean.afterDeleteSeg" {
		return nil
	}
	v, ok := c09FaultPlans.Load(c09Gid())
	if !ok {
		return nil
	}
	p := v.(*c09FaultPlan)
	p.seen[name]++
	if name == p.point && p.seen[name] == p.occ {
		p.fired++
		return errC09Injected
	}
	return nil
}

// cleanWith runs one real Clean with an optional injected error.
func (e *c09Env) cleanWith(p *c09FaultPlan) (err error, deleteCalls int, fired bool) {
	if p == nil {
		p = &c09FaultPlan{}
	}
	p.seen = map[string]int{}
	gid := c09Gid()
	c09FaultPlans.Store(gid, p)
	err = e.log.Clean()
	c09FaultPlans.Delete(gid)
	e.cleans++
	return err, p.seen["clean.afterDeleteSeg"], p.fired > 0
}

func c09LogPath(dir string, base int64) string {
	return filepath.Join(dir, fmt.Sprintf("%020d.log", base))
}

// c09PathKind: "file", "dir" or "missing".
func c09PathKind(p string) string {
	fi, err := os.Lstat(p)
	switch {
	case err != nil:
		return "missing"
	case fi.IsDir():
		return "dir"
	}
	return "file"
}

const c09AsideSuffix = ".c09aside" // neither *.log nor *.index: invisible to the log and to the scans

// c09Obstacle: a non-empty directory at the path of a segment file.
type c09Obstacle struct {
	seg     int    // index into the pre-state
	base    int64  // its base offset
	ext     string // "index" | "log"
	path    string
	restore bool // when the obstacle goes away the real file is back (else it is gone)
}

func (o c09Obstacle) String() string {
	after := "file-gone-afterwards"
	if o.restore {
		after = "file-back-afterwards"
	}
	return fmt.Sprintf("dir-at-%s(seg#%d base=%d,%s)", o.ext, o.seg, o.base, after)
}

func (o c09Obstacle) install() error {
	if err := os.Rename(o.path, o.path+c09AsideSuffix); err != nil {
		return err
	}
	return os.MkdirAll(filepath.Join(o.path, "busy"), 0755)
}

func (o c09Obstacle) remove() error {
	if err := os.RemoveAll(o.path); err != nil {
		return err
	}
	if o.restore {
		return os.Rename(o.path+c09AsideSuffix, o.path)
	}
	return os.Remove(o.path + c09AsideSuffix)
}

func c09ToSeg(r vfRawSegment) c09Seg {
	s := c09Seg{Base: r.Base, Count: int64(len(r.Recs)), Bytes: r.Bytes, FirstOff: -1, LastOff: -1, Recs: r.Recs}
	if n := len(r.Recs); n > 0 {
		s.LastTS, s.FirstOff, s.LastOff = r.Recs[n-1].TS, r.Recs[0].Off, r.Recs[n-1].Off
	}
	return s
}

func TestVerifC09Faulted(t *testing.T) {
	rep := kit.NewReport("C09", "faulted")
	defer rep.Write()
	defer c09InstallTTL()()
	verifhook.Set(c09FaultHook)
	defer verifhook.Set(nil)
	rep.SetRule("retention passes that are INTERRUPTED or meet partly removed segments: seeded layout (2-10 segments through the real Append, one batch per segment or natural rolling, in 1 of 3 cases leader clocks skewed) and limits aimed at the measured layout so that >=1 segment is condemned (1 case in 12: none); then 1-3 faults on condemned segments at the oldest / a middle / the last condemned position: a non-empty directory at the path of a segment's .index or .log file (real file moved aside) for 1-3 Clean calls, after which it goes away and the file is back or gone; an error injected at segdelete.afterLogRemove of the n-th deleted segment or at clean.afterCleanSegments (files removed, list not swapped) in 1-3 Clean calls; files of a condemned segment already missing before the pass (.log only, .index only, both); in 1 of 4 cases appends / rolls between the interrupted pass and the next one; oracle: after each failing Clean safety only (what disappeared from the files or the segment list is condemned by the limits and not the newest, other files byte-identical, the suffix that must survive is readable), after the faults are gone the NEXT Clean returns no error and the shared before/after oracle holds relative to the files before the interrupted pass (+ appends), no file of a removed segment is left, 1-2 further cleans remove nothing; non-trivial = a pass that failed had already removed files of >=1 segment, or files of a condemned segment were missing beforehand, and the completing pass met >=1 segment without its .log; distinct = layout + limits + faults")
	rep.Assume("computeTTL is pinned to a fixed instant and all message timestamps are chosen by the harness: no wall clock takes part")
	rep.Assume("faults only ever touch files of segments that the limits condemn (index < the first index at which the remaining log violates no limit, computed by the shared predicate c09Violated from the raw files): a cleaner that honours the limits has to remove those segments, so the harness never damages a file that a correct pass keeps")
	rep.Assume("the process runs as root here, so a read-only directory does not make unlink fail; the unlink failures are produced with a non-empty directory at the file's path (ENOTEMPTY / EISDIR) and with injected errors at the two verifhook points that lie between the removal of files and the swap of the segment list")
	rep.Assume("a Clean that is called while no fault is present must succeed (as in every other C09 unit); a Clean that runs into a fault may fail, and is judged for safety only")
	root := kit.NewRNG(kit.Mix(kit.Seed(), 0xC09FA17))
	ncases := kit.Scale(420, 2400)
	seeds := make([]uint64, ncases)
	for i := range seeds {
		seeds[i] = root.Uint64()
	}
	kit.Parallel(ncases, kit.Workers(), func(i int) {
		if rep.NumViolations() >= 12 {
			return
		}
		c09RunFaulted(rep, seeds[i], i)
	})
}

func c09RunFaulted(rep *kit.Report, seed uint64, idx int) {
	rng := kit.NewRNG(seed)
	maxSeg := int64(1)
	if rng.Chance(1, 3) {
		maxSeg = []int64{120, 300, 700}[rng.Intn(3)]
	}
	var skew *c09Skew
	if rng.Chance(1, 3) {
		skew = &c09Skew{maxTerm: 3}
		if maxSeg > 1 {
			skew.maxTerm = 6
		}
	}
	e, err := newC09Env(rep, "faulted", maxSeg, c09Limits{})
	if err != nil {
		rep.Violation("C09:open-error", err.Error(), nil)
		return
	}
	defer e.close()
	ts := int64(1000)
	appendSome := func(lo, hi int) bool {
		nb := rng.Range(lo, hi)
		if maxSeg > 1 {
			nb = rng.Range(2*lo, 3*hi)
		}
		bs, _ := c09PlanClk(rng, maxSeg, &ts, nb, nil, skew)
		for _, b := range bs {
			if !e.appendBatch(b.vlen, b.ts) {
				return false
			}
		}
		return true
	}
	if !appendSome(2, 10) {
		return
	}
	rounds := 1
	if rng.Chance(1, 3) {
		rounds = 2
	}
	nontrivial := false
	var sigs []string
	for r := 0; r < rounds; r++ {
		if r > 0 {
			// the log lives on after a completed interrupted pass
			if !appendSome(1, 4) {
				return
			}
			rep.Count("second_rounds", 1)
		}
		nt, ok := c09FaultedRound(e, rng, appendSome)
		if !ok {
			return
		}
		nontrivial = nontrivial || nt
		sigs = append(sigs, e.lim.String())
	}
	if idx < 3 {
		rep.Sample(e.replay(nil))
	}
	e.finish(fmt.Sprintf("%d|%s|%s", maxSeg, strings.Join(e.trace, " "), strings.Join(sigs, ";")), nontrivial)
}

// c09FaultedRound: limits aimed at the present layout, faults on condemned
// segments, 0-3 cleans that run into them, the faults go away, the completing
// clean and 1-2 further ones.
func c09FaultedRound(e *c09Env, rng *kit.RNG, appendSome func(lo, hi int) bool) (nontrivial, ok bool) {
	rep := e.rep
	switch x := rng.Intn(6); {
	case x < 3:
		e.setHW(e.next - 1)
	case x == 3:
		e.setHW(int64(rng.Intn(int(e.next))))
	}
	if rng.Chance(1, 8) {
		if split, err := e.log.checkAndPerformSplit(); err != nil {
			e.fail("C09:split-error", err.Error(), nil)
			return false, false
		} else if split {
			e.trace = append(e.trace, "Roll")
		}
	}
	pre, ok := e.scan("before limits")
	if !ok {
		return false, false
	}
	// limits aimed at the measured layout; mostly such that something is condemned
	lim := c09PickLimits(rng, pre)
	wantCondemned := !rng.Chance(1, 12)
	for tries := 0; wantCondemned && c09ExpectedKeep(pre, lim) == 0 && tries < 12; tries++ {
		lim = c09PickLimits(rng, pre)
	}
	e.setLimitsLive(lim)
	want := c09ExpectedKeep(pre, lim)
	preBytes := map[int64][]byte{}
	for _, s := range pre {
		b, err := os.ReadFile(c09LogPath(e.dir, s.Base))
		if err != nil {
			e.fail("C09:raw-scan", fmt.Sprintf("reading %d.log: %v", s.Base, err), nil)
			return false, false
		}
		preBytes[s.Base] = b
	}
	if want == 0 {
		// nothing is condemned: nothing may be faulted either; an ordinary clean
		rep.Count("cases_nothing_condemned", 1)
		if _, ok := e.cleanAndCheck(rng, true); !ok {
			return false, false
		}
		return false, true
	}

	// ---- the faults -------------------------------------------------------
	pickSeg := func() int {
		switch rng.Intn(4) {
		case 0:
			return 0
		case 1:
			return want - 1
		}
		return rng.Intn(want)
	}
	var (
		obstacles  []c09Obstacle
		ownMissLog = map[int]bool{} // .log made unavailable by the harness itself
		faultDesc  []string
		preMissing int
	)
	touched := map[int]bool{}
	nfaults := rng.Range(1, 2)
	if rng.Chance(1, 6) {
		nfaults = 3
	}
	injectRuns := 0
	for f := 0; f < nfaults; f++ {
		switch x := rng.Intn(10); {
		case x < 4: // obstacle
			j := pickSeg()
			if touched[j] {
				continue
			}
			touched[j] = true
			o := c09Obstacle{seg: j, base: pre[j].Base, ext: "index", restore: rng.Bool()}
			if rng.Chance(1, 3) {
				o.ext = "log"
				ownMissLog[j] = true
			}
			o.path = filepath.Join(e.dir, fmt.Sprintf("%020d.%s", o.base, o.ext))
			if err := o.install(); err != nil {
				rep.Inconc(fmt.Sprintf("C09 faulted: could not install %v: %v", o, err))
				return false, false
			}
			obstacles = append(obstacles, o)
			faultDesc = append(faultDesc, o.String())
			rep.Count("fault_dir_at_"+o.ext, 1)
		case x < 7: // injected errors (decided per Clean call below)
			injectRuns++
		default: // files already missing before the pass
			j := pickSeg()
			if touched[j] {
				continue
			}
			touched[j] = true
			what := []string{"log", "index", "both"}[rng.Intn(3)]
			if what != "index" {
				if err := os.Remove(c09LogPath(e.dir, pre[j].Base)); err != nil {
					rep.Inconc(fmt.Sprintf("C09 faulted: rm: %v", err))
					return false, false
				}
				ownMissLog[j] = true
			}
			if what != "log" {
				if err := os.Remove(c09IndexPath(e.dir, pre[j].Base)); err != nil {
					rep.Inconc(fmt.Sprintf("C09 faulted: rm: %v", err))
					return false, false
				}
			}
			preMissing++
			faultDesc = append(faultDesc, fmt.Sprintf("missing-before(seg#%d base=%d,%s)", j, pre[j].Base, what))
			rep.Count("fault_missing_before_"+what, 1)
		}
	}
	if len(obstacles) == 0 && injectRuns == 0 && preMissing == 0 {
		injectRuns = 1
	}
	e.trace = append(e.trace, "Faults["+strings.Join(faultDesc, " ")+"]")

	// ---- phase A: cleans that run into the faults --------------------------
	nA := 0
	if len(obstacles) > 0 || injectRuns > 0 {
		nA = rng.Range(1, 3)
		if injectRuns > 0 && len(obstacles) == 0 {
			nA = injectRuns
			if rng.Chance(1, 3) {
				nA++
			}
		}
	}
	failedPasses, removedByFailed := 0, 0
	completedEarly := false
	for a := 0; a < nA && !completedEarly; a++ {
		var plan *c09FaultPlan
		if injectRuns > 0 && (len(obstacles) == 0 || rng.Bool()) {
			plan = &c09FaultPlan{point: "segdelete.afterLogRemove", occ: rng.Range(1, want)}
			if rng.Chance(1, 3) {
				plan.occ = []int{1, want}[rng.Intn(2)]
			}
			if len(obstacles) == 0 && rng.Chance(1, 3) {
				plan = &c09FaultPlan{point: "clean.afterCleanSegments", occ: 1}
			}
		}
		err, calls, fired := e.cleanWith(plan)
		tr := "CleanF("
		if plan != nil {
			tr += fmt.Sprintf("%s#%d", plan.point, plan.occ)
			if fired {
				rep.Count("injected_"+plan.point, 1)
			} else {
				rep.Count("injection_point_not_reached", 1)
			}
		}
		if err != nil {
			tr += ")=err"
		} else {
			tr += ")=ok"
		}
		e.trace = append(e.trace, tr)
		rep.Max("max_delete_calls_in_one_pass", int64(calls))
		if err == nil {
			// the pass ran to its end: with an obstacle on a condemned segment a
			// cleaner honouring the limits cannot get here; an injection whose
			// occurrence was not reached can.  Judged as an ordinary clean below.
			rep.Count("faulted_clean_returned_no_error", 1)
			completedEarly = true
			break
		}
		failedPasses++
		rep.Count("failed_passes", 1)
		gone, ok := e.faultedSafety(pre, preBytes, ownMissLog, want)
		if !ok {
			return false, false
		}
		if a == 0 {
			removedByFailed = gone
		}
		if a > 0 {
			rep.Count("failed_passes_repeated_over_removed_segments", 1)
		}
	}

	// ---- the faults go away -------------------------------------------------
	for _, o := range obstacles {
		if err := o.remove(); err != nil {
			rep.Inconc(fmt.Sprintf("C09 faulted: could not remove %v: %v", o, err))
			return false, false
		}
		if o.restore {
			rep.Count("obstacle_gone_file_back", 1)
			if o.ext == "log" {
				delete(ownMissLog, o.seg)
			}
		} else {
			rep.Count("obstacle_gone_file_gone", 1)
		}
	}
	e.trace = append(e.trace, "FaultsGone")
	if !completedEarly && rng.Chance(1, 4) {
		if !appendSome(1, 3) {
			return false, false
		}
		if rng.Chance(1, 3) {
			if split, err := e.log.checkAndPerformSplit(); err != nil {
				e.fail("C09:split-error", err.Error(), nil)
				return false, false
			} else if split {
				e.trace = append(e.trace, "Roll")
			}
		}
		rep.Count("appends_between_interrupted_and_completing_pass", 1)
	}
	// the reference state: the files before the interrupted pass + everything
	// from the (then) newest segment on as it is now (those are never removed)
	raw, err := vfScanDir(e.dir)
	if err != nil {
		e.fail("C09:raw-scan", fmt.Sprintf("after the faults are gone: %v", err), nil)
		return false, false
	}
	pre2 := append([]c09Seg(nil), pre[:len(pre)-1]...)
	newestBase := pre[len(pre)-1].Base
	for _, r := range raw {
		if r.Base >= newestBase {
			pre2 = append(pre2, c09ToSeg(r))
		}
	}
	if len(pre2) < len(pre) || pre2[len(pre)-1].Base != newestBase {
		e.fail("C09:newest-removed", fmt.Sprintf("the .log file of the newest segment (base %d) is gone after an interrupted Clean", newestBase), nil)
		return false, false
	}
	met := 0 // condemned segments the completing pass meets without their .log
	for j := 0; j < want; j++ {
		if c09PathKind(c09LogPath(e.dir, pre[j].Base)) == "missing" {
			met++
		}
	}
	rep.Count("segments_without_log_met_by_completing_pass", int64(met))

	// ---- phase B: the next Clean has to complete the job -------------------
	if !completedEarly {
		e.trace = append(e.trace, fmt.Sprintf("Clean%v", pre2))
		err, _, _ := e.cleanWith(nil)
		if err != nil {
			e.notCompleted(rng, pre2, err, failedPasses)
			return false, false
		}
	}
	k, ok := e.judgeClean(rng, pre2, true)
	if !ok {
		return false, false
	}
	post, ok := e.scan("leftover check")
	if !ok {
		return false, false
	}
	if left := e.leftovers(post); len(left) > 0 {
		e.fail("C09:removed-segment-file-left", fmt.Sprintf("files of removed segments are left in the log directory after the pass that followed an interrupted one: %v", left), nil)
	}
	exposed := e.ageExposed
	for n := rng.Range(1, 2); n > 0; n-- {
		k2, ok := e.cleanAndCheck(rng, false)
		if !ok {
			return false, false
		}
		if k2 != 0 && !exposed {
			e.fail("C09:second-clean-removed", fmt.Sprintf("a further Clean with unchanged limits and cutoff removed %d more segments", k2), nil)
		}
	}
	if failedPasses > 0 {
		rep.Count("interrupted_passes_completed", 1)
	}
	rep.Count("limits_"+e.lim.kinds(), 1)
	return k > 0 && met > 0 && (removedByFailed > 0 || preMissing > 0), true
}

// faultedSafety judges the state a FAILED Clean left behind: safety only.  It
// returns the number of segments whose .log file the pass removed.
func (e *c09Env) faultedSafety(pre []c09Seg, preBytes map[int64][]byte, ownMissLog map[int]bool, want int) (gone int, ok bool) {
	wit := map[string]any{"segments_before": fmt.Sprint(pre), "expired_flags_before_E_is_older_than_cutoff": c09AgePattern(pre, e.lim), "documented_semantics_keep_from_index": want}
	listed := map[int64]bool{}
	segs := e.log.Segments()
	for _, s := range segs {
		listed[s.BaseOffset] = true
	}
	if len(segs) == 0 || segs[len(segs)-1].BaseOffset < pre[len(pre)-1].Base {
		e.fail("C09:newest-removed", fmt.Sprintf("after a failed Clean the log lists %v, the newest segment was base %d", c09SegBases(segs), pre[len(pre)-1].Base), wit)
		return 0, false
	}
	for i, s := range pre {
		kind := c09PathKind(c09LogPath(e.dir, s.Base))
		fileGone := kind != "file" && !ownMissLog[i]
		if kind == "file" {
			b, err := os.ReadFile(c09LogPath(e.dir, s.Base))
			if err != nil || !bytes.Equal(b, preBytes[s.Base]) {
				e.fail("C09:survivor-changed", fmt.Sprintf("after a failed Clean the file of segment base %d differs from before (read error: %v)", s.Base, err), wit)
				return 0, false
			}
		}
		if fileGone {
			gone++
		}
		if !fileGone && listed[s.Base] {
			continue
		}
		// the segment disappeared from the files or from the list
		if i == len(pre)-1 {
			e.fail("C09:newest-removed", fmt.Sprintf("a failed Clean removed the newest segment (base %d): .log is %s, listed=%v", s.Base, kind, listed[s.Base]), wit)
			return 0, false
		}
		if v := c09Violated(pre[i:], e.lim); len(v) == 0 {
			e.fail("C09:removed-more-than-needed:"+e.lim.kinds(),
				fmt.Sprintf("a Clean that failed part-way removed segment base %d (index %d; .log is %s, listed=%v) although the log from it on satisfies every configured limit (%s; expired flags %s); before %v",
					s.Base, i, kind, listed[s.Base], e.lim, c09AgePattern(pre, e.lim), pre), wit)
			return 0, false
		}
	}
	// the suffix that every reading of the limits keeps stays readable
	var suffix []vfRec
	for _, s := range pre[want:] {
		suffix = append(suffix, s.Recs...)
	}
	if len(suffix) > 0 {
		e.readsChecked++
		got, oerr, err := vfReadFrom(e.log, suffix[0].Off, true, len(suffix)+8)
		wantOffs := c09Offs(suffix)
		if oerr != nil || err != nil || !c09OffsEq(got, wantOffs) || !c09SameAll(got, e.orig) {
			e.fail("C09:read-suffix:after-failed-clean", fmt.Sprintf("uncommitted reader from %d (the first message every reading of the limits keeps) after a Clean that failed part-way: open=%v err=%v got %v want %v", suffix[0].Off, oerr, err, c09Offs(got), wantOffs), wit)
			return gone, false
		}
	}
	return gone, true
}

// notCompleted reports a Clean that failed although no fault is present any
// more, with what the log looks like after two more attempts.
func (e *c09Env) notCompleted(rng *kit.RNG, pre2 []c09Seg, first error, failedPasses int) {
	errs := []string{first.Error()}
	for i := 0; i < 2; i++ {
		err, _, _ := e.cleanWith(nil)
		if err == nil {
			errs = append(errs, "<nil>")
			break
		}
		errs = append(errs, err.Error())
	}
	var files []int64
	if raw, err := vfScanDir(e.dir); err == nil {
		for _, r := range raw {
			files = append(files, r.Base)
		}
	}
	segs := e.log.Segments()
	oldest := e.log.OldestOffset()
	_, oerr, rerr := vfReadFrom(e.log, oldest, true, 4)
	var left []string
	keep := map[int64]bool{}
	for _, b := range files {
		keep[b] = true
	}
	ents, _ := os.ReadDir(e.dir)
	for _, en := range ents {
		if strings.HasSuffix(en.Name(), ".index") {
			var b int64
			fmt.Sscanf(strings.TrimSuffix(en.Name(), ".index"), "%d", &b)
			if !keep[b] {
				left = append(left, en.Name())
			}
		}
	}
	kind := "after-interrupted-pass"
	if failedPasses == 0 {
		kind = "segment-files-partly-missing"
	}
	e.fail("C09:clean-fails-with-no-fault-present",
		fmt.Sprintf("no fault is present any more (history: "+kind+"), yet Clean fails: %s; after %d attempts the log lists segments %v while the directory holds .log files %v (lone .index files: %v), still violated on the listed segments' files: %v; OldestOffset=%d, reading from it: open=%v err=%v; want keep from index %d of %v",
			strings.Join(errs, " | "), len(errs), c09SegBases(segs), files, left, c09Violated(pre2[c09FirstListed(pre2, segs):], e.lim), oldest, oerr, rerr, c09ExpectedKeep(pre2, e.lim), c09Bases(pre2)),
		map[string]any{"segments_before": fmt.Sprint(pre2), "clean_errors": errs})
}

func c09FirstListed(pre []c09Seg, segs []*segment) int {
	if len(segs) == 0 {
		return 0
	}
	for i, s := range pre {
		if s.Base == segs[0].BaseOffset {
			return i
		}
	}
	return 0
}
