//go:build verif

package commitlog

// C01 — unit `offset`: logs whose first retained offset is NOT 0 and not the
// base offset of the segment that holds it.
//
// The other C01 units start every log at offset 0.  A replica that joins (or
// re-joins with an empty directory) after the leader's retention has removed
// the head of the log starts replicating at the leader's oldest offset k > 0:
// its first message set lands in the initial segment (base offset 0) with
// first offset k.  Here a "leader" log is written, trimmed by retention, and
// replicated from its new oldest offset into a fresh "follower" log through
// AppendMessageSet in PRNG-sized chunks (the replication path); the follower
// is then read from every start offset, committed and uncommitted, before and
// after a clean reopen and after further appends, and compared with what the
// leader stored.

import (
	"fmt"
	"os"
	"testing"

	kit "github.com/liftbridge-io/liftbridge/internal/verifkit"
)

func c01OffsetCheck(rep *kit.Report, f *commitLog, model []vfRec, k, hw int64, phase string, witness map[string]any) bool {
	fail := func(fp, what string) bool {
		witness["phase"] = phase
		rep.Violation(fp, what, witness)
		return false
	}
	n := int64(len(model))
	if got := f.OldestOffset(); got != k {
		return fail("C01:offset:oldest-offset", fmt.Sprintf("%s: OldestOffset=%d, the first replicated message has offset %d", phase, got, k))
	}
	if got := f.NewestOffset(); got != n-1 {
		return fail("C01:offset:newest-offset", fmt.Sprintf("%s: NewestOffset=%d, expected %d", phase, got, n-1))
	}
	for s := k - 1; s <= n; s++ {
		if s < 0 {
			continue
		}
		for _, unc := range []bool{true, false} {
			recs, oerr, err := vfReadFrom(f, s, unc, int(n)+8)
			if err != nil {
				return fail("C01:offset:read-error", fmt.Sprintf("%s: reader(start=%d uncommitted=%v): %v", phase, s, unc, err))
			}
			lo := s
			if lo < k {
				lo = k // a start below the oldest offset begins at the oldest message
			}
			hi := n
			if !unc {
				hi = hw + 1
			}
			var want []vfRec
			if lo < hi {
				want = model[lo:hi]
			}
			if oerr != nil {
				if len(want) > 0 {
					return fail("C01:offset:reader-open", fmt.Sprintf("%s: NewReader(start=%d, uncommitted=%v) failed although offsets [%d,%d] are retained (hw=%d): %v", phase, s, unc, k, n-1, hw, oerr))
				}
				continue
			}
			if len(recs) != len(want) {
				return fail("C01:offset:read-count", fmt.Sprintf("%s: reader(start=%d uncommitted=%v hw=%d) on a log holding [%d,%d] returned %d messages (offsets %s), expected %d", phase, s, unc, hw, k, n-1, len(recs), offsList(recs), len(want)))
			}
			for i := range want {
				if !vfSameRec(recs[i], want[i]) {
					fp := "C01:offset:read-content"
					if recs[i].Off != want[i].Off {
						fp = "C01:offset:read-offset-order"
					}
					return fail(fp, fmt.Sprintf("%s: reader(start=%d uncommitted=%v) message #%d: got %v want %v", phase, s, unc, i, recs[i], want[i]))
				}
			}
			rep.Count("offset_reader_starts_checked", 1)
		}
	}
	return true
}

func TestVerifC01Offset(t *testing.T) {
	rep := kit.NewReport("C01", "offset")
	defer rep.Write()
	rep.SetRule("a leader log (segment size 100/250/600) is written, trimmed by a message-count retention pass so that its oldest offset is k > 0, and replicated from k into a fresh follower log (segment size 150/600/1 MiB: the first set lands in the initial segment with base offset 0) through AppendMessageSet in PRNG chunks; the follower is compared with the leader's content through readers from EVERY start offset in [k-1, newest+1], committed (HW at a PRNG offset) and uncommitted, after replication, after a clean reopen, after further leader-style appends and after a second reopen; non-trivial = k > 0 and the follower rolled >= 1 segment; distinct = sizes + n + k + chunking")
	root := kit.NewRNG(kit.Mix(kit.Seed(), 0xC010FF))
	ncase := kit.Scale(90, 900)
	seeds := make([]uint64, ncase)
	for i := range seeds {
		seeds[i] = root.Uint64()
	}
	kit.Parallel(ncase, kit.Workers(), func(ci int) {
		if rep.NumViolations() >= 4 {
			return
		}
		rng := kit.NewRNG(seeds[ci])
		segL := []int64{100, 250, 600}[rng.Intn(3)]
		segF := []int64{150, 600, 1 << 20}[rng.Intn(3)]
		n := rng.Range(12, 60)
		keep := int64(rng.Range(3, n-2))
		ldir, fdir := vfTempDir("c01ol"), vfTempDir("c01of")
		defer os.RemoveAll(ldir)
		defer os.RemoveAll(fdir)
		lo := vfOpts(ldir, segL)
		lo.MaxLogMessages = keep
		leader, err := vfOpen(lo)
		if err != nil {
			rep.Violation("C01:open-error", err.Error(), nil)
			return
		}
		defer leader.Close()
		gen := newVfGen(rng.Fork(7))
		var model []vfRec
		add := func(l *commitLog, cnt int) bool {
			for cnt > 0 {
				b := rng.Range(1, 5)
				if b > cnt {
					b = cnt
				}
				msgs := make([]*Message, b)
				for i := range msgs {
					r := gen.next()
					r.Off = int64(len(model))
					r.Hdr = vfNormHdr(r.Hdr)
					model = append(model, r)
					msgs[i] = r.msg()
				}
				if _, err := l.Append(msgs); err != nil {
					rep.Violation("C01:append-error", err.Error(), nil)
					return false
				}
				cnt -= b
			}
			return true
		}
		if !add(leader, n) {
			return
		}
		if err := leader.Clean(); err != nil {
			rep.Inconc("leader retention pass failed: " + err.Error())
			return
		}
		k := leader.OldestOffset()
		rep.Eval()
		if k <= 0 {
			rep.Count("cases_where_retention_removed_nothing", 1)
			return
		}
		follower, err := vfOpen(vfOpts(fdir, segF))
		if err != nil {
			rep.Violation("C01:open-error", err.Error(), nil)
			return
		}
		closed := false
		defer func() {
			if !closed {
				follower.Close()
			}
		}()
		witness := map[string]any{"case_seed": seeds[ci], "leader_segment": segL, "follower_segment": segF, "messages": n, "first_replicated_offset": k}
		var chunks []int
		for off := k; off < int64(n); {
			c := rng.Range(1, 7)
			if off+int64(c) > int64(n) {
				c = n - int(off)
			}
			chunks = append(chunks, c)
			data, err := vfReplicaBytes(leader, off, c)
			if err != nil {
				rep.Inconc(fmt.Sprintf("reading replication bytes from the leader at %d: %v", off, err))
				return
			}
			offs, err := follower.AppendMessageSet(data)
			if err != nil {
				rep.Violation("C01:offset:appendms-error", fmt.Sprintf("AppendMessageSet of offsets %d..%d into a follower whose log starts at %d failed: %v", off, off+int64(c)-1, k, err), witness)
				return
			}
			for i, o := range offs {
				if o != off+int64(i) {
					rep.Violation("C01:offset:appendms-offset", fmt.Sprintf("AppendMessageSet returned %v, expected from %d", offs, off), witness)
					return
				}
			}
			off += int64(c)
		}
		witness["chunks"] = chunks
		hw := k - 1 + int64(rng.Intn(n-int(k)+1))
		if hw >= k {
			follower.SetHighWatermark(hw)
		} else {
			hw = -1
		}
		if !c01OffsetCheck(rep, follower, model, k, hw, "after-replication", witness) {
			return
		}
		reopen := func(phase string) bool {
			if err := follower.Close(); err != nil {
				rep.Violation("C01:close-error", err.Error(), witness)
				return false
			}
			f2, err := vfOpen(vfOpts(fdir, segF))
			if err != nil {
				closed = true
				rep.Violation("C01:reopen-error", fmt.Sprintf("%s: %v", phase, err), witness)
				return false
			}
			follower = f2
			return c01OffsetCheck(rep, follower, model, k, hw, phase, witness)
		}
		if !reopen("after-reopen") {
			return
		}
		// the follower becomes leader and takes appends of its own
		if !add(follower, rng.Range(1, 12)) {
			return
		}
		if !c01OffsetCheck(rep, follower, model, k, hw, "after-own-appends", witness) {
			return
		}
		if !reopen("after-second-reopen") {
			return
		}
		rep.Count("cases", 1)
		if len(follower.Segments()) >= 2 {
			rep.Nontrivial(fmt.Sprintf("%d|%d|%d|%d|%v", segL, segF, n, k, chunks))
		}
		if ci < 2 {
			rep.Sample(map[string]any{"leader_segment": segL, "follower_segment": segF, "messages": n, "first_replicated_offset": k, "chunks": chunks, "follower_segments": len(follower.Segments())})
		}
	})
}
