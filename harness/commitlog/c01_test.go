//go:build verif

package commitlog

// C01 — the partition log is a gap-free, ordered, immutable record of what was
// appended.  Seeded and small-scope-enumerated operation programs are run
// against a real commitLog; after every step the whole readable content is
// compared with an independent reference model (a slice of records).

import (
	"bytes"
	"context"
	"fmt"
	"os"
	"strings"
	"sync"
	"sync/atomic"
	"testing"
	"time"

	kit "github.com/liftbridge-io/liftbridge/internal/verifkit"
	"github.com/liftbridge-io/liftbridge/server/verifhook"
)

type c01Op struct {
	Kind  string // A append, M replicated message set, T truncate, R reopen, H set HW
	N     int    // batch size (A, M)
	Chunk int    // M: messages per AppendMessageSet call
	Arg   int64  // T: offset; H: hw
	Class string // T: position class
}

func (o c01Op) String() string {
	switch o.Kind {
	case "A":
		return fmt.Sprintf("A%d", o.N)
	case "M":
		return fmt.Sprintf("M%d/%d", o.N, o.Chunk)
	case "T":
		return fmt.Sprintf("T(%d:%s)", o.Arg, o.Class)
	case "H":
		return fmt.Sprintf("H(%d)", o.Arg)
	}
	return o.Kind
}

type c01Run struct {
	rep     *kit.Report
	dir     string
	srcDir  string
	maxSeg  int64
	log     *commitLog
	src     *commitLog // twin "leader" log: source of replicated message sets
	model   []vfRec
	hw      int64
	gen     *vfGen
	digests map[int64]uint64
	trace   []string
	failed  bool
	// coverage
	rolls, truncs, reopens, msets, readerStarts int
	truncClasses                                map[string]int
	// standing readers: opened once and advanced a few messages after every
	// later operation (rolls, replicated sets, truncations beyond their
	// position, HW moves), unlike the drain-from-every-start readers of check()
	standing              []*c01Standing
	standingReads         int
	standingAcrossTrunc   int
	standingAcrossSegDrop int
	standingEager         bool // enumeration: open readers at the first opportunity
}

type c01Standing struct {
	r         *Reader
	pos       int64 // next offset this reader must deliver
	committed bool
	start     int64
	sawTrunc  bool
}

// standingStep advances every standing reader by a few messages and opens new
// ones now and then.
func (c *c01Run) standingStep(rng *kit.RNG) { c.standingAdvance(rng, false) }

// standingDrain lets every standing reader catch up completely (end of a program).
func (c *c01Run) standingDrain(rng *kit.RNG) { c.standingAdvance(rng, true) }

func (c *c01Run) standingAdvance(rng *kit.RNG, drain bool) {
	if c.failed || c.log == nil || rng == nil {
		return
	}
	n := c.next()
	if !drain && len(c.standing) < 4 && n > 0 && (rng.Chance(1, 3) || (c.standingEager && len(c.standing) < 2)) {
		st := &c01Standing{committed: rng.Chance(1, 3)}
		if st.committed {
			st.start = int64(rng.Intn(int(c.hw) + 2))
		} else {
			st.start = int64(rng.Intn(int(n) + 1))
		}
		st.pos = st.start
		r, err := c.log.NewReader(st.start, !st.committed)
		if err == nil {
			st.r = r
			c.standing = append(c.standing, st)
		} else if st.start < n {
			c.fail("C01:reader-open", fmt.Sprintf("NewReader(start=%d, uncommitted=%v) failed: %v (hw=%d newest=%d)", st.start, !st.committed, err, c.hw, n-1))
			return
		}
	}
	hb := make([]byte, 28)
	for _, st := range c.standing {
		limit := n
		if st.committed && c.hw+1 < limit {
			limit = c.hw + 1
		}
		k := rng.Intn(4)
		if drain || rng.Chance(1, 8) {
			k = int(n) // catch up completely now and then
		}
		for i := 0; i < k && st.pos < limit; i++ {
			var (
				m   SerializedMessage
				off int64
				ts  int64
				ep  uint64
				err error
			)
			func() {
				defer func() {
					if p := recover(); p != nil {
						err = fmt.Errorf("panic: %v", p)
					}
				}()
				m, off, ts, ep, err = st.r.ReadMessage(vfCancelled, hb)
			}()
			what := fmt.Sprintf("standing reader (opened at %d, uncommitted=%v, had delivered up to %d, lived through a truncation: %v)", st.start, !st.committed, st.pos-1, st.sawTrunc)
			if err != nil {
				c.fail("C01:standing-reader-error", fmt.Sprintf("%s failed at offset %d although the log holds [0,%d] (hw=%d): %v", what, st.pos, n-1, c.hw, err))
				return
			}
			rec, derr := vfDecode(m, off, ts, ep)
			if derr != nil {
				c.fail("C01:standing-reader-error", fmt.Sprintf("%s offset %d: %v", what, off, derr))
				return
			}
			if !vfSameRec(rec, c.model[st.pos]) {
				fp := "C01:standing-reader-content"
				if rec.Off != st.pos {
					fp = "C01:standing-reader-offset"
				}
				c.fail(fp, fmt.Sprintf("%s delivered %v, expected %v", what, rec, c.model[st.pos]))
				return
			}
			st.pos++
			c.standingReads++
			if st.sawTrunc {
				c.standingAcrossTrunc++
			}
		}
	}
}


func (c *c01Run) next() int64 { return int64(len(c.model)) }

func (c *c01Run) fail(fp, what string) {
	c.failed = true
	c.rep.Violation(fp, what, map[string]any{"maxSegmentBytes": c.maxSeg, "program": strings.Join(c.trace, " ")})
}

func (c *c01Run) open() error {
	l, err := vfOpen(vfOpts(c.dir, c.maxSeg))
	if err != nil {
		return err
	}
	c.log = l
	s, err := vfOpen(vfOpts(c.srcDir, 1<<20))
	if err != nil {
		return err
	}
	c.src = s
	return nil
}

func (c *c01Run) close() {
	if c.log != nil {
		c.log.Close()
	}
	if c.src != nil {
		c.src.Close()
	}
}

// step executes one operation on the real log and on the model.
func (c *c01Run) step(op c01Op) {
	c.trace = append(c.trace, op.String())
	segsBefore := len(c.log.Segments())
	switch op.Kind {
	case "A":
		recs := make([]vfRec, op.N)
		msgs := make([]*Message, op.N)
		for i := range recs {
			recs[i] = c.gen.next()
			recs[i].Off = c.next() + int64(i)
			recs[i].Hdr = vfNormHdr(recs[i].Hdr)
			msgs[i] = recs[i].msg()
		}
		offs, err := c.log.Append(msgs)
		if err != nil {
			c.fail("C01:append-error", fmt.Sprintf("Append of %d messages failed: %v", op.N, err))
			return
		}
		for i, o := range offs {
			if o != recs[i].Off {
				c.fail("C01:append-offset", fmt.Sprintf("Append returned offsets %v, expected to start at %d", offs, recs[0].Off))
				return
			}
		}
		if len(offs) != op.N {
			c.fail("C01:append-offset", fmt.Sprintf("Append returned %d offsets for %d messages", len(offs), op.N))
			return
		}
		if _, err := c.src.Append(msgs); err != nil {
			c.fail("C01:append-error", fmt.Sprintf("Append to twin log failed: %v", err))
			return
		}
		c.model = append(c.model, recs...)
	case "M":
		recs := make([]vfRec, op.N)
		msgs := make([]*Message, op.N)
		for i := range recs {
			recs[i] = c.gen.next()
			recs[i].Off = c.next() + int64(i)
			recs[i].Hdr = vfNormHdr(recs[i].Hdr)
			msgs[i] = recs[i].msg()
		}
		if _, err := c.src.Append(msgs); err != nil {
			c.fail("C01:append-error", fmt.Sprintf("Append to twin log failed: %v", err))
			return
		}
		from := c.next()
		for done := 0; done < op.N; {
			n := op.Chunk
			if n <= 0 || n > op.N-done {
				n = op.N - done
			}
			data, err := vfReplicaBytes(c.src, from+int64(done), n)
			if err != nil {
				c.fail("C01:twin-read", fmt.Sprintf("reading replication bytes from the twin log: %v", err))
				return
			}
			offs, err := c.log.AppendMessageSet(data)
			if err != nil {
				c.fail("C01:appendms-error", fmt.Sprintf("AppendMessageSet failed: %v", err))
				return
			}
			if len(offs) != n {
				c.fail("C01:appendms-offset", fmt.Sprintf("AppendMessageSet returned %d offsets for %d messages", len(offs), n))
				return
			}
			for i, o := range offs {
				if o != from+int64(done+i) {
					c.fail("C01:appendms-offset", fmt.Sprintf("AppendMessageSet returned %v, expected from %d", offs, from+int64(done)))
					return
				}
			}
			done += n
			c.msets++
		}
		c.model = append(c.model, recs...)
	case "T":
		if err := c.log.Truncate(op.Arg); err != nil {
			c.fail("C01:truncate-error", fmt.Sprintf("Truncate(%d) failed: %v", op.Arg, err))
			return
		}
		if err := c.src.Truncate(op.Arg); err != nil {
			c.fail("C01:truncate-error", fmt.Sprintf("Truncate(%d) of twin failed: %v", op.Arg, err))
			return
		}
		if op.Arg < c.next() {
			k := op.Arg
			if k < 0 {
				k = 0
			}
			c.model = c.model[:k]
			for o := range c.digests {
				if o >= k {
					delete(c.digests, o)
				}
			}
		}
		c.truncs++
		c.truncClasses[op.Class]++
		// A reader survives a truncation if it still has retained messages in
		// front of it (position < cut).  One that stands at or beyond the cut has
		// consumed everything retained and may hold a deleted segment; the server
		// never keeps such a reader (replicator readers are closed before a
		// replica truncates), so it is dropped here.
		keep := c.standing[:0]
		for _, st := range c.standing {
			if st.pos >= op.Arg {
				continue
			}
			st.sawTrunc = true
			keep = append(keep, st)
		}
		c.standing = keep
	case "R":
		c.standing = nil // the log object is replaced
		if err := c.log.Close(); err != nil {
			c.fail("C01:close-error", fmt.Sprintf("Close failed: %v", err))
			return
		}
		l, err := vfOpen(vfOpts(c.dir, c.maxSeg))
		if err != nil {
			c.fail("C01:reopen-error", fmt.Sprintf("reopening a cleanly closed log failed: %v", err))
			c.log = nil
			return
		}
		c.log = l
		if got := l.HighWatermark(); got != c.hw {
			c.fail("C01:reopen-hw", fmt.Sprintf("HW after clean reopen is %d, was %d", got, c.hw))
		}
		c.reopens++
	case "H":
		c.log.SetHighWatermark(op.Arg)
		if op.Arg > c.hw {
			c.hw = op.Arg
		}
	}
	if c.log != nil {
		if n := len(c.log.Segments()); n > segsBefore {
			c.rolls += n - segsBefore
		}
	}
}

// check compares everything readable with the model.
func (c *c01Run) check(rng *kit.RNG) {
	if c.failed || c.log == nil {
		return
	}
	n := c.next()
	wantNewest, wantOldest := n-1, int64(-1)
	if n > 0 {
		wantOldest = 0
	}
	if got := c.log.NewestOffset(); got != wantNewest {
		c.fail("C01:newest-offset", fmt.Sprintf("NewestOffset=%d, model says %d", got, wantNewest))
		return
	}
	if got := c.log.OldestOffset(); got != wantOldest {
		c.fail("C01:oldest-offset", fmt.Sprintf("OldestOffset=%d, model says %d", got, wantOldest))
		return
	}
	// Reader starts: all when small, sampled otherwise; always the edges.
	starts := []int64{}
	if n <= 48 {
		for s := int64(0); s <= n; s++ {
			starts = append(starts, s)
		}
	} else {
		starts = append(starts, 0, 1, n-1, n)
		for i := 0; i < 10; i++ {
			starts = append(starts, int64(rng.Intn(int(n))))
		}
		// segment boundaries
		for _, s := range c.log.Segments() {
			starts = append(starts, s.BaseOffset, s.BaseOffset-1)
		}
	}
	for _, s := range starts {
		if s < 0 {
			continue
		}
		for _, unc := range []bool{true, false} {
			c.readerStarts++
			recs, oerr, err := vfReadFrom(c.log, s, unc, int(n)+8)
			if err != nil {
				c.fail("C01:read-error", fmt.Sprintf("reader(start=%d uncommitted=%v): %v", s, unc, err))
				return
			}
			var want []vfRec
			if unc {
				if s < n {
					want = c.model[s:]
				}
				if oerr != nil && s < n {
					c.fail("C01:reader-open", fmt.Sprintf("NewReader(start=%d, uncommitted) on a log with offsets [0,%d] failed: %v", s, n-1, oerr))
					return
				}
			} else {
				// committed: retained messages in [s, hw]; a start above the HW waits for new data
				if s <= c.hw && s < n {
					hi := c.hw + 1
					if hi > n {
						hi = n
					}
					want = c.model[s:hi]
				}
				if oerr != nil {
					c.fail("C01:reader-open", fmt.Sprintf("NewReader(start=%d, committed) failed: %v (hw=%d newest=%d)", s, oerr, c.hw, n-1))
					return
				}
			}
			if len(recs) != len(want) {
				c.fail("C01:read-count", fmt.Sprintf("reader(start=%d uncommitted=%v hw=%d) returned %d messages (offsets %s), model has %d",
					s, unc, c.hw, len(recs), offsList(recs), len(want)))
				return
			}
			for i := range want {
				if !vfSameRec(recs[i], want[i]) {
					fp := "C01:read-content"
					if recs[i].Off != want[i].Off {
						fp = "C01:read-offset-order"
					}
					c.fail(fp, fmt.Sprintf("reader(start=%d uncommitted=%v) message #%d: got %v want %v", s, unc, i, recs[i], want[i]))
					return
				}
				d := recs[i].digest()
				if old, ok := c.digests[recs[i].Off]; ok && old != d {
					c.fail("C01:mutated", fmt.Sprintf("content at offset %d changed without an intervening truncation", recs[i].Off))
					return
				}
				c.digests[recs[i].Off] = d
			}
		}
	}
	// Raw files: concatenation over segments must be exactly the model.
	segs, err := vfScanDir(c.dir)
	if err != nil {
		c.fail("C01:raw-scan", fmt.Sprintf("raw segment scan: %v", err))
		return
	}
	var raw []vfRec
	for _, s := range segs {
		if s.Trailing != 0 {
			c.fail("C01:raw-trailing", fmt.Sprintf("segment %s has %d trailing bytes after the last whole message", s.File, s.Trailing))
			return
		}
		if len(s.Recs) > 0 && s.Recs[0].Off < s.Base {
			c.fail("C01:raw-base", fmt.Sprintf("segment %s holds offset %d below its base", s.File, s.Recs[0].Off))
			return
		}
		raw = append(raw, s.Recs...)
	}
	if len(raw) != len(c.model) {
		c.fail("C01:raw-count", fmt.Sprintf("segment files hold %d messages (%s), model has %d", len(raw), offsList(raw), len(c.model)))
		return
	}
	for i := range raw {
		if !vfSameRec(raw[i], c.model[i]) {
			c.fail("C01:raw-content", fmt.Sprintf("segment files message #%d: got %v want %v", i, raw[i], c.model[i]))
			return
		}
	}
}

func offsList(recs []vfRec) string {
	var sb strings.Builder
	for i, r := range recs {
		if i > 40 {
			sb.WriteString("...")
			break
		}
		fmt.Fprintf(&sb, "%d ", r.Off)
	}
	return sb.String()
}

var c01SegSizes = []int64{1, 29, 64, 200, 1024, 65536, 1 << 30}

// truncOffset picks a truncation offset by position class.
func (c *c01Run) truncOffset(rng *kit.RNG, class int) (int64, string) {
	n := c.next()
	lo := c.hw + 1 // the replication protocol never truncates committed data
	pick := func(v int64, name string) (int64, string) {
		if v < lo {
			return lo, "at-hw+1"
		}
		return v, name
	}
	switch class {
	case 0:
		return pick(n, "at-newest+1")
	case 1:
		return pick(n+int64(rng.Range(1, 3)), "beyond")
	case 2:
		return pick(n-1, "last")
	case 3:
		// a segment base offset
		segs := c.log.Segments()
		s := segs[rng.Intn(len(segs))]
		return pick(s.BaseOffset, "at-segment-base")
	case 4:
		return pick(0, "at-0")
	case 5:
		return pick(-1, "below-0")
	default:
		if n == 0 {
			return pick(0, "at-0")
		}
		return pick(int64(rng.Intn(int(n))), "mid")
	}
}

func (c *c01Run) finish(sig string) {
	c.rep.Eval()
	c.rep.Count("appends+msgsets_steps", int64(len(c.trace)))
	c.rep.Count("segment_rolls", int64(c.rolls))
	c.rep.Count("truncations", int64(c.truncs))
	c.rep.Count("reopens", int64(c.reopens))
	c.rep.Count("replicated_message_sets", int64(c.msets))
	c.rep.Count("reader_starts_checked", int64(c.readerStarts))
	c.rep.Count("standing_reader_reads", int64(c.standingReads))
	c.rep.Count("standing_reader_reads_after_living_through_a_truncation", int64(c.standingAcrossTrunc))
	for k, v := range c.truncClasses {
		c.rep.Count("truncate_"+k, int64(v))
	}
	if c.rolls > 0 && (c.truncs > 0 || c.reopens > 0) {
		c.rep.Nontrivial(sig)
	}
}

func newC01Run(rep *kit.Report, rng *kit.RNG, maxSeg int64) *c01Run {
	c := &c01Run{rep: rep, dir: vfTempDir("c01"), srcDir: vfTempDir("c01src"), maxSeg: maxSeg, hw: -1,
		gen: newVfGen(rng.Fork(7)), digests: map[int64]uint64{}, truncClasses: map[string]int{}}
	return c
}

func (c *c01Run) cleanup() {
	c.close()
	os.RemoveAll(c.dir)
	os.RemoveAll(c.srcDir)
}

// TestVerifC01Programs: seeded random operation programs.
func TestVerifC01Programs(t *testing.T) {
	rep := kit.NewReport("C01", "programs")
	defer rep.Write()
	rep.SetRule("seeded operation programs (Append batches 1..8, replicated AppendMessageSet in chunks, Truncate at 7 position classes, Close+New, SetHighWatermark) over 7 MaxSegmentBytes values; after every step NewestOffset/OldestOffset, full read-back from every start offset (all when <=48 messages) committed+uncommitted, up to 4 STANDING readers (opened once, advanced 0-3 messages after every later operation incl. truncations beyond their position and HW moves, drained at the end), digest stability and a raw parse of the .log files are compared with a reference model; non-trivial = program rolled a segment and truncated or reopened; distinct = program text + segment size")
	rep.Assume("truncation offsets are > HW, as in the replication protocol (a follower never truncates committed data)")
	root := kit.NewRNG(kit.Mix(kit.Seed(), 0xC01))
	nprog := kit.Scale(260, 2600)
	seeds := make([]uint64, nprog)
	for p := range seeds {
		seeds[p] = root.Uint64()
	}
	kit.Parallel(nprog, kit.Workers(), func(p int) {
		if rep.NumViolations() >= 8 {
			return
		}
		rng := kit.NewRNG(seeds[p])
		maxSeg := c01SegSizes[rng.Intn(len(c01SegSizes))]
		c := newC01Run(rep, rng, maxSeg)
		c.gen.Large = rng.Chance(1, 6)
		if err := c.open(); err != nil {
			rep.Violation("C01:open-error", err.Error(), nil)
			c.cleanup()
			return
		}
		nops := rng.Range(4, kit.Scale(28, 40))
		withHW := rng.Chance(1, 2)
		for i := 0; i < nops && !c.failed; i++ {
			var op c01Op
			switch x := rng.Intn(100); {
			case x < 38:
				op = c01Op{Kind: "A", N: rng.Range(1, 8)}
			case x < 62:
				n := rng.Range(1, 8)
				op = c01Op{Kind: "M", N: n, Chunk: rng.Range(1, n)}
			case x < 80:
				off, cl := c.truncOffset(rng, rng.Intn(7))
				op = c01Op{Kind: "T", Arg: off, Class: cl}
			case x < 90:
				op = c01Op{Kind: "R"}
			default:
				if !withHW || c.next() == 0 {
					op = c01Op{Kind: "A", N: 1}
				} else {
					op = c01Op{Kind: "H", Arg: int64(rng.Intn(int(c.next())))}
				}
			}
			c.step(op)
			c.check(rng)
			c.standingStep(rng)
		}
		c.standingDrain(rng)
		if p < 3 {
			rep.Sample(map[string]any{"maxSegmentBytes": maxSeg, "program": strings.Join(c.trace, " "), "final_messages": len(c.model)})
		}
		c.finish(fmt.Sprintf("%d|%s", maxSeg, strings.Join(c.trace, " ")))
		c.cleanup()
	})
}

// TestVerifC01Enum: all programs up to a length bound over a reduced alphabet.
func TestVerifC01Enum(t *testing.T) {
	rep := kit.NewReport("C01", "enum")
	defer rep.Write()
	maxLen := kit.Scale(3, 4)
	rep.SetRule(fmt.Sprintf("small-scope enumeration: ALL programs of length 1..%d over {A1,A3,M2/1,M3/3,T-last,T-mid,T-segment-base,T-newest+1,R} x MaxSegmentBytes in {64,150}, same per-step oracle as the seeded programs; non-trivial = rolled a segment and truncated or reopened", maxLen))
	rep.SetExhaustive(true)
	alphabet := []string{"A1", "A3", "M2", "M3", "Tl", "Tm", "Tb", "Tn", "R"}
	var progs [][]string
	var gen func(prefix []string)
	gen = func(prefix []string) {
		if len(prefix) > 0 {
			progs = append(progs, append([]string(nil), prefix...))
		}
		if len(prefix) == maxLen {
			return
		}
		for _, s := range alphabet {
			gen(append(prefix, s))
		}
	}
	gen(nil)
	base := kit.Mix(kit.Seed(), 0xC01E)
	kit.Parallel(len(progs)*2, kit.Workers(), func(idx int) {
		prog := progs[idx/2]
		maxSeg := []int64{64, 150}[idx%2]
		if rep.NumViolations() >= 8 {
			return
		}
		rng := kit.NewRNG(kit.Mix(base, uint64(idx)))
		c := newC01Run(rep, rng, maxSeg)
		c.standingEager = true
		defer c.cleanup()
		if err := c.open(); err != nil {
			rep.Violation("C01:open-error", err.Error(), nil)
			return
		}
		// a fixed prefix so truncations and reopen have something to act on
		c.step(c01Op{Kind: "A", N: 2})
		for _, sym := range prog {
			if c.failed {
				break
			}
			var op c01Op
			switch sym {
			case "A1":
				op = c01Op{Kind: "A", N: 1}
			case "A3":
				op = c01Op{Kind: "A", N: 3}
			case "M2":
				op = c01Op{Kind: "M", N: 2, Chunk: 1}
			case "M3":
				op = c01Op{Kind: "M", N: 3, Chunk: 3}
			case "Tl":
				off, cl := c.truncOffset(rng, 2)
				op = c01Op{Kind: "T", Arg: off, Class: cl}
			case "Tm":
				off := c.next() / 2
				op = c01Op{Kind: "T", Arg: off, Class: "mid"}
			case "Tb":
				segs := c.log.Segments()
				op = c01Op{Kind: "T", Arg: segs[len(segs)-1].BaseOffset, Class: "at-segment-base"}
			case "Tn":
				op = c01Op{Kind: "T", Arg: c.next(), Class: "at-newest+1"}
			case "R":
				op = c01Op{Kind: "R"}
			}
			c.step(op)
			c.check(rng)
			c.standingStep(rng)
		}
		c.standingDrain(rng)
		if len(prog) == maxLen && idx%977 == 0 {
			rep.Sample(map[string]any{"maxSegmentBytes": maxSeg, "program": strings.Join(c.trace, " ")})
		}
		c.finish(fmt.Sprintf("%d|%s", maxSeg, strings.Join(prog, " ")))
	})
	rep.SetInfo("programs_enumerated", len(progs)*2)
}

// c01Content is the deterministic content of offset o in the concurrent run.
func c01Content(seed uint64, o int64) vfRec {
	r := kit.NewRNG(kit.Mix(seed, uint64(o)))
	rec := vfRec{Off: o, TS: 1000 + o, Epoch: 1 + uint64(o/50)}
	switch r.Intn(4) {
	case 0:
		rec.Key = nil
	case 1:
		rec.Key = []byte{}
	default:
		rec.Key = r.Bytes(r.Range(1, 9))
	}
	rec.Val = r.Bytes(r.Range(0, 120))
	if r.Bool() {
		rec.Hdr = map[string][]byte{"o": []byte(fmt.Sprint(o))}
	}
	return rec
}

// TestVerifC01Concurrent: one appender, a background split ticker and several
// uncommitted readers started at arbitrary offsets while the log grows; run
// under the race detector.  No truncation here (truncation concurrent with
// readers is not something the server does).
func TestVerifC01Concurrent(t *testing.T) {
	rep := kit.NewReport("C01", "concurrent")
	defer rep.Write()
	rep.SetRule("concurrent runs under -race: 1 appender (batches 1..6), 1 goroutine calling checkAndPerformSplit, in every other run a goroutine calling Clean() in a loop with retention limits that never bind (half of the passes held open at hook clean.afterCleanSegments until the appender moved on, so segments are rolled inside a pass), R uncommitted readers created at arbitrary offsets while the log grows; content is f(seed, offset) so each reader verifies every message; non-trivial = run rolled >=2 segments and readers crossed a boundary; distinct = (segment size, total, reader starts)")
	root := kit.NewRNG(kit.Mix(kit.Seed(), 0xC01C))
	runs := kit.Scale(30, 200)
	for i := 0; i < runs && rep.NumViolations() < 4; i++ {
		rng := root.Fork(uint64(i))
		seed := rng.Uint64()
		maxSeg := []int64{64, 300, 1500, 9000}[rng.Intn(4)]
		total := int64(rng.Range(60, kit.Scale(400, 900)))
		dir := vfTempDir("c01c")
		// Every other run also has the log's cleaner at work: Clean() passes
		// with retention limits that never bind (nothing may be removed), half
		// of them held open between "segments cleaned" and "result installed"
		// until the appender has moved on, so that segments are rolled INSIDE a
		// pass and must be re-attached by it.
		fail := func(fp, what string) {
			rep.Violation(fp, what, map[string]any{"run": i, "maxSegmentBytes": maxSeg, "total": total, "content_seed": seed, "cleaner_passes_running": i%2 == 1})
		}
		withCleaner := i%2 == 1
		opts := vfOpts(dir, maxSeg)
		if withCleaner {
			opts.MaxLogMessages = 1 << 40
			opts.MaxLogBytes = 1 << 50
		}
		l, err := vfOpen(opts)
		if err != nil {
			rep.Violation("C01:open-error", err.Error(), nil)
			continue
		}
		var appended atomic.Int64
		var writerDone atomic.Bool
		stop := make(chan struct{})
		var wg sync.WaitGroup
		if withCleaner {
			var passes, widened atomic.Int64
			hr := kit.NewRNG(seed ^ 7)
			var hmu sync.Mutex
			verifhook.Set(func(name string, args ...interface{}) error {
				if name != "clean.afterCleanSegments" {
					return nil
				}
				passes.Add(1)
				hmu.Lock()
				widen := hr.Bool()
				hmu.Unlock()
				if !widen {
					return nil
				}
				// bounded wait (never part of a verdict): let the appender add
				// enough for at least two rolls of the small segments
				from := appended.Load()
				for k := 0; k < 400 && !writerDone.Load() && appended.Load() < from+12; k++ {
					time.Sleep(50 * time.Microsecond)
				}
				if appended.Load() >= from+12 {
					widened.Add(1)
				}
				return nil
			})
			wg.Add(1)
			go func() {
				defer wg.Done()
				defer func() {
					rep.Count("concurrent_cleaner_passes", passes.Load())
					rep.Count("concurrent_cleaner_passes_with_appends_inside", widened.Load())
				}()
				for {
					select {
					case <-stop:
						return
					default:
					}
					if err := l.Clean(); err != nil {
						fail("C01:clean-error", fmt.Sprintf("Clean() with limits that never bind failed: %v", err))
						return
					}
					time.Sleep(100 * time.Microsecond)
				}
			}()
		}
		// appender
		wg.Add(1)
		go func() {
			defer wg.Done()
			defer writerDone.Store(true)
			r := kit.NewRNG(seed ^ 1)
			for next := int64(0); next < total; {
				n := int64(r.Range(1, 6))
				if next+n > total {
					n = total - next
				}
				msgs := make([]*Message, n)
				for k := int64(0); k < n; k++ {
					msgs[k] = c01Content(seed, next+k).msg()
				}
				offs, err := l.Append(msgs)
				if err != nil {
					fail("C01:append-error", fmt.Sprintf("concurrent Append failed: %v", err))
					return
				}
				for k, o := range offs {
					if o != next+int64(k) {
						fail("C01:append-offset", fmt.Sprintf("concurrent Append returned %v expected from %d", offs, next))
						return
					}
				}
				next += n
				appended.Store(next)
				if r.Chance(1, 4) {
					time.Sleep(time.Duration(r.Intn(200)) * time.Microsecond)
				}
			}
		}()
		// split ticker (the cleaner loop does this in production)
		wg.Add(1)
		go func() {
			defer wg.Done()
			for {
				select {
				case <-stop:
					return
				default:
				}
				if _, err := l.checkAndPerformSplit(); err != nil {
					fail("C01:split-error", fmt.Sprintf("checkAndPerformSplit: %v", err))
					return
				}
				time.Sleep(50 * time.Microsecond)
			}
		}()
		// readers
		nread := rng.Range(2, 6)
		var crossed atomic.Int64
		starts := make([]int64, nread)
		var rwg sync.WaitGroup
		ctx, cancel := context.WithTimeout(context.Background(), 60*time.Second)
		for k := 0; k < nread; k++ {
			rr := rng.Fork(uint64(1000 + k))
			rwg.Add(1)
			go func(k int) {
				defer rwg.Done()
				// wait until something is there, then start somewhere inside
				for appended.Load() == 0 {
					select {
					case <-ctx.Done():
						return
					default:
						time.Sleep(20 * time.Microsecond)
					}
				}
				time.Sleep(time.Duration(rr.Intn(2000)) * time.Microsecond)
				start := int64(rr.Intn(int(appended.Load())))
				starts[k] = start
				r, err := l.NewReader(start, true)
				if err != nil {
					fail("C01:reader-open", fmt.Sprintf("NewReader(%d, uncommitted) while %d appended: %v", start, appended.Load(), err))
					return
				}
				hb := make([]byte, 28)
				exp := start
				for exp < total {
					m, off, ts, ep, err := r.ReadMessage(ctx, hb)
					if err != nil {
						if ctx.Err() != nil {
							rep.Inconc(fmt.Sprintf("run %d reader %d: watchdog while waiting for offset %d of %d", i, k, exp, total))
						} else {
							fail("C01:read-error", fmt.Sprintf("reader from %d failed at offset %d: %v", start, exp, err))
						}
						return
					}
					rec, derr := vfDecode(m, off, ts, ep)
					if derr != nil {
						fail("C01:read-content", fmt.Sprintf("reader from %d at offset %d: %v", start, off, derr))
						return
					}
					want := c01Content(seed, exp)
					want.Hdr = vfNormHdr(want.Hdr)
					if !vfSameRec(rec, want) {
						fp := "C01:read-content"
						if off != exp {
							fp = "C01:read-offset-order"
						}
						fail(fp, fmt.Sprintf("concurrent reader from %d: got %v want %v", start, rec, want))
						return
					}
					exp++
					rep.Count("concurrent_reads", 1)
				}
				crossed.Add(1)
			}(k)
		}
		wg.Add(0)
		rwg.Wait()
		close(stop)
		wg.Wait()
		cancel()
		verifhook.Set(nil)
		nseg := len(l.Segments())
		rep.Count("concurrent_segments", int64(nseg))
		rep.Eval()
		if nseg >= 3 && crossed.Load() > 0 {
			rep.Nontrivial(fmt.Sprintf("%d|%d|%v", maxSeg, total, starts))
		}
		if i < 2 {
			rep.Sample(map[string]any{"maxSegmentBytes": maxSeg, "messages": total, "reader_starts": starts, "segments": nseg})
		}
		l.Close()
		os.RemoveAll(dir)
	}
}

// ---------------------------------------------------------------- tail-following readers

type c01Tail struct {
	r      *Reader
	next   int64 // next offset the harness expects from this reader
	out    chan vfRec
	errc   chan error
	cancel context.CancelFunc
	id     int
	// committed: a committed reader; it owes deliveries only up to the HW
	committed bool
}

// parked reports whether the reader goroutine is blocked waiting for data at
// the end of the log (registered as a waiter of a segment).
func (c *c01Tail) parked(l *commitLog) bool {
	if c.committed {
		l.mu.RLock()
		_, ok := l.hwWaiters[c.r.ctxReader]
		l.mu.RUnlock()
		return ok
	}
	ur, ok := c.r.ctxReader.(*uncommittedReader)
	if !ok {
		return false
	}
	for _, s := range l.Segments() {
		s.RLock()
		_, ok := s.waiters[ur]
		s.RUnlock()
		if ok {
			return true
		}
	}
	return false
}

// TestVerifC01Tail: long-lived uncommitted readers that are PARKED at the end
// of the log while the log is appended to, rolled and truncated (what a
// follower-serving or tailing reader experiences).  After every append each
// parked reader must deliver exactly the new messages, in order.
func TestVerifC01Tail(t *testing.T) {
	rep := kit.NewReport("C01", "tail")
	defer rep.Write()
	rep.SetRule("seeded programs over {append batch 1..5, replicated message set, truncate (mid-segment / segment base / last / newest+1), explicit roll check} with 1-4 tail-following readers (uncommitted, and committed ones opened at any offset up to HW+1 — also while nothing is committed — that owe deliveries up to the HW; HW moved by one, a few, or to the log end in one step across several segment boundaries); before every append / HW move each reader is observed parked (segment waiter map resp. hwWaiters), after it each must deliver exactly the appended resp. newly committed messages in order (a wrong offset is a violation at once; a reader that delivers nothing within the watchdog is inconclusive); readers positioned beyond a truncation point are replaced; non-trivial = program truncated mid-segment and then rolled while a reader was parked, or moved the HW across >=2 segment boundaries in one step while a committed reader waited at HW+1; distinct = program text + segment size")
	root := kit.NewRNG(kit.Mix(kit.Seed(), 0xC017))
	nprog := kit.Scale(120, 1500)
	seeds := make([]uint64, nprog)
	for i := range seeds {
		seeds[i] = root.Uint64()
	}
	kit.Parallel(nprog, kit.Workers(), func(p int) {
		if rep.NumViolations() >= 6 {
			return
		}
		rng := kit.NewRNG(seeds[p])
		maxSeg := []int64{100, 250, 600}[rng.Intn(3)]
		c := newC01Run(rep, rng, maxSeg)
		defer c.cleanup()
		if err := c.open(); err != nil {
			rep.Violation("C01:open-error", err.Error(), nil)
			return
		}
		var tails []*c01Tail
		nextID := 0
		newTail := func(start int64, committed bool) {
			r, err := c.log.NewReader(start, !committed)
			if err != nil {
				if start < c.next() {
					c.fail("C01:reader-open", fmt.Sprintf("NewReader(%d, uncommitted=%v) failed: %v", start, !committed, err))
				}
				return
			}
			ctx, cancel := context.WithCancel(context.Background())
			tl := &c01Tail{r: r, next: start, out: make(chan vfRec, 64), errc: make(chan error, 1), cancel: cancel, id: nextID, committed: committed}
			nextID++
			go func() {
				hb := make([]byte, 28)
				for {
					m, off, ts, ep, err := r.ReadMessage(ctx, hb)
					if err != nil {
						tl.errc <- err
						return
					}
					rec, derr := vfDecode(m, off, ts, ep)
					if derr != nil {
						tl.errc <- derr
						return
					}
					// copy: the slices alias the read buffer
					rec.Key = append([]byte(nil), rec.Key...)
					if rec.Key != nil && len(rec.Key) == 0 {
						rec.Key = []byte{}
					}
					rec.Val = append([]byte(nil), rec.Val...)
					select {
					case tl.out <- rec:
					case <-ctx.Done():
						return
					}
				}
			}()
			tails = append(tails, tl)
		}
		// drain: each tail must deliver model[next:], in order
		drain := func(phase string) {
			for _, tl := range tails {
				limit := func() int64 {
					if tl.committed {
						return c.hw + 1
					}
					return c.next()
				}
				for tl.next < limit() && !c.failed {
					select {
					case rec := <-tl.out:
						want := c.model[tl.next]
						if rec.Off != want.Off {
							kind := "tail reader"
							if tl.committed {
								kind = "committed tail reader"
							}
							c.fail("C01:tail-reader-skipped-or-repeated", fmt.Sprintf("%s: %s #%d (parked at the log end / waiting for the HW before) delivered offset %d, expected %d", phase, kind, tl.id, rec.Off, want.Off))
							return
						}
						if !bytes.Equal(rec.Val, want.Val) || rec.TS != want.TS || rec.Epoch != want.Epoch {
							c.fail("C01:tail-reader-content", fmt.Sprintf("%s: tail reader #%d delivered %v, expected %v", phase, tl.id, rec, want))
							return
						}
						tl.next++
						rep.Count("tail_reads", 1)
					case err := <-tl.errc:
						c.fail("C01:tail-reader-error", fmt.Sprintf("%s: tail reader #%d failed at offset %d: %v", phase, tl.id, tl.next, err))
						return
					case <-time.After(10 * time.Second):
						rep.Inconc(fmt.Sprintf("program %d: tail reader #%d delivered nothing for offset %d within the watchdog (%s; program %s)", p, tl.id, tl.next, phase, strings.Join(c.trace, " ")))
						c.failed = true
						return
					}
				}
			}
		}
		waitParked := func() {
			for _, tl := range tails {
				ok := false
				for i := 0; i < 600; i++ {
					if tl.parked(c.log) {
						ok = true
						break
					}
					time.Sleep(50 * time.Microsecond)
				}
				if ok {
					rep.Count("tail_readers_observed_parked", 1)
				} else if tl.committed {
					rep.Count("committed_tail_readers_not_seen_parked", 1)
				} else {
					rep.Count("tail_readers_not_seen_parked", 1)
				}
			}
		}
		midTrunc, rolledAfter, hwJump := false, false, false
		nops := rng.Range(8, 26)
		c.step(c01Op{Kind: "A", N: 3})
		newTail(int64(rng.Intn(3)), false)
		if rng.Bool() {
			// a committed reader opened while nothing is committed yet
			newTail(0, true)
		}
		drain("initial")
		for i := 0; i < nops && !c.failed; i++ {
			switch x := rng.Intn(115); {
			case x >= 100:
				// move the HW (by one, by a few, or to the end in one step) while
				// committed tail readers wait for it
				if c.next()-1 <= c.hw {
					continue
				}
				waitParked()
				h := c.next() - 1
				if rng.Bool() {
					h = c.hw + 1 + int64(rng.Intn(int(c.next()-1-c.hw)))
				}
				crossed := 0
				for _, s := range c.log.Segments() {
					if s.BaseOffset > c.hw+1 && s.BaseOffset <= h {
						crossed++
					}
				}
				ncommitted := 0
				for _, tl := range tails {
					if tl.committed && tl.next == c.hw+1 {
						ncommitted++
					}
				}
				if crossed >= 2 && ncommitted > 0 {
					hwJump = true
					rep.Count("hw_jumps_over_2+_segment_boundaries_with_a_waiting_committed_reader", 1)
				}
				c.step(c01Op{Kind: "H", Arg: h})
				drain("after-hw-advance")
			case x < 45:
				waitParked()
				segs := len(c.log.Segments())
				c.step(c01Op{Kind: "A", N: rng.Range(1, 5)})
				if midTrunc && len(c.log.Segments()) > segs {
					rolledAfter = true
				}
				drain("after-append")
			case x < 60:
				waitParked()
				n := rng.Range(1, 5)
				segs := len(c.log.Segments())
				c.step(c01Op{Kind: "M", N: n, Chunk: rng.Range(1, n)})
				if midTrunc && len(c.log.Segments()) > segs {
					rolledAfter = true
				}
				drain("after-message-set")
			case x < 85:
				class := []int{2, 3, 6, 6, 6, 0}[rng.Intn(6)]
				off, cl := c.truncOffset(rng, class)
				// is the cut strictly inside a segment?
				for _, s := range c.log.Segments() {
					if off > s.BaseOffset && off <= s.LastOffset() {
						midTrunc = true
					}
				}
				c.step(c01Op{Kind: "T", Arg: off, Class: cl})
				// readers that were beyond the cut are replaced by fresh ones at the new end
				var keep []*c01Tail
				for _, tl := range tails {
					if tl.next > c.next() {
						tl.cancel()
						continue
					}
					keep = append(keep, tl)
				}
				replaced := len(tails) - len(keep)
				tails = keep
				for k := 0; k < replaced; k++ {
					if c.next() > 0 {
						newTail(c.next()-int64(rng.Intn(2)), false)
					}
				}
				drain("after-truncate")
			case x < 92:
				if len(tails) < 4 && c.next() > 0 {
					if rng.Bool() {
						newTail(int64(rng.Intn(int(c.next()))), false)
					} else {
						// committed: anywhere up to HW+1 (HW+1 = wait for the next commit)
						newTail(int64(rng.Intn(int(c.hw)+2)), true)
					}
					drain("new-reader")
				}
			default:
				if _, err := c.log.checkAndPerformSplit(); err != nil {
					c.fail("C01:split-error", err.Error())
				}
				c.trace = append(c.trace, "S")
			}
		}
		for _, tl := range tails {
			tl.cancel()
		}
		rep.Eval()
		if (midTrunc && rolledAfter) || hwJump {
			rep.Nontrivial(fmt.Sprintf("%d|%s", maxSeg, strings.Join(c.trace, " ")))
		}
		if p < 2 {
			rep.Sample(map[string]any{"maxSegmentBytes": maxSeg, "program": strings.Join(c.trace, " "), "tail_readers": nextID})
		}
	})
}
