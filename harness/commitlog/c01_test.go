//go:build verif

package commitlog

// C01 — the partition log is a gap-free, ordered, immutable record of what was
// appended.  Seeded and small-scope-enumerated operation programs are run
// against a real commitLog; after every step the whole readable content is
// compared with an independent reference model (a slice of records).

import (
	"bytes"
	"context"
	"fmt"
	"io"
	"os"
	"strings"
	"sync"
	"sync/atomic"
	"testing"
	"time"

	pkgErrors "github.com/pkg/errors"

	kit "github.com/liftbridge-io/liftbridge/internal/verifkit"
	"github.com/liftbridge-io/liftbridge/server/verifhook"
)

type c01Op struct {
	Kind  string // A append, M replicated message set, T truncate, R reopen, H set HW
	N     int    // batch size (A, M)
	Chunk int    // M: messages per AppendMessageSet call
	Arg   int64  // T: offset; H: hw
	Class string // T: position class
}

func (o c01Op) String() string {
	switch o.Kind {
	case "A":
		return fmt.Sprintf("A%d", o.N)
	case "M":
		return fmt.Sprintf("M%d/%d", o.N, o.Chunk)
	case "T":
		return fmt.Sprintf("T(%d:%s)", o.Arg, o.Class)
	case "H":
		return fmt.Sprintf("H(%d)", o.Arg)
	}
	return o.Kind
}

type c01Run struct {
	rep     *kit.Report
	dir     string
	srcDir  string
	maxSeg  int64
	log     *commitLog
	src     *commitLog // twin "leader" log: source of replicated message sets
	model   []vfRec
	hw      int64
	gen     *vfGen
	digests map[int64]uint64
	trace   []string
	failed  bool
	// coverage
	rolls, truncs, reopens, msets, readerStarts int
	truncClasses                                map[string]int
	// standing readers: opened once and advanced a few messages after every
	// later operation (rolls, replicated sets, truncations beyond their
	// position, HW moves), unlike the drain-from-every-start readers of check()
	standing              []*c01Standing
	standingReads         int
	standingAcrossTrunc   int
	standingAcrossSegDrop int
	standingEager         bool // enumeration: open readers at the first opportunity
	// readers that stood AT or BEYOND a truncation point and were kept (see step "T")
	standingKeptAtCut, standingKeptBeyondCut             int
	standingKeptAtCutActive, standingKeptBeyondCutActive int // ... the cut lay inside the active segment
	standingAfterCutReads                                int // verified deliveries by such readers after the log regrew
	standingAfterCutEnded                                map[string]int
	truncInsideActive                                    int
	// fpTag, when set, is appended to every violation fingerprint of this run
	// (the input class under test, used by the limits unit)
	fpTag string
}

type c01Standing struct {
	r         *Reader
	pos       int64 // next offset this reader must deliver
	committed bool
	start     int64
	sawTrunc  bool
	// greedy: catches up completely after every operation, so it always stands
	// at the log end (beyond every later truncation point), like the reader
	// that serves a caught-up follower
	greedy bool
	// afterCut: the reader stood at or beyond the offset of a truncation and
	// has not delivered anything since.  It may end with a hard error (its
	// segment was deleted / it cannot be re-positioned), but whatever it
	// DELIVERS must be exactly the model's message at pos.
	afterCut bool
	cutRel   string // "at" / "beyond" (evidence only)
	dead     bool
}

// standingStep advances every standing reader by a few messages and opens new
// ones now and then.
func (c *c01Run) standingStep(rng *kit.RNG) { c.standingAdvance(rng, false) }

// standingDrain lets every standing reader catch up completely (end of a program).
func (c *c01Run) standingDrain(rng *kit.RNG) { c.standingAdvance(rng, true) }

func (c *c01Run) standingAdvance(rng *kit.RNG, drain bool) {
	if c.failed || c.log == nil || rng == nil {
		return
	}
	n := c.next()
	if !drain && len(c.standing) < 4 && n > 0 && (rng.Chance(1, 3) || (c.standingEager && len(c.standing) < 2)) {
		st := &c01Standing{committed: rng.Chance(1, 3)}
		if c.standingEager && len(c.standing) == 0 {
			// enumeration: the first reader is an uncommitted one from offset 0
			// that always catches up (stands at the log end before every op)
			st.committed, st.greedy = false, true
		} else if !st.committed {
			st.greedy = rng.Chance(1, 4)
		}
		if st.committed {
			st.start = int64(rng.Intn(int(c.hw) + 2))
		} else if st.greedy {
			st.start = 0
			if n > 1 && rng.Bool() {
				st.start = int64(rng.Intn(int(n)))
			}
		} else {
			st.start = int64(rng.Intn(int(n) + 1))
		}
		st.pos = st.start
		r, err := c.log.NewReader(st.start, !st.committed)
		if err == nil {
			st.r = r
			c.standing = append(c.standing, st)
		} else if st.start < n {
			c.fail("C01:reader-open", fmt.Sprintf("NewReader(start=%d, uncommitted=%v) failed: %v (hw=%d newest=%d)", st.start, !st.committed, err, c.hw, n-1))
			return
		}
	}
	hb := make([]byte, 28)
	for _, st := range c.standing {
		limit := n
		if st.committed && c.hw+1 < limit {
			limit = c.hw + 1
		}
		k := rng.Intn(4)
		if drain || st.greedy || rng.Chance(1, 8) {
			k = int(n) // catch up completely now and then
		}
		for i := 0; i < k && st.pos < limit; i++ {
			var (
				m        SerializedMessage
				off      int64
				ts       int64
				ep       uint64
				err      error
				panicked bool
			)
			func() {
				defer func() {
					if p := recover(); p != nil {
						err = fmt.Errorf("panic: %v", p)
						panicked = true
					}
				}()
				m, off, ts, ep, err = st.r.ReadMessage(vfCancelled, hb)
			}()
			what := fmt.Sprintf("standing reader (opened at %d, uncommitted=%v, had delivered up to %d, lived through a truncation: %v)", st.start, !st.committed, st.pos-1, st.sawTrunc)
			if st.afterCut {
				what = fmt.Sprintf("standing reader (opened at %d, uncommitted=%v, had delivered up to %d) that stood %s the offset of a truncation, read again after the log regrew to [0,%d]", st.start, !st.committed, st.pos-1, st.cutRel, n-1)
			}
			if err != nil && st.afterCut {
				// A reader at or beyond the cut has consumed every message
				// that was retained; the truncation may have deleted the
				// segment it holds, which legitimately ends it.  Two outcomes
				// are never legitimate: a panic (the reader hit bytes that are
				// not a message), and "nothing to read here" (io.EOF from the
				// cancelled context = the reader would WAIT) although the log
				// holds a message at the reader's next offset.
				if panicked {
					c.fail("C01:standing-reader-after-cut", fmt.Sprintf("%s panicked at offset %d: %v", what, st.pos, err))
					return
				}
				cause := pkgErrors.Cause(err)
				if !st.committed && cause == io.EOF {
					c.fail("C01:standing-reader-after-cut", fmt.Sprintf("%s neither failed nor delivered offset %d: it reports no data (would wait) although the log holds [0,%d]: %v", what, st.pos, n-1, err))
					return
				}
				st.dead = true
				c.standingAfterCutEnded[fmt.Sprint(cause)]++
				break
			}
			if err != nil {
				c.fail("C01:standing-reader-error", fmt.Sprintf("%s failed at offset %d although the log holds [0,%d] (hw=%d): %v", what, st.pos, n-1, c.hw, err))
				return
			}
			rec, derr := vfDecode(m, off, ts, ep)
			if derr != nil {
				fp := "C01:standing-reader-error"
				if st.afterCut {
					fp = "C01:standing-reader-after-cut"
				}
				c.fail(fp, fmt.Sprintf("%s offset %d: %v", what, off, derr))
				return
			}
			if !vfSameRec(rec, c.model[st.pos]) {
				fp := "C01:standing-reader-content"
				if rec.Off != st.pos {
					fp = "C01:standing-reader-offset"
				}
				if st.afterCut {
					// one history shape, one fingerprint (the symptom is in the text)
					fp = "C01:standing-reader-after-cut"
				}
				c.fail(fp, fmt.Sprintf("%s delivered %v, expected %v", what, rec, c.model[st.pos]))
				return
			}
			st.pos++
			c.standingReads++
			if st.sawTrunc {
				c.standingAcrossTrunc++
			}
			if st.afterCut {
				// re-established on a live segment: an ordinary reader again
				st.afterCut = false
				c.standingAfterCutReads++
			}
		}
	}
	keep := c.standing[:0]
	for _, st := range c.standing {
		if !st.dead {
			keep = append(keep, st)
		}
	}
	c.standing = keep
}

func (c *c01Run) next() int64 { return int64(len(c.model)) }

func (c *c01Run) fail(fp, what string) {
	c.failed = true
	if c.fpTag != "" && !strings.HasPrefix(fp, "C01:standing-reader") {
		// the input class under test; what a standing reader sees does not
		// depend on it (check() reads every message back first)
		fp += ":" + c.fpTag
	}
	c.rep.Violation(fp, what, map[string]any{"maxSegmentBytes": c.maxSeg, "program": strings.Join(c.trace, " ")})
}

func (c *c01Run) open() error {
	l, err := vfOpen(vfOpts(c.dir, c.maxSeg))
	if err != nil {
		return err
	}
	c.log = l
	s, err := vfOpen(vfOpts(c.srcDir, 1<<20))
	if err != nil {
		return err
	}
	c.src = s
	return nil
}

func (c *c01Run) close() {
	if c.log != nil {
		c.log.Close()
	}
	if c.src != nil {
		c.src.Close()
	}
}

// step executes one operation on the real log and on the model.
func (c *c01Run) step(op c01Op) {
	c.trace = append(c.trace, op.String())
	segsBefore := len(c.log.Segments())
	switch op.Kind {
	case "A":
		recs := make([]vfRec, op.N)
		msgs := make([]*Message, op.N)
		for i := range recs {
			recs[i] = c.gen.next()
			recs[i].Off = c.next() + int64(i)
			recs[i].Hdr = vfNormHdr(recs[i].Hdr)
			msgs[i] = recs[i].msg()
		}
		offs, err := c.log.Append(msgs)
		if err != nil {
			c.fail("C01:append-error", fmt.Sprintf("Append of %d messages failed: %v", op.N, err))
			return
		}
		for i, o := range offs {
			if o != recs[i].Off {
				c.fail("C01:append-offset", fmt.Sprintf("Append returned offsets %v, expected to start at %d", offs, recs[0].Off))
				return
			}
		}
		if len(offs) != op.N {
			c.fail("C01:append-offset", fmt.Sprintf("Append returned %d offsets for %d messages", len(offs), op.N))
			return
		}
		if _, err := c.src.Append(msgs); err != nil {
			c.fail("C01:append-error", fmt.Sprintf("Append to twin log failed: %v", err))
			return
		}
		c.model = append(c.model, recs...)
	case "M":
		recs := make([]vfRec, op.N)
		msgs := make([]*Message, op.N)
		for i := range recs {
			recs[i] = c.gen.next()
			recs[i].Off = c.next() + int64(i)
			recs[i].Hdr = vfNormHdr(recs[i].Hdr)
			msgs[i] = recs[i].msg()
		}
		if _, err := c.src.Append(msgs); err != nil {
			c.fail("C01:append-error", fmt.Sprintf("Append to twin log failed: %v", err))
			return
		}
		from := c.next()
		for done := 0; done < op.N; {
			n := op.Chunk
			if n <= 0 || n > op.N-done {
				n = op.N - done
			}
			data, err := vfReplicaBytes(c.src, from+int64(done), n)
			if err != nil {
				c.fail("C01:twin-read", fmt.Sprintf("reading replication bytes from the twin log: %v", err))
				return
			}
			offs, err := c.log.AppendMessageSet(data)
			if err != nil {
				c.fail("C01:appendms-error", fmt.Sprintf("AppendMessageSet failed: %v", err))
				return
			}
			if len(offs) != n {
				c.fail("C01:appendms-offset", fmt.Sprintf("AppendMessageSet returned %d offsets for %d messages", len(offs), n))
				return
			}
			for i, o := range offs {
				if o != from+int64(done+i) {
					c.fail("C01:appendms-offset", fmt.Sprintf("AppendMessageSet returned %v, expected from %d", offs, from+int64(done)))
					return
				}
			}
			done += n
			c.msets++
		}
		c.model = append(c.model, recs...)
	case "T":
		// does the cut fall inside the active (last) segment, so that this
		// segment is rewritten and no segment is deleted?
		cutInActive := false
		if segs := c.log.Segments(); len(segs) > 0 && op.Arg < c.next() {
			last := segs[len(segs)-1]
			cutInActive = op.Arg > last.BaseOffset || (op.Arg == last.BaseOffset && len(segs) == 1)
		}
		if cutInActive {
			c.truncInsideActive++
		}
		if err := c.log.Truncate(op.Arg); err != nil {
			c.fail("C01:truncate-error", fmt.Sprintf("Truncate(%d) failed: %v", op.Arg, err))
			return
		}
		if err := c.src.Truncate(op.Arg); err != nil {
			c.fail("C01:truncate-error", fmt.Sprintf("Truncate(%d) of twin failed: %v", op.Arg, err))
			return
		}
		if op.Arg < c.next() {
			k := op.Arg
			if k < 0 {
				k = 0
			}
			c.model = c.model[:k]
			for o := range c.digests {
				if o >= k {
					delete(c.digests, o)
				}
			}
		}
		c.truncs++
		c.truncClasses[op.Class]++
		// A reader that still has retained messages in front of it (position <
		// cut) must survive the truncation unconditionally.  One that stands AT
		// or BEYOND the cut has consumed everything retained and may hold a
		// deleted segment (the server closes replicator readers before a replica
		// truncates): it is kept too, but judged leniently from here on — it may
		// end with a hard error at its next read; what it DELIVERS once the log
		// has regrown past it must be the model's message at its position (see
		// standingAdvance).
		for _, st := range c.standing {
			st.sawTrunc = true
			if st.pos < op.Arg {
				continue
			}
			st.afterCut = true
			st.cutRel = "beyond"
			if st.pos == op.Arg {
				st.cutRel = "at"
			}
			switch {
			case st.pos == op.Arg && cutInActive:
				c.standingKeptAtCutActive++
			case st.pos == op.Arg:
				c.standingKeptAtCut++
			case cutInActive:
				c.standingKeptBeyondCutActive++
			default:
				c.standingKeptBeyondCut++
			}
		}
	case "R":
		c.standing = nil // the log object is replaced
		if err := c.log.Close(); err != nil {
			c.fail("C01:close-error", fmt.Sprintf("Close failed: %v", err))
			return
		}
		l, err := vfOpen(vfOpts(c.dir, c.maxSeg))
		if err != nil {
			c.fail("C01:reopen-error", fmt.Sprintf("reopening a cleanly closed log failed: %v", err))
			c.log = nil
			return
		}
		c.log = l
		if got := l.HighWatermark(); got != c.hw {
			c.fail("C01:reopen-hw", fmt.Sprintf("HW after clean reopen is %d, was %d", got, c.hw))
		}
		c.reopens++
	case "H":
		c.log.SetHighWatermark(op.Arg)
		if op.Arg > c.hw {
			c.hw = op.Arg
		}
	}
	if c.log != nil {
		if n := len(c.log.Segments()); n > segsBefore {
			c.rolls += n - segsBefore
		}
	}
}

// check compares everything readable with the model.
func (c *c01Run) check(rng *kit.RNG) {
	if c.failed || c.log == nil {
		return
	}
	n := c.next()
	wantNewest, wantOldest := n-1, int64(-1)
	if n > 0 {
		wantOldest = 0
	}
	if got := c.log.NewestOffset(); got != wantNewest {
		c.fail("C01:newest-offset", fmt.Sprintf("NewestOffset=%d, model says %d", got, wantNewest))
		return
	}
	if got := c.log.OldestOffset(); got != wantOldest {
		c.fail("C01:oldest-offset", fmt.Sprintf("OldestOffset=%d, model says %d", got, wantOldest))
		return
	}
	// Reader starts: all when small, sampled otherwise; always the edges.
	starts := []int64{}
	if n <= 48 {
		for s := int64(0); s <= n; s++ {
			starts = append(starts, s)
		}
	} else {
		starts = append(starts, 0, 1, n-1, n)
		for i := 0; i < 10; i++ {
			starts = append(starts, int64(rng.Intn(int(n))))
		}
		// segment boundaries
		for _, s := range c.log.Segments() {
			starts = append(starts, s.BaseOffset, s.BaseOffset-1)
		}
	}
	for _, s := range starts {
		if s < 0 {
			continue
		}
		for _, unc := range []bool{true, false} {
			c.readerStarts++
			recs, oerr, err := vfReadFrom(c.log, s, unc, int(n)+8)
			if err != nil {
				c.fail("C01:read-error", fmt.Sprintf("reader(start=%d uncommitted=%v): %v", s, unc, err))
				return
			}
			var want []vfRec
			if unc {
				if s < n {
					want = c.model[s:]
				}
				if oerr != nil && s < n {
					c.fail("C01:reader-open", fmt.Sprintf("NewReader(start=%d, uncommitted) on a log with offsets [0,%d] failed: %v", s, n-1, oerr))
					return
				}
			} else {
				// committed: retained messages in [s, hw]; a start above the HW waits for new data
				if s <= c.hw && s < n {
					hi := c.hw + 1
					if hi > n {
						hi = n
					}
					want = c.model[s:hi]
				}
				if oerr != nil {
					c.fail("C01:reader-open", fmt.Sprintf("NewReader(start=%d, committed) failed: %v (hw=%d newest=%d)", s, oerr, c.hw, n-1))
					return
				}
			}
			if len(recs) != len(want) {
				c.fail("C01:read-count", fmt.Sprintf("reader(start=%d uncommitted=%v hw=%d) returned %d messages (offsets %s), model has %d",
					s, unc, c.hw, len(recs), offsList(recs), len(want)))
				return
			}
			for i := range want {
				if !vfSameRec(recs[i], want[i]) {
					fp := "C01:read-content"
					if recs[i].Off != want[i].Off {
						fp = "C01:read-offset-order"
					}
					c.fail(fp, fmt.Sprintf("reader(start=%d uncommitted=%v) message #%d: got %v want %v", s, unc, i, recs[i], want[i]))
					return
				}
				d := recs[i].digest()
				if old, ok := c.digests[recs[i].Off]; ok && old != d {
					c.fail("C01:mutated", fmt.Sprintf("content at offset %d changed without an intervening truncation", recs[i].Off))
					return
				}
				c.digests[recs[i].Off] = d
			}
		}
	}
	// Raw files: concatenation over segments must be exactly the model.
	segs, err := vfScanDir(c.dir)
	if err != nil {
		c.fail("C01:raw-scan", fmt.Sprintf("raw segment scan: %v", err))
		return
	}
	var raw []vfRec
	for _, s := range segs {
		if s.Trailing != 0 {
			c.fail("C01:raw-trailing", fmt.Sprintf("segment %s has %d trailing bytes after the last whole message", s.File, s.Trailing))
			return
		}
		if len(s.Recs) > 0 && s.Recs[0].Off < s.Base {
			c.fail("C01:raw-base", fmt.Sprintf("segment %s holds offset %d below its base", s.File, s.Recs[0].Off))
			return
		}
		raw = append(raw, s.Recs...)
	}
	if len(raw) != len(c.model) {
		c.fail("C01:raw-count", fmt.Sprintf("segment files hold %d messages (%s), model has %d", len(raw), offsList(raw), len(c.model)))
		return
	}
	for i := range raw {
		if !vfSameRec(raw[i], c.model[i]) {
			c.fail("C01:raw-content", fmt.Sprintf("segment files message #%d: got %v want %v", i, raw[i], c.model[i]))
			return
		}
	}
}

func offsList(recs []vfRec) string {
	var sb strings.Builder
	for i, r := range recs {
		if i > 40 {
			sb.WriteString("...")
			break
		}
		fmt.Fprintf(&sb, "%d ", r.Off)
	}
	return sb.String()
}

var c01SegSizes = []int64{1, 29, 64, 200, 1024, 65536, 1 << 30}

// truncOffset picks a truncation offset by position class.
func (c *c01Run) truncOffset(rng *kit.RNG, class int) (int64, string) {
	n := c.next()
	lo := c.hw + 1 // the replication protocol never truncates committed data
	pick := func(v int64, name string) (int64, string) {
		if v < lo {
			return lo, "at-hw+1"
		}
		return v, name
	}
	switch class {
	case 0:
		return pick(n, "at-newest+1")
	case 1:
		return pick(n+int64(rng.Range(1, 3)), "beyond")
	case 2:
		return pick(n-1, "last")
	case 3:
		// a segment base offset
		segs := c.log.Segments()
		s := segs[rng.Intn(len(segs))]
		return pick(s.BaseOffset, "at-segment-base")
	case 4:
		return pick(0, "at-0")
	case 5:
		return pick(-1, "below-0")
	case 7, 8:
		// relative to a standing reader: the reader ends up before / exactly at
		// / beyond the cut
		var cands []*c01Standing
		for _, st := range c.standing {
			if !st.committed {
				cands = append(cands, st)
			}
		}
		if len(cands) == 0 {
			if n == 0 {
				return pick(0, "at-0")
			}
			return pick(int64(rng.Intn(int(n))), "mid")
		}
		st := cands[rng.Intn(len(cands))]
		switch rng.Intn(4) {
		case 0:
			return pick(st.pos+1, "reader-before-cut")
		case 1:
			return pick(st.pos, "reader-at-cut")
		default:
			v := st.pos - int64(rng.Range(1, 3))
			if v < 0 {
				v = 0
			}
			return pick(v, "reader-beyond-cut")
		}
	case 9:
		// strictly inside the active segment (the segment is rewritten, none is deleted)
		segs := c.log.Segments()
		last := segs[len(segs)-1]
		if cnt := n - last.BaseOffset; cnt >= 2 {
			return pick(last.BaseOffset+1+int64(rng.Intn(int(cnt-1))), "inside-active-segment")
		}
		if n == 0 {
			return pick(0, "at-0")
		}
		return pick(int64(rng.Intn(int(n))), "mid")
	default:
		if n == 0 {
			return pick(0, "at-0")
		}
		return pick(int64(rng.Intn(int(n))), "mid")
	}
}

func (c *c01Run) finish(sig string) {
	c.rep.Eval()
	c.rep.Count("appends+msgsets_steps", int64(len(c.trace)))
	c.rep.Count("segment_rolls", int64(c.rolls))
	c.rep.Count("truncations", int64(c.truncs))
	c.rep.Count("reopens", int64(c.reopens))
	c.rep.Count("replicated_message_sets", int64(c.msets))
	c.rep.Count("reader_starts_checked", int64(c.readerStarts))
	c.rep.Count("standing_reader_reads", int64(c.standingReads))
	c.rep.Count("standing_reader_reads_after_living_through_a_truncation", int64(c.standingAcrossTrunc))
	c.rep.Count("truncations_cut_inside_active_segment", int64(c.truncInsideActive))
	c.rep.Count("standing_readers_kept_at_cut", int64(c.standingKeptAtCut))
	c.rep.Count("standing_readers_kept_at_cut_in_active_segment", int64(c.standingKeptAtCutActive))
	c.rep.Count("standing_readers_kept_beyond_cut", int64(c.standingKeptBeyondCut))
	c.rep.Count("standing_readers_kept_beyond_cut_in_active_segment", int64(c.standingKeptBeyondCutActive))
	c.rep.Count("standing_reader_after_cut_verified_deliveries_after_regrow", int64(c.standingAfterCutReads))
	for k, v := range c.standingAfterCutEnded {
		c.rep.Count("standing_reader_after_cut_ended_with:"+k, int64(v))
	}
	for k, v := range c.truncClasses {
		c.rep.Count("truncate_"+k, int64(v))
	}
	if c.rolls > 0 && (c.truncs > 0 || c.reopens > 0) {
		c.rep.Nontrivial(sig)
	}
}

func newC01Run(rep *kit.Report, rng *kit.RNG, maxSeg int64) *c01Run {
	c := &c01Run{rep: rep, dir: vfTempDir("c01"), srcDir: vfTempDir("c01src"), maxSeg: maxSeg, hw: -1,
		gen: newVfGen(rng.Fork(7)), digests: map[int64]uint64{}, truncClasses: map[string]int{}, standingAfterCutEnded: map[string]int{}}
	return c
}

func (c *c01Run) cleanup() {
	c.close()
	os.RemoveAll(c.dir)
	os.RemoveAll(c.srcDir)
}

// TestVerifC01Programs: seeded random operation programs.
func TestVerifC01Programs(t *testing.T) {
	rep := kit.NewReport("C01", "programs")
	defer rep.Write()
	rep.SetRule("seeded operation programs (Append batches 1..8, replicated AppendMessageSet in chunks, Truncate at 10 position classes, Close+New, SetHighWatermark) over 7 MaxSegmentBytes values; after every step NewestOffset/OldestOffset, full read-back from every start offset (all when <=48 messages) committed+uncommitted, up to 4 STANDING readers (opened once, advanced 0-3 messages after every later operation — a quarter of the uncommitted ones always catch up completely, so they stand at the log end —, drained at the end; a reader with retained messages in front of it must survive every truncation; one that stood AT or BEYOND the offset of a truncation is kept and read again once the log has regrown past it with new messages of other sizes: it may end with a hard error (segment deleted), but a panic, a no-data (would wait) answer while the log holds its next offset, or any delivered message other than the model's message at exactly its next offset is a violation), truncation classes include cuts relative to a standing reader (before / at / beyond it) and cuts strictly inside the active segment, digest stability and a raw parse of the .log files are compared with a reference model; non-trivial = program rolled a segment and truncated or reopened; distinct = program text + segment size")
	rep.Assume("truncation offsets are > HW, as in the replication protocol (a follower never truncates committed data)")
	root := kit.NewRNG(kit.Mix(kit.Seed(), 0xC01))
	nprog := kit.Scale(260, 2600)
	seeds := make([]uint64, nprog)
	for p := range seeds {
		seeds[p] = root.Uint64()
	}
	kit.Parallel(nprog, kit.Workers(), func(p int) {
		if rep.NumViolations() >= 8 {
			return
		}
		rng := kit.NewRNG(seeds[p])
		maxSeg := c01SegSizes[rng.Intn(len(c01SegSizes))]
		c := newC01Run(rep, rng, maxSeg)
		c.gen.Large = rng.Chance(1, 6)
		if err := c.open(); err != nil {
			rep.Violation("C01:open-error", err.Error(), nil)
			c.cleanup()
			return
		}
		nops := rng.Range(4, kit.Scale(28, 40))
		withHW := rng.Chance(1, 2)
		for i := 0; i < nops && !c.failed; i++ {
			var op c01Op
			switch x := rng.Intn(100); {
			case x < 38:
				op = c01Op{Kind: "A", N: rng.Range(1, 8)}
			case x < 62:
				n := rng.Range(1, 8)
				op = c01Op{Kind: "M", N: n, Chunk: rng.Range(1, n)}
			case x < 80:
				off, cl := c.truncOffset(rng, rng.Intn(7))
				op = c01Op{Kind: "T", Arg: off, Class: cl}
			case x < 90:
				op = c01Op{Kind: "R"}
			default:
				if !withHW || c.next() == 0 {
					op = c01Op{Kind: "A", N: 1}
				} else {
					op = c01Op{Kind: "H", Arg: int64(rng.Intn(int(c.next())))}
				}
			}
			c.step(op)
			c.check(rng)
			c.standingStep(rng)
		}
		c.standingDrain(rng)
		if p < 3 {
			rep.Sample(map[string]any{"maxSegmentBytes": maxSeg, "program": strings.Join(c.trace, " "), "final_messages": len(c.model)})
		}
		c.finish(fmt.Sprintf("%d|%s", maxSeg, strings.Join(c.trace, " ")))
		c.cleanup()
	})
}

// TestVerifC01Enum: all programs up to a length bound over a reduced alphabet.
func TestVerifC01Enum(t *testing.T) {
	rep := kit.NewReport("C01", "enum")
	defer rep.Write()
	maxLen := kit.Scale(3, 4)
	rep.SetRule(fmt.Sprintf("small-scope enumeration: ALL programs of length 1..%d over {A1,A3,M2/1,M3/3,T-last,T-mid,T-segment-base,T-newest+1,R} x MaxSegmentBytes in {64,150}, same per-step oracle as the seeded programs incl. standing readers (the first one opened always catches up completely, so every truncation finds a reader beyond the cut; readers at or beyond a cut are kept and judged after the log regrew); non-trivial = rolled a segment and truncated or reopened", maxLen))
	rep.SetExhaustive(true)
	alphabet := []string{"A1", "A3", "M2", "M3", "Tl", "Tm", "Tb", "Tn", "R"}
	var progs [][]string
	var gen func(prefix []string)
	gen = func(prefix []string) {
		if len(prefix) > 0 {
			progs = append(progs, append([]string(nil), prefix...))
		}
		if len(prefix) == maxLen {
			return
		}
		for _, s := range alphabet {
			gen(append(prefix, s))
		}
	}
	gen(nil)
	base := kit.Mix(kit.Seed(), 0xC01E)
	kit.Parallel(len(progs)*2, kit.Workers(), func(idx int) {
		prog := progs[idx/2]
		maxSeg := []int64{64, 150}[idx%2]
		if rep.NumViolations() >= 8 {
			return
		}
		rng := kit.NewRNG(kit.Mix(base, uint64(idx)))
		c := newC01Run(rep, rng, maxSeg)
		c.standingEager = true
		defer c.cleanup()
		if err := c.open(); err != nil {
			rep.Violation("C01:open-error", err.Error(), nil)
			return
		}
		// a fixed prefix so truncations and reopen have something to act on
		c.step(c01Op{Kind: "A", N: 2})
		for _, sym := range prog {
			if c.failed {
				break
			}
			var op c01Op
			switch sym {
			case "A1":
				op = c01Op{Kind: "A", N: 1}
			case "A3":
				op = c01Op{Kind: "A", N: 3}
			case "M2":
				op = c01Op{Kind: "M", N: 2, Chunk: 1}
			case "M3":
				op = c01Op{Kind: "M", N: 3, Chunk: 3}
			case "Tl":
				off, cl := c.truncOffset(rng, 2)
				op = c01Op{Kind: "T", Arg: off, Class: cl}
			case "Tm":
				off := c.next() / 2
				op = c01Op{Kind: "T", Arg: off, Class: "mid"}
			case "Tb":
				segs := c.log.Segments()
				op = c01Op{Kind: "T", Arg: segs[len(segs)-1].BaseOffset, Class: "at-segment-base"}
			case "Tn":
				op = c01Op{Kind: "T", Arg: c.next(), Class: "at-newest+1"}
			case "R":
				op = c01Op{Kind: "R"}
			}
			c.step(op)
			c.check(rng)
			c.standingStep(rng)
		}
		c.standingDrain(rng)
		if len(prog) == maxLen && idx%977 == 0 {
			rep.Sample(map[string]any{"maxSegmentBytes": maxSeg, "program": strings.Join(c.trace, " ")})
		}
		c.finish(fmt.Sprintf("%d|%s", maxSeg, strings.Join(prog, " ")))
	})
	rep.SetInfo("programs_enumerated", len(progs)*2)
}

// c01Content is the deterministic content of offset o in the concurrent run.
func c01Content(seed uint64, o int64) vfRec {
	r := kit.NewRNG(kit.Mix(seed, uint64(o)))
	rec := vfRec{Off: o, TS: 1000 + o, Epoch: 1 + uint64(o/50)}
	switch r.Intn(4) {
	case 0:
		rec.Key = nil
	case 1:
		rec.Key = []byte{}
	default:
		rec.Key = r.Bytes(r.Range(1, 9))
	}
	rec.Val = r.Bytes(r.Range(0, 120))
	if r.Bool() {
		rec.Hdr = map[string][]byte{"o": []byte(fmt.Sprint(o))}
	}
	return rec
}

// TestVerifC01Concurrent: one appender, a background split ticker and several
// uncommitted readers started at arbitrary offsets while the log grows; run
// under the race detector.  No truncation here (truncation concurrent with
// readers is not something the server does).
func TestVerifC01Concurrent(t *testing.T) {
	rep := kit.NewReport("C01", "concurrent")
	defer rep.Write()
	rep.SetRule("concurrent runs under -race: 1 appender (batches 1..6), 1 goroutine calling checkAndPerformSplit, in every other run a goroutine calling Clean() in a loop with retention limits that never bind (half of the passes held open at hook clean.afterCleanSegments until the appender moved on, so segments are rolled inside a pass), R uncommitted readers created at arbitrary offsets while the log grows; content is f(seed, offset) so each reader verifies every message; non-trivial = run rolled >=2 segments and readers crossed a boundary; distinct = (segment size, total, reader starts)")
	root := kit.NewRNG(kit.Mix(kit.Seed(), 0xC01C))
	runs := kit.Scale(30, 200)
	for i := 0; i < runs && rep.NumViolations() < 4; i++ {
		rng := root.Fork(uint64(i))
		seed := rng.Uint64()
		maxSeg := []int64{64, 300, 1500, 9000}[rng.Intn(4)]
		total := int64(rng.Range(60, kit.Scale(400, 900)))
		dir := vfTempDir("c01c")
		// Every other run also has the log's cleaner at work: Clean() passes
		// with retention limits that never bind (nothing may be removed), half
		// of them held open between "segments cleaned" and "result installed"
		// until the appender has moved on, so that segments are rolled INSIDE a
		// pass and must be re-attached by it.
		fail := func(fp, what string) {
			rep.Violation(fp, what, map[string]any{"run": i, "maxSegmentBytes": maxSeg, "total": total, "content_seed": seed, "cleaner_passes_running": i%2 == 1})
		}
		withCleaner := i%2 == 1
		opts := vfOpts(dir, maxSeg)
		if withCleaner {
			opts.MaxLogMessages = 1 << 40
			opts.MaxLogBytes = 1 << 50
		}
		l, err := vfOpen(opts)
		if err != nil {
			rep.Violation("C01:open-error", err.Error(), nil)
			continue
		}
		var appended atomic.Int64
		var writerDone atomic.Bool
		stop := make(chan struct{})
		var wg sync.WaitGroup
		if withCleaner {
			var passes, widened atomic.Int64
			hr := kit.NewRNG(seed ^ 7)
			var hmu sync.Mutex
			verifhook.Set(func(name string, args ...interface{}) error {
				if name != "clean.afterCleanSegments" {
					return nil
				}
				passes.Add(1)
				hmu.Lock()
				widen := hr.Bool()
				hmu.Unlock()
				if !widen {
					return nil
				}
				// bounded wait (never part of a verdict): let the appender add
				// enough for at least two rolls of the small segments
				from := appended.Load()
				for k := 0; k < 400 && !writerDone.Load() && appended.Load() < from+12; k++ {
					time.Sleep(50 * time.Microsecond)
				}
				if appended.Load() >= from+12 {
					widened.Add(1)
				}
				return nil
			})
			wg.Add(1)
			go func() {
				defer wg.Done()
				defer func() {
					rep.Count("concurrent_cleaner_passes", passes.Load())
					rep.Count("concurrent_cleaner_passes_with_appends_inside", widened.Load())
				}()
				for {
					select {
					case <-stop:
						return
					default:
					}
					if err := l.Clean(); err != nil {
						fail("C01:clean-error", fmt.Sprintf("Clean() with limits that never bind failed: %v", err))
						return
					}
					time.Sleep(100 * time.Microsecond)
				}
			}()
		}
		// appender
		wg.Add(1)
		go func() {
			defer wg.Done()
			defer writerDone.Store(true)
			r := kit.NewRNG(seed ^ 1)
			for next := int64(0); next < total; {
				n := int64(r.Range(1, 6))
				if next+n > total {
					n = total - next
				}
				msgs := make([]*Message, n)
				for k := int64(0); k < n; k++ {
					msgs[k] = c01Content(seed, next+k).msg()
				}
				offs, err := l.Append(msgs)
				if err != nil {
					fail("C01:append-error", fmt.Sprintf("concurrent Append failed: %v", err))
					return
				}
				for k, o := range offs {
					if o != next+int64(k) {
						fail("C01:append-offset", fmt.Sprintf("concurrent Append returned %v expected from %d", offs, next))
						return
					}
				}
				next += n
				appended.Store(next)
				if r.Chance(1, 4) {
					time.Sleep(time.Duration(r.Intn(200)) * time.Microsecond)
				}
			}
		}()
		// split ticker (the cleaner loop does this in production)
		wg.Add(1)
		go func() {
			defer wg.Done()
			for {
				select {
				case <-stop:
					return
				default:
				}
				if _, err := l.checkAndPerformSplit(); err != nil {
					fail("C01:split-error", fmt.Sprintf("checkAndPerformSplit: %v", err))
					return
				}
				time.Sleep(50 * time.Microsecond)
			}
		}()
		// readers
		nread := rng.Range(2, 6)
		var crossed atomic.Int64
		starts := make([]int64, nread)
		var rwg sync.WaitGroup
		ctx, cancel := context.WithTimeout(context.Background(), 60*time.Second)
		for k := 0; k < nread; k++ {
			rr := rng.Fork(uint64(1000 + k))
			rwg.Add(1)
			go func(k int) {
				defer rwg.Done()
				// wait until something is there, then start somewhere inside
				for appended.Load() == 0 {
					select {
					case <-ctx.Done():
						return
					default:
						time.Sleep(20 * time.Microsecond)
					}
				}
				time.Sleep(time.Duration(rr.Intn(2000)) * time.Microsecond)
				start := int64(rr.Intn(int(appended.Load())))
				starts[k] = start
				r, err := l.NewReader(start, true)
				if err != nil {
					fail("C01:reader-open", fmt.Sprintf("NewReader(%d, uncommitted) while %d appended: %v", start, appended.Load(), err))
					return
				}
				hb := make([]byte, 28)
				exp := start
				for exp < total {
					m, off, ts, ep, err := r.ReadMessage(ctx, hb)
					if err != nil {
						if ctx.Err() != nil {
							rep.Inconc(fmt.Sprintf("run %d reader %d: watchdog while waiting for offset %d of %d", i, k, exp, total))
						} else {
							fail("C01:read-error", fmt.Sprintf("reader from %d failed at offset %d: %v", start, exp, err))
						}
						return
					}
					rec, derr := vfDecode(m, off, ts, ep)
					if derr != nil {
						fail("C01:read-content", fmt.Sprintf("reader from %d at offset %d: %v", start, off, derr))
						return
					}
					want := c01Content(seed, exp)
					want.Hdr = vfNormHdr(want.Hdr)
					if !vfSameRec(rec, want) {
						fp := "C01:read-content"
						if off != exp {
							fp = "C01:read-offset-order"
						}
						fail(fp, fmt.Sprintf("concurrent reader from %d: got %v want %v", start, rec, want))
						return
					}
					exp++
					rep.Count("concurrent_reads", 1)
				}
				crossed.Add(1)
			}(k)
		}
		wg.Add(0)
		rwg.Wait()
		close(stop)
		wg.Wait()
		cancel()
		verifhook.Set(nil)
		nseg := len(l.Segments())
		rep.Count("concurrent_segments", int64(nseg))
		rep.Eval()
		if nseg >= 3 && crossed.Load() > 0 {
			rep.Nontrivial(fmt.Sprintf("%d|%d|%v", maxSeg, total, starts))
		}
		if i < 2 {
			rep.Sample(map[string]any{"maxSegmentBytes": maxSeg, "messages": total, "reader_starts": starts, "segments": nseg})
		}
		l.Close()
		os.RemoveAll(dir)
	}
}

// ---------------------------------------------------------------- tail-following readers

type c01Tail struct {
	r      *Reader
	next   int64 // next offset the harness expects from this reader
	out    chan vfRec
	errc   chan error
	cancel context.CancelFunc
	id     int
	// committed: a committed reader; it owes deliveries only up to the HW
	committed bool
	// afterCut: the reader was parked BEYOND the offset of a truncation and is
	// still alive.  It may end with an error; what it delivers must be the
	// model's message at next.
	afterCut bool
	dead     bool
	// ur: the reader's position object as it was before the truncation it was
	// parked beyond (read while the reader was quiescent)
	ur *uncommittedReader
}

// c01WaitsOn reports whether ur is registered as a waiter of one of segs.
func c01WaitsOn(segs []*segment, ur *uncommittedReader) bool {
	if ur == nil {
		return false
	}
	for _, s := range segs {
		s.RLock()
		_, ok := s.waiters[ur]
		s.RUnlock()
		if ok {
			return true
		}
	}
	return false
}

// c01PanicErr carries a panic of a reader goroutine to the judging goroutine.
type c01PanicErr struct{ v any }

func (e c01PanicErr) Error() string { return fmt.Sprintf("panic: %v", e.v) }

// parked reports whether the reader goroutine is blocked waiting for data at
// the end of the log (registered as a waiter of a segment).
func (c *c01Tail) parked(l *commitLog) bool {
	if c.committed {
		l.mu.RLock()
		_, ok := l.hwWaiters[c.r.ctxReader]
		l.mu.RUnlock()
		return ok
	}
	ur, ok := c.r.ctxReader.(*uncommittedReader)
	if !ok {
		return false
	}
	for _, s := range l.Segments() {
		s.RLock()
		_, ok := s.waiters[ur]
		s.RUnlock()
		if ok {
			return true
		}
	}
	return false
}

// TestVerifC01Tail: long-lived uncommitted readers that are PARKED at the end
// of the log while the log is appended to, rolled and truncated (what a
// follower-serving or tailing reader experiences).  After every append each
// parked reader must deliver exactly the new messages, in order.
func TestVerifC01Tail(t *testing.T) {
	rep := kit.NewReport("C01", "tail")
	defer rep.Write()
	rep.SetRule("seeded programs over {append batch 1..5, replicated message set, truncate (mid-segment / segment base / last / newest+1), explicit roll check} with 1-4 tail-following readers (uncommitted, and committed ones opened at any offset up to HW+1 — also while nothing is committed — that owe deliveries up to the HW; HW moved by one, a few, or to the log end in one step across several segment boundaries); before every append / HW move each reader is observed parked (segment waiter map resp. hwWaiters), after it each must deliver exactly the appended resp. newly committed messages in order (a wrong offset is a violation at once; a reader that delivers nothing within the watchdog is inconclusive); a reader goroutine that panics is a violation; an uncommitted reader observed REGISTERED as a waiter of a live segment with an empty delivery channel while no operation runs and the log holds its next offset is stuck (violation, a state predicate, not a timeout); readers parked beyond a truncation point normally end with an error when the truncation deletes/rewrites their segment and are replaced — one that is still alive and parked afterwards is kept and, once the log has regrown past it, must deliver exactly the model's messages from its position (or end with an error); non-trivial = program truncated mid-segment and then rolled while a reader was parked, or moved the HW across >=2 segment boundaries in one step while a committed reader waited at HW+1; distinct = program text + segment size")
	root := kit.NewRNG(kit.Mix(kit.Seed(), 0xC017))
	nprog := kit.Scale(120, 1500)
	seeds := make([]uint64, nprog)
	for i := range seeds {
		seeds[i] = root.Uint64()
	}
	kit.Parallel(nprog, kit.Workers(), func(p int) {
		if rep.NumViolations() >= 6 {
			return
		}
		rng := kit.NewRNG(seeds[p])
		maxSeg := []int64{100, 250, 600}[rng.Intn(3)]
		c := newC01Run(rep, rng, maxSeg)
		defer c.cleanup()
		if err := c.open(); err != nil {
			rep.Violation("C01:open-error", err.Error(), nil)
			return
		}
		var tails []*c01Tail
		nextID := 0
		newTail := func(start int64, committed bool) {
			r, err := c.log.NewReader(start, !committed)
			if err != nil {
				if start < c.next() {
					c.fail("C01:reader-open", fmt.Sprintf("NewReader(%d, uncommitted=%v) failed: %v", start, !committed, err))
				}
				return
			}
			ctx, cancel := context.WithCancel(context.Background())
			tl := &c01Tail{r: r, next: start, out: make(chan vfRec, 64), errc: make(chan error, 1), cancel: cancel, id: nextID, committed: committed}
			nextID++
			go func() {
				defer func() {
					if p := recover(); p != nil {
						tl.errc <- c01PanicErr{p}
					}
				}()
				hb := make([]byte, 28)
				for {
					m, off, ts, ep, err := r.ReadMessage(ctx, hb)
					if err != nil {
						tl.errc <- err
						return
					}
					rec, derr := vfDecode(m, off, ts, ep)
					if derr != nil {
						tl.errc <- derr
						return
					}
					// copy: the slices alias the read buffer
					rec.Key = append([]byte(nil), rec.Key...)
					if rec.Key != nil && len(rec.Key) == 0 {
						rec.Key = []byte{}
					}
					rec.Val = append([]byte(nil), rec.Val...)
					select {
					case tl.out <- rec:
					case <-ctx.Done():
						return
					}
				}
			}()
			tails = append(tails, tl)
		}
		// drain: each tail must deliver model[next:], in order
		kindOf := func(tl *c01Tail) string {
			k := "tail reader"
			if tl.committed {
				k = "committed tail reader"
			}
			if tl.afterCut {
				k += " (was parked beyond the offset of a truncation; the log has regrown past it)"
			}
			return k
		}
		drain := func(phase string) {
			for _, tl := range tails {
				limit := func() int64 {
					if tl.committed {
						return c.hw + 1
					}
					return c.next()
				}
				for tl.next < limit() && !c.failed && !tl.dead {
					var rec vfRec
					got := false
					deadline := time.Now().Add(10 * time.Second) // watchdog: only ever "inconclusive"
					for !got && !tl.dead {
						select {
						case rec = <-tl.out:
							got = true
						case err := <-tl.errc:
							if _, isPanic := err.(c01PanicErr); isPanic {
								fp := "C01:tail-reader-panic"
								if tl.afterCut {
									fp = "C01:tail-reader-after-cut"
								}
								c.fail(fp, fmt.Sprintf("%s: %s #%d panicked while reading offset %d: %v", phase, kindOf(tl), tl.id, tl.next, err))
								return
							}
							if tl.afterCut {
								// the truncation took its segment away: a legitimate end
								tl.dead = true
								rep.Count("tail_readers_beyond_cut_ended_with_error_after_regrow", 1)
								break
							}
							c.fail("C01:tail-reader-error", fmt.Sprintf("%s: tail reader #%d failed at offset %d: %v", phase, tl.id, tl.next, err))
							return
						case <-time.After(20 * time.Millisecond):
							// A stuck state, not a slow one: no operation is running
							// now, so a reader that was parked beyond a cut and is
							// still REGISTERED as a waiter of a live segment (it
							// found no data at its position) with nothing left in its
							// delivery channel will never deliver the message the log
							// now holds at its offset.
							if tl.afterCut && c01WaitsOn(c.log.Segments(), tl.ur) {
								select {
								case rec = <-tl.out:
									got = true
								default:
									c.fail("C01:tail-reader-after-cut", fmt.Sprintf("%s: %s #%d waits for data at the log end although the log holds [0,%d] and it has delivered only up to %d", phase, kindOf(tl), tl.id, c.next()-1, tl.next-1))
									return
								}
							} else if time.Now().After(deadline) {
								rep.Inconc(fmt.Sprintf("program %d: tail reader #%d delivered nothing for offset %d within the watchdog (%s; program %s)", p, tl.id, tl.next, phase, strings.Join(c.trace, " ")))
								c.failed = true
								return
							}
						}
					}
					if !got {
						break
					}
					want := c.model[tl.next]
					if rec.Off != want.Off {
						fp := "C01:tail-reader-skipped-or-repeated"
						if tl.afterCut {
							fp = "C01:tail-reader-after-cut"
						}
						c.fail(fp, fmt.Sprintf("%s: %s #%d (parked at the log end / waiting for the HW before) delivered offset %d, expected %d", phase, kindOf(tl), tl.id, rec.Off, want.Off))
						return
					}
					if !bytes.Equal(rec.Val, want.Val) || rec.TS != want.TS || rec.Epoch != want.Epoch {
						fp := "C01:tail-reader-content"
						if tl.afterCut {
							fp = "C01:tail-reader-after-cut"
						}
						c.fail(fp, fmt.Sprintf("%s: %s #%d delivered %v, expected %v", phase, kindOf(tl), tl.id, rec, want))
						return
					}
					tl.next++
					rep.Count("tail_reads", 1)
					if tl.afterCut {
						tl.afterCut = false
						rep.Count("tail_readers_beyond_cut_verified_after_regrow", 1)
					}
				}
			}
			// readers that ended legitimately are replaced by fresh ones at the log end
			var keep []*c01Tail
			ended := 0
			for _, tl := range tails {
				if tl.dead {
					tl.cancel()
					ended++
					continue
				}
				keep = append(keep, tl)
			}
			tails = keep
			for k := 0; k < ended && !c.failed; k++ {
				if c.next() > 0 {
					newTail(c.next(), false)
				}
			}
		}
		waitParked := func() {
			for _, tl := range tails {
				ok := false
				for i := 0; i < 600; i++ {
					if tl.parked(c.log) {
						ok = true
						break
					}
					time.Sleep(50 * time.Microsecond)
				}
				if ok {
					rep.Count("tail_readers_observed_parked", 1)
				} else if tl.committed {
					rep.Count("committed_tail_readers_not_seen_parked", 1)
				} else {
					rep.Count("tail_readers_not_seen_parked", 1)
				}
			}
		}
		midTrunc, rolledAfter, hwJump := false, false, false
		nops := rng.Range(8, 26)
		c.step(c01Op{Kind: "A", N: 3})
		newTail(int64(rng.Intn(3)), false)
		if rng.Bool() {
			// a committed reader opened while nothing is committed yet
			newTail(0, true)
		}
		drain("initial")
		for i := 0; i < nops && !c.failed; i++ {
			switch x := rng.Intn(115); {
			case x >= 100:
				// move the HW (by one, by a few, or to the end in one step) while
				// committed tail readers wait for it
				if c.next()-1 <= c.hw {
					continue
				}
				waitParked()
				h := c.next() - 1
				if rng.Bool() {
					h = c.hw + 1 + int64(rng.Intn(int(c.next()-1-c.hw)))
				}
				crossed := 0
				for _, s := range c.log.Segments() {
					if s.BaseOffset > c.hw+1 && s.BaseOffset <= h {
						crossed++
					}
				}
				ncommitted := 0
				for _, tl := range tails {
					if tl.committed && tl.next == c.hw+1 {
						ncommitted++
					}
				}
				if crossed >= 2 && ncommitted > 0 {
					hwJump = true
					rep.Count("hw_jumps_over_2+_segment_boundaries_with_a_waiting_committed_reader", 1)
				}
				c.step(c01Op{Kind: "H", Arg: h})
				drain("after-hw-advance")
			case x < 45:
				waitParked()
				segs := len(c.log.Segments())
				c.step(c01Op{Kind: "A", N: rng.Range(1, 5)})
				if midTrunc && len(c.log.Segments()) > segs {
					rolledAfter = true
				}
				drain("after-append")
			case x < 60:
				waitParked()
				n := rng.Range(1, 5)
				segs := len(c.log.Segments())
				c.step(c01Op{Kind: "M", N: n, Chunk: rng.Range(1, n)})
				if midTrunc && len(c.log.Segments()) > segs {
					rolledAfter = true
				}
				drain("after-message-set")
			case x < 85:
				class := []int{2, 3, 6, 6, 6, 0}[rng.Intn(6)]
				off, cl := c.truncOffset(rng, class)
				// is the cut strictly inside a segment?
				for _, s := range c.log.Segments() {
					if off > s.BaseOffset && off <= s.LastOffset() {
						midTrunc = true
					}
				}
				// Every uncommitted reader has delivered everything and is parked
				// (or about to park) at the log end; note which position object
				// each one uses and which segments exist — read while they are
				// quiescent (their next move needs this goroutine's truncation).
				oldSegs := c.log.Segments()
				for _, tl := range tails {
					if !tl.committed && !tl.afterCut {
						tl.ur, _ = tl.r.ctxReader.(*uncommittedReader)
					}
				}
				c.step(c01Op{Kind: "T", Arg: off, Class: cl})
				// Readers that were parked beyond the cut.  The truncation deletes
				// or rewrites the segment they wait on, which wakes them; they
				// cannot be re-positioned (their offset does not exist any more)
				// and end with an error, or stay registered on the removed segment
				// object for good — either way they are replaced by fresh ones at
				// the new end.  One that is still alive and registered as a
				// waiter of a LIVE segment is KEPT and judged when the log has
				// regrown past it: it may still end with an error, but what it
				// delivers must be the model's message at its position.  The
				// settling wait is short, bounded and never a verdict (a reader
				// that stood at the end of a FULL, not yet rolled segment polls
				// that segment without ever registering or reading: it neither
				// ends nor parks and is dropped when the wait expires).
				var keep []*c01Tail
				for _, tl := range tails {
					if tl.next <= c.next() || tl.committed {
						keep = append(keep, tl)
						continue
					}
					rep.Count("tail_readers_parked_beyond_cut", 1)
					settled := false
					for until := time.Now().Add(50 * time.Millisecond); !settled && time.Now().Before(until); {
						select {
						case err := <-tl.errc:
							if _, isPanic := err.(c01PanicErr); isPanic {
								c.fail("C01:tail-reader-after-cut", fmt.Sprintf("after-truncate: tail reader #%d (parked beyond the cut) panicked: %v", tl.id, err))
							}
							tl.dead, settled = true, true
							rep.Count("tail_readers_beyond_cut_ended_by_the_truncation", 1)
						default:
							if c01WaitsOn(c.log.Segments(), tl.ur) {
								settled = true
								tl.afterCut = true
								rep.Count("tail_readers_beyond_cut_still_waiting_on_a_live_segment_kept", 1)
							} else if c01WaitsOn(oldSegs, tl.ur) {
								settled = true
								tl.dead = true
								rep.Count("tail_readers_beyond_cut_left_waiting_on_a_removed_segment", 1)
							} else {
								time.Sleep(200 * time.Microsecond)
							}
						}
					}
					if !settled {
						tl.dead = true
						rep.Count("tail_readers_beyond_cut_unsettled_dropped", 1)
					}
					if tl.dead {
						tl.cancel()
						continue
					}
					keep = append(keep, tl)
				}
				replaced := len(tails) - len(keep)
				tails = keep
				for k := 0; k < replaced && !c.failed; k++ {
					if c.next() > 0 {
						newTail(c.next()-int64(rng.Intn(2)), false)
					}
				}
				drain("after-truncate")
			case x < 92:
				if len(tails) < 4 && c.next() > 0 {
					if rng.Bool() {
						newTail(int64(rng.Intn(int(c.next()))), false)
					} else {
						// committed: anywhere up to HW+1 (HW+1 = wait for the next commit)
						newTail(int64(rng.Intn(int(c.hw)+2)), true)
					}
					drain("new-reader")
				}
			default:
				if _, err := c.log.checkAndPerformSplit(); err != nil {
					c.fail("C01:split-error", err.Error())
				}
				c.trace = append(c.trace, "S")
			}
		}
		for _, tl := range tails {
			tl.cancel()
		}
		rep.Eval()
		if (midTrunc && rolledAfter) || hwJump {
			rep.Nontrivial(fmt.Sprintf("%d|%s", maxSeg, strings.Join(c.trace, " ")))
		}
		if p < 2 {
			rep.Sample(map[string]any{"maxSegmentBytes": maxSeg, "program": strings.Join(c.trace, " "), "tail_readers": nextID})
		}
	})
}
