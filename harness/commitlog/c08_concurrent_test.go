//go:build verif

package commitlog

// C08 concurrent unit: an appender rolls new segments WHILE Clean() compacts,
// optionally with forward readers running through the segments that are being
// replaced.  Two schedules:
//
//	gated: at the k-th occurrence of a chosen verifhook point inside the clean
//	       (cleanSegment / Replace / cleanupEmptySegment / before the segment
//	       list is swapped) the cleaner is held until the appender goroutine
//	       has appended n messages (a logical gate, no timing);
//	free:  the appender starts at the first hook point of the clean and runs
//	       freely; the handler only injects microsecond delays to widen the
//	       windows (delays never enter the oracle).
//
// In both, appends start only after Clean() took its snapshot, so the
// harness's pre-clean snapshot is exactly the clean's ("newest segment as of
// clean start" is known).  The verifhook handler is process-global: cases of
// this unit run one at a time.

import (
	"context"
	"fmt"
	"strings"
	"sync"
	"sync/atomic"
	"testing"
	"time"

	kit "github.com/liftbridge-io/liftbridge/internal/verifkit"
	"github.com/liftbridge-io/liftbridge/server/verifhook"
)

var c08HookPoints = []string{
	"compact.afterCreateCleaned", "compact.afterWriteCleaned", "compact.afterSegment",
	"compact.emptyAfterDeleteNew", "replace.afterClose", "replace.betweenRenames",
	"replace.afterRenames", "clean.afterCleanSegments",
}

// c08Content is the content of offset o in a concurrent case: a pure function
// of (seed, offset), so appender, readers and oracle need no shared state.
func c08Content(seed uint64, o int64) vfRec {
	r := kit.NewRNG(kit.Mix(seed, uint64(o)+77))
	rec := vfRec{Off: o, TS: 1000 + 3*o, Epoch: 1 + uint64(o/17)}
	switch x := r.Intn(100); {
	case x < 15:
		rec.Key = nil
	case x < 30:
		rec.Key = []byte{}
	default:
		rec.Key = []byte{byte('a' + r.Intn(3))}
	}
	rec.Val = []byte(fmt.Sprintf("v%05d", o))
	for i := r.Intn(8); i > 0; i-- {
		rec.Val = append(rec.Val, '.')
	}
	if r.Chance(1, 5) {
		rec.Hdr = map[string][]byte{"o": []byte(fmt.Sprint(o))}
	}
	return rec
}

type c08Gate struct {
	point string
	occ   int // 1-based occurrence of point
	n     int // messages to append while the cleaner is held
}

func TestVerifC08Concurrent(t *testing.T) {
	rep := kit.NewReport("C08", "concurrent")
	defer rep.Write()
	rep.SetRule("compaction racing with an appender (and 0-2 forward readers) under -race: seeded log (2-12 segments, keys from {nil,\"\",a,b,c}, HW anywhere), then Clean() while (gated) the cleaner is held at the k-th occurrence of a verifhook point in cleanSegment/Replace/cleanupEmptySegment/before the list swap until n messages were appended, or (free) the appender runs freely from the first hook point on with injected microsecond delays; afterwards the full C08 oracle with must-survive = pre-clean must-survive ∪ everything appended during the clean, then a second (quiet) Clean with the full oracle; non-trivial = >=1 segment rolled during the clean and >=1 message removed; distinct = layout + schedule")
	rep.Assume("a forward reader that runs DURING a clean is only checked for safety: strictly increasing offsets, byte-identical content, no must-survive or newly appended message skipped inside the range it covered; it may see messages that the clean is about to remove, and it may end with an error while its segment is being replaced (counted, not a violation)")
	rep.Assume("the high watermark does not move while a clean runs")
	defer verifhook.Set(nil)
	root := kit.NewRNG(kit.Mix(kit.Seed(), 0xC08C))
	ncases := kit.Scale(160, 1100)
	for i := 0; i < ncases && rep.NumViolations() < 14; i++ {
		c08RunConcurrent(rep, root.Fork(uint64(i)), i)
	}
}

func c08RunConcurrent(rep *kit.Report, rng *kit.RNG, idx int) {
	seed := rng.Uint64()
	maxSeg := c08SegSizes[rng.Intn(len(c08SegSizes))]
	gor := []int{1, 2, 10}[rng.Intn(3)]
	e, err := newC08Env(rep, "concurrent", c08Opts("c08c", maxSeg, gor))
	if err != nil {
		rep.Violation("C08:open-error", err.Error(), nil)
		return
	}
	defer e.close()
	l := e.log
	perSeg := int(maxSeg/55) + 1
	n0hi := 11 * perSeg
	if n0hi > 36 {
		n0hi = 36
	}
	n0 := rng.Range(4, n0hi)
	adopt := func(from, to int64) {
		for o := from; o < to; o++ {
			r := c08Content(seed, o)
			r.Hdr = vfNormHdr(r.Hdr)
			e.orig[o] = r
			e.model = append(e.model, r)
			e.keys = append(e.keys, c08KeyStr(r.Key))
		}
		e.next = to
	}
	appendRange := func(from int64, n int, r *kit.RNG) error {
		for done := 0; done < n; {
			b := r.Range(1, 3)
			if b > n-done {
				b = n - done
			}
			msgs := make([]*Message, b)
			for k := range msgs {
				msgs[k] = c08Content(seed, from+int64(done+k)).msg()
			}
			offs, err := l.Append(msgs)
			if err != nil {
				return err
			}
			if offs[0] != from+int64(done) {
				return fmt.Errorf("Append returned offsets %v, expected to start at %d", offs, from+int64(done))
			}
			done += b
		}
		return nil
	}
	if err := appendRange(0, n0, rng); err != nil {
		e.fail("C08:append-error", err.Error(), nil)
		return
	}
	adopt(0, int64(n0))
	e.trace = append(e.trace, fmt.Sprintf("content_seed=%d A*%d", seed, n0))
	if hw := c08PickHW(rng, e); hw > e.hw {
		e.setHW(hw)
	}
	pre, _, serr := e.segStats()
	if serr != nil {
		e.fail("C08:pre-clean-scan", serr.Error(), nil)
		return
	}
	newestBase := pre[len(pre)-1].Base
	must := c08MustSurvive(e.model, e.hw, newestBase, 0)
	mustPre := make(map[int64]bool, len(must))
	for o := range must {
		mustPre[o] = true
	}

	// ---- schedule
	free := rng.Chance(2, 5)
	var gates []c08Gate
	total := 0
	if free {
		total = rng.Range(3, 14)
	} else {
		for g := rng.Range(1, 3); g > 0; g-- {
			gt := c08Gate{point: c08HookPoints[rng.Intn(len(c08HookPoints))], occ: rng.Range(1, 3), n: rng.Range(1, 6)}
			if gt.point == "clean.afterCleanSegments" {
				gt.occ = 1
			}
			gates = append(gates, gt)
		}
	}
	var (
		started      atomic.Bool
		startCh      = make(chan struct{})
		reqCh        = make(chan int)
		doneCh       = make(chan error, 1)
		hookMu       sync.Mutex
		hookRNG      = kit.NewRNG(seed ^ 0x5ca1ab1e)
		occ          = map[string]int{}
		gateFired    int
		watchdog     atomic.Bool
		appenderBusy atomic.Bool
		appended     atomic.Int64
		appendErr    error
		appenderWG   sync.WaitGroup
	)
	isPoint := map[string]bool{}
	for _, p := range c08HookPoints {
		isPoint[p] = true
	}
	verifhook.Set(func(name string, args ...interface{}) error {
		if !isPoint[name] {
			return nil
		}
		hookMu.Lock()
		occ[name]++
		k := occ[name]
		var d time.Duration
		if free && hookRNG.Bool() {
			d = time.Duration(hookRNG.Intn(300)) * time.Microsecond
		}
		want := 0
		for _, g := range gates {
			if g.point == name && g.occ == k {
				want += g.n
			}
		}
		hookMu.Unlock()
		if started.CompareAndSwap(false, true) {
			close(startCh)
		}
		if want > 0 && !watchdog.Load() && !appenderBusy.Load() {
			// (a hook point reached from inside the appender's own Append is
			// never a gate: the cleaner is the goroutine being held)
			select {
			case reqCh <- want:
				select {
				case err := <-doneCh:
					if err == nil {
						hookMu.Lock()
						gateFired++
						hookMu.Unlock()
					}
				case <-time.After(60 * time.Second):
					watchdog.Store(true)
				}
			case <-time.After(60 * time.Second):
				watchdog.Store(true)
			}
		}
		if d > 0 {
			time.Sleep(d)
		}
		return nil
	})
	// ---- appender
	stopAppender := make(chan struct{})
	appenderWG.Add(1)
	go func() {
		defer appenderWG.Done()
		ar := kit.NewRNG(seed ^ 0xa99e)
		next := int64(n0)
		if free {
			select {
			case <-startCh:
			case <-stopAppender:
				return
			}
			for done := 0; done < total; {
				b := ar.Range(1, 3)
				if b > total-done {
					b = total - done
				}
				if err := appendRange(next, b, ar); err != nil {
					appendErr = err
					return
				}
				next += int64(b)
				done += b
				appended.Store(next - int64(n0))
				if ar.Bool() {
					time.Sleep(time.Duration(ar.Intn(200)) * time.Microsecond)
				}
			}
			return
		}
		for {
			select {
			case n := <-reqCh:
				appenderBusy.Store(true)
				err := appendRange(next, n, ar)
				appenderBusy.Store(false)
				if err == nil {
					next += int64(n)
					appended.Store(next - int64(n0))
				} else {
					appendErr = err
				}
				doneCh <- err
			case <-stopAppender:
				return
			}
		}
	}()
	// ---- readers running through the clean
	type rdRes struct {
		start int64
		offs  []int64
		err   error
		bad   string
	}
	nread := rng.Intn(3)
	res := make([]rdRes, nread)
	ctx, cancel := context.WithCancel(context.Background())
	var rwg sync.WaitGroup
	for k := 0; k < nread; k++ {
		res[k].start = int64(rng.Intn(n0))
		rwg.Add(1)
		go func(k int) {
			defer rwg.Done()
			rr := kit.NewRNG(seed ^ uint64(k+1)*0x9e37)
			r, err := l.NewReader(res[k].start, true)
			if err != nil {
				res[k].err = err
				return
			}
			hb := make([]byte, 28)
			for {
				m, off, ts, ep, err := r.ReadMessage(ctx, hb)
				if err != nil {
					if ctx.Err() == nil {
						res[k].err = err
					}
					return
				}
				rec, derr := vfDecode(m, off, ts, ep)
				want := c08Content(seed, off)
				want.Hdr = vfNormHdr(want.Hdr)
				if derr != nil || !vfSameRec(rec, want) {
					res[k].bad = fmt.Sprintf("reader from %d: at offset %d got %v (decode err %v) want %v", res[k].start, off, rec, derr, want)
					return
				}
				res[k].offs = append(res[k].offs, off)
				if rr.Chance(1, 3) {
					time.Sleep(time.Duration(rr.Intn(150)) * time.Microsecond)
				}
			}
		}(k)
	}

	// ---- the clean under test
	sched := "free"
	if !free {
		var gs []string
		for _, g := range gates {
			gs = append(gs, fmt.Sprintf("%s#%d+%d", g.point, g.occ, g.n))
		}
		sched = "gated:" + strings.Join(gs, ",")
	}
	e.trace = append(e.trace, fmt.Sprintf("Clean(segs=%d,newestBase=%d) || %s total=%d readers=%d", len(pre), newestBase, sched, total, nread))
	cerr := l.Clean()
	if started.CompareAndSwap(false, true) {
		close(startCh) // clean hit no hook point (e.g. one segment): let a free appender run anyway
	}
	verifhook.Set(nil)
	if !free {
		close(stopAppender)
	}
	if !c08WaitTimeout(&appenderWG, 60*time.Second) {
		cancel()
		rep.Inconc(fmt.Sprintf("case %d: watchdog while waiting for the appender goroutine to finish", idx))
		return
	}
	// Give the readers a moment to run on into the cleaned log, then stop
	// them; their coverage is whatever they got (the pause is workload, not
	// oracle).
	time.Sleep(2 * time.Millisecond)
	cancel()
	if !c08WaitTimeout(&rwg, 60*time.Second) {
		rep.Inconc(fmt.Sprintf("case %d: watchdog while waiting for the reader goroutines to finish", idx))
		return
	}
	if cerr != nil {
		e.fail("C08:clean-error", fmt.Sprintf("Clean racing with an appender failed: %v", cerr), nil)
		return
	}
	if appendErr != nil {
		e.fail("C08:append-error", fmt.Sprintf("Append racing with Clean failed: %v", appendErr), nil)
		return
	}
	if watchdog.Load() {
		rep.Inconc(fmt.Sprintf("case %d: watchdog while the cleaner waited for the gated appender", idx))
		return
	}
	e.cleans++
	nApp := appended.Load()
	adopt(int64(n0), int64(n0)+nApp)
	for o := int64(n0); o < int64(n0)+nApp; o++ {
		must[o] = "appended-during-clean"
	}
	rolled := 0
	for _, s := range l.Segments() {
		if s.BaseOffset > newestBase {
			rolled++
		}
	}
	if !e.verify(rng, must, len(pre)) {
		return
	}
	// readers
	have := map[int64]bool{}
	for _, r := range e.model {
		have[r.Off] = true
	}
	for k := range res {
		r := res[k]
		if r.bad != "" {
			e.fail("C08:concurrent-reader:content", r.bad, nil)
			continue
		}
		if r.err != nil {
			rep.Count("reader_errors_during_clean", 1)
		}
		seen := map[int64]bool{}
		okOrder := true
		for i, o := range r.offs {
			seen[o] = true
			if i > 0 && o <= r.offs[i-1] {
				okOrder = false
			}
		}
		if !okOrder {
			e.fail("C08:concurrent-reader:order", fmt.Sprintf("reader from %d running during Clean returned offsets out of order: %v", r.start, r.offs), nil)
			continue
		}
		if len(r.offs) > 0 {
			last := r.offs[len(r.offs)-1]
			for o := r.start; o <= last; o++ {
				if (mustPre[o] || o >= int64(n0)) && !seen[o] {
					e.fail("C08:concurrent-reader:skipped", fmt.Sprintf("reader from %d running during Clean covered [%d,%d] but skipped offset %d, which survives the clean; it returned %v", r.start, r.start, last, o, r.offs), nil)
					break
				}
			}
		}
		rep.Count("concurrent_reader_messages", int64(len(r.offs)))
	}
	hookMu.Lock()
	for p, n := range occ {
		rep.Count("hook_"+p, int64(n))
	}
	rep.Count("gates_fired", int64(gateFired))
	hookMu.Unlock()
	rep.Count("appended_during_clean", nApp)
	rep.Count("segments_rolled_during_clean", int64(rolled))
	if free {
		rep.Count("free_schedules", 1)
	} else {
		rep.Count("gated_schedules", 1)
	}
	// ---- a quiet second clean: the segments appended during the first one are compacted now
	if hw := c08PickHW(rng, e); hw > e.hw {
		e.setHW(hw)
	}
	if !e.clean(rng) {
		return
	}
	if idx < 3 {
		rep.Sample(e.replay(map[string]any{"survivors": c08Offs(e.model)}))
	}
	e.finish(fmt.Sprintf("%d|%d|%s|%d|%s|%d", maxSeg, gor, strings.Join(e.keys, ","), e.hw, sched, total), rolled >= 1 && e.removedMsgs > 0)
}

// c08WaitTimeout waits for wg with a watchdog (expiry = inconclusive, never a verdict).
func c08WaitTimeout(wg *sync.WaitGroup, d time.Duration) bool {
	ch := make(chan struct{})
	go func() { wg.Wait(); close(ch) }()
	select {
	case <-ch:
		return true
	case <-time.After(d):
		return false
	}
}
