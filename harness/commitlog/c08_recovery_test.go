//go:build verif

package commitlog

// C08 recovery unit: COMPACTED (sparse) segments going through the recovery
// paths of the log.  The other C08 units read a compacted log through the
// segment objects the compaction itself installed (or after a clean
// close/reopen, where the index written by the compaction is simply mapped
// again).  Here, between and after compactions, the log is brought back from
//
//   - a clean shutdown (Close, New);
//   - a clean shutdown after which the .index of one or more segments is
//     missing / zero-length / cut after k whole entries / cut inside an entry
//     / the STALE pre-compaction index (= the state between the two renames
//     of segment.Replace) / still carrying its preallocated zero tail, or -
//     the converse neighbour - the pre-compaction .log next to the new index;
//   - the directory as it was at the k-th occurrence of a verifhook point
//     INSIDE Clean() (cleanSegment / Replace / cleanupEmptySegment / segment
//     deletion / before the segment list is swapped): what a process crash at
//     that instant leaves behind (process-crash model: the OS keeps every
//     write, rename, unlink and dirty MAP_SHARED page);
//
// and then appended to, compacted and recovered again.  Oracle: the shared C08
// oracle.  What must be readable after a recovery is stated from the files:
// exactly the whole messages an independent parse finds in the NNN.log files
// right before the log is opened (for a crash snapshot that content must
// itself lie between the must-survive set of the interrupted compaction and
// the content before it), byte-identical, through forward / reverse readers
// from every offset, findEntry, Oldest/NewestOffset and the raw files; the
// next compaction is judged from there.

import (
	"bytes"
	"fmt"
	"io"
	"os"
	"path/filepath"
	"runtime"
	"strconv"
	"strings"
	"sync"
	"testing"

	kit "github.com/liftbridge-io/liftbridge/internal/verifkit"
	"github.com/liftbridge-io/liftbridge/server/verifhook"
)

var c08RecPoints = append(append([]string{}, c08HookPoints...), "segdelete.afterLogRemove")

var c08RecDamageKinds = []string{
	"index-missing", "index-zero-length", "index-cut-after-k-entries", "index-cut-inside-entry",
	"index-stale-preclean", "index-stale-preclean", "index-with-zero-tail", "log-stale-preclean",
}

func c08GoID() uint64 {
	var buf [64]byte
	n := runtime.Stack(buf[:], false)
	f := strings.Fields(string(buf[:n])) // "goroutine 123 ["
	if len(f) < 2 {
		return 0
	}
	id, _ := strconv.ParseUint(f[1], 10, 64)
	return id
}

// c08RecRun is the crash-snapshot order of one Clean(): copy src to dst at
// the occ-th occurrence of point on the goroutine that runs the Clean.
type c08RecRun struct {
	point    string
	occ      int
	src, dst string
	seen     map[string]int
	taken    bool
	err      error
}

var c08RecRuns sync.Map // goroutine id -> *c08RecRun

var c08RecIsPoint = func() map[string]bool {
	m := map[string]bool{}
	for _, p := range c08RecPoints {
		m[p] = true
	}
	return m
}()

func c08RecHandler(name string, args ...interface{}) error {
	if !c08RecIsPoint[name] {
		return nil
	}
	v, ok := c08RecRuns.Load(c08GoID())
	if !ok {
		return nil
	}
	run := v.(*c08RecRun)
	run.seen[name]++
	if !run.taken && name == run.point && run.seen[name] == run.occ {
		run.taken = true
		run.err = c08CopyDir(run.src, run.dst)
	}
	return nil
}

// c08CopyDir copies every regular file of src (as the OS sees it now) to dst.
// Index files (preallocated to 10 MiB while a segment is open) are read up to
// the first all-zero 64 KiB block: entries are written contiguously from the
// start and an entry is never all-zero, so nothing lies behind such a block;
// the rest is reproduced as a hole of the same length.
func c08CopyDir(src, dst string) error {
	ents, err := os.ReadDir(src)
	if err != nil {
		return err
	}
	for _, ent := range ents {
		if ent.IsDir() {
			continue
		}
		b, size, err := c08ReadFile(filepath.Join(src, ent.Name()), strings.Contains(ent.Name(), indexSuffix))
		if err != nil {
			if os.IsNotExist(err) {
				continue
			}
			return err
		}
		if err := c08WriteSparse(filepath.Join(dst, ent.Name()), b, size); err != nil {
			return err
		}
	}
	return nil
}

// c08ReadFile returns the content of a file (for an index file: up to the
// first all-zero block) and its size.
func c08ReadFile(path string, isIndex bool) ([]byte, int64, error) {
	f, err := os.Open(path)
	if err != nil {
		return nil, 0, err
	}
	defer f.Close()
	st, err := f.Stat()
	if err != nil {
		return nil, 0, err
	}
	const blk = 1 << 16
	if !isIndex || st.Size() <= blk {
		b, err := io.ReadAll(f)
		return b, st.Size(), err
	}
	var out []byte
	buf := make([]byte, blk)
	zero := make([]byte, blk)
	for off := int64(0); off < st.Size(); {
		n, rerr := f.ReadAt(buf, off)
		if n > 0 {
			if bytes.Equal(buf[:n], zero[:n]) {
				break
			}
			out = append(out, buf[:n]...)
			off += int64(n)
		}
		if rerr != nil {
			if rerr == io.EOF {
				break
			}
			return nil, 0, rerr
		}
	}
	return out, st.Size(), nil
}

func c08WriteSparse(path string, b []byte, size int64) error {
	f, err := os.OpenFile(path, os.O_CREATE|os.O_WRONLY|os.O_TRUNC, 0644)
	if err != nil {
		return err
	}
	defer f.Close()
	if _, err := f.Write(b); err != nil {
		return err
	}
	return f.Truncate(size)
}

func c08SegPath(dir string, base int64, suffix string) string {
	return filepath.Join(dir, fmt.Sprintf(fileFormat, base, suffix))
}

// c08IsSparse: does the segment file hold anything but base, base+1, ... ?
func c08IsSparse(s vfRawSegment) bool {
	for i, r := range s.Recs {
		if r.Off != s.Base+int64(i) {
			return true
		}
	}
	return false
}

func c08SegClass(s vfRawSegment) string {
	if c08IsSparse(s) {
		return "sparse-segment"
	}
	return "dense-segment"
}

func c08Flat(raw []vfRawSegment) []vfRec {
	var out []vfRec
	for _, s := range raw {
		out = append(out, s.Recs...)
	}
	return out
}

type c08RecCase struct {
	e   *c08Env
	rep *kit.Report
	rng *kit.RNG
	// coverage of this case
	recoveries, sparseRebuilds, sparseSnapshots int
	events                                      []string
}

func TestVerifC08Recovery(t *testing.T) {
	rep := kit.NewReport("C08", "recovery")
	defer rep.Write()
	rep.SetRule("compacted logs through recovery: seeded logs as in unit seeded (keys from {nil, \"\", 2-5 short keys}, 1 in 4 with a family of long keys of a boundary length; 1-8 messages per segment; HW anywhere; CompactMaxGoroutines in {1,2,10}; 1 in 6 with a retention limit), 2-3 rounds of [append] [HW advance] Clean() + full oracle, each followed by a PRNG-chosen recovery event: none | Close+New | Close, damage the .index of >=1 segment (missing, zero-length, cut after k whole entries, cut inside an entry, stale pre-compaction index = state between the two renames of segment.Replace, zero tail left = not shrunk; converse neighbour: pre-compaction .log under the new index), New | directory snapshot at the k-th occurrence of a verifhook point inside that Clean() (compact.afterCreateCleaned/afterWriteCleaned/afterSegment/emptyAfterDeleteNew, replace.afterClose/betweenRenames/afterRenames, segdelete.afterLogRemove, clean.afterCleanSegments) opened as the log (process crash at that instant), HW checkpointed before the Clean or re-announced after the restart; after every recovery: readable content == whole messages found by an independent parse of the .log files before opening (crash snapshot: must-survive of the interrupted Clean ⊆ that ⊆ content before it), byte-identical, forward/reverse committed/uncommitted readers from every offset, findEntry for every offset, Oldest/NewestOffset, raw files; then the next round appends and compacts the recovered log; non-trivial = the index of a sparse (compacted) segment was rebuilt on open, or a crash snapshot holding sparse segments was recovered; distinct = layout + keys + HW sequence + event sequence")
	rep.Assume("crash model = process crash: a snapshot holds what the OS holds at the hook point (page cache incl. dirty mmap pages of the index files); power loss is not modelled")
	rep.Assume("an index rebuild is observed through the size of the index file after New (a rebuilt index is preallocated again, an accepted one keeps its size); the damage kinds are losses of index content plus one converse (stale log) - no byte patterns a crash cannot leave behind are written into an index")
	rep.Assume("must-survive uses the HW the harness set before calling Clean (no HW movement during a clean); when the HW checkpoint in a crash snapshot is older, the harness re-announces the HW after the restart (as replication does) before reading")
	verifhook.Set(c08RecHandler)
	defer verifhook.Set(nil)
	root := kit.NewRNG(kit.Mix(kit.Seed(), 0xC08EC))
	ncases := kit.Scale(160, 600)
	seeds := make([]uint64, ncases)
	for i := range seeds {
		seeds[i] = root.Uint64()
	}
	kit.Parallel(ncases, kit.Workers(), func(i int) {
		if rep.NumViolations() >= 14 {
			return
		}
		c08RunRecovery(rep, seeds[i], i)
	})
}

func c08RunRecovery(rep *kit.Report, seed uint64, idx int) {
	rng := kit.NewRNG(seed)
	// ---- keys
	nk := rng.Range(2, 5)
	keys := make([][]byte, nk)
	for i := range keys {
		keys[i] = []byte(strings.Repeat(string(rune('a'+i)), 1+i%2))
	}
	var names []string
	avgKey := 2
	if rng.Chance(1, 4) {
		lens := []int{40, 127, 128, 200, 246, 247, 250, 255, 256, 257, 300, 1024, 4097}
		ks, ns := c08KeyFamily(rng, lens[rng.Intn(len(lens))], c08KeyFills[rng.Intn(len(c08KeyFills))])
		keys = append(keys, ks...)
		names = ns
		sum := 0
		for _, k := range keys {
			sum += len(k)
		}
		avgKey = sum / len(keys)
	}
	perSeg := rng.Range(1, 8)
	maxSeg := int64(perSeg*(55+avgKey)) - 5
	gor := []int{1, 2, 10}[rng.Intn(3)]
	opts := c08Opts("c08r", maxSeg, gor)
	n0hi := 11 * perSeg
	if n0hi > 40 {
		n0hi = 40
	}
	n0 := rng.Range(4, n0hi)
	retention := rng.Chance(1, 6)
	if retention {
		if rng.Bool() {
			opts.MaxLogMessages = int64(rng.Range(n0/3+1, n0+4))
		} else {
			opts.MaxLogBytes = int64(rng.Range(n0/3+1, n0+4)) * int64(52+avgKey)
		}
	}
	e, err := newC08Env(rep, "recovery", opts)
	if err != nil {
		rep.Violation("C08:open-error", err.Error(), nil)
		return
	}
	defer func() { e.close() }()
	e.extra = map[string]any{"case_index": idx, "case_seed": fmt.Sprintf("%#x", seed)}
	if names != nil {
		e.extra["long_keys"] = strings.Join(names, " ; ")
		e.extra["key_rule"] = "long keys are built by c08KeyFamily(rng(case_seed), len, fill) in harness/commitlog/c08_keysize_test.go"
	}
	c := &c08RecCase{e: e, rep: rep, rng: rng}
	pNil, pEmpty := []int{0, 10, 25}[rng.Intn(3)], []int{0, 10, 25}[rng.Intn(3)]
	appendN := func(n int) bool {
		for n > 0 {
			b := rng.Range(1, 3)
			if b > n {
				b = n
			}
			ks := make([][]byte, b)
			for i := range ks {
				ks[i] = c08PickKey(rng, keys, pNil, pEmpty)
			}
			if !e.appendKeys(ks, rng.Range(6, 14), nil, rng.Chance(1, 9)) {
				return false
			}
			n -= b
		}
		return true
	}
	if !appendN(n0) {
		return
	}
	rounds := rng.Range(2, 3)
	var hws []string
	for r := 0; r < rounds; r++ {
		if r > 0 && rng.Chance(3, 4) {
			if !appendN(rng.Range(1, 12)) {
				return
			}
		}
		if hw := c08PickHW(rng, e); hw > e.hw {
			e.setHW(hw)
		}
		hws = append(hws, fmt.Sprint(e.hw))
		if rng.Chance(1, 6) {
			if split, err := e.log.checkAndPerformSplit(); err != nil {
				e.fail("C08:split-error", err.Error(), nil)
				return
			} else if split {
				e.trace = append(e.trace, "Roll")
			}
		}
		ok := true
		switch x := rng.Intn(12); {
		case x < 1:
			c.events = append(c.events, "none")
			ok = e.clean(rng)
		case x < 3:
			ok = e.clean(rng) && c.recoverPlain()
		case x < 8:
			ok = c.cleanThenDamage()
		default:
			ok = c.cleanWithSnapshot()
		}
		if !ok {
			return
		}
	}
	// one more compaction of whatever was recovered: idempotence / nothing
	// that must survive disappears
	if !e.clean(rng) {
		return
	}
	if retention {
		rep.Count("cases_with_retention_combined", 1)
	}
	if names != nil {
		rep.Count("cases_with_long_keys", 1)
	}
	rep.Count("recoveries", int64(c.recoveries))
	if idx < 3 {
		rep.Sample(e.replay(map[string]any{"survivors": c08Offs(e.model)}))
	}
	sig := fmt.Sprintf("%d|%d|%s|%s|%s|%d|%d", maxSeg, gor, strings.Join(e.keys, ","), strings.Join(hws, ","), strings.Join(c.events, ","),
		opts.MaxLogMessages, opts.MaxLogBytes)
	e.finish(sig, c.sparseRebuilds > 0 || c.sparseSnapshots > 0)
}

// open opens e.dir as the log (after a Close or on a snapshot), re-announces
// the HW if the checkpoint found is older, and runs the full oracle against
// raw (what an independent parse found in the .log files before opening),
// every record of which must be readable.
func (c *c08RecCase) open(raw []vfRawSegment, class, label string) bool {
	e := c.e
	const big = 1 << 20 // a freshly created index is preallocated (10 MiB)
	sizeBefore := map[int64]int64{}
	for _, s := range raw {
		sizeBefore[s.Base] = -1
		if st, err := os.Stat(c08SegPath(e.dir, s.Base, indexSuffix)); err == nil {
			sizeBefore[s.Base] = st.Size()
		}
	}
	e.extra["last_recovery_event"] = label
	l, err := vfOpen(e.opts)
	if err != nil {
		e.log = nil
		e.fail("C08:recovery-open:"+class, fmt.Sprintf("opening the log after %s failed: %v", label, err), nil)
		return false
	}
	e.log = l
	e.trace = append(e.trace, "Open["+label+"]")
	switch got := l.HighWatermark(); {
	case got > e.hw:
		e.fail("C08:recovery-hw", fmt.Sprintf("HW after %s is %d, the harness never set more than %d", label, got, e.hw), nil)
		return false
	case got < e.hw:
		c.rep.Count("hw_reannounced_after_restart", 1)
		l.SetHighWatermark(e.hw)
		e.trace = append(e.trace, fmt.Sprintf("HW=%d", e.hw))
	}
	// Which index files were rebuilt?  A rebuilt index is a new, preallocated
	// file; an index that was accepted keeps its size.  The reason (and with
	// it the fingerprint of a loss) says what the code did with the segment
	// the record lies in, and whether that segment is a compacted one.
	must := c08Must{}
	for _, s := range raw {
		did := "index-kept"
		if st, err := os.Stat(c08SegPath(e.dir, s.Base, indexSuffix)); err == nil && st.Size() >= big && sizeBefore[s.Base] < big {
			did = "index-rebuilt"
			if len(s.Recs) > 0 {
				if c08IsSparse(s) {
					c.sparseRebuilds++
					c.rep.Count("index_rebuilds_observed_on_sparse_segments", 1)
				} else {
					c.rep.Count("index_rebuilds_observed_on_dense_segments", 1)
				}
			}
		}
		for _, r := range s.Recs {
			must[r.Off] = "recovery:" + did + ":" + c08SegClass(s)
		}
	}
	e.model = c08Flat(raw)
	c.recoveries++
	return e.verify(c.rng, must, len(raw))
}

func (c *c08RecCase) closeLog(label string) bool {
	e := c.e
	if err := e.log.Close(); err != nil {
		e.fail("C08:recovery-close", fmt.Sprintf("Close before %s failed: %v", label, err), nil)
		return false
	}
	e.log = nil
	e.trace = append(e.trace, "Close")
	return true
}

func (c *c08RecCase) recoverPlain() bool {
	e := c.e
	c.events = append(c.events, "reopen")
	if !c.closeLog("reopen") {
		return false
	}
	raw, err := vfScanDir(e.dir)
	if err != nil {
		e.fail("C08:raw-files", fmt.Sprintf("after Close: %v", err), nil)
		return false
	}
	c.rep.Count("event_clean_shutdown", 1)
	return c.open(raw, "clean-shutdown", "a clean shutdown")
}

type c08SegFiles struct{ log, index []byte }

// cleanThenDamage: Clean (+ oracle), Close, damage index files, New (+ oracle).
func (c *c08RecCase) cleanThenDamage() bool {
	e, rng := c.e, c.rng
	// the files as they are before the compaction (for the stale variants)
	pre := map[int64]c08SegFiles{}
	for _, s := range e.log.Segments() {
		lb, err1 := os.ReadFile(c08SegPath(e.dir, s.BaseOffset, logSuffix))
		ib, _, err2 := c08ReadFile(c08SegPath(e.dir, s.BaseOffset, indexSuffix), true)
		if err1 != nil || err2 != nil {
			continue
		}
		if n := s.Index.Position(); n < int64(len(ib)) {
			ib = ib[:n]
		}
		pre[s.BaseOffset] = c08SegFiles{lb, ib}
	}
	if !e.clean(rng) {
		return false
	}
	if !c.closeLog("index damage") {
		return false
	}
	raw, err := vfScanDir(e.dir)
	if err != nil || len(raw) == 0 {
		e.fail("C08:raw-files", fmt.Sprintf("after Close: %v (%d segments)", err, len(raw)), nil)
		return false
	}
	// choose the segments: every non-newest one with probability 1/2 (at
	// least one if there is one), the newest with 1/4
	var chosen []int
	for i := range raw {
		if i == len(raw)-1 {
			if rng.Chance(1, 4) || len(raw) == 1 {
				chosen = append(chosen, i)
			}
		} else if rng.Bool() {
			chosen = append(chosen, i)
		}
	}
	if len(chosen) == 0 {
		chosen = append(chosen, rng.Intn(len(raw)))
	}
	var ev []string
	for _, i := range chosen {
		s := raw[i]
		ipath, lpath := c08SegPath(e.dir, s.Base, indexSuffix), c08SegPath(e.dir, s.Base, logSuffix)
		cur, err := os.ReadFile(ipath)
		if err != nil {
			e.fail("C08:raw-files", fmt.Sprintf("after Close: %v", err), nil)
			return false
		}
		nent := len(cur) / entryWidth
		kind := c08RecDamageKinds[rng.Intn(len(c08RecDamageKinds))]
		p, havePre := pre[s.Base]
		if kind == "index-stale-preclean" && (!havePre || bytes.Equal(p.index, cur)) {
			kind = "index-missing" // this segment was not rewritten: no stale state exists
		}
		if kind == "log-stale-preclean" {
			if cl, _ := os.ReadFile(lpath); !havePre || bytes.Equal(p.log, cl) {
				kind = "index-zero-length"
			}
		}
		if nent == 0 && kind != "index-missing" {
			kind = "index-zero-length"
		}
		var derr error
		switch kind {
		case "index-missing":
			derr = os.Remove(ipath)
		case "index-zero-length":
			derr = os.Truncate(ipath, 0)
		case "index-cut-after-k-entries":
			k := rng.Range(1, nent) // entries dropped
			derr = os.Truncate(ipath, int64(nent-k)*entryWidth)
		case "index-cut-inside-entry":
			derr = os.Truncate(ipath, int64(rng.Intn(nent))*entryWidth+int64(rng.Range(1, entryWidth-1)))
		case "index-stale-preclean":
			derr = os.WriteFile(ipath, p.index, 0644)
		case "index-with-zero-tail":
			derr = os.Truncate(ipath, int64(len(cur))+int64(rng.Range(1, 3000))*entryWidth)
		case "log-stale-preclean":
			derr = os.WriteFile(lpath, p.log, 0644)
		}
		if derr != nil {
			e.fail("C08:raw-files", fmt.Sprintf("harness could not damage %s: %v", ipath, derr), nil)
			return false
		}
		ev = append(ev, fmt.Sprintf("%d:%s", s.Base, kind))
		c.rep.Count("damage_"+kind+"_on_"+c08SegClass(s), 1)
	}
	label := "index damage " + strings.Join(ev, ",")
	c.events = append(c.events, strings.Join(ev, "+"))
	e.trace = append(e.trace, "Damage["+strings.Join(ev, ",")+"]")
	// what the files hold now
	raw, err = vfScanDir(e.dir)
	if err != nil {
		e.fail("C08:raw-files", fmt.Sprintf("after damaging index files: %v", err), nil)
		return false
	}
	c.rep.Count("event_index_damage", 1)
	return c.open(raw, "index-damage", label)
}

// cleanWithSnapshot: Clean with a directory snapshot at the occ-th occurrence
// of a hook point, oracle on the live log, then the snapshot is opened as the
// log (a process crash at that point) and the case continues on it.
func (c *c08RecCase) cleanWithSnapshot() bool {
	e, rng := c.e, c.rng
	point := c08RecPoints[rng.Intn(len(c08RecPoints))]
	nseg := len(e.log.Segments())
	occ := 1
	if nseg > 2 && rng.Bool() {
		occ = rng.Range(1, nseg-1)
	}
	if rng.Chance(2, 3) {
		e.log.mu.RLock()
		err := e.log.checkpointHW()
		e.log.mu.RUnlock()
		if err != nil {
			e.fail("C08:recovery-close", fmt.Sprintf("checkpointHW failed: %v", err), nil)
			return false
		}
		e.trace = append(e.trace, "CheckpointHW")
	}
	preModel := e.model
	must, nsegs, ok := e.cleanPrep()
	if !ok {
		return false
	}
	snap := vfTempDir("c08r-snap")
	run := &c08RecRun{point: point, occ: occ, src: e.dir, dst: snap, seen: map[string]int{}}
	gid := c08GoID()
	c08RecRuns.Store(gid, run)
	err := e.log.Clean()
	c08RecRuns.Delete(gid)
	if err != nil {
		os.RemoveAll(snap)
		e.fail("C08:clean-error", fmt.Sprintf("Clean failed: %v", err), nil)
		return false
	}
	e.cleans++
	nf := e.nfail
	if !e.verify(rng, must, nsegs) {
		os.RemoveAll(snap)
		return false
	}
	ev := fmt.Sprintf("crash@%s#%d", point, occ)
	switch {
	case run.err != nil:
		os.RemoveAll(snap)
		c.rep.Inconc(fmt.Sprintf("harness could not copy the directory at %s: %v", ev, run.err))
		return true
	case !run.taken:
		// the clean had fewer occurrences of the point (nothing to compact,
		// no segment emptied, ...): this round is a plain clean
		os.RemoveAll(snap)
		c.rep.Count("snapshot_point_not_reached", 1)
		c.events = append(c.events, "none")
		return true
	case e.nfail != nf:
		// the compaction itself was already reported; do not report its
		// consequences a second time under a recovery fingerprint
		os.RemoveAll(snap)
		return true
	}
	// ---- continue on the snapshot
	if !c.closeLog(ev) {
		os.RemoveAll(snap)
		return false
	}
	os.RemoveAll(e.dir)
	e.dir, e.opts.Path = snap, snap
	c.events = append(c.events, ev)
	e.trace = append(e.trace, "Crash["+ev+"]")
	c.rep.Count("event_crash_snapshot", 1)
	c.rep.Count("snapshot_at_"+point, 1)
	raw, err := vfScanDir(snap)
	if err != nil {
		e.fail("C08:crash-state:"+point, fmt.Sprintf("segment files in the snapshot at %s cannot be parsed: %v", ev, err), nil)
		return false
	}
	// the files of the snapshot: must-survive ⊆ files ⊆ before
	in := map[int64]bool{}
	for _, r := range preModel {
		in[r.Off] = true
	}
	have := map[int64]bool{}
	sparseSeen := false
	for _, s := range raw {
		if s.Trailing != 0 {
			e.fail("C08:crash-state:"+point, fmt.Sprintf("snapshot at %s: segment %s has %d trailing bytes", ev, s.File, s.Trailing), nil)
			return false
		}
		if c08IsSparse(s) {
			sparseSeen = true
		}
		for _, r := range s.Recs {
			if !in[r.Off] {
				e.fail("C08:crash-state:"+point, fmt.Sprintf("snapshot at %s: segment %s holds offset %d which was not in the log before the Clean (%v)", ev, s.File, r.Off, c08Offs(preModel)), nil)
				return false
			}
			have[r.Off] = true
		}
	}
	for _, r := range preModel {
		if why, need := must[r.Off]; need && !have[r.Off] {
			e.fail("C08:crash-state:"+point, fmt.Sprintf("snapshot at %s: message %v (%s) is in no segment file (files hold %v)", ev, r, why, c08Offs(c08Flat(raw))),
				map[string]any{"lost_offset": r.Off, "reason": why})
			return false
		}
	}
	if sparseSeen {
		c.rep.Count("crash_snapshots_with_sparse_segments", 1)
	}
	before := c.sparseRebuilds
	if sparseSeen {
		c.sparseSnapshots++
	}
	if !c.open(raw, "crash@"+point, "a crash at "+ev) {
		return false
	}
	if sparseSeen && c.sparseRebuilds == before {
		// compacted segments whose indexes were accepted as they are
		c.rep.Count("crash_snapshots_with_sparse_segments_recovered_without_rebuild", 1)
	}
	return true
}
