//go:build verif

package commitlog

// C01 — unit `limits`: messages at and beyond the width limits of the record
// format, i.e. inputs the encoder must either store exactly or REFUSE.
//
// The serialised message carries two 16-bit fields (encoder.go / message.go):
// the length of every header key and the number of headers.  The encoder
// documents int16 for both (32767), the decoder reads them back unsigned
// (65535), and above 65535 neither fits.  The other C01 units only generate
// header keys of a few bytes and at most three headers, so the outcome
// "Append returns an error" is never produced there and a message that is
// accepted but stored altered (length written modulo 2^16) is never read
// back.  Here short seeded programs (the same step/check machinery as the
// `programs` unit) append ONE message with a header key of length L or with N
// headers around those limits — alone or at any position of a batch with
// ordinary messages — between ordinary operations (appends, replicated sets,
// truncations, reopen, HW moves).
//
// Oracle (nothing is assumed about WHERE the limit lies):
//   - Append returned an error: no offset was handed out, and the log is
//     unchanged — NewestOffset, the read-back from every start offset and the
//     raw segment files still equal the model, and the next ordinary append
//     gets the next consecutive offset;
//   - Append returned no error: the offsets are the next consecutive ones and
//     every message of the batch reads back exactly as given (key, value,
//     every header key and value, timestamp, epoch), now and after every
//     later operation including a clean reopen.
//   An accepted-but-altered message, a panic in Append or in a read-back, a
//   partially stored batch or a consumed offset are violations.
//
// Key and value lengths are 32-bit fields (limit 2 GiB): not reachable here.

import (
	"fmt"
	"strings"
	"testing"

	kit "github.com/liftbridge-io/liftbridge/internal/verifkit"
)

type c01Edge struct {
	Kind   string // "hdrkey-len": one header key of N bytes; "hdr-count": N headers
	N      int
	Extra  int // hdrkey-len: ordinary headers next to the long one
	Second int // hdrkey-len: length of a second long key (0: none)
}

func (e c01Edge) String() string {
	if e.Kind == "hdr-count" {
		return fmt.Sprintf("hdr-count=%d", e.N)
	}
	s := fmt.Sprintf("hdrkey-len=%d", e.N)
	if e.Second > 0 {
		s += fmt.Sprintf("+%d", e.Second)
	}
	if e.Extra > 0 {
		s += fmt.Sprintf("+%dsmall", e.Extra)
	}
	return s
}

// class names the input class by the widest 16-bit quantity of the message.
func (e c01Edge) class() string {
	v := e.N
	if e.Kind == "hdrkey-len" && e.Second > v {
		v = e.Second
	}
	switch {
	case v <= 32767:
		return e.Kind + "<=32767"
	case v <= 65535:
		return e.Kind + "-32768..65535"
	default:
		return e.Kind + ">=65536"
	}
}

var (
	c01EdgeKeyLens = []int{255, 256, 1000, 32766, 32767, 32768, 32769, 40000, 65534, 65535, 65536, 65537, 70000, 98304, 131071, 131072, 131073}
	c01EdgeCounts  = []int{255, 256, 1000, 32766, 32767, 32768, 32769, 65535, 65536, 65537, 70000}
)

func c01PickEdge(rng *kit.RNG) c01Edge {
	if rng.Chance(1, 4) {
		return c01Edge{Kind: "hdr-count", N: c01EdgeCounts[rng.Intn(len(c01EdgeCounts))]}
	}
	e := c01Edge{Kind: "hdrkey-len", Extra: rng.Intn(3)}
	if rng.Chance(7, 10) {
		e.N = c01EdgeKeyLens[rng.Intn(len(c01EdgeKeyLens))]
	} else {
		e.N = rng.Range(30000, 140000)
	}
	if rng.Chance(1, 6) {
		e.Second = c01EdgeKeyLens[rng.Intn(len(c01EdgeKeyLens))]
		if e.Second == e.N {
			e.Second++
		}
	}
	return e
}

// c01LongKey: a header key of n arbitrary bytes (header keys are byte strings).
func c01LongKey(rng *kit.RNG, n int, printable bool) string {
	b := rng.Bytes(n)
	if printable {
		for i := range b {
			b[i] = 'a' + b[i]%26
		}
	}
	return string(b)
}

// c01EdgeRec builds the message under test on top of an ordinary one.
func (c *c01Run) c01EdgeRec(rng *kit.RNG, e c01Edge) vfRec {
	r := c.gen.next()
	r.Hdr = map[string][]byte{}
	switch e.Kind {
	case "hdr-count":
		for i := 0; i < e.N; i++ {
			var v []byte
			switch i % 3 {
			case 1:
				v = []byte{}
			case 2:
				v = []byte{byte(i)}
			}
			r.Hdr[fmt.Sprintf("k%05x", i)] = v
		}
	default:
		r.Hdr[c01LongKey(rng, e.N, rng.Bool())] = c.gen.bytesOf(rng.Intn(5))
		if e.Second > 0 {
			r.Hdr[c01LongKey(rng, e.Second, rng.Bool())] = c.gen.bytesOf(rng.Intn(5))
		}
		for i := 0; i < e.Extra; i++ {
			r.Hdr[[]string{"h", "reply"}[i%2]] = c.gen.bytesOf(1 + rng.Intn(4))
		}
	}
	return r
}

// c01AppendEdge appends a batch that contains the message under test and
// applies the accept-exactly-or-refuse-without-effect rule.  It reports
// whether the batch was accepted.
func (c *c01Run) c01AppendEdge(recs []vfRec, label string) (accepted bool) {
	c.trace = append(c.trace, label)
	msgs := make([]*Message, len(recs))
	for i := range recs {
		recs[i].Off = c.next() + int64(i)
		recs[i].Hdr = vfNormHdr(recs[i].Hdr)
		msgs[i] = recs[i].msg()
	}
	var (
		offs []int64
		err  error
		pnc  any
	)
	func() {
		defer func() { pnc = recover() }()
		offs, err = c.log.Append(msgs)
	}()
	if pnc != nil {
		c.fail("C01:limits:append-panic", fmt.Sprintf("Append(%s) panicked: %v", label, pnc))
		return false
	}
	if err != nil {
		if len(offs) != 0 {
			c.fail("C01:limits:refused-with-offsets", fmt.Sprintf("Append(%s) returned the error %q AND the offsets %v", label, err, offs))
		}
		// the caller's check() now demands an unchanged log, and its next
		// ordinary append the next consecutive offset
		return false
	}
	if len(offs) != len(recs) {
		c.fail("C01:append-offset", fmt.Sprintf("Append(%s) returned %d offsets for %d messages", label, len(offs), len(recs)))
		return false
	}
	for i, o := range offs {
		if o != recs[i].Off {
			c.fail("C01:append-offset", fmt.Sprintf("Append(%s) returned offsets %v, expected to start at %d", label, offs, recs[0].Off))
			return false
		}
	}
	// keep the twin "leader" log (source of replicated sets) identical
	func() {
		defer func() { pnc = recover() }()
		_, err = c.src.Append(msgs)
	}()
	if pnc != nil || err != nil {
		c.fail("C01:limits:nondeterministic-accept", fmt.Sprintf("Append(%s) was accepted by one log and not by an identical one: err=%v panic=%v", label, err, pnc))
		return false
	}
	c.model = append(c.model, recs...)
	return true
}

func TestVerifC01Limits(t *testing.T) {
	rep := kit.NewReport("C01", "limits")
	defer rep.Write()
	rep.SetRule("short seeded programs (0-3 ordinary ops, then ONE Append whose batch of 1-4 messages contains, at any position, a message with a header key of L bytes (L in {255,256,1000,32766..32769,40000,65534..65537,70000,98304,131071..131073} or random in [30000,140000], arbitrary or printable bytes, optionally a second long key and 0-2 ordinary headers) or with N headers (N in {255,256,1000,32766..32769,65535..65537,70000}), then an ordinary append and 1-4 ordinary ops incl. truncation and clean reopen, in a third of the programs a second such Append) over 7 MaxSegmentBytes values, with the per-step oracle of the programs unit (model compare of NewestOffset, read-back from every start offset committed+uncommitted, standing readers, raw parse of the .log files).  The Append under test must EITHER return an error, hand out no offset and leave the log unchanged (the next append gets the next consecutive offset) OR store every message of the batch so that it reads back exactly as given, now and after reopen; a panic in Append or in a reader, an accepted-but-altered message or a partially stored batch is a violation.  non-trivial = every program (it executed such an Append); distinct = input (L/N, batch position) + outcome + segment size")
	rep.Assume("where the limit lies is not part of the oracle: any message may be refused as long as refusal has no effect on the log; key and value lengths are 32-bit fields (2 GiB) and not exercised")
	root := kit.NewRNG(kit.Mix(kit.Seed(), 0xC0111))
	ncase := kit.Scale(44, 500)
	seeds := make([]uint64, ncase)
	for i := range seeds {
		seeds[i] = root.Uint64()
	}
	kit.Parallel(ncase, kit.Workers(), func(p int) {
		if rep.NumViolations() >= 6 {
			return
		}
		rng := kit.NewRNG(seeds[p])
		maxSeg := c01SegSizes[rng.Intn(len(c01SegSizes))]
		c := newC01Run(rep, rng, maxSeg)
		defer c.cleanup()
		if err := c.open(); err != nil {
			rep.Violation("C01:open-error", err.Error(), nil)
			return
		}
		// the first program of a run always uses the first inputs beyond both
		// representable widths, so that no seed leaves them out
		forced := map[int]c01Edge{
			0: {Kind: "hdrkey-len", N: 65536},
			1: {Kind: "hdrkey-len", N: 70000, Extra: 1},
			2: {Kind: "hdrkey-len", N: 32768},
			3: {Kind: "hdr-count", N: 32768},
			4: {Kind: "hdr-count", N: 65537},
			5: {Kind: "hdrkey-len", N: 32767},
			6: {Kind: "hdrkey-len", N: 65535},
		}
		ordinary := func(withTrunc bool) {
			if c.failed {
				return
			}
			var op c01Op
			switch x := rng.Intn(100); {
			case x < 40:
				op = c01Op{Kind: "A", N: rng.Range(1, 4)}
			case x < 60:
				n := rng.Range(1, 4)
				op = c01Op{Kind: "M", N: n, Chunk: rng.Range(1, n)}
			case x < 75 && withTrunc:
				off, cl := c.truncOffset(rng, rng.Intn(10))
				op = c01Op{Kind: "T", Arg: off, Class: cl}
			case x < 90 && withTrunc:
				op = c01Op{Kind: "R"}
			default:
				if c.next() == 0 {
					op = c01Op{Kind: "A", N: 1}
				} else {
					op = c01Op{Kind: "H", Arg: int64(rng.Intn(int(c.next())))}
				}
			}
			c.step(op)
			c.check(rng)
			c.standingStep(rng)
		}
		var sigs []string
		edgeAppend := func(e c01Edge) {
			if c.failed {
				return
			}
			b := 1
			if rng.Bool() {
				b = rng.Range(2, 4)
			}
			at := rng.Intn(b)
			recs := make([]vfRec, b)
			for i := range recs {
				if i == at {
					recs[i] = c.c01EdgeRec(rng, e)
				} else {
					recs[i] = c.gen.next()
				}
			}
			label := fmt.Sprintf("X[%s,batch=%d@%d]", e, b, at)
			c.fpTag = e.class()
			ok := c.c01AppendEdge(recs, label)
			outcome := "refused"
			if ok {
				outcome = "accepted"
			}
			rep.Count("edge_append_"+outcome+":"+e.class(), 1)
			if b > 1 {
				rep.Count("edge_message_inside_a_batch_with_ordinary_messages", 1)
			}
			sigs = append(sigs, fmt.Sprintf("%s@%d/%d:%s", e, at, b, outcome))
			c.check(rng)
			// the next ordinary append must get the next consecutive offset
			if !c.failed && (!ok || rng.Bool()) {
				c.step(c01Op{Kind: "A", N: rng.Range(1, 3)})
				c.check(rng)
			}
			// only what is observed right after the input is attributed to it
			c.fpTag = ""
			c.standingStep(rng)
		}
		e, isForced := forced[p]
		if !isForced {
			e = c01PickEdge(rng)
		}
		heavy := e.Kind == "hdr-count" && e.N > 1000
		npre, npost := rng.Range(0, 3), rng.Range(1, 4)
		if heavy {
			npre, npost = rng.Intn(2), rng.Range(1, 2)
		}
		for i := 0; i < npre; i++ {
			ordinary(i > 0)
		}
		edgeAppend(e)
		for i := 0; i < npost; i++ {
			ordinary(true)
		}
		if !heavy && rng.Chance(1, 3) {
			edgeAppend(c01PickEdgeLight(rng))
			ordinary(true)
		}
		// always end with a clean reopen: what was accepted must still be there
		if !c.failed {
			c.step(c01Op{Kind: "R"})
			c.check(rng)
		}
		c.standingDrain(rng)
		if p < 3 {
			rep.Sample(map[string]any{"maxSegmentBytes": maxSeg, "program": strings.Join(c.trace, " "), "final_messages": len(c.model)})
		}
		// evaluation + coverage counters of the shared machinery
		c.rep.Eval()
		c.rep.Count("program_steps", int64(len(c.trace)))
		c.rep.Count("reader_starts_checked", int64(c.readerStarts))
		c.rep.Count("truncations", int64(c.truncs))
		c.rep.Count("reopens", int64(c.reopens))
		c.rep.Count("standing_reader_reads", int64(c.standingReads))
		c.rep.Nontrivial(fmt.Sprintf("%d|%s", maxSeg, strings.Join(sigs, ",")))
	})
}

// c01PickEdgeLight: like c01PickEdge without the header-count inputs (a second
// edge append in the same program; keeps the read-back cost bounded).
func c01PickEdgeLight(rng *kit.RNG) c01Edge {
	for {
		if e := c01PickEdge(rng); e.Kind != "hdr-count" || e.N <= 1000 {
			return e
		}
	}
}
