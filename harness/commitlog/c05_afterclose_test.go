//go:build verif

package commitlog

// C05 unit `afterclose` — a CLOSED log must not touch its directory any more.
//
// A partition's log is closed while the process lives on whenever a stream is
// paused (and reopened by a NEW commitLog object on the same directory when it
// is resumed) and when a server shuts its partitions down.  What the next
// owner of the directory recovers after a crash is only well defined if the
// old object's background loops (HW checkpoint loop, cleaner loop) are really
// finished with the directory once Close() has returned.
//
// Each case opens a real log with very short checkpoint / cleaner intervals
// (so that ticks are pending at the moment of Close), appends, moves the HW,
// calls Close() and then plays the next owner: it writes a sentinel value into
// the HW checkpoint file and records the directory listing.  After a number of
// further tick periods the sentinel must still be there and the listing
// unchanged; a new commitLog on the directory must then recover the sentinel
// HW clamp rules aside (it is chosen <= newest offset) — i.e. exactly what the
// "next owner" wrote.  Any write by the closed object is a violation (with the
// stale value as witness); reach is timing dependent, the verdict is not.

import (
	"fmt"
	"os"
	"path/filepath"
	"sort"
	"strconv"
	"strings"
	"testing"
	"time"

	kit "github.com/liftbridge-io/liftbridge/internal/verifkit"
)

func c05acListing(dir string) string {
	ents, err := os.ReadDir(dir)
	if err != nil {
		return "ERR " + err.Error()
	}
	var out []string
	for _, e := range ents {
		fi, err := e.Info()
		if err != nil {
			continue
		}
		if e.Name() == hwFileName {
			continue // judged by content
		}
		out = append(out, fmt.Sprintf("%s:%d", e.Name(), fi.Size()))
	}
	sort.Strings(out)
	return strings.Join(out, " ")
}

func TestVerifC05AfterClose(t *testing.T) {
	rep := kit.NewReport("C05", "afterclose")
	defer rep.Write()
	rep.SetRule("seeded cases: a real log with HW checkpoint and cleaner intervals of 100..400 microseconds (ticks are pending whenever Close is called), 3..40 appended messages over 1..6 segments, HW moved, optionally retention / compaction configured; Close(); the harness then acts as the next owner of the directory: writes a sentinel HW (a valid offset different from the closed log's HW) into the checkpoint file and lists the directory; after 30 further tick periods the checkpoint file must still hold the sentinel, the listing must be unchanged, and a new log opened on the directory must recover exactly the sentinel HW; non-trivial = case in which the closed log's HW differed from the sentinel (a stale write would be visible); distinct = segments x interval x cleaner configuration")
	rep.Assume("reach depends on timing (a tick must be pending while Close runs); the verdict does not: any write into the directory after Close() has returned is a violation")
	n := kit.Scale(400, 6000)
	root := kit.NewRNG(kit.Mix(kit.Seed(), 0xC05AC))
	seeds := make([]uint64, n)
	for i := range seeds {
		seeds[i] = root.Uint64()
	}
	kit.Parallel(n, kit.Workers(), func(i int) {
		rng := kit.NewRNG(seeds[i])
		dir := vfTempDir("c05ac")
		defer os.RemoveAll(dir)
		iv := time.Duration(rng.Range(100, 400)) * time.Microsecond
		o := vfOpts(dir, int64([]int{120, 300, 1000, 1 << 20}[rng.Intn(4)]))
		o.HWCheckpointInterval = iv
		o.CleanerInterval = iv
		clean := rng.Intn(3)
		switch clean {
		case 1:
			o.MaxLogMessages = int64(rng.Range(2, 10))
		case 2:
			o.Compact = true
		}
		l, err := vfOpen(o)
		if err != nil {
			rep.Inconc("open: " + err.Error())
			return
		}
		nmsg := rng.Range(3, 40)
		var newest int64 = -1
		for k := 0; k < nmsg; {
			b := rng.Range(1, 4)
			var msgs []*Message
			for j := 0; j < b; j++ {
				msgs = append(msgs, &Message{Key: []byte(fmt.Sprintf("k%d", rng.Intn(5))), Value: rng.Bytes(rng.Range(1, 40)), Timestamp: int64(1000 + k + j), LeaderEpoch: 1, MagicByte: 2})
			}
			offs, err := l.Append(msgs)
			if err != nil {
				rep.Inconc("append: " + err.Error())
				l.Close()
				return
			}
			newest = offs[len(offs)-1]
			k += b
			if rng.Chance(1, 3) {
				l.SetHighWatermark(newest - int64(rng.Intn(2)))
			}
		}
		hw := newest - int64(rng.Intn(3))
		if hw < 0 {
			hw = 0
		}
		l.SetHighWatermark(hw)
		closedHW := l.HighWatermark()
		nseg := len(l.Segments())
		if err := l.Close(); err != nil {
			rep.Inconc("close: " + err.Error())
			return
		}
		rep.Eval()
		// next owner
		oldest := l.OldestOffset()
		sentinel := closedHW - 1
		if sentinel < oldest {
			sentinel = closedHW // cannot differ: case is trivial
		}
		hwPath := filepath.Join(dir, hwFileName)
		if err := os.WriteFile(hwPath, []byte(strconv.FormatInt(sentinel, 10)), 0666); err != nil {
			rep.Inconc("sentinel write: " + err.Error())
			return
		}
		before := c05acListing(dir)
		time.Sleep(30 * iv)
		got, err := os.ReadFile(hwPath)
		after := c05acListing(dir)
		replay := map[string]any{"case_seed": seeds[i], "interval_us": iv.Microseconds(), "segments": nseg, "cleaner": clean, "closed_hw": closedHW, "sentinel_hw": sentinel, "listing_before": before, "listing_after": after}
		if err != nil || strings.TrimSpace(string(got)) != strconv.FormatInt(sentinel, 10) {
			rep.Violation("C05:closed-log-wrote-after-close:hw-checkpoint", fmt.Sprintf("after Close() had returned and the next owner of the directory had written HW checkpoint %d, the closed log object overwrote the checkpoint file (now %q, read error %v; the closed log's HW was %d): a reopened log recovers a HW that is not the one last checkpointed by its owner", sentinel, strings.TrimSpace(string(got)), err, closedHW), replay)
			return
		}
		if before != after {
			rep.Violation("C05:closed-log-wrote-after-close:files", fmt.Sprintf("the directory listing changed after Close() had returned: before [%s] after [%s]", before, after), replay)
			return
		}
		l2, err := vfOpen(vfOpts(dir, o.MaxSegmentBytes))
		if err != nil {
			rep.Violation("C05:closed-log-wrote-after-close:reopen-error", "reopen after Close failed: "+err.Error(), replay)
			return
		}
		rhw := l2.HighWatermark()
		l2.Close()
		if rhw != sentinel {
			rep.Violation("C05:closed-log-wrote-after-close:recovered-hw", fmt.Sprintf("a new log on the directory recovered HW %d, the checkpoint its owner wrote last says %d", rhw, sentinel), replay)
			return
		}
		rep.Count("closed_logs_silent", 1)
		if sentinel != closedHW {
			rep.Nontrivial(fmt.Sprintf("seg%d|iv%d|clean%d", nseg, iv.Microseconds()/100, clean))
		}
		if i < 2 {
			rep.Sample(replay)
		}
	})
}
