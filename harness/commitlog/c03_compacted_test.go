//go:build verif

package commitlog

// C03, unit "compacted": committed readers on logs from which REAL compaction
// has removed messages.
//
// The other C03 units only ever read dense logs (the "cleaner" unit runs
// compaction passes that have nothing to remove).  Here every case builds a log
// of at least three segments whose keys repeat, so that a compaction pass
// leaves sparse sealed segments: gaps at the head, in the middle and at the
// TAIL of sealed non-final segments (the retained tail of a segment ends
// before the base offset of the following one), segments with one survivor,
// segments that disappear entirely.  One driver goroutine is the only writer
// (append, SetHighWatermark, Clean), so the state before and after every step
// is exact.
//
// Readers (all committed):
//
//	(a) started AFTER a pass at every offset 0..log end+1 - inside every kind of
//	    gap, on first / last retained offsets, on base offsets, above the HW;
//	(b) IN FLIGHT when the pass replaces the segment they are in:
//	    created-but-unread at every offset, between two reads at every position
//	    (just delivered offset p, for every retained p), and parked: real
//	    goroutines blocked in ReadMessage at the HW / beyond the HW (registered
//	    in hwWaiters) that are woken by a later HW advance.
//
// Oracle (from the property): a committed reader positioned at q delivers next
// the first retained message with offset >= q if that is <= HW, with the
// content that was appended at that offset, and otherwise waits; never an
// error, never an offset above the HW sampled after the read.  "Retained" is
// what is in the segment files after the pass (independent raw parse), which
// must lie between the must-survive set the harness computes from the keys it
// wrote (nil key, latest message of a key among offsets <= HW, offset >= HW,
// newest segment) and what was present before; if it does not, the case is
// given up as inconclusive (what compaction keeps is C08's property).
//
// "Would have to wait" is observed without a clock: the between-reads readers
// are polled with an already cancelled context (ReadMessage then returns io.EOF
// instead of parking); the parked readers are judged by the state predicate
// "all live readers registered in hwWaiters (log mutex held) and nothing left
// in their channels".

import (
	"context"
	"fmt"
	"io"
	"os"
	"sort"
	"strings"
	"testing"
	"time"

	pkgErrors "github.com/pkg/errors"

	kit "github.com/liftbridge-io/liftbridge/internal/verifkit"
)

const c03cValLen = 8

// c03cRec builds the message stored at offset o.  Every message has the same
// encoded size (keys are nil or 3 bytes; a nil key is made up for by a longer
// value), so a segment holds exactly m single-message appends.
func c03cRec(o int64, key string) vfRec {
	rec := vfRec{Off: o, TS: 5000 + 2*o, Epoch: 1 + uint64(o/17)}
	n := c03cValLen
	if key == "-" {
		n += 3
	} else {
		rec.Key = []byte(key)
	}
	v := []byte(fmt.Sprintf("%0*d", n, o))
	rec.Val = v
	return rec
}

type c03cItem struct {
	rec vfRec
	err error
}

type c03cReader struct {
	id      int
	r       *Reader
	start   int64
	hwc     int64 // HW when the reader was created
	last    int64
	any     bool
	mode    string // after-compaction | created-unread | between-reads | parked
	dead    bool
	passes  int // compaction passes that ran since the last delivery
	crossed bool
	// live (goroutine) readers only
	ch     chan c03cItem
	cancel context.CancelFunc
}

// lb is the offset the reader is positioned at: the next message it owes is
// the first retained one with offset >= lb.
func (rd *c03cReader) lb() int64 {
	switch {
	case rd.any:
		return rd.last + 1
	case rd.start > rd.hwc:
		// documented clamp: a start above the HW means "next committed message"
		return rd.hwc + 1
	case rd.start < 0:
		return 0
	}
	return rd.start
}

type c03cExec struct {
	rep   *kit.Report
	idx   int
	seed  uint64
	rng   *kit.RNG
	l     *commitLog
	dir   string
	m     int
	keys  []string        // key of every appended message by offset ("-" = nil)
	orig  map[int64]vfRec // what was appended
	pres  []int64         // offsets present (ascending), per the last raw parse
	hw    int64
	segs  []vfRawSegment // last raw parse
	bases map[int64]bool // every segment base offset ever seen
	trace []string
	dead  bool

	polled []*c03cReader
	live   []*c03cReader
	nextID int

	removed, passes, passesRemoving int
	classes                         map[string]bool
	hb                              []byte
}

func (x *c03cExec) witness(extra map[string]any) map[string]any {
	w := map[string]any{
		"seed": kit.Seed(), "case": x.idx, "case_seed": x.seed, "messages_per_segment": x.m,
		"keys_by_offset":   strings.Join(x.keys, " "),
		"steps":            strings.Join(x.trace, " "),
		"hw":               x.hw,
		"retained_offsets": fmt.Sprint(x.pres),
		"segment_bases":    fmt.Sprint(x.curBases()),
	}
	for k, v := range extra {
		w[k] = v
	}
	return w
}

func (x *c03cExec) fail(fp, what string, extra map[string]any) {
	x.rep.Violation(fp, what, x.witness(extra))
}

func (x *c03cExec) curBases() []int64 {
	b := make([]int64, len(x.segs))
	for i, s := range x.segs {
		b[i] = s.Base
	}
	return b
}

// scan parses the segment files (no index, no segment objects).
func (x *c03cExec) scan() bool {
	raw, err := vfScanDir(x.dir)
	if err != nil {
		x.rep.Inconc(fmt.Sprintf("case %d: raw parse of the segment files failed: %v", x.idx, err))
		x.dead = true
		return false
	}
	x.segs = raw
	x.pres = x.pres[:0]
	for _, s := range raw {
		x.bases[s.Base] = true
		for _, r := range s.Recs {
			x.pres = append(x.pres, r.Off)
		}
	}
	return true
}

func (x *c03cExec) present(q int64) bool {
	i := sort.Search(len(x.pres), func(i int) bool { return x.pres[i] >= q })
	return i < len(x.pres) && x.pres[i] == q
}

// nextRetained returns the first present offset >= q.
func (x *c03cExec) nextRetained(q int64) (int64, bool) {
	i := sort.Search(len(x.pres), func(i int) bool { return x.pres[i] >= q })
	if i == len(x.pres) {
		return 0, false
	}
	return x.pres[i], true
}

// posClass names where offset q lies in the current (possibly sparse) log.
func (x *c03cExec) posClass(q int64) string {
	if q > x.hw {
		return "above-hw"
	}
	if len(x.segs) == 0 {
		return "empty-log"
	}
	// the segment q was written to
	ob := int64(-1)
	for b := range x.bases {
		if b <= q && b > ob {
			ob = b
		}
	}
	var seg *vfRawSegment
	for i := range x.segs {
		if x.segs[i].Base == ob {
			seg = &x.segs[i]
		}
	}
	if seg == nil {
		return "dropped-segment"
	}
	final := seg.Base == x.segs[len(x.segs)-1].Base
	if len(seg.Recs) == 0 {
		return "empty-segment"
	}
	f, l := seg.Recs[0].Off, seg.Recs[len(seg.Recs)-1].Off
	if x.present(q) {
		switch {
		case final:
			return "retained-in-final-segment"
		case q == f && q == l:
			return "only-retained-of-segment"
		case q == f:
			return "first-retained-of-segment"
		case q == l:
			return "last-retained-of-segment"
		}
		return "retained"
	}
	switch {
	case q < f:
		return "head-gap"
	case q > l:
		if final {
			return "log-end"
		}
		return "tail-gap"
	}
	return "middle-gap"
}

// must computes the must-survive set of a compaction pass started now, from
// the keys the harness wrote: nil key, offset >= HW, newest segment, latest
// message of its key among the offsets <= HW.
func (x *c03cExec) must(newestBase int64) map[int64]bool {
	latest := map[string]int64{}
	for _, o := range x.pres {
		if k := x.keys[o]; k != "-" && o <= x.hw {
			latest[k] = o
		}
	}
	must := map[int64]bool{}
	for _, o := range x.pres {
		k := x.keys[o]
		if o >= newestBase || o >= x.hw || k == "-" || latest[k] == o {
			must[o] = true
		}
	}
	return must
}

func (x *c03cExec) appendKeys(keys []string) bool {
	for i := 0; i < len(keys); {
		n := 1
		if x.rng.Chance(1, 6) && i+1 < len(keys) {
			n = 2
		}
		msgs := make([]*Message, n)
		for k := 0; k < n; k++ {
			o := int64(len(x.keys))
			rec := c03cRec(o, keys[i+k])
			x.orig[o] = rec
			x.keys = append(x.keys, keys[i+k])
			msgs[k] = rec.msg()
		}
		offs, err := x.l.Append(msgs)
		if err != nil || len(offs) != n || offs[0] != int64(len(x.keys)-n) {
			x.rep.Inconc(fmt.Sprintf("case %d: Append returned %v, %v (expected offset %d)", x.idx, offs, err, len(x.keys)-n))
			x.dead = true
			return false
		}
		i += n
	}
	x.trace = append(x.trace, fmt.Sprintf("A%d", len(keys)))
	return x.scan()
}

func (x *c03cExec) setHW(h int64) {
	x.l.SetHighWatermark(h)
	if h > x.hw {
		x.hw = h
	}
	x.trace = append(x.trace, fmt.Sprintf("HW=%d", h))
}

// clean runs one real pass and re-reads the segment files.
func (x *c03cExec) clean() bool {
	if len(x.segs) == 0 {
		return false
	}
	before := append([]int64(nil), x.pres...)
	must := x.must(x.segs[len(x.segs)-1].Base)
	if err := x.l.Clean(); err != nil {
		x.rep.Inconc(fmt.Sprintf("case %d: Clean failed: %v", x.idx, err))
		x.dead = true
		return false
	}
	if !x.scan() {
		return false
	}
	was := map[int64]bool{}
	for _, o := range before {
		was[o] = true
	}
	for _, o := range x.pres {
		if !was[o] {
			x.rep.Inconc(fmt.Sprintf("case %d: offset %d is in the segment files after the pass but was not before (C08's business)", x.idx, o))
			x.dead = true
			return false
		}
	}
	for o := range must {
		if !x.present(o) {
			x.rep.Inconc(fmt.Sprintf("case %d: offset %d (key %s, HW %d) must survive compaction but is gone from the segment files (C08's business)", x.idx, o, x.keys[o], x.hw))
			x.dead = true
			return false
		}
	}
	if len(x.pres) == len(must) {
		x.rep.Count("passes_result_equals_computed_retained_set", 1)
	}
	x.passes++
	if d := len(before) - len(x.pres); d > 0 {
		x.removed += d
		x.passesRemoving++
	}
	x.trace = append(x.trace, fmt.Sprintf("Clean(retained=%v)", x.pres))
	for _, rd := range x.polled {
		rd.passes++
	}
	for _, rd := range x.live {
		rd.passes++
	}
	// which gap shapes exist now (sealed non-final segments)
	for i := 0; i+1 < len(x.segs); i++ {
		s := x.segs[i]
		if len(s.Recs) == 0 {
			continue
		}
		f, l := s.Recs[0].Off, s.Recs[len(s.Recs)-1].Off
		if f > s.Base {
			x.classes["head-gap"] = true
		}
		if l+1 < x.segs[i+1].Base {
			x.classes["tail-gap"] = true
		}
		if int64(len(s.Recs)) < l-f+1 {
			x.classes["middle-gap"] = true
		}
		if len(s.Recs) == 1 {
			x.classes["single-survivor"] = true
		}
	}
	for b := range x.bases {
		found := false
		for _, s := range x.segs {
			if s.Base == b {
				found = true
			}
		}
		if !found {
			x.classes["dropped-segment"] = true
		}
	}
	return true
}

// judge compares one observation of reader rd (a delivery, "would have to
// wait", or an error) with what the reader owes.  Returns false when the
// reader cannot be used any further.
func (x *c03cExec) judge(rd *c03cReader, got bool, rec vfRec, err error) bool {
	lb := rd.lb()
	want, ok := x.nextRetained(lb)
	owes := ok && want <= x.hw
	pc := x.posClass(lb)
	where := rd.mode + ":" + pc
	desc := fmt.Sprintf("committed reader #%d (start=%d, HW at creation %d, mode %s, delivered through %d, %d compaction passes since its last delivery) positioned at offset %d [%s], HW=%d",
		rd.id, rd.start, rd.hwc, rd.mode, rd.last, rd.passes, lb, pc, x.hw)
	extra := map[string]any{"reader_start": rd.start, "reader_position": lb, "position_class": pc, "reader_mode": rd.mode}
	x.rep.Count("observations_"+rd.mode, 1)
	x.rep.Count("position_"+pc, 1)
	if rd.passes > 0 && !rd.crossed {
		rd.crossed = true
		x.rep.Count("readers_in_flight_across_a_pass_"+rd.mode, 1)
	}
	switch {
	case err != nil:
		rd.dead = true
		owed := "it owes nothing yet (must wait)"
		if owes {
			owed = fmt.Sprintf("it owes retained committed offset %d next", want)
		}
		x.fail("C03:compacted:reader-error:"+where, fmt.Sprintf("%s: ReadMessage failed: %v; %s", desc, err, owed), extra)
		return false
	case got && rec.Off > x.l.HighWatermark():
		rd.dead = true
		x.fail("C03:compacted:uncommitted-delivered:"+where, fmt.Sprintf("%s: delivered offset %d above the HW %d", desc, rec.Off, x.l.HighWatermark()), extra)
		return false
	case got && (!owes || rec.Off != want):
		rd.dead = true
		kind := "skipped-retained"
		switch {
		case rec.Off < lb:
			kind = "duplicate-or-reorder"
		case !x.present(rec.Off):
			kind = "removed-message-delivered"
		}
		exp := "nothing (must wait)"
		if owes {
			exp = fmt.Sprint(want)
		}
		x.fail("C03:compacted:"+kind+":"+where, fmt.Sprintf("%s: delivered offset %d, expected %s", desc, rec.Off, exp), extra)
		return false
	case got:
		o := x.orig[rec.Off]
		o.Hdr = vfNormHdr(o.Hdr)
		if !vfSameRec(rec, o) {
			rd.dead = true
			x.fail("C03:compacted:content:"+where, fmt.Sprintf("%s: delivered %v, appended %v", desc, rec, o), extra)
			return false
		}
		rd.any, rd.last, rd.passes = true, rec.Off, 0
		x.rep.Count("committed_reads", 1)
		return true
	case owes:
		rd.dead = true
		x.fail("C03:compacted:not-delivered:"+where, fmt.Sprintf("%s: the reader has nothing to deliver (waits for the HW) although retained offset %d <= HW is owed", desc, want), extra)
		return false
	}
	return true // waits, and owes nothing
}

// poll performs one non-blocking read: ReadMessage with a cancelled context
// returns io.EOF where it would otherwise park.
func (x *c03cExec) poll(rd *c03cReader) (delivered bool) {
	if rd.dead {
		return false
	}
	var (
		rec vfRec
		got bool
		err error
	)
	func() {
		defer func() {
			if p := recover(); p != nil {
				err = fmt.Errorf("panic: %v", p)
			}
		}()
		m, off, ts, ep, rerr := rd.r.ReadMessage(vfCancelled, x.hb)
		if rerr != nil {
			if pkgErrors.Cause(rerr) != io.EOF {
				err = rerr
			}
			return
		}
		rec, err = vfDecode(m, off, ts, ep)
		got = err == nil
	}()
	return x.judge(rd, got, rec, err) && got
}

// drain polls until the reader has to wait.
func (x *c03cExec) drain(rd *c03cReader) {
	for i := 0; i <= len(x.keys)+2 && x.poll(rd); i++ {
	}
}

func (x *c03cExec) newReader(start int64, mode string) *c03cReader {
	rd := &c03cReader{id: x.nextID, start: start, hwc: x.hw, last: -1, mode: mode}
	x.nextID++
	var (
		r   *Reader
		err error
	)
	func() {
		defer func() {
			if p := recover(); p != nil {
				err = fmt.Errorf("panic: %v", p)
			}
		}()
		r, err = x.l.NewReader(start, false)
	}()
	if err != nil {
		pc := x.posClass(rd.lb())
		x.rep.Count("position_"+pc, 1)
		x.fail("C03:compacted:reader-open:start-in-"+pc, fmt.Sprintf("NewReader(%d, committed) failed: %v; offset %d lies in [%s], HW=%d", start, err, start, pc, x.hw),
			map[string]any{"reader_start": start, "position_class": pc})
		return nil
	}
	rd.r = r
	x.rep.Count("readers_"+mode, 1)
	return rd
}

// goLive turns a reader into a goroutine that reads as far as it can and
// parks in ReadMessage.
func (x *c03cExec) goLive(rd *c03cReader) {
	rd.mode = "parked"
	rd.ch = make(chan c03cItem, 4*len(x.keys)+256)
	ctx, cancel := context.WithCancel(context.Background())
	rd.cancel = cancel
	x.live = append(x.live, rd)
	r, ch := rd.r, rd.ch
	go func() {
		defer close(ch)
		defer func() {
			if p := recover(); p != nil {
				ch <- c03cItem{err: fmt.Errorf("panic: %v", p)}
			}
		}()
		hb := make([]byte, 28)
		for {
			m, off, ts, ep, err := r.ReadMessage(ctx, hb)
			if err != nil {
				if ctx.Err() == nil {
					ch <- c03cItem{err: err}
				}
				return
			}
			rec, derr := vfDecode(m, off, ts, ep)
			if derr != nil {
				ch <- c03cItem{err: fmt.Errorf("offset %d: %v", off, derr)}
				return
			}
			ch <- c03cItem{rec: rec}
		}
	}()
}

func (x *c03cExec) drainLive() {
	for _, rd := range x.live {
		for !rd.dead {
			select {
			case it, ok := <-rd.ch:
				if !ok {
					rd.dead = true
					break
				}
				if !x.judge(rd, it.err == nil, it.rec, it.err) {
					x.retire(rd)
				}
				continue
			default:
			}
			break
		}
	}
}

// settle waits until every live reader is registered in hwWaiters (all
// hwWaiters entries of this log belong to them: polled reads unregister before
// they return), then judges what they delivered and that none of them still
// owes a message.
func (x *c03cExec) settle(step string) bool {
	deadline := time.Now().Add(40 * time.Second)
	for spins := 0; ; spins++ {
		x.drainLive()
		alive := 0
		for _, rd := range x.live {
			if !rd.dead {
				alive++
			}
		}
		x.l.mu.RLock()
		parked := len(x.l.hwWaiters)
		x.l.mu.RUnlock()
		if parked == alive {
			x.drainLive() // whatever was sent before the last one parked
			for _, rd := range x.live {
				if rd.dead {
					continue
				}
				if !x.judge(rd, false, vfRec{}, nil) { // parked: owes nothing?
					x.retire(rd)
				}
				if rd.passes > 0 {
					x.rep.Count("parked_reader_settles_after_a_pass", 1)
				}
			}
			return true
		}
		if time.Now().After(deadline) {
			x.rep.Inconc(fmt.Sprintf("case %d (seed %d) %s: watchdog, %d of %d live committed readers registered in hwWaiters", x.idx, x.seed, step, parked, alive))
			x.dead = true
			return false
		}
		if spins < 50 {
			time.Sleep(0)
		} else {
			time.Sleep(50 * time.Microsecond)
		}
	}
}

// retire ends the goroutine of a live reader that was judged faulty, so that it
// no longer counts among the hwWaiters.
func (x *c03cExec) retire(rd *c03cReader) {
	rd.dead = true
	rd.cancel()
	timeout := time.After(20 * time.Second)
	for {
		select {
		case _, ok := <-rd.ch:
			if !ok {
				return
			}
		case <-timeout:
			return
		}
	}
}

func (x *c03cExec) stopLive() {
	for _, rd := range x.live {
		if rd.cancel != nil {
			rd.cancel()
		}
	}
	for _, rd := range x.live {
		timeout := time.After(20 * time.Second)
	L:
		for {
			select {
			case _, ok := <-rd.ch:
				if !ok {
					break L
				}
			case <-timeout:
				break L
			}
		}
	}
}

// c03cPhaseKeys generates the keys of one chunk of messages.  dup keys repeat
// (their older messages become removable once a later one is committed),
// unique keys and nil keys are always retained.
func (x *c03cExec) phaseKeys(n int, style int) []string {
	rng := x.rng
	base := len(x.keys)
	keys := make([]string, n)
	uniq := func(o int) string { return fmt.Sprintf("u%02x", o&0xff) }
	switch style {
	case 0: // small alphabet, gaps anywhere
		a := rng.Range(1, 3)
		for i := range keys {
			switch {
			case rng.Chance(1, 9):
				keys[i] = "-"
			case rng.Chance(1, 5):
				keys[i] = uniq(base + i)
			default:
				keys[i] = fmt.Sprintf("d%02d", rng.Intn(a))
			}
		}
	default: // per segment a shape: which positions of the segment are removable
		var shape []bool
		for i := range keys {
			pos := (base + i) % x.m
			if shape == nil || pos == 0 {
				shape = make([]bool, x.m) // true = removable
				t := rng.Range(1, x.m)
				switch rng.Intn(7) {
				case 0, 1: // tail gap
					for k := x.m - t; k < x.m; k++ {
						shape[k] = true
					}
				case 2: // head gap
					for k := 0; k < t && k < x.m-1; k++ {
						shape[k] = true
					}
				case 3: // middle gap
					for k := 1; k < x.m-1; k++ {
						shape[k] = true
					}
				case 4: // head and tail, one survivor
					for k := range shape {
						shape[k] = k != t-1
					}
				case 5: // whole segment
					for k := range shape {
						shape[k] = true
					}
				default: // dense
				}
			}
			switch {
			case shape[pos]:
				keys[i] = "d00"
			case rng.Chance(1, 8):
				keys[i] = "-"
			default:
				keys[i] = uniq(base + i)
			}
		}
		// the superseding message (latest of the dup key) near the end of the chunk
		back := 0
		if n >= 2 && rng.Bool() {
			back = 1
		}
		keys[n-1-back] = "d00"
	}
	return keys
}

func c03cCase(rep *kit.Report, idx int, seed uint64) {
	rng := kit.NewRNG(seed)
	x := &c03cExec{rep: rep, idx: idx, seed: seed, rng: rng, orig: map[int64]vfRec{}, hw: -1, bases: map[int64]bool{},
		classes: map[string]bool{}, hb: make([]byte, 28)}
	x.m = rng.Range(2, 6)
	x.dir = vfTempDir("c03c")
	defer os.RemoveAll(x.dir)
	probe, _, err := newMessageSetFromProto(0, 0, []*Message{c03cRec(0, "d00").msg()}, false)
	if err != nil {
		rep.Inconc(fmt.Sprintf("case %d: %v", idx, err))
		return
	}
	o := vfOpts(x.dir, int64(x.m*len(probe)))
	o.Compact = true
	o.CompactMaxGoroutines = rng.Range(1, 3)
	l, err := vfOpen(o)
	if err != nil {
		rep.Inconc(fmt.Sprintf("case %d: open: %v", idx, err))
		return
	}
	x.l = l
	defer l.Close()
	defer x.stopLive()
	rep.Eval()

	phases := rng.Range(2, 3)
	style := rng.Intn(3) // 0 alphabet, 1/2 shaped
	for ph := 0; ph < phases && !x.dead && rep.NumViolations() < 8; ph++ {
		// ---- append
		n := rng.Range(1, 2*x.m+1)
		if ph == 0 {
			n = x.m*rng.Range(3, 5) + rng.Range(1, x.m)
		}
		if !x.appendKeys(x.phaseKeys(n, style)) {
			return
		}
		newest := int64(len(x.keys) - 1)
		// ---- commit: any offset in [HW, newest]
		h := newest
		switch rng.Intn(10) {
		case 0, 1, 2:
			h = x.hw + int64(rng.Intn(int(newest-x.hw)+1))
		case 3:
			s := x.segs[rng.Intn(len(x.segs))]
			h = s.Base
		case 4, 5:
			s := x.segs[rng.Intn(len(x.segs))]
			h = s.Base - 1
		}
		if h < x.hw || h < 0 || h > newest {
			h = newest
		}
		x.setHW(h)
		if len(x.live) > 0 && !x.settle("after HW advance") {
			return
		}
		// readers that stayed in flight from the previous phase: some move on now
		for _, rd := range x.polled {
			if !rd.dead && rng.Chance(1, 3) {
				x.poll(rd)
			}
		}
		// ---- readers in flight when the pass runs
		for s := int64(0); s <= newest+2; s++ {
			if rd := x.newReader(s, "created-unread"); rd != nil {
				x.polled = append(x.polled, rd)
			}
		}
		for _, p := range append([]int64(nil), x.pres...) {
			if p > x.hw {
				break
			}
			// just delivered p
			if rd := x.newReader(p, "between-reads"); rd != nil {
				x.poll(rd)
				x.polled = append(x.polled, rd)
			}
			// came from further back and delivered through p
			if len(x.pres) <= 24 || rng.Bool() {
				if rd := x.newReader(int64(rng.Intn(int(p)+1)), "between-reads"); rd != nil {
					for !rd.dead && (!rd.any || rd.last < p) && x.poll(rd) {
					}
					x.polled = append(x.polled, rd)
				}
			}
		}
		nl := 2
		if ph == 0 {
			nl = 5
		}
		for k := 0; k < nl; k++ {
			s := x.hw
			switch k {
			case 0:
				s = x.hw // delivers the HW message, parks behind it
			case 1:
				s = x.hw + 1
			case 2:
				s = int64(rng.Intn(int(x.hw) + 1))
			case 3:
				s = x.hw + int64(rng.Range(2, 9))
			case 4:
				s = 0
			}
			if rd := x.newReader(s, "parked"); rd != nil {
				x.goLive(rd)
			}
		}
		if !x.settle("before the pass") {
			return
		}
		// ---- the pass
		if !x.clean() {
			return
		}
		if !x.settle("after the pass") {
			return
		}
		// ---- (a) readers started on the compacted log, at every offset
		for s := int64(0); s <= newest+2; s++ {
			rd := x.newReader(s, "after-compaction")
			if rd == nil {
				continue
			}
			x.drain(rd)
			if s > x.hw && rng.Chance(1, 2) {
				rd.mode = "created-unread"
				x.polled = append(x.polled, rd)
			}
		}
		// ---- (b) the in-flight readers continue
		for _, rd := range x.polled {
			if rd.dead {
				continue
			}
			switch v := rng.Intn(20); {
			case v < 12:
				x.drain(rd)
			case v < 17:
				x.poll(rd)
			}
		}
		// ---- commit further (wakes the parked readers)
		if x.hw < newest {
			steps := rng.Range(1, 2)
			for st := 0; st < steps && x.hw < newest && !x.dead; st++ {
				h2 := x.hw + 1 + int64(rng.Intn(int(newest-x.hw)))
				if st == steps-1 && rng.Bool() {
					h2 = newest
				}
				x.setHW(h2)
				if !x.settle("after HW advance behind the pass") {
					return
				}
			}
		}
		// drop finished polled readers beyond a bound (keeps the pool small)
		keep := x.polled[:0]
		for _, rd := range x.polled {
			if !rd.dead && (len(keep) < 400) {
				keep = append(keep, rd)
			}
		}
		x.polled = keep
	}
	if x.dead {
		return
	}
	// ---- final: everything committed, one more pass, everybody catches up
	newest := int64(len(x.keys) - 1)
	if x.hw < newest {
		x.setHW(newest)
		if !x.settle("final HW") {
			return
		}
	}
	if !x.clean() || !x.settle("after the final pass") {
		return
	}
	for _, rd := range x.polled {
		x.drain(rd)
	}
	for s := int64(0); s <= newest+1; s++ {
		if rd := x.newReader(s, "after-compaction"); rd != nil {
			x.drain(rd)
		}
	}
	rep.Count("compaction_passes", int64(x.passes))
	rep.Count("compaction_passes_that_removed_messages", int64(x.passesRemoving))
	rep.Count("messages_removed_by_compaction", int64(x.removed))
	rep.Max("max_segments_in_a_log", int64(len(x.bases)))
	cl := make([]string, 0, len(x.classes))
	for c := range x.classes {
		cl = append(cl, c)
		rep.Count("logs_with_"+c, 1)
	}
	sort.Strings(cl)
	if len(x.bases) >= 3 && x.passesRemoving > 0 && x.classes["tail-gap"] {
		rep.Nontrivial(fmt.Sprintf("m=%d|%s|phases=%d|n=%d|style=%d", x.m, strings.Join(cl, ","), phases, len(x.keys), style))
	}
	if idx < 3 {
		rep.Sample(map[string]any{"case": idx, "keys_by_offset": strings.Join(x.keys, " "), "steps": strings.Join(x.trace, " "), "gap_classes": cl})
	}
}

func TestVerifC03Compacted(t *testing.T) {
	rep := kit.NewReport("C03", "compacted")
	defer rep.Write()
	rep.SetRule("seeded sequential cases on the real commit log with Compact=true, one driver goroutine as the only writer: 2..3 phases of {append a chunk whose keys repeat (small alphabet, or per-segment shapes: removable tail / head / middle / all but one / whole segment, superseded by a later message), SetHighWatermark(any offset in [HW, log end], incl. segment bases and last offsets of segments), create the in-flight committed readers, Clean() = one real compaction pass, HW advances behind the pass}, 2..6 single-size messages per segment, >= 4 segments; committed readers: (a) created after every pass at EVERY offset 0..log end+2 and drained, (b) in flight across the pass: created-but-unread at every offset, between two reads at every retained position (just delivered p; also coming from further back), and goroutines parked in ReadMessage at the HW / beyond the HW, woken by the HW advances; oracle per observation: the reader positioned at q delivers the first message >= q present in the segment files (raw parse) if it is <= HW, with the appended content, else it waits (polled with a cancelled context; parked readers: all registered in hwWaiters under the log mutex and channels empty); no error, no offset above HW; the files must hold a superset of the must-survive set computed from the keys written (nil key, latest of its key <= HW, >= HW, newest segment) else the case is inconclusive; non-trivial = >= 3 segments, a pass removed messages and left a sealed non-final segment whose retained tail ends before the next base offset; distinct = (messages per segment, gap classes present, phases, messages, key style)")
	rep.Assume("what a compaction pass keeps is C08's property: the retained set is read from the segment files and only cross-checked against the computed must-survive set")
	rep.Assume("a committed reader created above the HW starts with the next committed message after the HW at its creation (documented clamp, as in the other C03 units)")
	rep.Assume("the driver is the only writer and passes run to completion before the next read: compaction concurrent with reading is the cleaner unit's class (without removals)")
	root := kit.NewRNG(kit.Mix(kit.Seed(), 0xC03CD))
	n := kit.Scale(160, 2000)
	seeds := make([]uint64, n)
	for i := range seeds {
		seeds[i] = root.Uint64()
	}
	kit.Parallel(n, kit.Workers(), func(i int) {
		if rep.NumViolations() >= 8 {
			return
		}
		c03cCase(rep, i, seeds[i])
	})
}
