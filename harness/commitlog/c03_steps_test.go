//go:build verif

package commitlog

// C03 — directed, deterministic step schedules (unit "steps") and the
// close/reopen life cycle (unit "reopen").
//
// The stress unit (c03_test.go) lets appender, HW advancer, split ticker,
// read-only toggler and readers race freely; its readers accept
// "end of read-only log" as soon as they had delivered everything that was
// committed BEFORE the call, and re-subscribe, so a reader that is ended while
// the HW is still below the log end is not seen there, and whether a toggle
// ever coincides with {uncommitted tail, empty active segment, parked reader}
// is left to luck.
//
// Here ONE driver goroutine executes a seeded program of steps on the real
// log (append, append like a follower — also on a read-only log —, append that
// fails after the roll, HW advance, roll of a full active segment = what the
// cleaner loop does, read-only on/off, create a committed reader) and after
// EVERY step waits until every reader has settled: ended, or registered in
// hwWaiters (read under the log's own mutex).  Because the driver is the only
// writer, the state (log end, HW, read-only) before and after each step is
// known exactly, and every verdict is a state predicate:
//
//   * a reader parked in hwWaiters while its next offset is <= HW can never be
//     woken by this HW value any more  -> lost wake-up;
//   * a reader may end with ErrCommitLogReadonly only if in the state before
//     or after the step the log is read-only, HW == log end and the reader
//     has delivered through the log end;
//   * per delivery: offset <= HW sampled after the read, content f(seed,
//     offset), consecutive from the effective start (start if start <= HW at
//     creation, else HW-at-creation+1).
//
// A watchdog expiring while a reader is neither parked nor ended is
// inconclusive.

import (
	"context"
	"fmt"
	"os"
	"strings"
	"sync"
	"sync/atomic"
	"testing"
	"time"

	pkgErrors "github.com/pkg/errors"

	kit "github.com/liftbridge-io/liftbridge/internal/verifkit"
	"github.com/liftbridge-io/liftbridge/server/verifhook"
)

type c03sStep struct {
	Kind string // append | appendset | appendfail | commit | roll | ro+ | ro- | reader
	Arg  int64  // count, absolute HW target, or reader start offset
}

func (s c03sStep) String() string {
	switch s.Kind {
	case "roll", "ro+", "ro-", "appendfail":
		return s.Kind
	}
	return fmt.Sprintf("%s(%d)", s.Kind, s.Arg)
}

type c03sModel struct {
	appended int64 // log end offset (next offset)
	hw       int64
	ro       bool
}

func (m c03sModel) atEnd() bool { return m.ro && m.hw == m.appended-1 }

type c03sReader struct {
	id        int
	start     int64
	eff       int64
	next      atomic.Int64
	delivered atomic.Int64
	state     atomic.Int32 // 0 running, 1 ended read-only, 2 failed (reported), 3 cancelled, 5 read-only end judged
	cr        contextReader
	cancel    context.CancelFunc
}

type c03sExec struct {
	rep      *kit.Report
	l        *commitLog
	seed     uint64
	cc       bool
	m        c03sModel
	readers  []*c03sReader
	wg       sync.WaitGroup
	prog     []c03sStep
	at       int
	dead     bool
	info     map[string]any
	hitCore  bool // ro+ with uncommitted tail, empty active segment (base>0) and a parked reader
	roEnds   int
	emptyAct int
}

func (x *c03sExec) witness() map[string]any {
	steps := make([]string, len(x.prog))
	for i, s := range x.prog {
		steps[i] = s.String()
	}
	w := map[string]any{"seed": kit.Seed(), "program_seed": x.seed, "program": strings.Join(steps, " "), "failed_at_step": x.at,
		"log_end_offset": x.m.appended, "hw": x.m.hw, "readonly": x.m.ro}
	for k, v := range x.info {
		w[k] = v
	}
	return w
}

func (x *c03sExec) fail(fp, what string) {
	x.rep.Violation(fp, what, x.witness())
	x.dead = true
}

func (x *c03sExec) msgs(n int64) []*Message {
	out := make([]*Message, n)
	for k := int64(0); k < n; k++ {
		out[k] = c01Content(x.seed, x.m.appended+k).msg()
		if x.cc {
			out[k].Offset = -1
		}
	}
	return out
}

func (x *c03sExec) emptyActive() bool {
	a := x.l.activeSegment()
	return a.BaseOffset > 0 && a.NextOffset() == a.BaseOffset && a.Position() == 0
}

func (x *c03sExec) parkedReaders() int {
	n := 0
	x.l.mu.RLock()
	for _, rd := range x.readers {
		if _, ok := x.l.hwWaiters[rd.cr]; ok {
			n++
		}
	}
	x.l.mu.RUnlock()
	return n
}

func (x *c03sExec) startReader(start int64) {
	rd := &c03sReader{id: len(x.readers), start: start}
	rd.eff = start
	if start > x.m.hw {
		rd.eff = x.m.hw + 1
	}
	rd.next.Store(rd.eff)
	reader, err := x.l.NewReader(start, false)
	if err != nil {
		x.fail("C03:reader-open", fmt.Sprintf("NewReader(%d, committed) failed with HW=%d log end=%d: %v", start, x.m.hw, x.m.appended-1, err))
		return
	}
	rd.cr = reader.ctxReader
	ctx, cancel := context.WithCancel(context.Background())
	rd.cancel = cancel
	x.readers = append(x.readers, rd)
	l, rep, seed := x.l, x.rep, x.seed
	x.wg.Add(1)
	go func() {
		defer x.wg.Done()
		defer func() {
			if p := recover(); p != nil {
				rep.Violation("C03:reader-panic", fmt.Sprintf("committed reader(start=%d) panicked after %d messages: %v", start, rd.delivered.Load(), p), x.witness())
				rd.state.Store(2)
			}
		}()
		hb := make([]byte, 28)
		for {
			m, off, ts, ep, err := reader.ReadMessage(ctx, hb)
			if err != nil {
				switch {
				case ctx.Err() != nil:
					rd.state.Store(3)
				case pkgErrors.Cause(err) == ErrCommitLogReadonly:
					rd.state.Store(1)
				default:
					rep.Violation("C03:reader-error", fmt.Sprintf("committed reader(start=%d) failed after %d messages (next %d, HW %d): %v", start, rd.delivered.Load(), rd.next.Load(), l.HighWatermark(), err), x.witness())
					rd.state.Store(2)
				}
				return
			}
			hwPost := l.HighWatermark()
			bad := ""
			fp := ""
			if off > hwPost {
				fp, bad = "C03:uncommitted-delivered", fmt.Sprintf("committed reader delivered offset %d while the HW sampled after the read is %d", off, hwPost)
			} else if off != rd.next.Load() {
				fp = "C03:gap"
				if off < rd.next.Load() {
					fp = "C03:duplicate-or-reorder"
				}
				if rd.delivered.Load() == 0 {
					fp = "C03:first-offset"
				}
				bad = fmt.Sprintf("reader(start=%d, effective start %d) delivered %d, expected %d", start, rd.eff, off, rd.next.Load())
			} else if rec, derr := vfDecode(m, off, ts, ep); derr != nil {
				fp, bad = "C03:content", fmt.Sprintf("offset %d: %v", off, derr)
			} else {
				want := c01Content(seed, off)
				want.Hdr = vfNormHdr(want.Hdr)
				if !vfSameRec(rec, want) {
					fp, bad = "C03:content", fmt.Sprintf("got %v want %v", rec, want)
				}
			}
			if bad != "" {
				rep.Violation(fp, bad, x.witness())
				rd.state.Store(2)
				return
			}
			rd.delivered.Add(1)
			rd.next.Store(off + 1)
			rep.Count("committed_reads", 1)
		}
	}()
}

// settle waits until every reader is parked or ended and judges the state.
func (x *c03sExec) settle(pre, post c03sModel, step string) {
	deadline := time.Now().Add(20 * time.Second)
	for _, rd := range x.readers {
		for spins := 0; ; spins++ {
			st := rd.state.Load()
			if st == 1 {
				rd.state.Store(5)
				x.roEnds++
				n := rd.next.Load()
				legal := (pre.atEnd() && n == pre.appended) || (post.atEnd() && n == post.appended)
				if !legal {
					x.fail("C03:readonly-end-before-log-end", fmt.Sprintf("step %s: reader(start=%d) was ended with ErrCommitLogReadonly after delivering through offset %d, but before the step the log was {readonly=%v HW=%d log end=%d} and after it {readonly=%v HW=%d log end=%d}: end-of-read-only-log is only legal once the HW has reached the end of a read-only log and the reader has delivered everything up to it (empty active segment with base > 0: %v)",
						step, rd.start, n-1, pre.ro, pre.hw, pre.appended-1, post.ro, post.hw, post.appended-1, x.emptyActive()))
					return
				}
				x.rep.Count("readonly_ends_at_log_end", 1)
				break
			}
			if st != 0 {
				break
			}
			x.l.mu.RLock()
			_, parked := x.l.hwWaiters[rd.cr]
			hw := x.l.hw
			x.l.mu.RUnlock()
			if parked {
				if n := rd.next.Load(); n <= hw {
					x.fail("C03:lost-wakeup", fmt.Sprintf("step %s: reader(start=%d) is registered in hwWaiters although its next offset %d is <= HW %d: this HW value cannot wake it any more", step, rd.start, n, hw))
					return
				}
				break
			}
			if time.Now().After(deadline) {
				x.rep.Inconc(fmt.Sprintf("program seed %d step %d (%s): watchdog, reader(start=%d) neither parked nor ended (next %d, HW %d)", x.seed, x.at, step, rd.start, rd.next.Load(), hw))
				x.dead = true
				return
			}
			if spins < 50 {
				time.Sleep(0)
			} else {
				time.Sleep(50 * time.Microsecond)
			}
		}
	}
}

func (x *c03sExec) run() {
	for i, s := range x.prog {
		if x.dead {
			return
		}
		x.at = i
		pre := x.m
		switch s.Kind {
		case "append":
			ms := x.msgs(s.Arg)
			if x.cc {
				ms = ms[:1]
			}
			offs, err := x.l.Append(ms)
			if x.m.ro {
				if err != ErrCommitLogReadonly {
					x.fail("C03:append-on-readonly", fmt.Sprintf("Append on a read-only log returned %v %v", offs, err))
					return
				}
				break
			}
			if err != nil || offs[0] != x.m.appended {
				x.fail("C03:append-error", fmt.Sprintf("Append returned %v, %v; expected offsets from %d", offs, err, x.m.appended))
				return
			}
			x.m.appended += int64(len(ms))
		case "appendset":
			raw := x.msgs(s.Arg)
			for _, m := range raw {
				m.Offset = 0
			}
			ms, _, err := newMessageSetFromProto(x.m.appended, 0, raw, false)
			if err != nil {
				x.rep.Inconc("harness: message set: " + err.Error())
				x.dead = true
				return
			}
			offs, err := x.l.AppendMessageSet(ms)
			if err != nil || offs[0] != x.m.appended {
				x.fail("C03:append-error", fmt.Sprintf("AppendMessageSet returned %v, %v; expected offsets from %d", offs, err, x.m.appended))
				return
			}
			x.m.appended += s.Arg
		case "appendfail":
			m := c01Content(x.seed, x.m.appended).msg()
			m.Offset = x.m.appended + 7
			_, err := x.l.Append([]*Message{m})
			if x.m.ro && err == ErrCommitLogReadonly {
				break
			}
			if err != ErrIncorrectOffset {
				x.rep.Inconc(fmt.Sprintf("harness: an append with a wrong expected offset returned %v", err))
				x.dead = true
				return
			}
			x.rep.Count("failed_appends", 1)
		case "commit":
			x.l.SetHighWatermark(s.Arg)
			if s.Arg > x.m.hw {
				x.m.hw = s.Arg
			}
			if got := x.l.HighWatermark(); got != x.m.hw {
				x.fail("C03:hw-not-monotone", fmt.Sprintf("after SetHighWatermark(%d) the HW is %d, expected %d (single HW writer)", s.Arg, got, x.m.hw))
				return
			}
		case "roll":
			did, err := x.l.checkAndPerformSplit()
			if err != nil {
				x.fail("C03:split-error", fmt.Sprintf("checkAndPerformSplit: %v", err))
				return
			}
			if did {
				x.rep.Count("rolls_by_cleaner_style_split", 1)
			}
		case "ro+":
			if x.m.hw < x.m.appended-1 && x.emptyActive() && x.parkedReaders() > 0 {
				x.hitCore = true
				x.rep.Count("readonly_set_with_tail_and_empty_active_segment_and_parked_reader", 1)
			}
			if x.m.hw < x.m.appended-1 && x.parkedReaders() > 0 {
				x.rep.Count("readonly_set_with_tail_and_parked_reader", 1)
			}
			x.l.SetReadonly(true)
			x.m.ro = true
		case "ro-":
			x.l.SetReadonly(false)
			x.m.ro = false
		case "reader":
			x.startReader(s.Arg)
			if x.dead {
				return
			}
			if s.Arg > x.m.hw {
				x.rep.Count("readers_created_beyond_hw", 1)
			}
			if x.m.ro && x.emptyActive() && x.m.hw < x.m.appended-1 {
				x.rep.Count("readers_created_on_readonly_log_with_tail_and_empty_active_segment", 1)
			}
		}
		if x.emptyActive() {
			x.emptyAct++
		}
		if got := x.l.NewestOffset(); got != x.m.appended-1 {
			x.fail("C03:log-end", fmt.Sprintf("step %s: NewestOffset()=%d, expected %d", s, got, x.m.appended-1))
			return
		}
		x.settle(pre, x.m, s.String())
		x.rep.Count("steps", 1)
	}
}

// c03sTemplate: the directed family.  n messages, HW at h (-1..n-2), so an
// uncommitted tail exists; readers created before / after the tail / after the
// read-only switch; a roll (or a failing append that rolls) and the read-only
// switch in either order; then the HW catches up in one or several steps,
// optionally more data arrives the way a follower gets it, read-only off,
// append, commit.
func c03sTemplate(rng *kit.RNG, cc bool) []c03sStep {
	var p []c03sStep
	n := int64(rng.Range(1, 6))
	h := int64(rng.Range(-1, int(n)-1)) // -1..n-1; n-1 = no tail yet
	if rng.Chance(4, 5) && h > n-2 {
		h = n - 2
	}
	m := c03sModel{hw: -1}
	reader := func() {
		var s int64
		switch rng.Intn(5) {
		case 0:
			s = 0
		case 1:
			s = m.hw
		case 2:
			s = m.hw + 1
		case 3:
			s = m.appended + int64(rng.Intn(3))
		default:
			if m.hw > 0 {
				s = int64(rng.Intn(int(m.hw) + 1))
			}
		}
		if s < 0 {
			s = 0
		}
		p = append(p, c03sStep{"reader", s})
	}
	add := func(k int64) {
		for k > 0 {
			b := int64(rng.Range(1, 3))
			if b > k || cc {
				b = 1
			}
			p = append(p, c03sStep{"append", b})
			m.appended += b
			k -= b
		}
	}
	commit := func(to int64) {
		if to > m.hw {
			p = append(p, c03sStep{"commit", to})
			m.hw = to
		}
	}
	// committed prefix
	if h >= 0 {
		add(h + 1)
		commit(h)
	}
	when := rng.Intn(3)
	if when == 0 || rng.Chance(1, 3) {
		reader()
	}
	add(n - m.appended) // the uncommitted tail
	if when == 1 || rng.Chance(1, 3) {
		reader()
	}
	roll := c03sStep{Kind: "roll"}
	if cc && rng.Bool() {
		roll = c03sStep{Kind: "appendfail"}
	}
	switch rng.Intn(5) {
	case 0, 1:
		p = append(p, roll, c03sStep{Kind: "ro+"})
	case 2:
		p = append(p, c03sStep{Kind: "ro+"}, roll)
	case 3:
		p = append(p, c03sStep{Kind: "ro+"})
	default:
		p = append(p, roll, c03sStep{Kind: "ro+"}, c03sStep{Kind: "ro-"}, c03sStep{Kind: "ro+"})
	}
	m.ro = true
	if when == 2 || rng.Chance(1, 3) {
		reader()
	}
	// the HW catches up
	for m.hw < m.appended-1 {
		to := m.appended - 1
		if rng.Bool() {
			to = m.hw + 1 + int64(rng.Intn(int(m.appended-1-m.hw)))
		}
		commit(to)
		if rng.Chance(1, 4) {
			p = append(p, roll)
		}
	}
	if rng.Chance(1, 3) {
		// a follower of a read-only stream still receives data
		k := int64(rng.Range(1, 2))
		p = append(p, c03sStep{"appendset", k})
		m.appended += k
		reader()
		if rng.Bool() {
			p = append(p, roll)
		}
		commit(m.appended - 1)
	}
	if rng.Chance(1, 2) {
		reader()
	}
	p = append(p, c03sStep{Kind: "ro-"})
	m.ro = false
	add(int64(rng.Range(1, 2)))
	if rng.Bool() {
		reader()
	}
	commit(m.appended - 1)
	return p
}

// c03sWalk: a random walk over the same step alphabet.
func c03sWalk(rng *kit.RNG, cc bool) []c03sStep {
	var p []c03sStep
	m := c03sModel{hw: -1}
	steps := rng.Range(15, 40)
	readers := 0
	for i := 0; i < steps; i++ {
		switch x := rng.Intn(20); {
		case x < 5 && !m.ro && m.appended < 30:
			b := int64(rng.Range(1, 3))
			if cc {
				b = 1
			}
			p = append(p, c03sStep{"append", b})
			m.appended += b
		case x < 6 && m.appended < 30:
			b := int64(rng.Range(1, 2))
			p = append(p, c03sStep{"appendset", b})
			m.appended += b
		case x < 7 && cc:
			p = append(p, c03sStep{Kind: "appendfail"})
		case x < 11:
			if m.appended == 0 {
				continue
			}
			to := m.appended - 1
			switch rng.Intn(4) {
			case 0:
			case 1:
				to = m.hw - int64(rng.Intn(2)) // no-op / backwards attempt
			default:
				if to > m.hw {
					to = m.hw + 1 + int64(rng.Intn(int(m.appended-1-m.hw)))
				}
			}
			p = append(p, c03sStep{"commit", to})
			if to > m.hw {
				m.hw = to
			}
		case x < 14:
			p = append(p, c03sStep{Kind: "roll"})
		case x < 16:
			p = append(p, c03sStep{Kind: "ro+"})
			m.ro = true
		case x < 17:
			p = append(p, c03sStep{Kind: "ro-"})
			m.ro = false
		default:
			if readers >= 6 {
				continue
			}
			readers++
			s := int64(0)
			switch rng.Intn(5) {
			case 0:
			case 1:
				s = m.hw
			case 2:
				s = m.hw + 1
			case 3:
				s = m.appended + int64(rng.Intn(4))
			default:
				if m.hw > 0 {
					s = int64(rng.Intn(int(m.hw) + 1))
				}
			}
			if s < 0 {
				s = 0
			}
			p = append(p, c03sStep{"reader", s})
		}
	}
	p = append(p, c03sStep{Kind: "ro-"})
	if m.appended > 0 {
		p = append(p, c03sStep{"commit", m.appended - 1})
	}
	return p
}

func c03sProgram(rep *kit.Report, idx int, seed uint64) {
	rng := kit.NewRNG(seed)
	cc := rng.Chance(1, 4)
	maxSeg := []int64{1, 1, 90, 220}[rng.Intn(4)]
	template := idx%5 != 4
	var prog []c03sStep
	if template {
		prog = c03sTemplate(rng, cc)
	} else {
		prog = c03sWalk(rng, cc)
	}
	dir := vfTempDir("c03s")
	defer os.RemoveAll(dir)
	o := vfOpts(dir, maxSeg)
	o.ConcurrencyControl = cc
	l, err := vfOpen(o)
	if err != nil {
		rep.Inconc("harness: open: " + err.Error())
		return
	}
	x := &c03sExec{rep: rep, l: l, seed: seed, cc: cc, m: c03sModel{hw: -1}, prog: prog,
		info: map[string]any{"maxSegmentBytes": maxSeg, "concurrency_control": cc, "template": template}}
	x.run()
	for _, rd := range x.readers {
		rd.cancel()
	}
	x.wg.Wait()
	l.Close()
	rep.Eval()
	rep.Count("readers", int64(len(x.readers)))
	if x.emptyAct > 0 {
		rep.Count("programs_with_empty_active_segment", 1)
	}
	if x.hitCore && !x.dead {
		steps := make([]string, len(prog))
		for i, s := range prog {
			steps[i] = s.String()
		}
		rep.Nontrivial(fmt.Sprintf("%d|%v|%s", maxSeg, cc, strings.Join(steps, " ")))
	}
	if idx%60 == 0 {
		rep.Sample(x.witness())
	}
}

func TestVerifC03Steps(t *testing.T) {
	rep := kit.NewReport("C03", "steps")
	defer rep.Write()
	rep.SetRule("seeded sequential step programs on the real commit log, one driver goroutine (the only writer) + committed reader goroutines; alphabet: append(1..3) / follower-style AppendMessageSet (also on a read-only log) / append with a wrong expected offset (concurrency-control logs: rolls, then fails) / SetHighWatermark(any target, incl. no-op and lower) / checkAndPerformSplit (cleaner-loop roll of a full active segment, leaves an EMPTY active segment) / SetReadonly(true|false) / NewReader(committed) at 0, inside, =HW, HW+1, beyond the end; 4 of 5 programs instantiate the directed family {committed prefix (HW -1..n-2), uncommitted tail, readers created before the tail / after it / after the read-only switch, roll or failing append and SetReadonly(true) in either order, HW catching up in 1..k steps, follower-style data on the read-only log, read-only off, append, commit}, 1 of 5 is a random walk; MaxSegmentBytes in {1,90,220}; after EVERY step all readers must settle (ended, or registered in hwWaiters under the log mutex) and the state predicates are judged: parked with next offset <= HW = lost wake-up; ErrCommitLogReadonly only if before or after the step {read-only, HW == log end, reader delivered through the log end}; per delivery offset <= HW, content, consecutive from the effective start; non-trivial = program executed SetReadonly(true) while HW < log end, the active segment was empty with base > 0 and a reader was parked; distinct = (segment size, program text); afterwards 4 'aligned' runs: one caught-up committed reader, thousands of single SetHighWatermark(k) calls aligned through the hook point reader.beforeWaitHW with the moment the reader goes to wait (seeded spins of 0..S iterations on both sides, S in {0,60,400,3000}), each commit must be delivered before the next, reader registered in hwWaiters while HW >= an undelivered offset = lost wake-up")
	rep.Assume("a committed reader on a read-only log whose HW has reached the log end MAY be ended with ErrCommitLogReadonly; whether it MUST be is judged by C10 (subscription level), not here")
	root := kit.NewRNG(kit.Mix(kit.Seed(), 0xC0355))
	n := kit.Scale(300, 3000)
	seeds := make([]uint64, n)
	for i := range seeds {
		seeds[i] = root.Uint64()
	}
	kit.Parallel(n, kit.Workers(), func(i int) {
		if rep.NumViolations() >= 6 {
			return
		}
		c03sProgram(rep, i, seeds[i])
	})
	// aligned single commits (one log at a time: the hook handler is global)
	verifhook.Set(c03AlignHook)
	defer verifhook.Set(nil)
	trials := kit.Scale(4000, 16000)
	for i, v := range []struct{ seg, spin int64 }{{1 << 20, 60}, {4096, 400}, {1 << 20, 0}, {1 << 20, 3000}} {
		if rep.NumViolations() > 0 {
			break
		}
		c03AlignRun(rep, i, root.Uint64(), v.seg, v.spin, trials)
	}
}

// ---------------------------------------------------------------- reopen

// c03Checkpoint does what one tick of checkpointHWLoop does.
func c03Checkpoint(l *commitLog) error {
	l.mu.RLock()
	defer l.mu.RUnlock()
	return l.checkpointHW()
}

type c03First struct {
	n, hw int64
	ckpt  int // 0 none, 1 after the commit, 2 before the commit (checkpoint of -1), 3 both
}

func c03ReopenRun(rep *kit.Report, idx int, seed uint64, first *c03First) {
	rng := kit.NewRNG(seed)
	maxSeg := []int64{64, 300, 4096}[rng.Intn(3)]
	dir := vfTempDir("c03r")
	defer os.RemoveAll(dir)
	o := vfOpts(dir, maxSeg)
	l, err := vfOpen(o)
	if err != nil {
		rep.Inconc("harness: open: " + err.Error())
		return
	}
	defer func() { l.Close() }()
	m := c03sModel{hw: -1}
	var hist []string
	witness := func() map[string]any {
		return map[string]any{"seed": kit.Seed(), "run_seed": seed, "run": idx, "maxSegmentBytes": maxSeg, "history": strings.Join(hist, " "),
			"log_end_offset": m.appended - 1, "hw_before_close": m.hw}
	}
	fail := func(fp, what string) { rep.Violation(fp, what, witness()) }
	appendN := func(k int64) bool {
		for k > 0 {
			b := int64(rng.Range(1, 4))
			if b > k {
				b = k
			}
			ms := make([]*Message, b)
			for i := range ms {
				ms[i] = c01Content(seed, m.appended+int64(i)).msg()
			}
			offs, err := l.Append(ms)
			if err != nil || offs[0] != m.appended {
				fail("C03:append-error", fmt.Sprintf("Append returned %v, %v; expected from %d", offs, err, m.appended))
				return false
			}
			m.appended += b
			k -= b
		}
		return true
	}
	commit := func(to int64) {
		l.SetHighWatermark(to)
		if to > m.hw {
			m.hw = to
		}
		hist = append(hist, fmt.Sprintf("commit(%d)", to))
	}
	ckpt := func() bool {
		if err := c03Checkpoint(l); err != nil {
			rep.Inconc("checkpointHW: " + err.Error())
			return false
		}
		hist = append(hist, "checkpoint")
		rep.Count("explicit_checkpoints", 1)
		return true
	}
	// committed read of [start..HW] must be exactly that range
	readCheck := func(when string, start int64) bool {
		recs, oerr, err := vfReadFrom(l, start, false, int(m.appended)+5)
		if oerr != nil || err != nil {
			fail("C03:reopen:reader-error", fmt.Sprintf("%s: committed reader from %d (HW %d): open error %v, read error %v", when, start, m.hw, oerr, err))
			return false
		}
		want := m.hw - start + 1
		if want < 0 {
			want = 0
		}
		for i, r := range recs {
			exp := c01Content(seed, start+int64(i))
			exp.Hdr = vfNormHdr(exp.Hdr)
			if r.Off > m.hw {
				fail("C03:uncommitted-delivered", fmt.Sprintf("%s: committed reader from %d delivered offset %d above the HW %d", when, start, r.Off, m.hw))
				return false
			}
			if !vfSameRec(r, exp) {
				fail("C03:content", fmt.Sprintf("%s: committed reader from %d delivered %v, expected %v", when, start, r, exp))
				return false
			}
		}
		if int64(len(recs)) != want {
			fail("C03:reopen:committed-not-delivered", fmt.Sprintf("%s: committed reader from %d delivered %d messages, the committed range %d..%d holds %d", when, start, len(recs), start, m.hw, want))
			return false
		}
		rep.Count("committed_reads", int64(len(recs)))
		return true
	}
	phases := rng.Range(2, 5)
	for ph := 0; ph < phases; ph++ {
		if ph == 0 && first != nil {
			hist = append(hist, fmt.Sprintf("append(%d)", first.n))
			if !appendN(first.n) {
				return
			}
			if first.ckpt&2 != 0 && !ckpt() {
				return
			}
			if first.hw >= 0 {
				commit(first.hw)
			}
			if first.ckpt&1 != 0 && !ckpt() {
				return
			}
		} else {
			k := int64(0)
			switch rng.Intn(4) {
			case 0:
			case 1:
				k = 1
			case 2:
				k = int64(rng.Range(1, 4))
			default:
				k = int64(rng.Range(5, 40))
			}
			hist = append(hist, fmt.Sprintf("append(%d)", k))
			if !appendN(k) {
				return
			}
			for r := rng.Intn(3); r > 0 && m.appended > 0; r-- {
				to := m.appended - 1
				if rng.Bool() && to > m.hw {
					to = m.hw + int64(rng.Intn(int(to-m.hw)+1))
				}
				commit(to)
				if rng.Chance(1, 3) && !ckpt() {
					return
				}
			}
		}
		if rng.Chance(1, 3) {
			// what the cleaner loop does between appends: roll a full active
			// segment, which leaves an EMPTY active segment to be closed
			did, err := l.checkAndPerformSplit()
			if err != nil {
				fail("C03:split-error", fmt.Sprintf("checkAndPerformSplit: %v", err))
				return
			}
			if did {
				hist = append(hist, "roll")
				rep.Count("closes_with_empty_active_segment", 1)
			}
		}
		if m.hw >= 0 && !readCheck("before Close", int64(rng.Intn(int(m.hw)+1))) {
			return
		}
		// a reader parked beyond the HW while the log is closed must end, not hang
		var parkedDone chan error
		if rng.Chance(1, 3) {
			r, err := l.NewReader(m.hw+1, false)
			if err == nil {
				parkedDone = make(chan error, 1)
				go func() {
					_, _, _, _, err := r.ReadMessage(context.Background(), make([]byte, 28))
					parkedDone <- err
				}()
				c03WaitParked(l, r.ctxReader)
			}
		}
		if err := l.Close(); err != nil {
			rep.Inconc("Close: " + err.Error())
			return
		}
		hist = append(hist, "close")
		if parkedDone != nil {
			select {
			case err := <-parkedDone:
				if err == nil {
					fail("C03:uncommitted-delivered", fmt.Sprintf("a committed reader parked at HW+1=%d was handed a message by Close()", m.hw+1))
					return
				}
				rep.Count("parked_readers_ended_by_close", 1)
			case <-time.After(20 * time.Second):
				rep.Inconc("watchdog: reader parked beyond the HW did not return after Close()")
				return
			}
		}
		l2, err := vfOpen(o)
		if err != nil {
			fail("C03:reopen:open-error", fmt.Sprintf("reopening the cleanly closed log failed: %v", err))
			return
		}
		l = l2
		hist = append(hist, "reopen")
		rep.Eval()
		rep.Count("reopens", 1)
		rep.Count(fmt.Sprintf("reopens_with_hw_%s", c03HWClass(m.hw)), 1)
		gotHW, gotNewest := l.HighWatermark(), l.NewestOffset()
		if gotNewest != m.appended-1 {
			fail("C03:reopen:log-end-changed", fmt.Sprintf("log end after clean Close + reopen is %d, was %d", gotNewest, m.appended-1))
			return
		}
		switch {
		case gotHW < m.hw:
			fail("C03:reopen:hw-regressed", fmt.Sprintf("HW after clean Close + reopen is %d, was %d before Close (log end %d): messages %d..%d were committed (and deliverable) before and are withheld from committed readers now", gotHW, m.hw, m.appended-1, gotHW+1, m.hw))
			return
		case gotHW > m.hw:
			fail("C03:reopen:hw-advanced", fmt.Sprintf("HW after clean Close + reopen is %d, was %d before Close: messages %d..%d were never committed", gotHW, m.hw, m.hw+1, gotHW))
			return
		}
		starts := []int64{0}
		if m.hw > 0 {
			starts = append(starts, m.hw, int64(rng.Intn(int(m.hw)+1)))
		}
		for _, s := range starts {
			if m.hw >= 0 && !readCheck("after reopen", s) {
				return
			}
		}
		if idx%80 == 0 && ph == 1 {
			rep.Sample(witness())
		}
		if m.appended > 0 && m.appended <= 4 {
			rep.Nontrivial(fmt.Sprintf("few|n=%d|hw=%d|phase=%d", m.appended, m.hw, ph))
		} else {
			rep.Nontrivial(fmt.Sprintf("seg=%d|n=%d|hw=%d|phase=%d", maxSeg, m.appended, m.hw, ph))
		}
		// a reader parked at HW+1 on the reopened log is woken by the next commit
		if rng.Chance(1, 2) {
			if m.hw == m.appended-1 {
				hist = append(hist, "append(1)")
				if !appendN(1) {
					return
				}
			}
			r, err := l.NewReader(m.hw+1, false)
			if err != nil {
				fail("C03:reader-open", fmt.Sprintf("NewReader(%d) on the reopened log: %v", m.hw+1, err))
				return
			}
			type res struct {
				off int64
				err error
			}
			ch := make(chan res, 1)
			ctx, cancel := context.WithCancel(context.Background())
			go func() {
				_, off, _, _, err := r.ReadMessage(ctx, make([]byte, 28))
				ch <- res{off, err}
			}()
			c03WaitParked(l, r.ctxReader)
			want := m.hw + 1
			commit(want)
			var got *res
			deadline := time.Now().Add(20 * time.Second)
			for got == nil {
				select {
				case x := <-ch:
					got = &x
				case <-time.After(2 * time.Millisecond):
					l.mu.RLock()
					_, parked := l.hwWaiters[r.ctxReader]
					hw := l.hw
					l.mu.RUnlock()
					if parked && hw >= want {
						cancel()
						fail("C03:lost-wakeup", fmt.Sprintf("reopened log: reader created at HW+1=%d is still registered in hwWaiters after SetHighWatermark(%d)", want, want))
						return
					}
					if time.Now().After(deadline) {
						cancel()
						rep.Inconc("watchdog: reader at HW+1 on the reopened log")
						return
					}
				}
			}
			cancel()
			if got.err != nil || got.off != want {
				fail("C03:first-offset", fmt.Sprintf("reopened log: reader created at HW+1=%d returned offset %d, err %v after SetHighWatermark(%d)", want, got.off, got.err, want))
				return
			}
			rep.Count("parked_readers_woken_after_reopen", 1)
		}
	}
}

func c03HWClass(hw int64) string {
	switch {
	case hw < 0:
		return "minus1"
	case hw <= 3:
		return fmt.Sprint(hw)
	}
	return "above3"
}

// c03WaitParked waits (bounded, result not used for a verdict) until the reader
// is registered in hwWaiters.
func c03WaitParked(l *commitLog, cr contextReader) {
	for i := 0; i < 4000; i++ {
		l.mu.RLock()
		_, ok := l.hwWaiters[cr]
		l.mu.RUnlock()
		if ok {
			return
		}
		time.Sleep(50 * time.Microsecond)
	}
}

func TestVerifC03Reopen(t *testing.T) {
	rep := kit.NewReport("C03", "reopen")
	defer rep.Write()
	rep.SetRule("close / reopen life cycle of one log directory (what PauseStream + resume and a graceful restart do to a partition log): 2..5 phases of {append 0 / 1 / 1..4 / 5..40 messages, 0..2 HW advances to any offset <= log end, explicit checkpoints = one tick of checkpointHWLoop before / after / between HW advances, optional cleaner-style roll of a full active segment (an empty active segment is closed), optional reader parked at HW+1, Close(), reopen with the same options}; the FIRST phase of the first runs enumerates every (messages n in 1..4) x (HW in -1..n-1) x (checkpoint none / after / before / both) on a brand-new directory; MaxSegmentBytes in {64,300,4096}; after every reopen: log end unchanged, HW == HW before Close, committed readers from 0 / HW / a random offset deliver exactly start..HW with content f(seed,offset), a reader parked at HW+1 is woken by the next commit (state predicate on hwWaiters, watchdog = inconclusive); non-trivial = every reopen; distinct = (few-message class or segment size, messages, HW, phase)")
	rep.Assume("Close() is a clean shutdown: the HW it checkpoints is the HW the reopened log must start with (commitLog.close calls checkpointHW); crash consistency of the checkpoint file is C05's business")
	var firsts []*c03First
	for n := int64(1); n <= 4; n++ {
		for hw := int64(-1); hw < n; hw++ {
			for ck := 0; ck < 4; ck++ {
				firsts = append(firsts, &c03First{n: n, hw: hw, ckpt: ck})
			}
		}
	}
	root := kit.NewRNG(kit.Mix(kit.Seed(), 0xC03E0))
	n := len(firsts) + kit.Scale(60, 900)
	seeds := make([]uint64, n)
	for i := range seeds {
		seeds[i] = root.Uint64()
	}
	kit.Parallel(n, kit.Workers(), func(i int) {
		if rep.NumViolations() >= 6 {
			return
		}
		var f *c03First
		if i < len(firsts) {
			f = firsts[i]
		}
		c03ReopenRun(rep, i, seeds[i], f)
	})
}

// ---------------------------------------------------------------- align

// TestVerifC03Align: single commits aligned with the moment a caught-up
// committed reader goes to wait.  The hook point reader.beforeWaitHW publishes
// "reader about to wait at HW h" through an atomic and spins a seeded number
// of iterations; the driver polls the atomic, spins a seeded number of
// iterations and makes exactly one SetHighWatermark(h+1) on pre-appended
// messages; message h+1 must be delivered before the next commit is made.
// The driver is the only consumer of the reader goroutine's unbuffered
// channel, so "reader registered in hwWaiters (log mutex held) while HW >= an
// offset the driver has not received" is an exact lost-wake-up predicate.
var (
	c03AlArrived atomic.Int64
	c03AlSpinMax atomic.Int64
	c03AlSeq     atomic.Uint64
	c03AlSink    atomic.Uint64
)

func c03Spin(n int64) {
	x := uint64(n)
	for i := int64(0); i < n; i++ {
		x = x*6364136223846793005 + 1442695040888963407
	}
	if x == 42 {
		c03AlSink.Add(1)
	}
}

func c03AlignHook(name string, args ...interface{}) error {
	if name != "reader.beforeWaitHW" || len(args) == 0 {
		return nil
	}
	hw, ok := args[0].(int64)
	if !ok {
		return nil
	}
	c03AlArrived.Store(hw + 2)
	if m := c03AlSpinMax.Load(); m > 0 {
		c03Spin(int64(kit.Mix(c03AlSeq.Add(1), 0xA11) % uint64(m)))
	}
	return nil
}

func c03AlignRun(rep *kit.Report, idx int, seed uint64, maxSeg int64, spinMax int64, trials int) {
	rng := kit.NewRNG(seed)
	dir := vfTempDir("c03a")
	defer os.RemoveAll(dir)
	l, err := vfOpen(vfOpts(dir, maxSeg))
	if err != nil {
		rep.Inconc("harness: open: " + err.Error())
		return
	}
	defer l.Close()
	witness := func(k int64) map[string]any {
		return map[string]any{"seed": kit.Seed(), "run_seed": seed, "maxSegmentBytes": maxSeg, "spin_max_iterations": spinMax, "commit_of_offset": k}
	}
	for k := 0; k < trials; {
		batch := make([]*Message, 0, 200)
		for j := 0; j < 200 && k < trials; j++ {
			batch = append(batch, c01Content(seed, int64(k)).msg())
			k++
		}
		if _, err := l.Append(batch); err != nil {
			rep.Inconc("harness: append: " + err.Error())
			return
		}
	}
	c03AlArrived.Store(0)
	c03AlSpinMax.Store(spinMax)
	reader, err := l.NewReader(0, false)
	if err != nil {
		rep.Violation("C03:reader-open", "NewReader(0) on a log without committed messages: "+err.Error(), witness(-1))
		return
	}
	cr := reader.ctxReader
	ctx, cancel := context.WithCancel(context.Background())
	defer cancel()
	type res struct {
		off int64
		err error
	}
	ch := make(chan res)
	go func() {
		hb := make([]byte, 28)
		for {
			_, off, _, _, err := reader.ReadMessage(ctx, hb)
			select {
			case ch <- res{off, err}:
			case <-ctx.Done():
				return
			}
			if err != nil {
				return
			}
		}
	}()
	poll := time.NewTimer(time.Hour)
	defer poll.Stop()
	for k := int64(0); k < int64(trials); k++ {
		arrived := false
		for i := 0; i < 200000 && !arrived; i++ {
			arrived = c03AlArrived.Load() == k+1
		}
		for d := time.Now().Add(20 * time.Second); !arrived; {
			if arrived = c03AlArrived.Load() == k+1; arrived {
				break
			}
			if time.Now().After(d) {
				rep.Inconc(fmt.Sprintf("align run %d: watchdog, the caught-up reader never reached its wait point at HW %d", idx, k-1))
				return
			}
			time.Sleep(100 * time.Microsecond)
		}
		c03Spin(int64(rng.Intn(int(spinMax) + 1)))
		l.SetHighWatermark(k)
		deadline := time.Now().Add(20 * time.Second)
		wait := 200 * time.Microsecond
		for got := false; !got; {
			if !poll.Stop() {
				select {
				case <-poll.C:
				default:
				}
			}
			poll.Reset(wait)
			select {
			case r := <-ch:
				if r.err != nil || r.off != k {
					rep.Violation("C03:gap", fmt.Sprintf("caught-up reader: after the single commit of offset %d it returned offset %d, err %v", k, r.off, r.err), witness(k))
					return
				}
				got = true
			case <-poll.C:
				l.mu.RLock()
				_, parked := l.hwWaiters[cr]
				hw := l.hw
				l.mu.RUnlock()
				if parked && hw >= k {
					rep.Violation("C03:lost-wakeup", fmt.Sprintf("caught-up committed reader: offset %d is committed (HW %d) and not delivered, the reader is registered in hwWaiters and no other commit is pending (single commits aligned with the reader's wait point, commit #%d)", k, hw, k), witness(k))
					return
				}
				if time.Now().After(deadline) {
					rep.Inconc(fmt.Sprintf("align run %d: watchdog, offset %d neither delivered nor the reader parked", idx, k))
					return
				}
				if wait < 5*time.Millisecond {
					wait *= 2
				}
			}
		}
		rep.Count("aligned_single_commits_delivered", 1)
	}
	rep.Eval()
	rep.Nontrivial(fmt.Sprintf("seg=%d|spin=%d", maxSeg, spinMax))
}
