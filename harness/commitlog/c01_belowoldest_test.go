//go:build verif

package commitlog

// C01 — unit `belowoldest`: STANDING readers whose requested start offset is
// not an offset the log holds.
//
// The other C01 units open their standing readers at offsets that exist (the
// logs of programs / enum / tail start at 0 and never lose a prefix), and the
// `offset` unit drains its readers at once.  Here the log has lost a prefix
// first — a retention pass (message or byte limit) removed whole segments, or
// the log is a follower that started replicating at the leader's oldest offset
// k > 0, so that its first segment has base 0 and first offset k — and readers
// are opened BELOW the oldest retained offset (0, oldest-1, anywhere below), so
// that the first offset they deliver differs from the one they asked for.
// These readers (uncommitted and committed, a few started at existing offsets
// as controls) are read a few messages at a time and kept across every later
// operation that replaces or removes the segment they stand in:
//
//   - a tail truncation strictly inside their segment, in front of them (the
//     segment is rewritten while they are half-way through it), at their
//     position, behind them, at the base of their segment (segment deleted),
//     in a later segment;
//   - a cleaner pass on a compaction-enabled log (every non-active segment is
//     replaced; with unique / nil keys or nothing committed nothing is
//     removed, with repeating keys messages really disappear);
//   - another retention pass after the log has grown (removes further
//     segments, possibly the one a reader is in);
//   - appends and explicit roll checks (segment rolls), HW moves.
//
// Oracle (from the property statement only): from its first delivery on, a
// reader delivers exactly the retained messages at or above its start, in
// strictly increasing offset order, each with the content that was stored at
// that offset; "retained" = not removed by an explicit truncation, and still
// present in the segment files after a cleaner pass (an independent sequential
// parse of the .log files, which must hold a subset of what was retained
// before, unchanged, and for a log without compaction a gap-free suffix).  An
// error is tolerated only where the other C01 units tolerate it (the reader
// had consumed everything retained in front of a truncation) and where a
// retention pass deleted the very segment the reader stands in; even then,
// whatever the reader DELIVERS must be the next retained message above the
// last one it delivered — never a repeated or lower offset.

import (
	"fmt"
	"io"
	"os"
	"strings"
	"testing"

	pkgErrors "github.com/pkg/errors"

	kit "github.com/liftbridge-io/liftbridge/internal/verifkit"
)

type c01boReader struct {
	r            *Reader
	id           int
	start        int64
	class        string // zero / oldest-1 / below / existing
	committed    bool
	oldestAtOpen int64
	last         int64 // last delivered offset, -1 = nothing yet
	pos          int64 // the next delivery is the first retained offset >= pos
	delivered    int
	// lenient: the reader may end with a hard error at its next read (see the
	// oracle above); cleared by a verified delivery
	afterCut bool
	behind   bool
	dead     bool
	// what happened to the log (relative to this reader) since its last delivery
	since []string
}

func (st *c01boReader) kind() string {
	if st.start < st.oldestAtOpen {
		return "start-below-oldest"
	}
	return "start-existing"
}

func (st *c01boReader) note(label string) {
	for _, l := range st.since {
		if l == label {
			return
		}
	}
	st.since = append(st.since, label)
}

var c01boPriority = []string{
	"truncate-inside-its-segment", "compaction-real", "compaction-noop",
	"truncate-removed-its-segment", "retention-removed-its-segment",
	"truncate-in-later-segment", "retention-elsewhere", "roll", "clean-noop", "hw-advance", "append",
}

// strongest returns the most intrusive thing that happened since the reader's
// last delivery, and the class it belongs to (used in fingerprints).
func (st *c01boReader) strongest() (label, class string) {
	for _, p := range c01boPriority {
		for _, l := range st.since {
			if l == p {
				switch p {
				case "truncate-inside-its-segment", "compaction-real", "compaction-noop":
					return p, "its-segment-was-replaced"
				case "truncate-removed-its-segment", "retention-removed-its-segment":
					return p, "its-segment-was-removed"
				}
				return p, "other-operations"
			}
		}
	}
	return "nothing", "no-operation"
}

// c01boSeg is the segment object a reader currently stands in (evidence and
// workload targeting only, never part of a verdict).
func c01boSeg(r *Reader) *segment {
	switch x := r.ctxReader.(type) {
	case *uncommittedReader:
		if x != nil {
			return x.seg
		}
	case *committedReader:
		if x != nil {
			return x.seg
		}
	}
	return nil
}

type c01boRun struct {
	rep      *kit.Report
	rng      *kit.RNG
	seed     uint64
	idx      int
	dir      string
	origin   string
	maxSeg   int64
	compact  bool
	keyStyle string
	withHW   bool
	limits   string
	log      *commitLog
	gen      *vfGen
	uniq     uint64
	model    []vfRec // index = offset; everything appended and not truncated
	gone     map[int64]bool
	oldest   int64
	hw       int64
	trace    []string
	readers  []*c01boReader
	nextID   int
	failed   bool
	// coverage of this case
	belowReinitDeliveries int
	firstDiffers          int
}

func (c *c01boRun) n() int64 { return int64(len(c.model)) }

func (c *c01boRun) nextRetained(p int64) int64 {
	if p < c.oldest {
		p = c.oldest
	}
	for o := p; o < c.n(); o++ {
		if !c.gone[o] {
			return o
		}
	}
	return -1
}

// owed is the offset the reader has to deliver next, -1 when it has to wait.
func (c *c01boRun) owed(st *c01boReader) int64 {
	o := c.nextRetained(st.pos)
	if o < 0 || (st.committed && o > c.hw) {
		return -1
	}
	return o
}

func (c *c01boRun) witness(extra map[string]any) map[string]any {
	w := map[string]any{"case": c.idx, "case_seed": c.seed, "origin": c.origin, "maxSegmentBytes": c.maxSeg, "compact": c.compact,
		"keys": c.keyStyle, "retention": c.limits, "with_hw": c.withHW, "program": strings.Join(c.trace, " "),
		"model_oldest": c.nextRetained(0), "model_newest": c.n() - 1, "hw": c.hw}
	for k, v := range extra {
		w[k] = v
	}
	return w
}

func (c *c01boRun) fail(fp, what string, extra map[string]any) {
	c.failed = true
	c.rep.Violation(fp, what, c.witness(extra))
}

func (c *c01boRun) inconc(what string) {
	c.failed = true
	c.rep.Inconc(fmt.Sprintf("case %d (seed %d, %s): %s; program %s", c.idx, c.seed, c.origin, what, strings.Join(c.trace, " ")))
}

func (c *c01boRun) nextRec() vfRec {
	r := c.gen.next()
	c.uniq++
	switch c.keyStyle {
	case "unique-or-nil":
		if c.rng.Bool() {
			r.Key = nil
		} else {
			r.Key = []byte(fmt.Sprintf("u%07d", c.uniq))
		}
	case "few":
		switch x := c.rng.Intn(5); x {
		case 0:
			r.Key = nil
		default:
			r.Key = []byte{byte('a' + x)}
		}
	}
	r.Hdr = vfNormHdr(r.Hdr)
	return r
}

func (c *c01boRun) appendTo(l *commitLog, cnt int) bool {
	msgs := make([]*Message, cnt)
	recs := make([]vfRec, cnt)
	for i := range msgs {
		recs[i] = c.nextRec()
		recs[i].Off = c.n() + int64(i)
		msgs[i] = recs[i].msg()
	}
	offs, err := l.Append(msgs)
	if err != nil {
		c.fail("C01:belowoldest:append-error", fmt.Sprintf("Append of %d messages failed: %v", cnt, err), nil)
		return false
	}
	for i, o := range offs {
		if o != recs[i].Off {
			c.fail("C01:belowoldest:append-offset", fmt.Sprintf("Append returned offsets %v, the next consecutive offset is %d", offs, recs[0].Off), nil)
			return false
		}
	}
	c.model = append(c.model, recs...)
	return true
}

// ---------------------------------------------------------------- operations

func (c *c01boRun) opAppend(cnt int) {
	c.trace = append(c.trace, fmt.Sprintf("A%d", cnt))
	before := len(c.log.Segments())
	if !c.appendTo(c.log, cnt) {
		return
	}
	label := "append"
	if len(c.log.Segments()) > before {
		label = "roll"
		c.rep.Count("bo_segment_rolls", 1)
	}
	for _, st := range c.readers {
		st.note(label)
	}
	// After a pass that removed every message the HW (= the last offset that
	// existed) lies below the first message appended afterwards.  What a
	// committed reader does while the HW points at a removed message is not
	// C01's business (C03): commit the first retained message at once.
	if f := c.nextRetained(0); c.withHW && c.hw >= 0 && f > c.hw {
		c.opHW(f)
	}
}

func (c *c01boRun) opSplit() {
	c.trace = append(c.trace, "S")
	rolled, err := c.log.checkAndPerformSplit()
	if err != nil {
		c.fail("C01:belowoldest:split-error", err.Error(), nil)
		return
	}
	if rolled {
		c.rep.Count("bo_segment_rolls", 1)
		for _, st := range c.readers {
			st.note("roll")
		}
	}
}

func (c *c01boRun) opHW(h int64) {
	c.trace = append(c.trace, fmt.Sprintf("H(%d)", h))
	c.log.SetHighWatermark(h)
	if h > c.hw {
		c.hw = h
	}
	for _, st := range c.readers {
		st.note("hw-advance")
	}
}

// opTruncate: cut > HW (the replication protocol never truncates committed
// data) and cut > oldest (at least one message stays).
func (c *c01boRun) opTruncate(cut int64, class string) {
	c.trace = append(c.trace, fmt.Sprintf("T(%d:%s)", cut, class))
	type pre struct {
		base, last int64
		ok         bool
	}
	pres := make([]pre, len(c.readers))
	for i, st := range c.readers {
		if s := c01boSeg(st.r); s != nil {
			pres[i] = pre{s.BaseOffset, s.LastOffset(), true}
		}
	}
	if err := c.log.Truncate(cut); err != nil {
		c.fail("C01:belowoldest:truncate-error", fmt.Sprintf("Truncate(%d) failed: %v", cut, err), nil)
		return
	}
	if cut < c.n() {
		c.model = c.model[:cut]
		for o := range c.gone {
			if o >= cut {
				delete(c.gone, o)
			}
		}
	}
	c.rep.Count("bo_truncate_"+class, 1)
	for i, st := range c.readers {
		label := "truncate-in-later-segment"
		switch p := pres[i]; {
		case !p.ok:
		case cut > p.base && cut <= p.last:
			label = "truncate-inside-its-segment"
		case cut <= p.base:
			label = "truncate-removed-its-segment"
		}
		st.note(label)
		if c.nextRetained(st.pos) < 0 {
			// it has consumed everything that is retained
			st.afterCut = true
			c.rep.Count("bo_readers_kept_at_or_beyond_a_cut", 1)
		} else if label == "truncate-inside-its-segment" {
			c.rep.Count("bo_readers_with_retained_messages_ahead_whose_segment_was_rewritten_by_a_truncation", 1)
		}
	}
}

// opClean runs one cleaner pass (retention, then compaction when enabled) and
// re-derives what is retained from an independent parse of the segment files.
func (c *c01boRun) opClean() {
	segs := c.log.Segments()
	active := segs[len(segs)-1]
	type pre struct {
		seg  *segment
		last int64
	}
	pres := make([]pre, len(c.readers))
	for i, st := range c.readers {
		if s := c01boSeg(st.r); s != nil {
			pres[i] = pre{s, s.LastOffset()}
		}
	}
	oldFirst := c.nextRetained(0)
	if err := c.log.Clean(); err != nil {
		c.trace = append(c.trace, "C[error]")
		c.inconc("Clean() failed: " + err.Error())
		return
	}
	raw, err := vfScanDir(c.dir)
	if err != nil {
		c.trace = append(c.trace, "C[scan-error]")
		c.fail("C01:belowoldest:raw-scan", fmt.Sprintf("parsing the segment files after a cleaner pass: %v", err), nil)
		return
	}
	keep := map[int64]bool{}
	prev := int64(-1)
	first := int64(-1)
	for _, s := range raw {
		for _, rec := range s.Recs {
			if first < 0 {
				first = rec.Off
			}
			if rec.Off <= prev {
				c.trace = append(c.trace, "C[?]")
				c.fail("C01:belowoldest:files-offset-order-after-clean", fmt.Sprintf("after a cleaner pass segment %s holds offset %d after offset %d", s.File, rec.Off, prev), nil)
				return
			}
			prev = rec.Off
			if rec.Off >= c.n() || c.nextRetained(rec.Off) != rec.Off {
				c.trace = append(c.trace, "C[?]")
				c.fail("C01:belowoldest:files-hold-unretained-offset-after-clean", fmt.Sprintf("after a cleaner pass segment %s holds offset %d, which was not retained before the pass (retained before: from %d, log end %d)", s.File, rec.Off, oldFirst, c.n()-1), nil)
				return
			}
			if !vfSameRec(rec, c.model[rec.Off]) {
				c.trace = append(c.trace, "C[?]")
				c.fail("C01:belowoldest:content-changed-by-clean", fmt.Sprintf("after a cleaner pass the files hold %v at offset %d, stored was %v", rec, rec.Off, c.model[rec.Off]), nil)
				return
			}
			keep[rec.Off] = true
		}
	}
	if first < 0 {
		// everything that was retained sat in sealed segments and the active
		// segment is empty: the log retains nothing, the next offset stays
		first = c.n()
		c.rep.Count("bo_cleaner_passes_that_removed_every_message", 1)
	} else if !keep[c.n()-1] {
		c.trace = append(c.trace, "C[?]")
		c.inconc(fmt.Sprintf("the cleaner pass removed the newest message but not all (files hold %d messages)", len(keep)))
		return
	}
	if oldFirst < 0 {
		oldFirst = c.n()
	}
	removed := 0
	compacted := 0
	for o := c.nextRetained(0); o >= 0 && o < c.n(); o = c.nextRetained(o + 1) {
		if !keep[o] {
			removed++
			if o > first {
				compacted++
			}
		}
	}
	if !c.compact && compacted > 0 {
		c.trace = append(c.trace, "C[?]")
		c.fail("C01:belowoldest:gap-after-retention", fmt.Sprintf("a retention pass on a log without compaction left a gap: the files start at offset %d but %d later offsets are missing", first, compacted), nil)
		return
	}
	for o := first; o < c.n(); o++ {
		if !keep[o] {
			c.gone[o] = true
		}
	}
	for o := range c.gone {
		if o < first {
			delete(c.gone, o)
		}
	}
	c.oldest = first
	c.trace = append(c.trace, fmt.Sprintf("C[oldest %d->%d, -%d]", oldFirst, first, removed))
	c.rep.Count("bo_cleaner_passes", 1)
	if first != oldFirst {
		c.rep.Count("bo_cleaner_passes_that_removed_a_prefix", 1)
	}
	if compacted > 0 {
		c.rep.Count("bo_cleaner_passes_that_compacted_messages_away", 1)
	}
	for i, st := range c.readers {
		label := "clean-noop"
		switch p := pres[i]; {
		case p.seg == nil:
			if first != oldFirst {
				label = "retention-elsewhere"
			}
		case p.last < first:
			label = "retention-removed-its-segment"
		case c.compact && p.seg != active && len(segs) > 1:
			label = "compaction-noop"
			if compacted > 0 {
				label = "compaction-real"
			}
		case first != oldFirst:
			label = "retention-elsewhere"
		}
		st.note(label)
		if first != oldFirst && (st.delivered == 0 || st.last < first) {
			// the pass deleted the segment the reader stands in
			st.behind = true
			c.rep.Count("bo_readers_whose_segment_was_deleted_by_a_later_retention_pass", 1)
		}
	}
	// the harness never lets retention overtake the HW once something is committed
	if c.withHW && c.hw >= 0 && c.hw < first {
		if first < c.n() {
			c.opHW(first + int64(c.rng.Intn(int(c.n()-first))))
		} else {
			c.opHW(c.n() - 1) // nothing is retained: everything that existed was committed
		}
	}
}

func (c *c01boRun) newReader(below bool, committed bool, why string) {
	first := c.nextRetained(0)
	if first < 0 {
		return
	}
	st := &c01boReader{id: c.nextID, committed: committed, oldestAtOpen: first, last: -1}
	c.nextID++
	if below && first > 0 {
		switch c.rng.Intn(3) {
		case 0:
			st.start, st.class = 0, "zero"
		case 1:
			st.start, st.class = first-1, "oldest-1"
		default:
			st.start, st.class = int64(c.rng.Intn(int(first))), "below"
		}
	} else {
		st.class = "existing"
		hi := c.n() - 1
		if committed {
			// at most HW+1 (a committed reader above the HW starts with the next
			// committed message: documented clamp, looked at by C03)
			if c.hw < first {
				st.start = first
			} else {
				hi = c.hw + 1
				st.start = first + int64(c.rng.Intn(int(hi-first)+1))
			}
		} else {
			st.start = first + int64(c.rng.Intn(int(hi-first)+1))
		}
		if st.start >= c.n() {
			st.start = c.n() - 1
		}
	}
	st.pos = st.start
	mode := "u"
	if committed {
		mode = "c"
	}
	c.trace = append(c.trace, fmt.Sprintf("N#%d(%s:%d%s)", st.id, mode, st.start, why))
	r, err := c.log.NewReader(st.start, !committed)
	if err != nil {
		c.fail("C01:belowoldest:reader-open:"+st.kind(), fmt.Sprintf("NewReader(start=%d, uncommitted=%v) failed on a log that retains [%d,%d] (hw=%d): %v", st.start, !committed, first, c.n()-1, c.hw, err), nil)
		return
	}
	st.r = r
	c.readers = append(c.readers, st)
	c.rep.Count("bo_readers_opened_"+st.class+"_"+map[bool]string{true: "committed", false: "uncommitted"}[committed], 1)
}

// read lets reader st deliver up to k messages and judges each of them.
func (c *c01boRun) read(st *c01boReader, k int, probe bool) {
	hb := make([]byte, 28)
	for i := 0; i < k && !c.failed && !st.dead; i++ {
		owed := c.owed(st)
		if owed < 0 && !probe {
			return
		}
		var (
			m        SerializedMessage
			off, ts  int64
			ep       uint64
			err      error
			panicked bool
		)
		ctxBefore := st.r.ctxReader
		func() {
			defer func() {
				if p := recover(); p != nil {
					err = fmt.Errorf("panic: %v", p)
					panicked = true
				}
			}()
			m, off, ts, ep, err = st.r.ReadMessage(vfCancelled, hb)
		}()
		label, class := st.strongest()
		desc := fmt.Sprintf("standing reader #%d (requested start %d [%s], log retained from %d when it was opened, uncommitted=%v, %d delivered, last delivered offset %d; since then: %s)",
			st.id, st.start, st.class, st.oldestAtOpen, !st.committed, st.delivered, st.last, strings.Join(st.since, ", "))
		fp := func(symptom string) string {
			return fmt.Sprintf("C01:belowoldest:%s:%s:after-%s", st.kind(), symptom, class)
		}
		extra := map[string]any{"reader_start": st.start, "reader_committed": st.committed, "reader_last_delivered": st.last, "since_last_delivery": st.since, "strongest": label}
		if panicked {
			c.fail(fp("panic"), fmt.Sprintf("%s panicked: %v", desc, err), extra)
			return
		}
		if err != nil {
			if owed < 0 {
				return // nothing to deliver: it would wait
			}
			if st.afterCut || st.behind {
				cause := pkgErrors.Cause(err)
				if !st.committed && cause == io.EOF {
					c.fail(fp("no-data"), fmt.Sprintf("%s neither failed nor delivered: it reports no data (would wait) although offset %d is retained", desc, owed), extra)
					return
				}
				st.dead = true
				why := "beyond_a_cut"
				if st.behind {
					why = "in_a_segment_deleted_by_retention"
				}
				c.rep.Count("bo_lenient_reader_"+why+"_ended_with:"+fmt.Sprint(cause), 1)
				return
			}
			c.fail(fp("error"), fmt.Sprintf("%s failed although offset %d is retained and owed (log retains [%d,%d], hw=%d): %v", desc, owed, c.nextRetained(0), c.n()-1, c.hw, err), extra)
			return
		}
		rec, derr := vfDecode(m, off, ts, ep)
		switch {
		case st.delivered > 0 && off <= st.last:
			c.fail(fp("offset-went-back"), fmt.Sprintf("%s delivered offset %d again / a lower offset (owed: %d)", desc, off, owed), extra)
			return
		case owed < 0:
			c.fail(fp("phantom"), fmt.Sprintf("%s delivered offset %d although nothing is owed (log retains [%d,%d], hw=%d)", desc, off, c.nextRetained(0), c.n()-1, c.hw), extra)
			return
		case off > owed:
			c.fail(fp("skipped"), fmt.Sprintf("%s delivered offset %d, skipping retained offset %d", desc, off, owed), extra)
			return
		case off < owed:
			c.fail(fp("unretained-offset"), fmt.Sprintf("%s delivered offset %d, which is not retained / below its start; owed: %d", desc, off, owed), extra)
			return
		case derr != nil:
			c.fail(fp("content"), fmt.Sprintf("%s offset %d: %v", desc, off, derr), extra)
			return
		case !vfSameRec(rec, c.model[off]):
			c.fail(fp("content"), fmt.Sprintf("%s delivered %v, stored was %v", desc, rec, c.model[off]), extra)
			return
		}
		if st.delivered == 0 && off != st.start {
			c.firstDiffers++
			c.rep.Count("bo_readers_whose_first_delivered_offset_differs_from_the_requested_start", 1)
		}
		reinit := st.r.ctxReader != ctxBefore
		if reinit {
			c.rep.Count("bo_deliveries_after_reader_was_repositioned["+st.kind()+"]["+label+"]", 1)
			if st.kind() == "start-below-oldest" && st.delivered > 0 {
				c.belowReinitDeliveries++
			}
		}
		if len(st.since) > 0 {
			c.rep.Count("bo_first_delivery_after["+label+"]", 1)
		}
		if st.afterCut || st.behind {
			c.rep.Count("bo_lenient_reader_verified_delivery", 1)
		}
		st.afterCut, st.behind = false, false
		st.since = st.since[:0]
		st.last, st.pos = off, off+1
		st.delivered++
		c.rep.Count("bo_standing_reader_deliveries["+st.kind()+"]", 1)
	}
}

func (c *c01boRun) advance(drain bool) {
	if c.failed {
		return
	}
	for _, st := range c.readers {
		k := c.rng.Intn(4)
		if drain || c.rng.Chance(1, 8) {
			k = int(c.n()) + 1
		}
		c.read(st, k, false)
		if drain && !c.failed && !st.dead {
			c.read(st, 1, true) // one more: must not deliver anything
		}
		if c.failed {
			return
		}
	}
	keep := c.readers[:0]
	for _, st := range c.readers {
		if !st.dead {
			keep = append(keep, st)
		}
	}
	c.readers = keep
}

// fresh: drain-at-once readers from below the oldest offset (and at it) after
// every operation, plus the log's own idea of its bounds.
func (c *c01boRun) fresh() {
	if c.failed {
		return
	}
	first := c.nextRetained(0)
	if got := c.log.NewestOffset(); got != c.n()-1 {
		c.fail("C01:belowoldest:newest-offset", fmt.Sprintf("NewestOffset=%d, expected %d", got, c.n()-1), nil)
		return
	}
	if got := c.log.OldestOffset(); got != first {
		c.fail("C01:belowoldest:oldest-offset", fmt.Sprintf("OldestOffset=%d, the first retained message has offset %d", got, first), nil)
		return
	}
	starts := []int64{0}
	if first >= 0 {
		starts = append(starts, first)
	}
	if first > 0 {
		starts = append(starts, first-1, int64(c.rng.Intn(int(first))))
	}
	for _, s := range starts {
		for _, unc := range []bool{true, false} {
			if !unc && !c.withHW {
				continue
			}
			recs, oerr, err := vfReadFrom(c.log, s, unc, int(c.n())+8)
			if err != nil {
				c.fail("C01:belowoldest:fresh-reader:read-error", fmt.Sprintf("reader(start=%d uncommitted=%v): %v", s, unc, err), nil)
				return
			}
			var want []int64
			for o := c.nextRetained(s); o >= 0; o = c.nextRetained(o + 1) {
				if !unc && o > c.hw {
					break
				}
				want = append(want, o)
			}
			if oerr != nil {
				if len(want) > 0 {
					c.fail("C01:belowoldest:fresh-reader:open", fmt.Sprintf("NewReader(start=%d, uncommitted=%v) failed although [%d,%d] is retained (hw=%d): %v", s, unc, first, c.n()-1, c.hw, oerr), nil)
					return
				}
				continue
			}
			if len(recs) != len(want) {
				c.fail("C01:belowoldest:fresh-reader:count", fmt.Sprintf("reader(start=%d uncommitted=%v hw=%d) on a log retaining [%d,%d] returned %d messages (offsets %s), expected %d", s, unc, c.hw, first, c.n()-1, len(recs), offsList(recs), len(want)), nil)
				return
			}
			for i, o := range want {
				if !vfSameRec(recs[i], c.model[o]) {
					fp := "C01:belowoldest:fresh-reader:content"
					if recs[i].Off != o {
						fp = "C01:belowoldest:fresh-reader:offset-order"
					}
					c.fail(fp, fmt.Sprintf("reader(start=%d uncommitted=%v) message #%d: got %v want %v", s, unc, i, recs[i], c.model[o]), nil)
					return
				}
			}
			c.rep.Count("bo_fresh_reader_starts_checked", 1)
		}
	}
}

// pickTruncate chooses a cut relative to a standing reader.
func (c *c01boRun) pickTruncate() (int64, string, bool) {
	lo := c.hw
	f := c.nextRetained(0)
	if f < 0 {
		return 0, "", false
	}
	if f > lo {
		lo = f
	}
	lo++ // cut >= lo
	n := c.n()
	if lo > n {
		return 0, "", false
	}
	var cands []*c01boReader
	for _, st := range c.readers {
		if st.delivered > 0 && c01boSeg(st.r) != nil {
			cands = append(cands, st)
		}
	}
	between := func(a, b int64) (int64, bool) { // a value in [a,b] that is also in [lo,n]
		if a < lo {
			a = lo
		}
		if b > n {
			b = n
		}
		if a > b {
			return 0, false
		}
		return a + int64(c.rng.Intn(int(b-a)+1)), true
	}
	if len(cands) > 0 {
		// prefer readers started below the oldest offset
		// ... that have a retained message of their own segment in front of
		// them which a cut can leave in place
		feasible := func(st *c01boReader) bool {
			s := c01boSeg(st.r)
			o := c.nextRetained(st.pos)
			return o >= 0 && o+1 <= s.LastOffset() && s.LastOffset() >= lo && o+1 <= n
		}
		st := cands[c.rng.Intn(len(cands))]
		for tries := 0; tries < 6 && (st.kind() != "start-below-oldest" || !feasible(st)); tries++ {
			st = cands[c.rng.Intn(len(cands))]
		}
		s := c01boSeg(st.r)
		b, e := s.BaseOffset, s.LastOffset()
		owed := c.nextRetained(st.pos)
		order := []string{"inside-ahead", "at-reader", "behind-reader", "at-its-segment-base", "later-segment"}
		x := c.rng.Intn(100)
		switch {
		case x < 50:
		case x < 60:
			order[0], order[1] = order[1], order[0]
		case x < 75:
			order[0], order[2] = order[2], order[0]
		case x < 90:
			order[0], order[3] = order[3], order[0]
		default:
			order[0], order[4] = order[4], order[0]
		}
		for _, cl := range order {
			switch cl {
			case "inside-ahead":
				// strictly inside its segment, with at least one retained message
				// left in front of the reader
				if owed >= 0 {
					a := owed + 1
					if a <= b {
						a = b + 1
					}
					if v, ok := between(a, e); ok {
						return v, "inside-its-segment-ahead-of-the-reader", true
					}
				}
			case "at-reader":
				if st.pos > b {
					if v, ok := between(st.pos, st.pos); ok {
						return v, "at-the-reader", true
					}
				}
			case "behind-reader":
				if v, ok := between(b+1, st.pos-1); ok {
					return v, "inside-its-segment-behind-the-reader", true
				}
			case "at-its-segment-base":
				if v, ok := between(b, b); ok {
					return v, "at-its-segment-base", true
				}
			case "later-segment":
				if v, ok := between(e+2, n); ok {
					return v, "in-a-later-segment", true
				}
			}
		}
	}
	if v, ok := between(lo, n); ok {
		return v, "anywhere", true
	}
	return 0, "", false
}

// ---------------------------------------------------------------- the unit

func TestVerifC01BelowOldest(t *testing.T) {
	rep := kit.NewReport("C01", "belowoldest")
	defer rep.Write()
	rep.SetRule("seeded sequential cases on a log that has LOST A PREFIX: (a) written through Append and trimmed by a retention pass with a message limit or (b) a byte limit, or (c) a follower log replicated through AppendMessageSet from the oldest offset k > 0 of a trimmed leader (first segment: base 0, first offset k); segment size 300/600/1200 (follower also 1 MiB), with or without compaction (keys unique-or-nil: a pass replaces every non-active segment and removes nothing; repeating keys: messages really disappear below the HW), with or without a HW. 3-7 STANDING readers, uncommitted and committed, are opened BELOW the oldest retained offset (0, oldest-1, anywhere below; a quarter at existing offsets as controls), read 0-7 messages, and are then advanced 0-3 messages (1/8: completely) after each of 8-18 operations from {append 1-5 (rolls), explicit roll check, Truncate at a cut chosen relative to a standing reader: strictly inside its segment in front of it / at it / behind it / at its segment base / in a later segment, Clean() (retention that binds again after growth + compaction), HW advance, open another reader}; drained at the end. Per delivery: offset = first retained offset >= the reader's position (strictly above its last delivery), content as stored; retained = appended, not truncated, and — after a cleaner pass — present in an independent parse of the .log files (which must be an unchanged subset of what was retained, gap-free without compaction). Errors: only for a reader with nothing retained in front of a truncation or standing in a segment deleted by a later retention pass. After every operation also drain-at-once readers from 0 / oldest-1 / below / oldest and OldestOffset/NewestOffset. non-trivial = a reader started below the oldest offset (first delivery != requested start) delivered again after it had been re-positioned because its segment was replaced; distinct = origin + sizes + program")
	rep.Assume("truncation offsets are > HW and > the oldest retained offset; once something is committed the harness advances the HW past a prefix that retention removed (retention never overtakes the HW in these runs)")
	rep.Assume("which prefix a retention pass removes and which messages compaction removes is not judged here (C09 / C08): the retained set after a pass is read from the segment files")
	root := kit.NewRNG(kit.Mix(kit.Seed(), 0xC01B0))
	ncase := kit.Scale(320, 3200)
	seeds := make([]uint64, ncase)
	for i := range seeds {
		seeds[i] = root.Uint64()
	}
	kit.Parallel(ncase, kit.Workers(), func(ci int) {
		if rep.NumViolations() >= 6 {
			return
		}
		c01boCase(rep, ci, seeds[ci])
	})
}

func c01boCase(rep *kit.Report, ci int, seed uint64) {
	rng := kit.NewRNG(seed)
	c := &c01boRun{rep: rep, rng: rng, seed: seed, idx: ci, gone: map[int64]bool{}, hw: -1, gen: newVfGen(rng.Fork(7))}
	c.origin = []string{"retention-messages", "retention-bytes", "follower-from-k"}[rng.Intn(3)]
	c.maxSeg = []int64{300, 600, 1200}[rng.Intn(3)]
	c.compact = rng.Chance(2, 5)
	c.withHW = rng.Chance(3, 5)
	c.keyStyle = "any"
	if c.compact {
		c.keyStyle = []string{"unique-or-nil", "unique-or-nil", "any", "few"}[rng.Intn(4)]
		if c.keyStyle != "unique-or-nil" && !rng.Chance(1, 5) {
			c.withHW = true // compaction removes messages only below the HW
		}
	}
	c.dir = vfTempDir("c01bo")
	defer os.RemoveAll(c.dir)
	rep.Eval()
	n := rng.Range(24, 56)
	keepMsgs := int64(rng.Range(6, n/2))

	opts := vfOpts(c.dir, c.maxSeg)
	opts.Compact = c.compact
	switch c.origin {
	case "retention-messages":
		opts.MaxLogMessages = keepMsgs
		c.limits = fmt.Sprintf("messages<=%d", keepMsgs)
	case "retention-bytes":
		opts.MaxLogBytes = keepMsgs * 110
		c.limits = fmt.Sprintf("bytes<=%d", opts.MaxLogBytes)
	default:
		if c.maxSeg == 300 && rng.Bool() {
			c.maxSeg = 1 << 20
			opts.MaxSegmentBytes = c.maxSeg
		}
		if rng.Bool() {
			opts.MaxLogMessages = keepMsgs + int64(rng.Range(0, 20))
			c.limits = fmt.Sprintf("messages<=%d", opts.MaxLogMessages)
		}
	}

	if c.origin == "follower-from-k" {
		// the leader: written, trimmed by retention
		ldir := vfTempDir("c01bol")
		defer os.RemoveAll(ldir)
		lo := vfOpts(ldir, []int64{300, 600}[rng.Intn(2)])
		lo.MaxLogMessages = keepMsgs
		leader, err := vfOpen(lo)
		if err != nil {
			rep.Violation("C01:open-error", err.Error(), nil)
			return
		}
		defer leader.Close()
		for c.n() < int64(n) && !c.failed {
			c.appendTo(leader, rng.Range(1, 5))
		}
		if c.failed {
			return
		}
		if err := leader.Clean(); err != nil {
			rep.Inconc("leader retention pass failed: " + err.Error())
			return
		}
		k := leader.OldestOffset()
		if k <= 0 {
			rep.Count("bo_cases_where_retention_removed_nothing", 1)
			return
		}
		f, err := vfOpen(opts)
		if err != nil {
			rep.Violation("C01:open-error", err.Error(), nil)
			return
		}
		c.log = f
		defer func() { c.log.Close() }()
		for off := k; off < c.n(); {
			cnt := rng.Range(1, 7)
			if off+int64(cnt) > c.n() {
				cnt = int(c.n() - off)
			}
			data, err := vfReplicaBytes(leader, off, cnt)
			if err != nil {
				rep.Inconc(fmt.Sprintf("reading replication bytes from the leader at %d: %v", off, err))
				return
			}
			offs, err := f.AppendMessageSet(data)
			if err != nil || len(offs) != cnt || offs[0] != off {
				c.fail("C01:belowoldest:appendms", fmt.Sprintf("AppendMessageSet of offsets %d..%d into a follower whose log starts at %d: offsets %v, error %v", off, off+int64(cnt)-1, k, offs, err), nil)
				return
			}
			off += int64(cnt)
		}
		c.oldest = k
		c.trace = append(c.trace, fmt.Sprintf("follower[%d..%d]", k, c.n()-1))
	} else {
		l, err := vfOpen(opts)
		if err != nil {
			rep.Violation("C01:open-error", err.Error(), nil)
			return
		}
		c.log = l
		defer func() { c.log.Close() }()
		for c.n() < int64(n) && !c.failed {
			c.appendTo(c.log, rng.Range(1, 5))
		}
		if c.failed {
			return
		}
		c.trace = append(c.trace, fmt.Sprintf("leader[0..%d]", c.n()-1))
		if c.withHW && rng.Bool() {
			// something is committed before the first pass (compaction has work to do)
			c.opHW(int64(rng.Range(n/2, n-1)))
		}
		c.opClean()
		if c.failed {
			return
		}
		if c.nextRetained(0) <= 0 {
			rep.Count("bo_cases_where_retention_removed_nothing", 1)
			return
		}
	}
	rep.Count("bo_cases["+c.origin+"]", 1)
	first := c.nextRetained(0)
	if c.withHW && c.hw < first && rng.Chance(3, 4) {
		c.opHW(first + int64(rng.Intn(int(c.n()-first))))
	}
	c.fresh()

	// the standing readers
	nr := rng.Range(3, 7)
	for i := 0; i < nr && !c.failed; i++ {
		c.newReader(!rng.Chance(1, 4), c.withHW && rng.Chance(2, 5), "")
	}
	for _, st := range c.readers {
		if !rng.Chance(1, 8) {
			c.read(st, rng.Range(1, 7), false)
		}
	}

	nops := rng.Range(8, kit.Scale(18, 26))
	for i := 0; i < nops && !c.failed; i++ {
		switch x := rng.Intn(100); {
		case x < 22:
			c.opAppend(rng.Range(1, 5))
		case x < 28:
			c.opSplit()
		case x < 58:
			if cut, class, ok := c.pickTruncate(); ok {
				c.opTruncate(cut, class)
			} else {
				c.opAppend(rng.Range(1, 5))
			}
		case x < 80:
			if f := c.nextRetained(0); c.compact && c.withHW && c.keyStyle != "unique-or-nil" && f >= 0 && c.hw < c.n()-1 && rng.Bool() {
				// commit first, so that the pass has something to compact away
				lo := c.hw + 1
				if f > lo {
					lo = f
				}
				c.opHW(lo + int64(rng.Intn(int(c.n()-lo))))
			}
			c.opClean()
		case x < 90:
			lo := c.hw + 1
			f := c.nextRetained(0)
			if f > lo {
				lo = f
			}
			if c.withHW && f >= 0 && lo <= c.n()-1 {
				c.opHW(lo + int64(rng.Intn(int(c.n()-lo))))
			} else {
				c.opAppend(rng.Range(1, 5))
			}
		default:
			if len(c.readers) < 8 {
				c.newReader(!rng.Chance(1, 4), c.withHW && rng.Chance(2, 5), "")
				if !c.failed && len(c.readers) > 0 && !rng.Chance(1, 6) {
					c.read(c.readers[len(c.readers)-1], rng.Range(1, 5), false)
				}
			}
		}
		c.advance(false)
		c.fresh()
	}
	// regrow a little so that readers kept at or beyond a cut have something in front of them
	if !c.failed && rng.Bool() {
		c.opAppend(rng.Range(2, 6))
		if c.withHW && !c.failed && rng.Bool() {
			c.opHW(c.n() - 1)
		}
	}
	c.advance(true)
	if c.failed {
		return
	}
	if c.belowReinitDeliveries > 0 && c.firstDiffers > 0 {
		rep.Nontrivial(fmt.Sprintf("%s|%d|%v|%s|%s", c.origin, c.maxSeg, c.compact, c.keyStyle, strings.Join(c.trace, " ")))
	}
	if ci < 3 {
		rep.Sample(c.witness(map[string]any{"readers_opened": c.nextID}))
	}
}
