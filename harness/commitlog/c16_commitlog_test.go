//go:build verif

package commitlog

// C16 at the commit-log level: Append on a commitLog with ConcurrencyControl.
// Batches of exactly one message, as the partition's message loop guarantees
// for such logs (newMessageSetFromProto panics on larger ones by design), and
// one appender at a time, as in the server (Append reads the next offset and
// writes without holding a lock across the two; the single message loop is
// its only caller).
//
// Oracle: Append returns ErrIncorrectOffset iff the expected offset is neither
// -1 nor the next offset; on success the returned offset is the old next
// offset; on reject NewestOffset and the bytes / records of the segment files
// are unchanged; at the end the log holds exactly the accepted messages.

import (
	"context"
	"errors"
	"fmt"
	"os"
	"path/filepath"
	"strings"
	"sync"
	"sync/atomic"
	"testing"
	"time"

	kit "github.com/liftbridge-io/liftbridge/internal/verifkit"
)

func c16Opts(dir string, maxSeg int64) Options {
	o := vfOpts(dir, maxSeg)
	o.ConcurrencyControl = true
	return o
}

func c16Expected(rng *kit.RNG, class string, believed int64) int64 {
	switch class {
	case "equal":
		return believed
	case "stale":
		v := believed - int64(rng.Range(1, 3))
		if v < 0 {
			v = 0
		}
		return v
	case "future":
		return believed + int64(rng.Range(1, 3))
	case "zero":
		return 0
	case "negative":
		return []int64{-2, -3, -1000, -1 << 63}[rng.Intn(4)]
	}
	return -1
}

var c16Classes = []string{"equal", "equal", "equal", "stale", "stale", "future", "future", "zero", "any", "any", "negative"}

// c16RawState is what "the log is unchanged" is judged on: the bytes and the
// parsed records of all segment files.
func c16RawState(dir string) (string, int64, error) {
	segs, err := vfScanDir(dir)
	if err != nil {
		return "", 0, err
	}
	var sb strings.Builder
	var total int64
	for _, s := range segs {
		total += s.Bytes
		if s.Trailing != 0 {
			return "", 0, fmt.Errorf("segment %s has %d trailing bytes", s.File, s.Trailing)
		}
		for _, r := range s.Recs {
			fmt.Fprintf(&sb, "%d:%x ", r.Off, r.digest())
		}
	}
	return sb.String(), total, nil
}

func c16LogBytes(dir string) int64 {
	ents, err := os.ReadDir(dir)
	if err != nil {
		return -1
	}
	var n int64
	for _, e := range ents {
		if strings.HasSuffix(e.Name(), ".log") {
			if fi, err := os.Stat(filepath.Join(dir, e.Name())); err == nil {
				n += fi.Size()
			}
		}
	}
	return n
}

type c16LogRun struct {
	rep    *kit.Report
	dir    string
	maxSeg int64
	log    *commitLog
	model  []string // tag stored at each offset
	hw     int64
	trace  []string
	failed bool
	ts     int64
	epoch  uint64
	uniq   int
}

func (c *c16LogRun) fail(fp, what string) {
	c.failed = true
	c.rep.Violation(fp, what, map[string]any{"maxSegmentBytes": c.maxSeg, "program": strings.Join(c.trace, " ")})
}

func (c *c16LogRun) msg(e int64, rng *kit.RNG) (*Message, string) {
	c.uniq++
	c.ts += int64(rng.Range(1, 5))
	if rng.Chance(1, 15) {
		c.epoch++
	}
	tag := fmt.Sprintf("t%05d-%s", c.uniq, strings.Repeat("x", rng.Intn(40)))
	m := &Message{MagicByte: 1, Key: []byte("k"), Value: []byte(tag), Timestamp: c.ts, LeaderEpoch: c.epoch, Offset: e}
	if rng.Bool() {
		m.Headers = map[string][]byte{"subject": []byte("s"), "reply": {}}
	}
	return m, tag
}

// appendOne performs one conditional Append and applies the oracle.
func (c *c16LogRun) appendOne(class string, e int64, rng *kit.RNG, fullScan bool) (accepted bool) {
	next := int64(len(c.model))
	m, tag := c.msg(e, rng)
	c.trace = append(c.trace, fmt.Sprintf("P(%s e=%d next=%d)", class, e, next))
	var before string
	var beforeBytes int64
	var err error
	if fullScan {
		if before, beforeBytes, err = c16RawState(c.dir); err != nil {
			c.fail("C16:log:raw-scan", err.Error())
			return false
		}
	} else {
		beforeBytes = c16LogBytes(c.dir)
	}
	should := e == -1 || e == next
	offs, aerr := c.log.Append([]*Message{m})
	switch {
	case should && aerr != nil:
		if errors.Is(aerr, ErrIncorrectOffset) {
			fp := "C16:log:spurious-reject"
			if e == -1 {
				fp = "C16:log:unconditional-rejected"
			}
			c.fail(fp, fmt.Sprintf("Append with expected offset %d on a log whose next offset is %d returned ErrIncorrectOffset", e, next))
		} else {
			c.fail("C16:log:append-error", fmt.Sprintf("Append(expected %d, next %d) failed: %v", e, next, aerr))
		}
		return false
	case !should && aerr == nil:
		c.fail("C16:log:accepted-wrong-expected-offset", fmt.Sprintf("Append with expected offset %d on a log whose next offset is %d succeeded (returned %v)", e, next, offs))
		return false
	case !should && !errors.Is(aerr, ErrIncorrectOffset):
		c.fail("C16:log:wrong-error", fmt.Sprintf("Append with expected offset %d (next %d) failed with %v instead of ErrIncorrectOffset", e, next, aerr))
		return false
	}
	if aerr == nil {
		if len(offs) != 1 || offs[0] != next {
			c.fail("C16:log:append-offset", fmt.Sprintf("Append(expected %d) returned offsets %v, the next offset was %d", e, offs, next))
			return false
		}
		c.model = append(c.model, tag)
		if got := c.log.NewestOffset(); got != next {
			c.fail("C16:log:newest-after-accept", fmt.Sprintf("NewestOffset=%d after an accepted Append at %d", got, next))
		}
		return true
	}
	// rejected: nothing may have changed
	if got := c.log.NewestOffset(); got != next-1 {
		c.fail("C16:log:changed-on-reject", fmt.Sprintf("NewestOffset moved from %d to %d by a rejected Append (expected offset %d)", next-1, got, e))
		return false
	}
	if fullScan {
		after, afterBytes, err := c16RawState(c.dir)
		if err != nil {
			c.fail("C16:log:raw-scan", err.Error())
			return false
		}
		if after != before || afterBytes != beforeBytes {
			c.fail("C16:log:changed-on-reject", fmt.Sprintf("segment files changed by a rejected Append (expected offset %d, next %d): %d -> %d bytes", e, next, beforeBytes, afterBytes))
			return false
		}
	} else if ab := c16LogBytes(c.dir); ab != beforeBytes {
		c.fail("C16:log:changed-on-reject", fmt.Sprintf("segment files grew from %d to %d bytes by a rejected Append (expected offset %d, next %d)", beforeBytes, ab, e, next))
		return false
	}
	return false
}

// finalCheck compares reader output and raw files with the model.
func (c *c16LogRun) finalCheck() {
	if c.failed || c.log == nil {
		return
	}
	n := len(c.model)
	recs, oerr, err := vfReadFrom(c.log, 0, true, n+8)
	if err != nil || (oerr != nil && n > 0) {
		c.fail("C16:log:read-error", fmt.Sprintf("reading the final log: %v %v", oerr, err))
		return
	}
	segs, err := vfScanDir(c.dir)
	if err != nil {
		c.fail("C16:log:raw-scan", err.Error())
		return
	}
	var raw []vfRec
	for _, s := range segs {
		raw = append(raw, s.Recs...)
	}
	for name, got := range map[string][]vfRec{"reader": recs, "segment files": raw} {
		if len(got) != n {
			c.fail("C16:log:final-content", fmt.Sprintf("%s hold %d messages, %d were accepted", name, len(got), n))
			return
		}
		for i, r := range got {
			if r.Off != int64(i) || string(r.Val) != c.model[i] {
				c.fail("C16:log:final-content", fmt.Sprintf("%s: record #%d is offset %d value %q, accepted there: %q", name, i, r.Off, r.Val, c.model[i]))
				return
			}
		}
	}
}

func c16Wait(timeout time.Duration, cond func() bool) bool {
	deadline := time.Now().Add(timeout)
	for !cond() {
		if time.Now().After(deadline) {
			return false
		}
		time.Sleep(time.Millisecond)
	}
	return true
}

// TestVerifC16Log: seeded sequential programs.
func TestVerifC16Log(t *testing.T) {
	rep := kit.NewReport("C16", "commitlog-seq")
	defer rep.Write()
	rep.SetRule("seeded sequential programs on a real commitLog with ConcurrencyControl: single-message Append with expected offset equal/stale/future/0/-1, Close+New, Truncate above the HW, SetHighWatermark, 5 MaxSegmentBytes values; after every Append: ErrIncorrectOffset iff expected not in {-1, next}, returned offset = next, on reject NewestOffset and the parsed segment files unchanged; final content = accepted messages; non-trivial = program had accepts and rejects of every class, rolled a segment and reopened or truncated; distinct = program text")
	rep.Assume("one message per Append and one appender at a time, as the partition's message loop guarantees for logs with concurrency control")
	root := kit.NewRNG(kit.Mix(kit.Seed(), 0xC16A))
	nprog := kit.Scale(600, 8000)
	seeds := make([]uint64, nprog)
	for i := range seeds {
		seeds[i] = root.Uint64()
	}
	kit.Parallel(nprog, kit.Workers(), func(p int) {
		if rep.NumViolations() >= 6 {
			return
		}
		rng := kit.NewRNG(seeds[p])
		maxSeg := []int64{1, 90, 300, 2048, 1 << 20}[rng.Intn(5)]
		c := &c16LogRun{rep: rep, dir: vfTempDir("c16"), maxSeg: maxSeg, hw: -1, ts: 1000, epoch: 1}
		defer os.RemoveAll(c.dir)
		l, err := vfOpen(c16Opts(c.dir, maxSeg))
		if err != nil {
			rep.Violation("C16:log:open-error", err.Error(), nil)
			return
		}
		c.log = l
		defer func() {
			if c.log != nil {
				c.log.Close()
			}
		}()
		nops := rng.Range(10, kit.Scale(50, 70))
		cnt := map[string]int{}
		reopens, truncs, rolls := 0, 0, 0
		for i := 0; i < nops && !c.failed; i++ {
			segsBefore := len(c.log.Segments())
			next := int64(len(c.model))
			switch x := rng.Intn(100); {
			case x < 80:
				class := c16Classes[rng.Intn(len(c16Classes))]
				e := c16Expected(rng, class, next)
				ok := c.appendOne(class, e, rng, true)
				cnt[fmt.Sprintf("%s/%v", class, ok)]++
			case x < 87:
				c.trace = append(c.trace, "R")
				if err := c.log.Close(); err != nil {
					c.fail("C16:log:close-error", err.Error())
					break
				}
				l, err := vfOpen(c16Opts(c.dir, maxSeg))
				if err != nil {
					c.log = nil
					c.fail("C16:log:reopen-error", err.Error())
					break
				}
				c.log = l
				reopens++
			case x < 94:
				lo := c.hw + 1
				if next <= lo {
					continue
				}
				k := lo + int64(rng.Intn(int(next-lo)+1))
				c.trace = append(c.trace, fmt.Sprintf("T(%d)", k))
				if err := c.log.Truncate(k); err != nil {
					c.fail("C16:log:truncate-error", err.Error())
					break
				}
				if k < next {
					c.model = c.model[:k]
				}
				truncs++
			default:
				if next == 0 {
					continue
				}
				hw := int64(rng.Intn(int(next)))
				c.trace = append(c.trace, fmt.Sprintf("H(%d)", hw))
				c.log.SetHighWatermark(hw)
				if hw > c.hw {
					c.hw = hw
				}
			}
			if c.log != nil {
				if n := len(c.log.Segments()); n > segsBefore {
					rolls += n - segsBefore
				}
			}
		}
		c.finalCheck()
		rep.Eval()
		for k, v := range cnt {
			rep.Count("append_"+k, int64(v))
		}
		rep.Count("reopens", int64(reopens))
		rep.Count("truncations", int64(truncs))
		rep.Count("segment_rolls", int64(rolls))
		if cnt["equal/true"] > 0 && cnt["any/true"] > 0 && cnt["stale/false"]+cnt["zero/false"] > 0 && cnt["future/false"] > 0 && rolls > 0 && reopens+truncs > 0 {
			rep.Nontrivial(fmt.Sprintf("%d|%s", maxSeg, strings.Join(c.trace, " ")))
		}
		if p < 3 {
			rep.Sample(map[string]any{"maxSegmentBytes": maxSeg, "program": strings.Join(c.trace, " "), "accepted": len(c.model)})
		}
	})
}

// TestVerifC16LogRacing: G goroutines race for the right to append (one
// appender at a time, order decided by the scheduler) with guesses made from
// what they last saw, while a splitter, a tailing reader and NewestOffset
// pollers run concurrently; under the race detector.
func TestVerifC16LogRacing(t *testing.T) {
	rep := kit.NewReport("C16", "commitlog-racing")
	defer rep.Write()
	rep.SetRule("G in {2..16} goroutines race to Append single messages (serialised by a harness mutex like the partition's single message loop; arrival order decided by the scheduler) with expected offsets guessed from their own last success / NewestOffset()+1 read outside the mutex, while checkAndPerformSplit, an uncommitted tailing reader and NewestOffset pollers run concurrently under -race; same per-Append oracle (segment bytes instead of a full parse on reject) plus final content and reader output; non-trivial = some offset had >=2 competing equal guesses with exactly one winner, and a segment rolled; distinct = (G, segment size, accepted, rejected)")
	rep.Assume("one message per Append and one appender at a time, as the partition's message loop guarantees for logs with concurrency control")
	root := kit.NewRNG(kit.Mix(kit.Seed(), 0xC16B))
	runs := kit.Scale(80, 800)
	for i := 0; i < runs && rep.NumViolations() < 4; i++ {
		rng := root.Fork(uint64(i))
		g := []int{2, 3, 4, 6, 8, 12, 16}[rng.Intn(7)]
		per := rng.Range(10, 40)
		maxSeg := []int64{90, 400, 4096, 1 << 20}[rng.Intn(4)]
		c := &c16LogRun{rep: rep, dir: vfTempDir("c16r"), maxSeg: maxSeg, hw: -1, ts: 1000, epoch: 1}
		l, err := vfOpen(c16Opts(c.dir, maxSeg))
		if err != nil {
			rep.Violation("C16:log:open-error", err.Error(), nil)
			os.RemoveAll(c.dir)
			continue
		}
		c.log = l
		var mu sync.Mutex // the single appender
		var wg, bg sync.WaitGroup
		stop := make(chan struct{})
		var accepted, rejected atomic.Int64
		competitors := map[int64]int{} // expected offset -> equal-class guesses (under mu)
		winners := map[int64]int{}
		// background: splitter
		bg.Add(1)
		go func() {
			defer bg.Done()
			for {
				select {
				case <-stop:
					return
				default:
				}
				if _, err := l.checkAndPerformSplit(); err != nil {
					rep.Violation("C16:log:split-error", err.Error(), nil)
					return
				}
				time.Sleep(60 * time.Microsecond)
			}
		}()
		// background: NewestOffset poller must never see the offset go back
		bg.Add(1)
		go func() {
			defer bg.Done()
			last := int64(-1)
			for {
				select {
				case <-stop:
					return
				default:
				}
				n := l.NewestOffset()
				if n < last {
					rep.Violation("C16:log:newest-went-back", fmt.Sprintf("NewestOffset went from %d to %d while only Appends were running", last, n), nil)
					return
				}
				last = n
				time.Sleep(30 * time.Microsecond)
			}
		}()
		// background: tailing reader
		var tail []vfRec
		var tailN atomic.Int64
		ctx, cancel := context.WithCancel(context.Background())
		bg.Add(1)
		go func() {
			defer bg.Done()
			// a reader can only be opened once the log holds something
			for l.NewestOffset() < 0 {
				select {
				case <-ctx.Done():
					return
				default:
					time.Sleep(50 * time.Microsecond)
				}
			}
			r, err := l.NewReader(0, true)
			if err != nil {
				rep.Violation("C16:log:reader-open", fmt.Sprintf("NewReader(0, uncommitted) on a non-empty log failed: %v", err), nil)
				return
			}
			hb := make([]byte, 28)
			for {
				m, off, ts, ep, err := r.ReadMessage(ctx, hb)
				if err != nil {
					return
				}
				rec, derr := vfDecode(m, off, ts, ep)
				if derr != nil {
					rep.Violation("C16:log:read-error", derr.Error(), nil)
					return
				}
				tail = append(tail, rec)
				tailN.Add(1)
			}
		}()
		start := make(chan struct{})
		for k := 0; k < g; k++ {
			wg.Add(1)
			prng := rng.Fork(uint64(1000 + k))
			go func() {
				defer wg.Done()
				<-start
				mine := int64(0)
				for j := 0; j < per; j++ {
					class := c16Classes[prng.Intn(len(c16Classes))]
					believed := mine
					if prng.Bool() {
						believed = l.NewestOffset() + 1 // racy read, like a client asking for metadata
					}
					e := c16Expected(prng, class, believed)
					if prng.Chance(1, 5) {
						time.Sleep(time.Duration(prng.Intn(100)) * time.Microsecond)
					}
					mu.Lock()
					if c.failed {
						mu.Unlock()
						return
					}
					next := int64(len(c.model))
					if class == "equal" {
						competitors[e]++
					}
					ok := c.appendOne(class, e, prng, false)
					if ok {
						accepted.Add(1)
						if class == "equal" {
							winners[e]++
						}
						mine = next + 1
					} else {
						rejected.Add(1)
					}
					mu.Unlock()
				}
			}()
		}
		close(start)
		wg.Wait()
		// let the tailing reader catch up: a logical condition, the watchdog
		// only makes the reader part inconclusive
		want := len(c.model)
		if !c16Wait(30*time.Second, func() bool { return tailN.Load() >= int64(want) }) && !c.failed {
			rep.Inconc(fmt.Sprintf("run %d: tailing reader delivered %d of %d messages before the watchdog", i, tailN.Load(), want))
		}
		close(stop)
		cancel()
		bg.Wait()
		if !c.failed {
			// the reader may have been cancelled before the end; what it did read must be a prefix of the model
			if len(tail) > want {
				c.fail("C16:log:final-content", fmt.Sprintf("tailing reader saw %d messages, %d were accepted", len(tail), want))
			}
			for i, r := range tail {
				if c.failed {
					break
				}
				if r.Off != int64(i) || string(r.Val) != c.model[i] {
					c.fail("C16:log:final-content", fmt.Sprintf("tailing reader: record #%d is offset %d value %q, accepted there: %q", i, r.Off, r.Val, c.model[i]))
				}
			}
		}
		c.finalCheck()
		rep.Eval()
		contested, oneWinner := 0, 0
		for e, n := range competitors {
			if n >= 2 {
				contested++
				if winners[e] == 1 {
					oneWinner++
				}
			}
			if winners[e] > 1 {
				c.fail("C16:log:two-winners", fmt.Sprintf("%d Appends with expected offset %d succeeded", winners[e], e))
			}
		}
		nseg := len(l.Segments())
		rep.Count("appends_accepted", accepted.Load())
		rep.Count("appends_rejected", rejected.Load())
		rep.Count("contested_offsets", int64(contested))
		rep.Count("contested_offsets_with_one_winner", int64(oneWinner))
		rep.Count("segments", int64(nseg))
		rep.Count("tail_reader_messages", int64(len(tail)))
		if oneWinner > 0 && nseg >= 2 {
			rep.Nontrivial(fmt.Sprintf("g=%d|seg=%d|acc=%d|rej=%d", g, maxSeg, accepted.Load(), rejected.Load()))
		}
		if i < 3 {
			rep.Sample(map[string]any{"goroutines": g, "appends_each": per, "maxSegmentBytes": maxSeg, "accepted": accepted.Load(), "rejected": rejected.Load(), "contested_offsets": contested, "segments": nseg})
		}
		l.Close()
		os.RemoveAll(c.dir)
	}
}
