//go:build verif

package commitlog

// C08 seeded unit: random key patterns over {nil, "", 2–5 short keys},
// 2–12 segments, HW anywhere in [-1, newest], 1/2/10 compaction goroutines,
// 1–3 successive cleans (with or without appends / HW advance in between),
// optional retention limits, optional empty active segment, optional reopen.

import (
	"fmt"
	"strings"
	"testing"

	kit "github.com/liftbridge-io/liftbridge/internal/verifkit"
)

var c08SegSizes = []int64{50, 110, 170, 260, 420}

func c08Opts(tag string, maxSeg int64, goroutines int) Options {
	o := vfOpts(vfTempDir(tag), maxSeg)
	o.Name = tag
	o.Compact = true
	o.CompactMaxGoroutines = goroutines
	return o
}

// c08PickKey draws a key: nil, empty, or one of the short keys.
func c08PickKey(rng *kit.RNG, keys [][]byte, pNil, pEmpty int) []byte {
	x := rng.Intn(100)
	switch {
	case x < pNil:
		return nil
	case x < pNil+pEmpty:
		return []byte{}
	}
	return keys[rng.Intn(len(keys))]
}

func c08PickHW(rng *kit.RNG, e *c08Env) int64 {
	newest := e.next - 1
	lo := e.hw // SetHighWatermark never goes back
	pick := func(v int64) int64 {
		if v < lo {
			return lo
		}
		if v > newest {
			return newest
		}
		return v
	}
	switch rng.Intn(8) {
	case 0, 1:
		return newest
	case 2:
		return lo // unchanged (may be -1)
	case 3:
		segs := e.log.Segments()
		s := segs[rng.Intn(len(segs))]
		return pick(s.BaseOffset - 1 + int64(rng.Intn(3)))
	default:
		if newest < lo {
			return lo
		}
		return lo + int64(rng.Intn(int(newest-lo)+1))
	}
}

func TestVerifC08Seeded(t *testing.T) {
	rep := kit.NewReport("C08", "seeded")
	defer rep.Write()
	rep.SetRule("seeded logs: keys drawn from {nil, \"\", 2-5 short keys} with repeats, unique values, MaxSegmentBytes in {50,110,170,260,420} (1..8 messages per segment), HW anywhere in [-1,newest], CompactMaxGoroutines in {1,2,10}, 1-3 successive Clean() calls with optional appends / HW advance / empty rolled active segment / reopen in between, 1 in 5 with MaxLogMessages or MaxLogBytes combined; after every Clean: must-survive ⊆ actual ⊆ before, byte-identical survivors, forward (committed+uncommitted) and reverse (committed+uncommitted) readers from EVERY offset, findEntry for every offset of every segment, OldestOffset/NewestOffset, raw parse of the segment files; non-trivial = >=2 segments and compaction removed >=1 message; distinct = key pattern + segment size + HW sequence + goroutines")
	rep.Assume("must-survive uses the HW the harness set before calling Clean (no HW movement during a clean)")
	rep.Assume("committed forward readers are not checked when retention deleted the segment that holds the HW (what a committed reader does then is outside C08)")
	rep.Assume("documented reader clamps are honoured: a committed forward reader started above the HW waits (returns nothing with a cancelled context); a committed reverse reader started above the HW or at -1 starts at the HW; an uncommitted reader started beyond the newest offset may fail to open")
	root := kit.NewRNG(kit.Mix(kit.Seed(), 0xC08))
	ncases := kit.Scale(700, 4500)
	seeds := make([]uint64, ncases)
	for i := range seeds {
		seeds[i] = root.Uint64()
	}
	kit.Parallel(ncases, kit.Workers(), func(i int) {
		if rep.NumViolations() >= 14 {
			return
		}
		c08RunSeeded(rep, seeds[i], i)
	})
}

func c08RunSeeded(rep *kit.Report, seed uint64, idx int) {
	rng := kit.NewRNG(seed)
	maxSeg := c08SegSizes[rng.Intn(len(c08SegSizes))]
	gor := []int{1, 2, 10}[rng.Intn(3)]
	opts := c08Opts("c08s", maxSeg, gor)
	perSeg := int(maxSeg/55) + 1
	n0hi := 11 * perSeg // keeps the log at roughly 2-12 segments
	if n0hi > 40 {
		n0hi = 40
	}
	n0 := rng.Range(4, n0hi)
	retention := rng.Chance(1, 5)
	if retention {
		if rng.Bool() {
			opts.MaxLogMessages = int64(rng.Range(n0/3+1, n0+4))
		} else {
			opts.MaxLogBytes = int64(rng.Range(n0/3+1, n0+4)) * 52
		}
	}
	e, err := newC08Env(rep, "seeded", opts)
	if err != nil {
		rep.Violation("C08:open-error", err.Error(), nil)
		return
	}
	defer e.close()
	nk := rng.Range(2, 5)
	keys := make([][]byte, nk)
	for i := range keys {
		keys[i] = []byte(strings.Repeat(string(rune('a'+i)), 1+i%2))
	}
	pNil, pEmpty := []int{0, 10, 25}[rng.Intn(3)], []int{0, 10, 25}[rng.Intn(3)]
	withHdr := rng.Chance(1, 3)
	appendN := func(n int) bool {
		for n > 0 {
			b := rng.Range(1, 3)
			if b > n {
				b = n
			}
			ks := make([][]byte, b)
			hs := make([]map[string][]byte, b)
			for i := range ks {
				ks[i] = c08PickKey(rng, keys, pNil, pEmpty)
				if withHdr && rng.Chance(1, 3) {
					hs[i] = map[string][]byte{"h": []byte(fmt.Sprint(rng.Intn(100)))}
				}
			}
			if !e.appendKeys(ks, rng.Range(6, 14), hs, rng.Chance(1, 9)) {
				return false
			}
			n -= b
		}
		return true
	}
	if !appendN(n0) {
		return
	}
	rounds := rng.Range(1, 3)
	var hws []string
	sawNilAndEmpty := false
	segsAtFirst := 0
	for r := 0; r < rounds; r++ {
		if r > 0 && rng.Bool() {
			if !appendN(rng.Range(1, 12)) {
				return
			}
		}
		if hw := c08PickHW(rng, e); hw > e.hw {
			e.setHW(hw)
		}
		hws = append(hws, fmt.Sprint(e.hw))
		if rng.Chance(1, 5) {
			// what the cleaner loop does on a tick before it cleans on the next one
			if split, err := e.log.checkAndPerformSplit(); err != nil {
				e.fail("C08:split-error", err.Error(), nil)
				return
			} else if split {
				e.trace = append(e.trace, "Roll")
				rep.Count("cleans_with_empty_active_segment", 1)
			}
		}
		if r == 0 {
			segsAtFirst = len(e.log.Segments())
		}
		if !e.clean(rng) {
			return
		}
		if rng.Chance(1, 8) {
			if !e.reopen() {
				return
			}
			rep.Count("reopens", 1)
			// same expectations after a restart: nothing that is present may vanish
			must := c08Must{}
			for _, rr := range e.model {
				must[rr.Off] = "present-before-reopen"
			}
			if !e.verify(rng, must, len(e.log.Segments())) {
				return
			}
		}
	}
	hasNil, hasEmpty := false, false
	for _, k := range e.keys {
		if k == "nil" {
			hasNil = true
		}
		if k == `""` {
			hasEmpty = true
		}
	}
	sawNilAndEmpty = hasNil && hasEmpty
	if sawNilAndEmpty {
		rep.Count("cases_with_nil_and_empty_keys", 1)
	}
	if retention {
		rep.Count("cases_with_retention_combined", 1)
	}
	switch {
	case e.hw == -1:
		rep.Count("hw_minus1", 1)
	case e.hw == e.next-1:
		rep.Count("hw_at_newest", 1)
	default:
		rep.Count("hw_inside", 1)
	}
	rep.Count(fmt.Sprintf("goroutines_%d", gor), 1)
	rep.Count(fmt.Sprintf("rounds_%d", rounds), 1)
	if idx < 3 {
		rep.Sample(e.replay(map[string]any{"survivors": c08Offs(e.model)}))
	}
	sig := fmt.Sprintf("%d|%d|%s|%s|%d|%d", maxSeg, gor, strings.Join(e.keys, ","), strings.Join(hws, ","), opts.MaxLogMessages, opts.MaxLogBytes)
	e.finish(sig, segsAtFirst >= 2 && e.removedMsgs > 0)
}
