//go:build verif

package commitlog

// C08 — compaction keeps the latest value of every key and changes nothing
// else.  This file holds the reference model and the oracle shared by the C08
// units (seeded, enum, concurrent): an independently computed MUST-SURVIVE set
// and a full read-back (forward / reverse, committed / uncommitted, from every
// offset, plus index lookups and a raw parse of the segment files) that must
// agree with the set of surviving messages.

import (
	"fmt"
	"hash/fnv"
	"os"
	"sort"
	"strings"

	kit "github.com/liftbridge-io/liftbridge/internal/verifkit"
)

func c08KeyStr(k []byte) string {
	if k == nil {
		return "nil"
	}
	if len(k) > 12 {
		// long keys (units keysizes / recovery): length, both ends and a hash
		// of the whole key; the unit's replay says how the key is built.
		h := fnv.New32a()
		h.Write(k)
		return fmt.Sprintf("[%dB:%x..%x#%08x]", len(k), k[:3], k[len(k)-3:], h.Sum32())
	}
	return fmt.Sprintf("%q", k)
}

func c08Offs(recs []vfRec) []int64 {
	o := make([]int64, len(recs))
	for i, r := range recs {
		o[i] = r.Off
	}
	return o
}

func c08OffsEq(a []vfRec, b []int64) bool {
	if len(a) != len(b) {
		return false
	}
	for i := range a {
		if a[i].Off != b[i] {
			return false
		}
	}
	return true
}

// c08SegStat is the harness's view of one segment file before a clean
// (independent raw parse of the .log file).
type c08SegStat struct {
	Base   int64
	Count  int64
	Bytes  int64
	LastTS int64
}

type c08Env struct {
	rep   *kit.Report
	tag   string // unit name, part of the replay
	dir   string
	opts  Options
	log   *commitLog
	orig  map[int64]vfRec // every record ever appended; content at an offset never changes
	model []vfRec         // records that may still be present, ascending (== what was read after the last checked clean)
	next  int64           // next offset to be assigned
	hw    int64
	ts    int64
	epoch uint64
	trace []string       // replay: what the harness did
	keys  []string       // replay: key of every appended message, by offset
	extra map[string]any // replay: unit-specific facts (how keys are built, case seed, ...)
	nfail int            // violations this case reported so far

	// coverage
	cleans, removedMsgs, droppedSegs int
	fwdStarts, revStarts, lookups    int
	lostEmptyKey, revSparse          int
	maxSegsSeen                      int
}

func newC08Env(rep *kit.Report, tag string, opts Options) (*c08Env, error) {
	e := &c08Env{rep: rep, tag: tag, dir: opts.Path, opts: opts, orig: map[int64]vfRec{}, hw: -1, ts: 1000, epoch: 1}
	l, err := vfOpen(opts)
	if err != nil {
		return nil, err
	}
	e.log = l
	return e, nil
}

func (e *c08Env) close() {
	if e.log != nil {
		e.log.Close()
		e.log = nil
	}
	os.RemoveAll(e.dir)
}

func (e *c08Env) replay(extra map[string]any) map[string]any {
	m := map[string]any{
		"unit":                 e.tag,
		"maxSegmentBytes":      e.opts.MaxSegmentBytes,
		"compactMaxGoroutines": e.opts.CompactMaxGoroutines,
		"maxLogMessages":       e.opts.MaxLogMessages,
		"maxLogBytes":          e.opts.MaxLogBytes,
		"keys_by_offset":       strings.Join(e.keys, " "),
		"hw":                   e.hw,
		"steps":                strings.Join(e.trace, " "),
	}
	for k, v := range e.extra {
		m[k] = v
	}
	for k, v := range extra {
		m[k] = v
	}
	return m
}

func (e *c08Env) fail(fp, what string, extra map[string]any) {
	e.nfail++
	e.rep.Violation(fp, what, e.replay(extra))
}

// mkRec builds the next record: unique value, strictly increasing timestamp,
// non-decreasing leader epoch.
func (e *c08Env) mkRec(key []byte, valLen int, hdr map[string][]byte, bumpEpoch bool) vfRec {
	e.ts += 3
	if bumpEpoch {
		e.epoch++
	}
	v := []byte(fmt.Sprintf("v%05d", e.next))
	for len(v) < valLen {
		v = append(v, '.')
	}
	return vfRec{Off: e.next, Key: key, Val: v, Hdr: vfNormHdr(hdr), TS: e.ts, Epoch: e.epoch}
}

// appendBatch appends one batch through the real Append and records it in the
// model.  recs must have been made by mkRec in order (mkRec does not advance
// next; appendBatch does).
func (e *c08Env) appendKeys(keys [][]byte, valLen int, hdrs []map[string][]byte, bump bool) bool {
	recs := make([]vfRec, len(keys))
	msgs := make([]*Message, len(keys))
	base := e.next
	for i, k := range keys {
		var h map[string][]byte
		if hdrs != nil {
			h = hdrs[i]
		}
		e.next = base + int64(i)
		recs[i] = e.mkRec(k, valLen, h, bump && i == 0)
		msgs[i] = recs[i].msg()
	}
	e.next = base
	offs, err := e.log.Append(msgs)
	if err != nil {
		e.fail("C08:append-error", fmt.Sprintf("Append of %d messages failed: %v", len(msgs), err), nil)
		return false
	}
	for i, o := range offs {
		if o != recs[i].Off {
			e.fail("C08:append-offset", fmt.Sprintf("Append returned offsets %v, expected to start at %d", offs, base), nil)
			return false
		}
	}
	for _, r := range recs {
		e.orig[r.Off] = r
		e.model = append(e.model, r)
		e.keys = append(e.keys, c08KeyStr(r.Key))
	}
	e.next = base + int64(len(recs))
	e.trace = append(e.trace, fmt.Sprintf("A%d", len(recs)))
	return true
}

func (e *c08Env) setHW(hw int64) {
	e.log.SetHighWatermark(hw)
	if hw > e.hw {
		e.hw = hw
	}
	e.trace = append(e.trace, fmt.Sprintf("HW=%d", hw))
}

// segStats parses the segment files (independent of the index and of the
// segment objects) and returns per-segment statistics in base-offset order,
// cross-checked against the list of segments the log itself reports.
func (e *c08Env) segStats() ([]c08SegStat, []vfRawSegment, error) {
	raw, err := vfScanDir(e.dir)
	if err != nil {
		return nil, nil, err
	}
	segs := e.log.Segments()
	if len(raw) != len(segs) {
		return nil, raw, fmt.Errorf("log reports %d segments, directory holds %d .log files", len(segs), len(raw))
	}
	st := make([]c08SegStat, len(raw))
	for i, r := range raw {
		if segs[i].BaseOffset != r.Base {
			return nil, raw, fmt.Errorf("segment #%d: log reports base %d, file is %s", i, segs[i].BaseOffset, r.File)
		}
		st[i] = c08SegStat{Base: r.Base, Count: int64(len(r.Recs)), Bytes: r.Bytes}
		if n := len(r.Recs); n > 0 {
			st[i].LastTS = r.Recs[n-1].TS
		}
	}
	return st, raw, nil
}

// c08RetentionKeep returns the index of the first segment the documented
// retention rules keep: the smallest k such that segments[k:] satisfies the
// message and byte limits (0 = off), or the newest segment alone.
func c08RetentionKeep(st []c08SegStat, maxMsgs, maxBytes int64) int {
	n := len(st)
	if n == 0 {
		return 0
	}
	k := n - 1
	var msgs, bytes int64 = st[n-1].Count, st[n-1].Bytes
	for i := n - 2; i >= 0; i-- {
		msgs += st[i].Count
		bytes += st[i].Bytes
		if (maxMsgs > 0 && msgs > maxMsgs) || (maxBytes > 0 && bytes > maxBytes) {
			break
		}
		k = i
	}
	return k
}

// c08Must is the independently computed must-survive set: offset -> reason.
type c08Must map[int64]string

// c08MustSurvive computes which records of model must be present after a
// compaction that started with high watermark hw and whose newest segment
// started at newestBase; records below floor were in segments that retention
// is expected to delete first (floor = 0 without retention).
//
//	must = records without a key (nil key)
//	     ∪ records at or above the high watermark (offset >= hw)
//	     ∪ records of the newest segment
//	     ∪ for each non-nil key (the empty key "" is a key) the record with
//	       the highest offset <= hw carrying that key.
func c08MustSurvive(model []vfRec, hw, newestBase, floor int64) c08Must {
	must := c08Must{}
	latest := map[string]int64{}
	for _, r := range model {
		if r.Off < floor {
			continue
		}
		if r.Key != nil && r.Off <= hw {
			latest[string(r.Key)] = r.Off // model is ascending
		}
	}
	for _, r := range model {
		if r.Off < floor {
			continue
		}
		switch {
		case r.Off >= newestBase:
			must[r.Off] = "newest-segment"
		case r.Off >= hw:
			must[r.Off] = "at-or-above-hw"
		case r.Key == nil:
			must[r.Off] = "nil-key"
		default:
			if o, ok := latest[string(r.Key)]; ok && o == r.Off {
				must[r.Off] = "latest-for-key"
			}
		}
	}
	return must
}

// c08LongKey: keys of at least this many bytes are "long" (the short-key
// generators never produce them); a lost latest-for-key message with a long
// key gets its own fingerprint class.
const c08LongKey = 32

// lostClass refines the fingerprint of a lost must-survive record.
func c08LostClass(model []vfRec, hw int64, lost vfRec, reason string) string {
	if reason == "latest-for-key" && len(lost.Key) >= c08LongKey {
		return "latest-for-key:long-key"
	}
	if reason == "latest-for-key" && lost.Key != nil && len(lost.Key) == 0 {
		for _, r := range model {
			if r.Off > lost.Off && r.Off <= hw && r.Key == nil {
				return "empty-key-shadowed-by-later-nil-key"
			}
		}
	}
	return reason
}

// clean runs one real Clean() and checks the result against the oracle.
// It returns false when the case cannot continue.
func (e *c08Env) clean(rng *kit.RNG) bool {
	must, nsegs, ok := e.cleanPrep()
	if !ok {
		return false
	}
	if err := e.log.Clean(); err != nil {
		e.fail("C08:clean-error", fmt.Sprintf("Clean failed: %v", err), nil)
		return false
	}
	e.cleans++
	return e.verify(rng, must, nsegs)
}

// cleanPrep computes, right before a Clean(), the must-survive set of that
// clean from the harness's own view (raw parse of the segment files, model,
// HW the harness set) and the number of segments.
func (e *c08Env) cleanPrep() (c08Must, int, bool) {
	pre, _, err := e.segStats()
	if err != nil {
		e.fail("C08:pre-clean-scan", fmt.Sprintf("before Clean: %v", err), nil)
		return nil, 0, false
	}
	if len(pre) > e.maxSegsSeen {
		e.maxSegsSeen = len(pre)
	}
	newestBase := pre[len(pre)-1].Base
	floor := int64(0)
	if e.opts.MaxLogMessages > 0 || e.opts.MaxLogBytes > 0 {
		floor = pre[c08RetentionKeep(pre, e.opts.MaxLogMessages, e.opts.MaxLogBytes)].Base
	}
	must := c08MustSurvive(e.model, e.hw, newestBase, floor)
	e.trace = append(e.trace, fmt.Sprintf("Clean(segs=%d,newestBase=%d)", len(pre), newestBase))
	return must, len(pre), true
}

// verify reads everything back and compares it with the model / must-survive
// set.  On success the model becomes what was actually read.
func (e *c08Env) verify(rng *kit.RNG, must c08Must, segsBefore int) bool {
	l := e.log
	bound := int(e.next) + 8
	actual, oerr, err := vfReadFrom(l, 0, true, bound)
	if err != nil || oerr != nil {
		e.fail("C08:read-error", fmt.Sprintf("uncommitted reader from 0: open=%v read=%v", oerr, err), nil)
		return false
	}
	inModel := make(map[int64]bool, len(e.model))
	for _, r := range e.model {
		inModel[r.Off] = true
	}
	// actual ⊆ original, byte-identical at the original offset, order preserved
	for i, r := range actual {
		if i > 0 && r.Off <= actual[i-1].Off {
			e.fail("C08:order", fmt.Sprintf("reader from 0 returned offsets out of order: %v", c08Offs(actual)), nil)
			return false
		}
		o, ok := e.orig[r.Off]
		if !ok || !inModel[r.Off] {
			e.fail("C08:resurrected", fmt.Sprintf("offset %d is returned after Clean but was not in the log before it (before: %v)", r.Off, c08Offs(e.model)), nil)
			return false
		}
		if !vfSameRec(r, o) {
			e.fail("C08:content-changed", fmt.Sprintf("surviving message changed: got %v, appended %v", r, o), nil)
			return false
		}
	}
	have := make(map[int64]bool, len(actual))
	for _, r := range actual {
		have[r.Off] = true
	}
	// must-survive ⊆ actual
	for _, r := range e.model {
		reason, need := must[r.Off]
		if !need || have[r.Off] {
			continue
		}
		cl := c08LostClass(e.model, e.hw, r, reason)
		if cl == "empty-key-shadowed-by-later-nil-key" {
			e.lostEmptyKey++
		}
		e.fail("C08:must-survive-lost:"+cl,
			fmt.Sprintf("message %v must survive compaction (%s; hw=%d) but is gone; survivors %v", r, reason, e.hw, c08Offs(actual)),
			map[string]any{"lost_offset": r.Off, "reason": reason})
	}
	e.removedMsgs += len(e.model) - len(actual)

	// OldestOffset / NewestOffset
	if got := l.NewestOffset(); got != e.next-1 {
		e.fail("C08:newest-offset", fmt.Sprintf("NewestOffset=%d after Clean, last appended offset is %d", got, e.next-1), nil)
	}
	if len(actual) > 0 {
		if got := l.OldestOffset(); got != actual[0].Off {
			e.fail("C08:oldest-offset", fmt.Sprintf("OldestOffset=%d, first surviving offset is %d", got, actual[0].Off), nil)
		}
	}

	// raw segment files
	st, raw, serr := e.segStats()
	if serr != nil {
		e.fail("C08:raw-files", fmt.Sprintf("after Clean: %v", serr), nil)
		return false
	}
	if segsBefore > len(st) {
		e.droppedSegs += segsBefore - len(st)
	}
	var flat []vfRec
	for _, s := range raw {
		if s.Trailing != 0 {
			e.fail("C08:raw-files", fmt.Sprintf("segment %s has %d trailing bytes after the last whole message", s.File, s.Trailing), nil)
		}
		if len(s.Recs) > 0 && s.Recs[0].Off < s.Base {
			e.fail("C08:raw-files", fmt.Sprintf("segment %s holds offset %d below its base", s.File, s.Recs[0].Off), nil)
		}
		flat = append(flat, s.Recs...)
	}
	if !c08OffsEq(flat, c08Offs(actual)) {
		e.fail("C08:raw-files", fmt.Sprintf("segment files hold offsets %v, readers return %v", c08Offs(flat), c08Offs(actual)), nil)
	} else {
		for i := range flat {
			if !vfSameRec(flat[i], actual[i]) {
				e.fail("C08:raw-files", fmt.Sprintf("segment files hold %v, reader returned %v", flat[i], actual[i]), nil)
				break
			}
		}
	}

	// index lookups: in every segment findEntry(s) is the first survivor >= s,
	// at the byte position the raw parse found it.
	segs := l.Segments()
	for i, s := range segs {
		if i >= len(raw) || len(raw[i].Recs) == 0 {
			continue
		}
		pos := map[int64]int64{}
		var p int64
		for _, r := range raw[i].Recs {
			pos[r.Off] = p
			p += 28 + int64(len(c08MsgBytes(r)))
		}
		lastOff := raw[i].Recs[len(raw[i].Recs)-1].Off
		for q := s.BaseOffset; q <= lastOff; q++ {
			e.lookups++
			want := int64(-1)
			for _, r := range raw[i].Recs {
				if r.Off >= q {
					want = r.Off
					break
				}
			}
			ent, ferr := s.findEntry(q)
			if ferr != nil || ent.Offset != want || ent.Position != pos[want] {
				e.fail("C08:find-entry", fmt.Sprintf("segment base %d: findEntry(%d) = %+v err=%v, first survivor >= %d is %d at byte %d",
					s.BaseOffset, q, ent, ferr, q, want, pos[want]), nil)
				break
			}
		}
	}

	// hw message present?  (retention may have deleted the segment holding the
	// HW; what a committed reader does then is outside this property)
	hwPresent := e.hw >= 0 && have[e.hw]
	n := e.next
	starts := make([]int64, 0, n+2)
	if n <= 64 {
		for s := int64(0); s <= n; s++ {
			starts = append(starts, s)
		}
	} else {
		starts = append(starts, 0, 1, n-1, n)
		for i := 0; i < 24; i++ {
			starts = append(starts, int64(rng.Intn(int(n))))
		}
		for _, s := range segs {
			starts = append(starts, s.BaseOffset, s.BaseOffset+1)
			if s.BaseOffset > 0 {
				starts = append(starts, s.BaseOffset-1)
			}
		}
	}
	fwdBad, revBad := 0, 0
	for _, s := range starts {
		// ---- forward, uncommitted: exactly the survivors >= s
		if s < n {
			e.fwdStarts++
			got, oerr, err := vfReadFrom(l, s, true, bound)
			want := c08Filter(actual, s, 1<<62)
			if fwdBad < 2 && (err != nil || oerr != nil || !c08OffsEq(got, want) || !c08SameAll(got, e.orig)) {
				fwdBad++
				e.fail("C08:forward-read:uncommitted", fmt.Sprintf("uncommitted reader from %d: open=%v err=%v got %v want %v", s, oerr, err, c08Offs(got), want),
					map[string]any{"start": s})
			}
		}
		// ---- forward, committed: survivors in [s, hw]; a start above the HW waits
		if e.hw < 0 || hwPresent {
			e.fwdStarts++
			got, oerr, err := vfReadFrom(l, s, false, bound)
			var want []int64
			if s <= e.hw {
				want = c08Filter(actual, s, e.hw)
			}
			if fwdBad < 2 && (err != nil || oerr != nil || !c08OffsEq(got, want) || !c08SameAll(got, e.orig)) {
				fwdBad++
				e.fail("C08:forward-read:committed", fmt.Sprintf("committed reader from %d (hw=%d): open=%v err=%v got %v want %v", s, e.hw, oerr, err, c08Offs(got), want),
					map[string]any{"start": s})
			}
		}
		// ---- reverse, uncommitted: survivors <= s, descending
		if s < n {
			e.revStarts++
			e.checkReverse(raw, actual, s, s, true, bound, &revBad)
		}
		// ---- reverse, committed: documented clamp: a start above the HW (or -1) begins at the HW
		if e.hw >= 0 {
			e.revStarts++
			eff := s
			if s > e.hw {
				eff = e.hw
			}
			e.checkReverse(raw, actual, s, eff, false, bound, &revBad)
		}
	}
	if e.hw >= 0 {
		e.revStarts++
		e.checkReverse(raw, actual, -1, e.hw, false, bound, &revBad)
	}
	e.model = actual
	return true
}

func c08MsgBytes(r vfRec) []byte {
	b, err := encode(r.msg())
	if err != nil {
		panic(err)
	}
	return b
}

func c08Filter(actual []vfRec, lo, hi int64) []int64 {
	var out []int64
	for _, r := range actual {
		if r.Off >= lo && r.Off <= hi {
			out = append(out, r.Off)
		}
	}
	return out
}

func c08SameAll(got []vfRec, orig map[int64]vfRec) bool {
	for _, r := range got {
		if o, ok := orig[r.Off]; !ok || !vfSameRec(r, o) {
			return false
		}
	}
	return true
}

// checkReverse drains a reverse reader opened at start and compares it with
// the survivors <= eff in descending order.  A mismatch is classified by
// whether the reader's start slot (computed by the code as start - BaseOffset)
// lands on a segment whose index is sparse below the start offset.
func (e *c08Env) checkReverse(raw []vfRawSegment, actual []vfRec, start, eff int64, uncommitted bool, bound int, bad *int) {
	got, oerr, err := vfReverseFrom(e.log, start, uncommitted, bound)
	asc := c08Filter(actual, -1, eff)
	want := make([]int64, len(asc))
	for i, o := range asc {
		want[len(asc)-1-i] = o
	}
	if err == nil && oerr == nil && c08OffsEq(got, want) && c08SameAll(got, e.orig) {
		return
	}
	if oerr != nil && len(want) == 0 {
		return // nothing to return and no reader: fine
	}
	// Which segment does the start fall into (first segment whose last offset
	// is >= eff, as findSegment does), and is "slot = eff - base" right there?
	class := "other"
	for i, s := range raw {
		last := s.Base - 1
		if len(s.Recs) > 0 {
			last = s.Recs[len(s.Recs)-1].Off
		}
		if last < eff && i != len(raw)-1 {
			continue
		}
		slot := eff - s.Base
		below := 0 // survivors of this segment with offset <= eff
		for _, r := range s.Recs {
			if r.Off <= eff {
				below++
			}
		}
		ok := false
		switch {
		case slot < 0 || slot >= int64(len(s.Recs)):
			ok = below == 0 // scanner reports EOF and falls back to the previous segment
		default:
			ok = int64(below-1) == slot
		}
		if !ok {
			class = "start-slot-on-sparse-segment"
		}
		break
	}
	if class == "start-slot-on-sparse-segment" {
		e.revSparse++
	}
	if *bad >= 3 && class != "other" {
		return
	}
	*bad++
	fp := "C08:reverse-read:" + class
	if class == "other" {
		fp += fmt.Sprintf(":uncommitted=%v", uncommitted)
	}
	e.fail(fp, fmt.Sprintf("reverse reader (uncommitted=%v) from %d (effective start %d, hw=%d): open=%v err=%v got %v want %v; survivors %v",
		uncommitted, start, eff, e.hw, oerr, err, c08Offs(got), want, c08Offs(actual)),
		map[string]any{"start": start, "uncommitted": uncommitted})
}

func (e *c08Env) reopen() bool {
	if err := e.log.Close(); err != nil {
		e.fail("C08:reopen", fmt.Sprintf("Close failed: %v", err), nil)
		return false
	}
	l, err := vfOpen(e.opts)
	if err != nil {
		e.log = nil
		e.fail("C08:reopen", fmt.Sprintf("reopening the compacted log failed: %v", err), nil)
		return false
	}
	e.log = l
	e.trace = append(e.trace, "Reopen")
	if got := l.HighWatermark(); got != e.hw {
		e.fail("C08:reopen", fmt.Sprintf("HW after reopen is %d, was %d", got, e.hw), nil)
	}
	return true
}

func (e *c08Env) finish(sig string, nontrivial bool) {
	r := e.rep
	r.Eval()
	r.Count("cleans", int64(e.cleans))
	r.Count("messages_removed_by_clean", int64(e.removedMsgs))
	r.Count("segments_dropped_entirely", int64(e.droppedSegs))
	r.Count("forward_reader_starts", int64(e.fwdStarts))
	r.Count("reverse_reader_starts", int64(e.revStarts))
	r.Count("index_lookups", int64(e.lookups))
	r.Count("observed_empty_key_lost_behind_nil_key", int64(e.lostEmptyKey))
	r.Count("observed_reverse_start_on_sparse_segment_wrong", int64(e.revSparse))
	r.Max("max_segments_in_a_log", int64(e.maxSegsSeen))
	if nontrivial {
		r.Nontrivial(sig)
	}
}

func c08SortedOffsets(m c08Must) []int64 {
	o := make([]int64, 0, len(m))
	for k := range m {
		o = append(o, k)
	}
	sort.Slice(o, func(i, j int) bool { return o[i] < o[j] })
	return o
}
