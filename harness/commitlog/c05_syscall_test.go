//go:build verif

package commitlog

// C05, unit `syscallkill` — crash instants at SYSTEM-CALL granularity.
//
// The snapshot / kill units crash where the `verif` hook points were placed.
// A non-atomic file update that has no hook inside it (a checkpoint rewritten
// in place, a create followed by a separate write, ...) is invisible to them.
// This unit needs no hook: a child process (this test binary, re-executed)
// runs one of the C05 workloads on a directory chosen by the parent and is run
// under
//
//	strace -f -e trace=<file-system calls> -e inject=<set>:signal=SIGKILL:when=<N>
//
// so that it dies ON ENTERING the N-th (per thread) call of <set>: the kernel
// keeps the effect of every call that returned before and nothing of the one
// being entered — a process crash between two arbitrary file-system effects.
// The parent then recovers the directory in-process and applies the same
// oracle as the other units (c05CheckRecovered), whose first clause is
// "commitlog.New succeeds".
//
// Which operation was in flight is known from marker calls of the child
// (faccessat on /c05-mark/{B,A}/<op>, traced but never part of an inject set,
// so they do not shift N): `B k` is issued immediately before the log call of
// operation k and `A k` immediately after it returned; the strace log therefore
// holds, in program order, the operations that had completed before the kill.
// The model state (messages present, in-flight batch, must-survive set, HW,
// announced epochs) at each operation comes from an in-process reference run
// of the same deterministic workload.
//
// Workloads: the first base plans, the first plans of the interleave family
// (c05InterPlans) and the first plans of the family of truncations at or below
// the HW (c05BelowPlans; a kill inside an operation is judged against the larger
// of the in-memory HW before and after it, a kill between operations against
// the one after).  In the latter the child's hook handler performs the
// operations a plan interleaves with a cleaner pass (no image, no kill); all of
// them lie inside the bracket of the C operation, so for a kill inside that
// bracket the messages they append are the in-flight batch (c05SysReference).
//
// Case list: a calibration run of every workload under strace WITHOUT
// injection lists its file-system calls per thread; from it the (set, N) pairs
// are derived that are predicted to hit each distinct combination of
// (operation kind, system call, kind of file), at least `perCombo` of each,
// plus seeded random (set, N) pairs.  N counts per thread and the Go scheduler
// may place work differently in the real run — any kill point is a legitimate
// crash instant; what was really hit is read from the strace log of the run.

import (
	"bufio"
	"context"
	"fmt"
	"os"
	"os/exec"
	"path/filepath"
	"regexp"
	"runtime"
	"sort"
	"strconv"
	"strings"
	"sync"
	"syscall"
	"testing"
	"time"

	kit "github.com/liftbridge-io/liftbridge/internal/verifkit"
	"github.com/liftbridge-io/liftbridge/server/verifhook"
)

const c05SysMarkPrefix = "/c05-mark/"

// inject sets: each is one "-e inject=" syscall set; all of them together are
// the trace set (plus the marker call).
var c05SysSets = []string{
	"openat",
	"write,pwrite64",
	"rename,renameat,renameat2",
	"fsync,fdatasync",
	"ftruncate",
	"unlink,unlinkat",
}

const c05SysUnion = "openat,write,pwrite64,rename,renameat,renameat2,fsync,fdatasync,ftruncate,unlink,unlinkat"

// ---------------------------------------------------------------- child

func c05SysMarker(num int, before bool) {
	p := c05SysMarkPrefix + "A/" + strconv.Itoa(num)
	if before {
		p = c05SysMarkPrefix + "B/" + strconv.Itoa(num)
	}
	// faccessat(AT_FDCWD, p, F_OK): fails with ENOENT, has no effect, is traced.
	_ = syscall.Faccessat(-100, p, 0, 0)
}

// TestVerifC05SysChild runs plan C05_SYS_PLAN on C05_SYS_DIR, quietly, with
// all workload calls made from one locked OS thread.
func TestVerifC05SysChild(t *testing.T) {
	dir := os.Getenv("C05_SYS_DIR")
	if dir == "" {
		t.Skip("child only")
	}
	runtime.LockOSThread()
	idx, _ := strconv.Atoi(os.Getenv("C05_SYS_PLAN"))
	plans := c05Plans()
	if idx < 0 || idx >= len(plans) {
		fmt.Fprintln(os.Stderr, "c05 sys child: bad plan index")
		os.Exit(4)
	}
	// the hook handler only drives the operations a plan interleaves with a
	// cleaner pass (no image, no kill: the crash comes from strace)
	verifhook.Set(c05Dispatch)
	ex := &c05Exec{plan: plans[idx], dir: dir, closeIsOp: true, onOp: c05SysMarker}
	failed := false
	ex.run(func(fp, what string) {
		failed = true
		fmt.Fprintln(os.Stderr, "c05 sys child: workload failure:", fp, what)
	})
	if failed {
		os.Exit(3)
	}
	os.Exit(0)
}

// ---------------------------------------------------------------- strace log

type c05SysEvent struct {
	Tid    string
	Name   string // syscall
	Path   string // path acted on (destination for rename)
	Path2  string // rename: source
	Kind   string // kind of file (see c05SysFileKind)
	InDir  bool
	Marker int  // >0: B num+1, <0: -(A num+1); 0: not a marker
	Killed bool // the call ended with "= ?" (process died inside / on entering it)
	Line   string
}

var (
	c05SysLineRe = regexp.MustCompile(`^(\d+)\s+([a-z0-9_]+)\((.*)$`)
	c05SysFdRe   = regexp.MustCompile(`^\d+<([^>]*)>`)
	c05SysStrRe  = regexp.MustCompile(`"((?:[^"\\]|\\.)*)"`)
)

// c05SysFileKind classifies a path relative to the log directory.
func c05SysFileKind(dir, p string) (kind string, inDir bool) {
	if p == dir {
		return "dir", true
	}
	if !strings.HasPrefix(p, dir+"/") {
		return "outside", false
	}
	b := filepath.Base(p)
	switch {
	case b == hwFileName:
		return "hw", true
	case strings.HasPrefix(b, hwFileName):
		return "hw.tmp", true
	case b == leaderEpochFileName:
		return "epoch", true
	case strings.HasPrefix(b, leaderEpochFileName):
		return "epoch.tmp", true
	}
	for _, suf := range []string{".log", ".index", ".log.cleaned", ".index.cleaned", ".log.truncated", ".index.truncated", ".log.deleted", ".index.deleted"} {
		if strings.HasSuffix(b, suf) {
			return suf[1:], true
		}
	}
	return "other", true
}

func c05SysParse(logFile, dir string) (evs []c05SysEvent, killed bool, tail []string, err error) {
	f, err := os.Open(logFile)
	if err != nil {
		return nil, false, nil, err
	}
	defer f.Close()
	sc := bufio.NewScanner(f)
	sc.Buffer(make([]byte, 1<<20), 1<<20)
	for sc.Scan() {
		line := sc.Text()
		tail = append(tail, line)
		if len(tail) > 14 {
			tail = tail[1:]
		}
		if strings.Contains(line, "+++ killed by SIGKILL") {
			killed = true
			continue
		}
		m := c05SysLineRe.FindStringSubmatch(line)
		if m == nil {
			continue // "<... resumed>", "+++ exited", "--- SIG"
		}
		ev := c05SysEvent{Tid: m[1], Name: m[2], Line: line}
		args := m[3]
		ev.Killed = strings.HasSuffix(strings.TrimSpace(line), "= ?")
		strs := c05SysStrRe.FindAllStringSubmatch(args, -1)
		switch ev.Name {
		case "faccessat", "faccessat2":
			if len(strs) > 0 && strings.HasPrefix(strs[0][1], c05SysMarkPrefix) {
				rest := strings.TrimPrefix(strs[0][1], c05SysMarkPrefix)
				n, _ := strconv.Atoi(rest[2:])
				if rest[0] == 'B' {
					ev.Marker = n + 1
				} else {
					ev.Marker = -(n + 1)
				}
			}
		case "openat", "unlink", "unlinkat":
			if len(strs) > 0 {
				ev.Path = strs[0][1]
			}
		case "rename", "renameat", "renameat2":
			if len(strs) >= 2 {
				ev.Path2 = strs[0][1]
				ev.Path = strs[1][1]
			}
		default: // fd first
			if fm := c05SysFdRe.FindStringSubmatch(args); fm != nil {
				ev.Path = fm[1]
			}
		}
		if ev.Marker == 0 && (ev.Name == "faccessat" || ev.Name == "faccessat2") {
			continue
		}
		if ev.Marker == 0 {
			ev.Kind, ev.InDir = c05SysFileKind(dir, ev.Path)
			if ev.Path2 != "" {
				k2, in2 := c05SysFileKind(dir, ev.Path2)
				ev.Kind = k2 + ">" + ev.Kind
				ev.InDir = ev.InDir || in2
			}
		}
		evs = append(evs, ev)
	}
	return evs, killed, tail, sc.Err()
}

func c05SysInSet(set, name string) bool {
	for _, x := range strings.Split(set, ",") {
		if x == name {
			return true
		}
	}
	return false
}

// c05SysHit walks a log and returns the index of the event at which some
// thread enters its n-th call of set (-1: never), together with the operation
// bracket at that moment: inOp > 0 → inside operation inOp-1 (B seen, A not);
// otherwise afterOp = number+1 of the last completed operation (0: none yet,
// i.e. still starting up when started is false).
func c05SysHit(evs []c05SysEvent, set string, n int) (idx, inOp, afterOp int, started bool) {
	cnt := map[string]int{}
	for i, ev := range evs {
		if ev.Marker > 0 {
			inOp, started = ev.Marker, true
			continue
		}
		if ev.Marker < 0 {
			inOp, afterOp = 0, -ev.Marker
			continue
		}
		if c05SysInSet(set, ev.Name) {
			// strace keeps one injection counter per (thread, system call)
			k := ev.Tid + "/" + ev.Name
			cnt[k]++
			if cnt[k] == n {
				return i, inOp, afterOp, started
			}
		}
	}
	return -1, inOp, afterOp, started
}

// ---------------------------------------------------------------- reference run

type c05SysOpState struct {
	Kind     string
	Pre      []vfRec
	InFlight []vfRec
	Required map[int64]bool
	Elected  map[uint64]bool
	Suspect  map[uint64]bool
	After    []vfRec
	// HWBefore / HWAfter: the HW the log held in memory when the operation
	// started / had returned (c05Exec.memHW).  A kill inside the operation is
	// judged against the larger of the two (which of them the process held at
	// that instant is not known), a kill after it against HWAfter.
	HWBefore int64
	HWAfter  int64
	// EndBefore / EndAfter: c05Exec.endSlack before / after the operation
	EndBefore int64
	EndAfter  int64
	Done      bool
}

// c05SysReference runs the plan in-process (no crash) and records the model
// state around every operation; index = operation number (0 = open,
// len(ops)+1 = close).
func c05SysReference(plan c05Plan, fail func(fp, what string)) []*c05SysOpState {
	dir := vfTempDir("c05sref")
	defer os.RemoveAll(dir)
	states := make([]*c05SysOpState, len(plan.Ops)+2)
	ex := &c05Exec{plan: plan, dir: dir, closeIsOp: true}
	cpE := func(m map[uint64]bool) map[uint64]bool {
		o := map[uint64]bool{}
		for k := range m {
			o[k] = true
		}
		return o
	}
	ex.onOp = func(num int, before bool) {
		if before {
			st := &c05SysOpState{Kind: ex.opKind, Pre: append([]vfRec(nil), ex.pre...), InFlight: append([]vfRec(nil), ex.inflight...),
				Required: map[int64]bool{}, Elected: cpE(ex.elected), HWBefore: ex.memHW(), EndBefore: ex.endSlack, EndAfter: -1}
			for k := range ex.required {
				st.Required[k] = true
			}
			states[num] = st
			return
		}
		st := states[num]
		st.After = append([]vfRec(nil), ex.model...)
		st.HWAfter = ex.memHW()
		if st.Kind == "T" {
			st.EndAfter = ex.endSlack // sampled by the T operation itself
		} else {
			st.EndAfter = st.EndBefore // only a truncation moves the log end back
		}
		st.Done = true
		st.Suspect = cpE(ex.suspect)
		if st.Kind == "C" {
			// Operations may have been interleaved with this cleaner pass.  A kill
			// inside the pass may have come before, inside or after any of them:
			// the messages they appended, in order, are the in-flight batch (a
			// prefix may be present); of the older messages, what the pass had to
			// keep under the old and the new HW must survive; elections they held
			// count as announced.
			if len(ex.pre) > len(st.Pre) {
				st.InFlight = append([]vfRec(nil), ex.pre[len(st.Pre):]...)
			}
			isPre := c05AllRequired(st.Pre)
			st.Required = map[int64]bool{}
			for k := range ex.required {
				if isPre[k] {
					st.Required[k] = true
				}
			}
			st.Elected = cpE(ex.elected)
		}
	}
	ex.run(fail)
	return states
}

// ---------------------------------------------------------------- strace runner

type c05SysRunner struct {
	self    string
	strace  string
	seccomp bool
}

func (r *c05SysRunner) args(logFile, inject string) []string {
	a := []string{"-f", "-y", "-qq", "-s", "16", "-e", "signal=none", "-o", logFile,
		"-e", "trace=" + c05SysUnion + ",faccessat,faccessat2"}
	if inject != "" {
		a = append(a, "-e", "inject="+inject)
	} else if r.seccomp {
		// (with --seccomp-bpf strace 6.1 silently skips signal injection, so
		// the filter is used for the uninjected calibration runs only)
		a = append(a, "--seccomp-bpf")
	}
	return append(a, r.self, "-test.run", "^TestVerifC05SysChild$", "-test.timeout", "300s")
}

// run returns: outcome "killed" | "finished" | "timeout" | "other".
func (r *c05SysRunner) run(planIdx int, dir, logFile, inject string) (outcome, detail string) {
	ctx, cancel := context.WithTimeout(context.Background(), 240*time.Second)
	defer cancel()
	cmd := exec.Command(r.strace, r.args(logFile, inject)...)
	cmd.Env = append(os.Environ(), "C05_SYS_DIR="+dir, "C05_SYS_PLAN="+strconv.Itoa(planIdx))
	cmd.SysProcAttr = &syscall.SysProcAttr{Setpgid: true}
	var out strings.Builder
	cmd.Stdout, cmd.Stderr = &out, &out
	if err := cmd.Start(); err != nil {
		return "other", "start: " + err.Error()
	}
	done := make(chan error, 1)
	go func() { done <- cmd.Wait() }()
	var err error
	select {
	case err = <-done:
	case <-ctx.Done():
		syscall.Kill(-cmd.Process.Pid, syscall.SIGKILL)
		<-done
		return "timeout", "watchdog"
	}
	if err == nil {
		return "finished", ""
	}
	if ee, ok := err.(*exec.ExitError); ok {
		if ws, ok := ee.Sys().(syscall.WaitStatus); ok {
			if ws.Signaled() && ws.Signal() == syscall.SIGKILL {
				return "killed", ""
			}
			if ws.Exited() && ws.ExitStatus() == 137 {
				return "killed", ""
			}
		}
	}
	o := out.String()
	if len(o) > 400 {
		o = o[:400]
	}
	return "other", fmt.Sprintf("%v: %s", err, o)
}

func c05SysProbe(strace string) (ok, seccomp bool, why string) {
	try := func(extra ...string) error {
		a := append([]string{"-f", "-qq", "-o", os.DevNull, "-e", "trace=write"}, extra...)
		a = append(a, "/bin/true")
		out, err := exec.Command(strace, a...).CombinedOutput()
		if err != nil {
			return fmt.Errorf("%v: %.200s", err, out)
		}
		if len(out) > 0 {
			return fmt.Errorf("%.200s", out)
		}
		return nil
	}
	if err := try("--seccomp-bpf"); err == nil {
		return true, true, ""
	}
	if err := try(); err != nil {
		return false, false, err.Error()
	}
	return true, false, ""
}

// ---------------------------------------------------------------- the unit

type c05SysCase struct {
	Plan   int
	Set    string
	N      int
	Target string // predicted combination ("" for a random case)
}

func TestVerifC05SyscallKill(t *testing.T) {
	rep := kit.NewReport("C05", "syscallkill")
	defer rep.Write()
	rep.SetRule("fault injection at system-call granularity, independent of hook points: a child process runs a seeded C05 workload (Append and AppendMessageSet with rolls, epoch bumps on appended and replicated messages incl. replicated sets spanning epoch boundaries, operations interleaved with a cleaner pass by the hook handler, NewLeaderEpoch, HW moves + explicit checkpoints, truncations incl. exactly at a segment base / the first offset of the latest epoch / the newest offset, truncations at or below the HW after a checkpoint by a tick or by a clean restart (family of unit belowhw), Clean with retention and compaction, Close) under `strace -e inject=<set>:signal=SIGKILL:when=N` and dies on entering the N-th call of <set> (openat | write | rename* | fsync | ftruncate | unlink*; N counts per thread); (set, N) pairs are derived from an uninjected calibration trace of each workload so that every observed (operation kind, system call, kind of file) combination is aimed at, plus seeded random pairs; the directory is recovered with commitlog.New (which must succeed) and judged by the same oracle as the snapshot unit, the in-flight operation being known from marker calls in the trace; distinct non-trivial = distinct (workload, operation, system call, file, N) crash instants inside the log's life (after the first open started)")
	rep.Assume("process-crash model: the OS keeps the effects of every system call that returned before the kill; the call being entered has no effect; other threads' calls in progress may or may not have taken effect")
	rep.Assume("the in-process reference run and the child execute the same deterministic workload (validated by the kill unit's snapshot-vs-kill comparison)")
	strace, err := exec.LookPath("strace")
	if err != nil {
		rep.Inconc("strace is not installed: system-call granular crash injection not performed")
		return
	}
	ok, seccomp, why := c05SysProbe(strace)
	if !ok {
		rep.Inconc("strace cannot trace in this sandbox (" + why + "): system-call granular crash injection not performed")
		return
	}
	self := os.Getenv("VERIF_SELF")
	if self == "" {
		self = os.Args[0]
	}
	runner := &c05SysRunner{self: self, strace: strace, seccomp: seccomp}
	rep.SetInfo("strace_seccomp_bpf", seccomp)

	// the reference runs need the hook handler for the operations that plans
	// interleave with a cleaner pass
	verifhook.Set(c05Dispatch)
	defer verifhook.Set(nil)
	// workloads: the first base plans and the first plans of the interleave
	// family; the child is told the index in c05Plans() (= plan ID)
	var plans []c05Plan
	{
		base, inter, below := c05FamilyPlans(""), c05FamilyPlans("inter"), c05FamilyPlans("below")
		nb, ni, nl := kit.Scale(6, 30), kit.Scale(4, 14), kit.Scale(2, 6)
		if nb > len(base) {
			nb = len(base)
		}
		if ni > len(inter) {
			ni = len(inter)
		}
		if nl > len(below) {
			nl = len(below)
		}
		plans = append(append(append(plans, base[:nb]...), inter[:ni]...), below[:nl]...)
	}
	nplans := len(plans)
	budget := kit.Scale(210, 2400)
	perCombo := kit.Scale(2, 12)
	workers := kit.EnvInt("VERIF_WORKERS", 10)

	// reference runs + calibration traces
	refs := make([][]*c05SysOpState, nplans)
	calib := make([][]c05SysEvent, nplans)
	var mu sync.Mutex
	kit.Parallel(nplans, workers, func(i int) {
		plan := plans[i]
		refs[i] = c05SysReference(plan, func(fp, what string) {
			rep.Violation(fp, what, map[string]any{"plan": plan.String(), "seed": plan.Seed})
		})
		dir := vfTempDir("c05sc")
		defer os.RemoveAll(dir)
		logFile := dir + ".strace"
		defer os.Remove(logFile)
		outcome, detail := runner.run(plan.ID, dir, logFile, "")
		if outcome != "finished" {
			rep.Inconc(fmt.Sprintf("calibration run of plan %d did not finish cleanly: %s %s", i, outcome, detail))
			return
		}
		evs, _, _, perr := c05SysParse(logFile, dir)
		if perr != nil {
			rep.Inconc(fmt.Sprintf("calibration trace of plan %d unreadable: %v", i, perr))
			return
		}
		// normalise the directory out of the events: only kinds are used later
		calib[i] = evs
	})

	// predicted combinations
	byCombo := map[string][]c05SysCase{}
	maxCount := make([]map[string]int, nplans) // plan -> set -> largest per-thread count
	for i := range maxCount {
		maxCount[i] = map[string]int{}
	}
	for pi := 0; pi < nplans; pi++ {
		evs := calib[pi]
		if evs == nil {
			continue
		}
		ref := refs[pi]
		opKind := func(inOp, afterOp int) string {
			if inOp > 0 && inOp-1 < len(ref) && ref[inOp-1] != nil {
				return ref[inOp-1].Kind
			}
			return "idle"
		}
		for _, set := range c05SysSets {
			cnt := map[string]int{}
			reached := map[int]bool{}
			inOp, afterOp, started := 0, 0, false
			for _, ev := range evs {
				if ev.Marker > 0 {
					inOp, started = ev.Marker, true
					continue
				}
				if ev.Marker < 0 {
					inOp, afterOp = 0, -ev.Marker
					continue
				}
				if !c05SysInSet(set, ev.Name) {
					continue
				}
				cnt[ev.Tid+"/"+ev.Name]++
				n := cnt[ev.Tid+"/"+ev.Name]
				if n > maxCount[pi][set] {
					maxCount[pi][set] = n
				}
				if reached[n] {
					continue // another thread gets to n first
				}
				reached[n] = true
				if !started || !ev.InDir {
					continue
				}
				combo := opKind(inOp, afterOp) + "/" + ev.Name + "/" + ev.Kind
				byCombo[combo] = append(byCombo[combo], c05SysCase{Plan: pi, Set: set, N: n, Target: combo})
			}
		}
	}
	rng := kit.NewRNG(kit.Mix(kit.Seed(), 0xC055))
	var cases []c05SysCase
	seenCase := map[string]bool{}
	add := func(c c05SysCase) bool {
		k := fmt.Sprintf("%d|%s|%d", c.Plan, c.Set, c.N)
		if seenCase[k] {
			return false
		}
		seenCase[k] = true
		cases = append(cases, c)
		return true
	}
	combos := kit.SortedKeys(byCombo)
	for _, combo := range combos {
		cs := byCombo[combo]
		// shuffle deterministically, take perCombo
		for i := len(cs) - 1; i > 0; i-- {
			j := rng.Intn(i + 1)
			cs[i], cs[j] = cs[j], cs[i]
		}
		took := 0
		for _, c := range cs {
			if took >= perCombo {
				break
			}
			if add(c) {
				took++
			}
		}
	}
	rep.SetInfo("combinations_in_calibration", len(combos))
	aimed := len(cases)
	for tries := 0; len(cases) < budget && tries < budget*20; tries++ {
		pi := rng.Intn(nplans)
		set := c05SysSets[rng.Intn(len(c05SysSets))]
		if maxCount[pi][set] == 0 {
			continue
		}
		add(c05SysCase{Plan: pi, Set: set, N: 1 + rng.Intn(maxCount[pi][set])})
	}
	rep.SetInfo("cases_aimed_at_combinations", aimed)
	rep.SetInfo("cases", len(cases))

	var finished, startup, judged int64
	comboHits := map[string]int{}
	kit.Parallel(len(cases), workers, func(ci int) {
		c := cases[ci]
		plan := plans[c.Plan]
		ref := refs[c.Plan]
		dir := vfTempDir("c05sk")
		defer os.RemoveAll(dir)
		logFile := dir + ".strace"
		defer os.Remove(logFile)
		inject := fmt.Sprintf("%s:signal=SIGKILL:when=%d", c.Set, c.N)
		outcome, detail := runner.run(plan.ID, dir, logFile, inject)
		switch outcome {
		case "finished":
			mu.Lock()
			finished++
			mu.Unlock()
			return
		case "timeout":
			rep.Inconc(fmt.Sprintf("watchdog: child of plan %d under inject=%s did not end", c.Plan, inject))
			return
		case "other":
			rep.Inconc(fmt.Sprintf("child of plan %d under inject=%s ended unexpectedly: %s", c.Plan, inject, detail))
			return
		}
		// (the "+++ killed by SIGKILL +++" line is suppressed by -e signal=none;
		// that the child was killed is known from strace's own wait status)
		evs, _, tail, perr := c05SysParse(logFile, dir)
		if perr != nil {
			rep.Inconc(fmt.Sprintf("trace of the killed child of plan %d (inject=%s) unreadable: %v", c.Plan, inject, perr))
			return
		}
		idx, inOp, afterOp, started := c05SysHit(evs, c.Set, c.N)
		if idx < 0 {
			rep.Inconc(fmt.Sprintf("trace of the killed child of plan %d (inject=%s) does not show the injected call", c.Plan, inject))
			return
		}
		if !started || (inOp == 0 && afterOp == 0) {
			mu.Lock()
			startup++
			mu.Unlock()
			return // died before the log was first opened: nothing to recover
		}
		hit := evs[idx]
		// model state at the crash
		var st *c05SysOpState
		img := &c05Image{Plan: plan.ID, Occ: c.N, Dir: dir}
		if inOp > 0 {
			st = ref[inOp-1]
			if st == nil {
				rep.Inconc(fmt.Sprintf("plan %d: the child was inside operation %d which the reference run never started", c.Plan, inOp-1))
				return
			}
			img.OpIndex, img.OpKind = inOp-2, st.Kind
			img.Pre, img.InFlight, img.Required, img.Elected = st.Pre, st.InFlight, st.Required, st.Elected
			img.Suspect = st.Suspect
			img.HW = st.HWAfter
			if st.HWBefore > img.HW {
				img.HW = st.HWBefore
			}
			for _, v := range []int64{st.EndBefore, st.EndAfter} {
				if v >= 0 {
					img.EndAlt = append(img.EndAlt, v)
				}
			}
			if !st.Done {
				rep.Inconc(fmt.Sprintf("plan %d: operation %d did not complete in the reference run", c.Plan, inOp-1))
				return
			}
		} else {
			st = ref[afterOp-1]
			if st == nil || !st.Done {
				rep.Inconc(fmt.Sprintf("plan %d: the child had completed operation %d which the reference run did not", c.Plan, afterOp-1))
				return
			}
			img.OpIndex, img.OpKind = afterOp-2, "idle"
			img.Pre, img.InFlight, img.Required, img.Elected = st.After, nil, c05AllRequired(st.After), st.Elected
			img.Suspect = st.Suspect
			img.HW = st.HWAfter
			if st.EndAfter >= 0 {
				img.EndAlt = append(img.EndAlt, st.EndAfter)
			}
		}
		combo := img.OpKind + "/" + hit.Name + "/" + hit.Kind
		img.Point = "sys." + strings.ReplaceAll(combo, "/", ".")
		witness := map[string]any{"plan": plan.String(), "plan_index": c.Plan, "plan_seed": plan.Seed, "inject": inject, "aimed_at": c.Target,
			"killed_entering": hit.Line, "operation_number": img.OpIndex, "operation": img.OpKind, "hw_at_crash": img.HW,
			"pre": offsList(img.Pre), "inflight": offsList(img.InFlight), "trace_tail": tail,
			"replay": fmt.Sprintf("VERIF_SEED=%d ./check C05 --unit syscallkill   (case %d)", kit.Seed(), ci)}
		files, _ := c05DirDigest(dir)
		witness["files_after_kill"] = files
		rep.Eval()
		_, _ = c05CheckGuarded(rep, plan, img, func(kind, what string) {
			rep.Violation("C05:"+kind+":"+img.Point, what, witness)
		})
		rep.Nontrivial(fmt.Sprintf("%d/%d/%s/%s/%d", c.Plan, img.OpIndex, hit.Name, filepath.Base(hit.Path), c.N))
		mu.Lock()
		judged++
		comboHits[combo]++
		mu.Unlock()
		if ci < 3 {
			rep.Sample(map[string]any{"plan": plan.String(), "inject": inject, "killed_entering": hit.Line, "operation": img.OpKind})
		}
	})
	for _, k := range kit.SortedKeys(comboHits) {
		rep.Count("killed@"+k, int64(comboHits[k]))
	}
	missed := []string{}
	for _, combo := range combos {
		if comboHits[combo] == 0 {
			missed = append(missed, combo)
		}
	}
	sort.Strings(missed)
	rep.SetInfo("combinations_hit", len(comboHits))
	rep.SetInfo("calibrated_combinations_not_hit", missed)
	rep.Count("children_finished_without_kill", finished)
	rep.Count("children_killed_before_first_open", startup)
	rep.Count("crash_images_judged", judged)
	if judged == 0 {
		rep.Inconc("no child was killed inside the life of the log")
	}
}
