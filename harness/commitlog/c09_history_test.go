//go:build verif

package commitlog

// C09 history unit: the layout the cleaner meets is the product of a HISTORY,
// not only of appends and rolls -
//   - tail truncations (commitLog.Truncate, what a follower does to its tail
//     after a leader change): inside a segment, at a segment base, of the whole
//     active segment, back over several segments, each followed by further
//     appends and rolls into / behind the rewritten segment,
//   - clean close + reopen at arbitrary points,
//   - CRASH RECOVERY of index files: close, damage the index of one or several
//     segments in the ways segment.setupIndex recovers from (index shorter than
//     the log: last entries cut off / zeroed in place, file empty, file
//     missing; index longer than the log: stale entries of messages that are
//     no longer in the log file), reopen.
// The limits are aimed at the layout MEASURED from the files right before the
// clean (so truncations need no layout prediction) and installed in the live
// log's delete cleaner, i.e. without a reopen that would rebuild the segment
// objects between the history and the clean.  The oracle is the shared one
// (c09Env.cleanAndCheck): everything it knows comes from a raw parse of the
// .log files, timestamps are the harness's own, computeTTL is pinned.

import (
	"encoding/binary"
	"fmt"
	"os"
	"path/filepath"
	"strings"
	"testing"

	kit "github.com/liftbridge-io/liftbridge/internal/verifkit"
)

const c09IdxEntry = 20 // offset(4) timestamp(8) position(4) size(4)

func c09IndexPath(dir string, base int64) string {
	return filepath.Join(dir, fmt.Sprintf("%020d.index", base))
}

// setLimitsLive installs new retention limits in the open log (what a reopen
// with new Options does in commitlog.New), keeping the segment objects that the
// history produced.
func (e *c09Env) setLimitsLive(lim c09Limits) {
	e.log.deleteCleaner.Retention.Age = lim.Age
	e.log.deleteCleaner.Retention.Messages = lim.Msgs
	e.log.deleteCleaner.Retention.Bytes = lim.Bytes
	e.lim = lim
	e.opts.MaxLogAge, e.opts.MaxLogMessages, e.opts.MaxLogBytes = lim.Age, lim.Msgs, lim.Bytes
	e.trace = append(e.trace, "Limits("+lim.String()+")")
}

// truncateTo performs a real Truncate(off) (off above the HW, at most the log
// end) and updates the reference content.
func (e *c09Env) truncateTo(off int64, kind string) bool {
	if err := e.log.Truncate(off); err != nil {
		e.fail("C09:truncate-error", fmt.Sprintf("Truncate(%d) failed: %v", off, err), nil)
		return false
	}
	for o := off; o < e.next; o++ {
		delete(e.orig, o)
	}
	e.next = off
	e.trace = append(e.trace, fmt.Sprintf("T%d(%s)", off, kind))
	return true
}

// c09PickTruncate chooses a truncation offset in (hw, next) from the real
// layout; ok=false when there is nothing that may be truncated.
func (e *c09Env) pickTruncate(rng *kit.RNG) (off int64, kind string, ok bool) {
	segs := e.log.Segments()
	lo := e.hw + 1
	if f := segs[0].BaseOffset; lo <= f {
		lo = f + 1 // never empty the whole log
	}
	hi := e.next - 1
	if hi < lo {
		return 0, "", false
	}
	inRange := func(o int64) bool { return o >= lo && o <= hi }
	// the newest segment that holds messages
	act := len(segs) - 1
	for act > 0 && segs[act].BaseOffset >= e.next {
		act--
	}
	for tries := 0; tries < 6; tries++ {
		switch rng.Intn(5) {
		case 0, 1: // inside the newest non-empty segment
			b := segs[act].BaseOffset
			if e.next-1 > b {
				o := b + 1 + int64(rng.Intn(int(e.next-1-b)))
				if inRange(o) {
					return o, "mid-active", true
				}
			}
		case 2: // the whole newest non-empty segment
			if o := segs[act].BaseOffset; inRange(o) {
				return o, "whole-active", true
			}
		case 3: // at the base of an earlier segment
			if act > 0 {
				if o := segs[rng.Intn(act)].BaseOffset; inRange(o) {
					return o, "earlier-base", true
				}
			}
		case 4: // inside an earlier segment
			if act > 0 {
				i := rng.Intn(act)
				b, n := segs[i].BaseOffset, segs[i+1].BaseOffset
				if n-b > 1 {
					o := b + 1 + int64(rng.Intn(int(n-b-1)))
					if inRange(o) {
						return o, "mid-earlier", true
					}
				}
			}
		}
	}
	return lo + int64(rng.Intn(int(hi-lo+1))), "random", true
}

// reopen closes the log, lets damage (may be nil) work on the closed files and
// opens it again with the current limits.
func (e *c09Env) reopen(what string, damage func() bool) bool {
	if err := e.log.Close(); err != nil {
		e.fail("C09:reopen", fmt.Sprintf("Close failed: %v", err), nil)
		return false
	}
	e.log = nil
	if damage != nil && !damage() {
		return false
	}
	e.opts = c09OptsAt(e.dir, e.tag, e.opts.MaxSegmentBytes, e.lim)
	l, err := vfOpen(e.opts)
	if err != nil {
		e.fail("C09:reopen", fmt.Sprintf("reopening after %s failed: %v", what, err), nil)
		return false
	}
	e.log = l
	return true
}

// c09DamageModes: what a crash can leave of an index file and segment.setupIndex
// recovers from by rebuilding the index from the log file.
var c09DamageModes = []string{"cut-last-entries", "zero-last-entries", "index-missing", "index-empty", "stale-extra-entries"}

// damageIndexes damages the index of one or several segments of the CLOSED log
// (after a clean close an index file holds exactly one 20-byte entry per
// message).  Returns a description per damaged segment.
func (e *c09Env) damageIndexes(rng *kit.RNG) ([]string, bool) {
	raw, err := vfScanDir(e.dir)
	if err != nil {
		e.fail("C09:raw-scan", fmt.Sprintf("before index damage: %v", err), nil)
		return nil, false
	}
	var cand []int
	for i, r := range raw {
		if len(r.Recs) > 0 {
			cand = append(cand, i)
		}
	}
	if len(cand) == 0 {
		return nil, true
	}
	chosen := map[int]bool{}
	switch rng.Intn(4) {
	case 0: // one segment, anywhere
		chosen[cand[rng.Intn(len(cand))]] = true
	case 1: // the oldest
		chosen[cand[0]] = true
	case 2: // a run from the oldest end
		n := rng.Range(1, len(cand))
		for _, i := range cand[:n] {
			chosen[i] = true
		}
	default: // each with probability 1/2
		for _, i := range cand {
			if rng.Chance(1, 2) {
				chosen[i] = true
			}
		}
		if len(chosen) == 0 {
			chosen[cand[rng.Intn(len(cand))]] = true
		}
	}
	var desc []string
	for _, i := range cand {
		if !chosen[i] {
			continue
		}
		r := raw[i]
		n := len(r.Recs)
		path := c09IndexPath(e.dir, r.Base)
		fi, err := os.Stat(path)
		if err != nil || fi.Size() != int64(n)*c09IdxEntry {
			// not the shape a clean close leaves: leave it alone
			e.rep.Count("index_damage_skipped_unexpected_index_size", 1)
			continue
		}
		mode := rng.Intn(len(c09DamageModes))
		k := rng.Range(1, n)
		if rng.Chance(1, 2) {
			k = 1
		}
		switch mode {
		case 0:
			err = os.Truncate(path, int64(n-k)*c09IdxEntry)
		case 1:
			var f *os.File
			if f, err = os.OpenFile(path, os.O_RDWR, 0644); err == nil {
				_, err = f.WriteAt(make([]byte, k*c09IdxEntry), int64(n-k)*c09IdxEntry)
				f.Close()
			}
		case 2:
			err = os.Remove(path)
		case 3:
			err = os.Truncate(path, 0)
		case 4:
			// entries of messages that are no longer in the log file (a kill
			// between the renames of a segment replacement leaves the shorter
			// new log next to the longer old index)
			last := r.Recs[n-1]
			buf := make([]byte, 0, k*c09IdxEntry)
			pos := r.Bytes
			for j := 1; j <= k; j++ {
				var b [c09IdxEntry]byte
				binary.BigEndian.PutUint32(b[0:], uint32(last.Off+int64(j)-r.Base))
				binary.BigEndian.PutUint64(b[4:], uint64(last.TS+int64(j)))
				binary.BigEndian.PutUint32(b[12:], uint32(pos))
				binary.BigEndian.PutUint32(b[16:], 60)
				pos += 60
				buf = append(buf, b[:]...)
			}
			var f *os.File
			if f, err = os.OpenFile(path, os.O_WRONLY|os.O_APPEND, 0644); err == nil {
				_, err = f.Write(buf)
				f.Close()
			}
		}
		if err != nil {
			e.rep.Inconc(fmt.Sprintf("C09 history: could not damage %s: %v", path, err))
			return nil, false
		}
		where := "non-newest"
		if i == len(raw)-1 {
			where = "newest"
		}
		e.rep.Count("index_recovery_"+c09DamageModes[mode], 1)
		e.rep.Count("index_recovery_of_"+where+"_segment", 1)
		desc = append(desc, fmt.Sprintf("%d:%s", r.Base, c09DamageModes[mode]))
	}
	return desc, true
}

func TestVerifC09History(t *testing.T) {
	rep := kit.NewReport("C09", "history")
	defer rep.Write()
	defer c09InstallTTL()()
	rep.SetRule("seeded HISTORIES instead of append-only layouts: 3-9 steps drawn from {1-6 append batches (one batch per segment with MaxSegmentBytes=1, or natural rolling with MaxSegmentBytes in {120,300,700}; harness timestamps, in 1 of 3 cases from leaders with skewed clocks), Truncate above the HW (inside the newest non-empty segment, that whole segment, at the base of / inside an earlier segment, random) followed in 4 of 5 cases by further appends, clean close + reopen, crash recovery = close + damage the index file of one or several segments (last entries cut off / zeroed in place, file empty, file missing, stale extra entries beyond the log end) + reopen}, at least one truncation or recovery per case; then 1-3 rounds of {limits aimed at the layout measured from the files (suffix sums -1/0/+1, cutoffs between segments) installed in the live log without reopening, Clean, second Clean, more history steps}; oracle = the shared before/after oracle from a raw parse of the files (prefix of whole segments, newest kept, necessity, sufficiency, survivors untouched, segment accounting MessageCount/Position/lastWriteTime vs the file, OldestOffset/NewestOffset, forward/reverse reads); non-trivial = a clean that followed a truncation or a recovery removed >=1 segment; distinct = history + limits")
	rep.Assume("computeTTL is pinned to a fixed instant and all message timestamps are chosen by the harness: no wall clock takes part")
	rep.Assume("truncations stay above the high watermark and never empty the whole log; index damage is limited to the shapes segment.setupIndex documents as recoverable (index does not end where the log file ends, index file missing/empty); a hole in the middle of an index is not produced")
	rep.Assume("the retention limits are written into the live log's deleteCleaner (the same three fields commitlog.New fills from Options) so that the segment objects produced by the history are the ones the cleaner measures; rounds that follow a reopen get them through Options as well")
	root := kit.NewRNG(kit.Mix(kit.Seed(), 0xC09A15))
	ncases := kit.Scale(360, 2400)
	seeds := make([]uint64, ncases)
	for i := range seeds {
		seeds[i] = root.Uint64()
	}
	kit.Parallel(ncases, kit.Workers(), func(i int) {
		if rep.NumViolations() >= 12 {
			return
		}
		c09RunHistory(rep, seeds[i], i)
	})
}

func c09RunHistory(rep *kit.Report, seed uint64, idx int) {
	rng := kit.NewRNG(seed)
	maxSeg := int64(1)
	if rng.Chance(1, 2) {
		maxSeg = []int64{120, 300, 700}[rng.Intn(3)]
	}
	var skew *c09Skew
	if rng.Chance(1, 3) {
		skew = &c09Skew{maxTerm: 3}
		if maxSeg > 1 {
			skew.maxTerm = 6
		}
	}
	e, err := newC09Env(rep, "history", maxSeg, c09Limits{})
	if err != nil {
		rep.Violation("C09:open-error", err.Error(), nil)
		return
	}
	defer e.close()
	e.softAcct = true
	ts := int64(1000)
	appendSome := func(lo, hi int) bool {
		nb := rng.Range(lo, hi)
		if maxSeg > 1 {
			nb = rng.Range(2*lo, 3*hi)
		}
		bs, _ := c09PlanClk(rng, maxSeg, &ts, nb, nil, skew)
		for _, b := range bs {
			if !e.appendBatch(b.vlen, b.ts) {
				return false
			}
		}
		return true
	}
	// what happened since the last clean (classes for the evidence)
	var truncs, recovs int
	var sinceTrunc, sinceRecov bool
	step := func(force int) bool {
		x := force
		if x < 0 {
			x = rng.Intn(10)
		}
		switch {
		case x < 4: // truncate the tail, then append on
			off, kind, ok := e.pickTruncate(rng)
			if !ok {
				return appendSome(1, 3)
			}
			if !e.truncateTo(off, kind) {
				return false
			}
			truncs++
			sinceTrunc = true
			rep.Count("truncate_"+kind, 1)
			if rng.Chance(1, 5) {
				// the rewritten / re-activated segment meets the cleaner as it is
				rep.Count("truncate_without_following_append", 1)
				return true
			}
			return appendSome(1, 4)
		case x < 7: // crash recovery of index files
			var desc []string
			ok := e.reopen("index damage", func() bool {
				var dok bool
				desc, dok = e.damageIndexes(rng)
				return dok
			})
			if !ok {
				return false
			}
			e.trace = append(e.trace, "Recover["+strings.Join(desc, ",")+"]")
			if len(desc) > 0 {
				recovs++
				sinceRecov = true
			}
			if rng.Chance(1, 2) {
				return appendSome(1, 3)
			}
			return true
		case x < 8: // clean close + reopen
			if !e.reopen("clean close", nil) {
				return false
			}
			e.trace = append(e.trace, "Reopen")
			rep.Count("clean_reopens", 1)
			return true
		default:
			return appendSome(1, 4)
		}
	}
	if !appendSome(2, 6) {
		return
	}
	nsteps := rng.Range(2, 6)
	for s := 0; s < nsteps; s++ {
		if !step(-1) {
			return
		}
	}
	if truncs == 0 && recovs == 0 {
		if !step(rng.Intn(7)) {
			return
		}
	}
	rounds := rng.Range(1, 3)
	removedAfterHistory := 0
	var sigs []string
	for r := 0; r < rounds; r++ {
		if r > 0 {
			for s, n := 0, rng.Range(1, 3); s < n; s++ {
				if !step(-1) {
					return
				}
			}
		}
		switch x := rng.Intn(6); {
		case x < 3:
			e.setHW(e.next - 1)
		case x == 3 && e.next > e.hw+1:
			e.setHW(e.hw + 1 + int64(rng.Intn(int(e.next-e.hw-1))))
		}
		if rng.Chance(1, 8) {
			if split, err := e.log.checkAndPerformSplit(); err != nil {
				e.fail("C09:split-error", err.Error(), nil)
				return
			} else if split {
				e.trace = append(e.trace, "Roll")
			}
		}
		st, ok := e.scan("before limits")
		if !ok {
			return
		}
		lim := c09PickLimits(rng, st)
		e.setLimitsLive(lim)
		nseg := len(st)
		k, ok := e.cleanAndCheck(rng, true)
		if !ok {
			return
		}
		exposed := e.ageExposed
		if sinceTrunc {
			rep.Count("cleans_after_truncation_and_appends", 1)
		}
		if sinceRecov {
			rep.Count("cleans_after_index_recovery", 1)
		}
		if sinceTrunc || sinceRecov {
			removedAfterHistory += k
		}
		switch {
		case k == 0:
			rep.Count("clean_removed_none", 1)
		case k == nseg-1:
			rep.Count("clean_removed_all_but_newest", 1)
		default:
			rep.Count("clean_removed_some", 1)
		}
		rep.Count("limits_"+e.lim.kinds(), 1)
		sigs = append(sigs, e.lim.String())
		k2, ok := e.cleanAndCheck(rng, false)
		if !ok {
			return
		}
		if k2 != 0 && !exposed {
			e.fail("C09:second-clean-removed", fmt.Sprintf("a second Clean with unchanged limits and cutoff removed %d more segments", k2), nil)
		}
		post, _ := e.scan("leftover check")
		if left := e.leftovers(post); len(left) > 0 {
			e.fail("C09:removed-segment-file-left", fmt.Sprintf("files of removed segments are left in the log directory: %v", left), nil)
		}
		sinceTrunc, sinceRecov = false, false
	}
	if idx < 3 {
		rep.Sample(e.replay(nil))
	}
	rep.Count("truncations", int64(truncs))
	rep.Count("index_recoveries", int64(recovs))
	e.finish(fmt.Sprintf("%d|%s|%s", maxSeg, strings.Join(e.trace, " "), strings.Join(sigs, ";")), removedAfterHistory > 0)
}
