//go:build verif

package commitlog

// C03, unit "retentionhw": RETENTION THAT OVERTAKES THE HIGH WATERMARK.
//
// A real commit log with a BINDING retention limit (MaxLogMessages /
// MaxLogBytes / both), small segments and a HW that lags far behind the log
// end (a leader whose ISR followers lag, or whose ISR is below the minimum).
// Retention passes then remove sealed segments that contain the HW offset or
// lie entirely above it.  Afterwards more appends (all above the HW), the HW
// advances in small steps through the removed range into the retained one,
// more passes, until the HW reaches the log end.
//
// One driver goroutine is the only writer (appends, HW, passes in modes 0/1),
// so the HW sampled after a read is exact.  A pass is executed as
//   mode 0: l.Clean() called directly,
//   mode 1: l.cleanerPass() (the body of the log's own cleaner loop: roll check
//           + Clean) called by the driver under cleanerMu,
//   mode 2: the log's own cleaner loop on a 1 ms ticker, concurrent with the
//           driver and the readers.
//
// Readers (all committed): fresh ones from 0 / oldest / HW / HW+1 / random after
// every step, long-lived ones polled with a cancelled context (parked at the
// HW in the HW segment, created at HW+1, random) and long-lived goroutines
// really parked in ReadMessage across the passes.
//
// Oracle (property statement only):
//   - a delivered offset is <= the HW sampled after the read (HW is monotone),
//   - per reader strictly increasing offsets, content = f(seed, offset),
//   - when a reader has nothing more to deliver (poll says "would wait", or the
//     goroutine is registered in hwWaiters under the log mutex) it has delivered
//     every offset of [max(start, oldest sampled afterwards) .. HW]: retention
//     only removes a prefix, so those were retained during the whole read.
//     At the end HW == log end (quiescence), so this is every retained message.
// Not judged (counted): a read that fails with ErrSegmentClosed because the
// reader's own segment was deleted by retention - the harness re-subscribes at
// the reader's next offset like a client.

import (
	"context"
	"fmt"
	"io"
	"os"
	"sync"
	"sync/atomic"
	"testing"
	"time"

	pkgErrors "github.com/pkg/errors"

	kit "github.com/liftbridge-io/liftbridge/internal/verifkit"
)

type c03rReader struct {
	class string
	start int64
	hwAt  int64 // HW when created
	gor   bool  // goroutine parked in ReadMessage

	mu    sync.Mutex
	r     *Reader
	got   []int64
	resub int
	ended bool
	done  chan struct{}
}

func (rd *c03rReader) isEnded() bool {
	rd.mu.Lock()
	defer rd.mu.Unlock()
	return rd.ended
}

type c03rCase struct {
	rep    *kit.Report
	idx    int
	seed   uint64
	mode   int
	l      *commitLog
	mu     sync.Mutex
	ops    []string
	bad    atomic.Bool
	inPass atomic.Bool
	params map[string]any
	st     *c03rStats
}

type c03rStats struct {
	passes, overtaken, aboveRemoved, resub, delivered, fresh, parkedAcross, emptyActive, transientOpen, completed atomic.Int64
}

func (x *c03rCase) op(f string, a ...any) {
	x.mu.Lock()
	x.ops = append(x.ops, fmt.Sprintf(f, a...))
	x.mu.Unlock()
}

func (x *c03rCase) fail(fp, what string) {
	x.bad.Store(true)
	x.mu.Lock()
	ops := append([]string(nil), x.ops...)
	x.mu.Unlock()
	if len(ops) > 14 {
		ops = append([]string{"..."}, ops[len(ops)-14:]...)
	}
	x.rep.Violation(fp, what, map[string]any{"verif_seed": kit.Seed(), "case": x.idx, "case_seed": x.seed, "params": x.params, "last_operations": ops})
}

// passRunning: a retention pass may be in flight (mode 2: always possible;
// modes 0/1: while the driver is inside pass(); goroutine readers run then).
func (x *c03rCase) passRunning() bool { return x.mode == 2 || x.inPass.Load() }

// closedListed: base offsets of closed segments in the log's segment list.
func (x *c03rCase) closedListed() []int64 {
	var out []int64
	for _, s := range x.l.Segments() {
		s.RLock()
		if s.closed {
			out = append(out, s.BaseOffset)
		}
		s.RUnlock()
	}
	return out
}

// hwClass: where the HW is relative to what retention kept.
func (x *c03rCase) hwClass(hw int64) string {
	old := x.l.OldestOffset()
	if old == -1 || hw < old {
		return "hw-below-oldest"
	}
	return "hw-retained"
}

// observe runs on the reading goroutine right after a successful ReadMessage.
func (x *c03rCase) observe(rd *c03rReader, m SerializedMessage, off, ts int64, ep uint64) {
	hw := x.l.HighWatermark()
	x.st.delivered.Add(1)
	rd.mu.Lock()
	last := int64(-1)
	if len(rd.got) > 0 {
		last = rd.got[len(rd.got)-1]
	}
	rd.got = append(rd.got, off)
	rd.mu.Unlock()
	if off > hw {
		x.fail("C03:retentionhw:uncommitted-delivered:"+x.hwClass(hw),
			fmt.Sprintf("committed reader (%s, start=%d, HW at creation=%d) delivered offset %d while HW=%d (sampled after the read); oldest retained offset=%d, newest=%d", rd.class, rd.start, rd.hwAt, off, hw, x.l.OldestOffset(), x.l.NewestOffset()))
	}
	if off <= last {
		x.fail("C03:retentionhw:duplicate-or-reorder", fmt.Sprintf("committed reader (%s, start=%d) delivered offset %d after %d", rd.class, rd.start, off, last))
	}
	rec, err := vfDecode(m, off, ts, ep)
	want := c01Content(x.seed, off)
	want.Hdr = vfNormHdr(want.Hdr)
	if err != nil || !vfSameRec(rec, want) {
		x.fail("C03:retentionhw:content", fmt.Sprintf("committed reader (%s, start=%d) offset %d: got %v (%v), stored %v", rd.class, rd.start, off, rec, err, want))
	}
}

func (x *c03rCase) open(class string, start int64, gor bool) *c03rReader {
	rd := &c03rReader{class: class, start: start, gor: gor, hwAt: x.l.HighWatermark(), done: make(chan struct{})}
	for try := 0; ; try++ {
		r, err := x.l.NewReader(start, false)
		if err == nil {
			rd.r = r
			return rd
		}
		if try < 50000 && pkgErrors.Cause(err) == ErrSegmentClosed && (try < 30000 || x.passRunning()) {
			// a pass of the cleaner loop is deleting the segment right now
			// (deleted segments stay listed until the pass installs its result)
			x.st.transientOpen.Add(1)
			time.Sleep(200 * time.Microsecond)
			continue
		}
		x.fail("C03:retentionhw:reader-open:"+x.hwClass(rd.hwAt), fmt.Sprintf("NewReader(%d, committed) (%s) failed: %v; HW=%d oldest=%d newest=%d", start, class, err, rd.hwAt, x.l.OldestOffset(), x.l.NewestOffset()))
		return nil
	}
}

// readErr handles a failed read; true = the reader goes on (re-subscribed).
func (x *c03rCase) readErr(rd *c03rReader, err error) bool {
	if pkgErrors.Cause(err) == ErrSegmentClosed && rd.resub < 400 {
		// the reader's segment was deleted by retention: re-subscribe at the
		// next offset, as a client would
		rd.resub++
		x.st.resub.Add(1)
		next := rd.r.offset
		for try := 0; try < 50000; try++ {
			if try > 0 {
				time.Sleep(200 * time.Microsecond)
			}
			r, e := x.l.NewReader(next, false)
			if e == nil {
				rd.mu.Lock()
				rd.r = r
				rd.mu.Unlock()
				return true
			}
			err = e
			if pkgErrors.Cause(e) != ErrSegmentClosed || (try > 30000 && !x.passRunning()) {
				// (a pass of the log's own cleaner loop is not visible to passRunning: a closed
				// segment met while opening is transient; only a persistent one is judged)
				break
			}
		}
	}
	hw := x.l.HighWatermark()
	x.fail("C03:retentionhw:reader-error:"+x.hwClass(hw), fmt.Sprintf("committed reader (%s, start=%d, next offset %d, %d re-subscriptions) failed with %q; HW=%d oldest=%d newest=%d; closed segments still listed: %v", rd.class, rd.start, rd.r.offset, rd.resub, err, hw, x.l.OldestOffset(), x.l.NewestOffset(), x.closedListed()))
	rd.mu.Lock()
	rd.ended = true
	rd.mu.Unlock()
	return false
}

// poll delivers everything the reader can deliver now (driver goroutine).
func (x *c03rCase) poll(rd *c03rReader) {
	if rd.isEnded() {
		return
	}
	hb := make([]byte, 28)
	for i := 0; i < 100000; i++ {
		m, off, ts, ep, err := rd.r.ReadMessage(vfCancelled, hb)
		if pkgErrors.Cause(err) == io.EOF {
			return // would wait (cancelled context)
		}
		if err != nil {
			if !x.readErr(rd, err) {
				return
			}
			continue
		}
		x.observe(rd, m, off, ts, ep)
	}
	x.fail("C03:retentionhw:endless", "reader did not stop after 100000 deliveries")
}

func (x *c03rCase) run(rd *c03rReader, ctx context.Context) {
	defer close(rd.done)
	hb := make([]byte, 28)
	for {
		m, off, ts, ep, err := rd.r.ReadMessage(ctx, hb)
		if err != nil {
			if ctx.Err() != nil {
				return
			}
			if !x.readErr(rd, err) {
				return
			}
			continue
		}
		x.observe(rd, m, off, ts, ep)
	}
}

// settled: the goroutine reader has ended or is registered in hwWaiters (then
// everything it read before is recorded: recording precedes the next call).
func (x *c03rCase) settle(rd *c03rReader) bool {
	deadline := time.Now().Add(20 * time.Second)
	for {
		select {
		case <-rd.done:
			return true
		default:
		}
		rd.mu.Lock()
		cr := rd.r.ctxReader
		rd.mu.Unlock()
		x.l.mu.RLock()
		_, parked := x.l.hwWaiters[cr]
		x.l.mu.RUnlock()
		if parked {
			return true
		}
		if time.Now().After(deadline) {
			x.rep.Inconc(fmt.Sprintf("case %d: goroutine reader (%s) neither parked nor ended within the watchdog", x.idx, rd.class))
			x.bad.Store(true)
			return false
		}
		time.Sleep(50 * time.Microsecond)
	}
}

// complete judges a reader that has nothing more to deliver at HW hw.
func (x *c03rCase) complete(rd *c03rReader, hw int64, when string) {
	rd.mu.Lock()
	ended := rd.ended
	got := append([]int64(nil), rd.got...)
	rd.mu.Unlock()
	if ended {
		return
	}
	old := x.l.OldestOffset() // sampled after the read: retained during the whole read
	if old == -1 {
		return
	}
	lo := rd.start
	if old > lo {
		lo = old
	}
	have := map[int64]bool{}
	for _, o := range got {
		have[o] = true
	}
	for o := lo; o <= hw; o++ {
		if !have[o] {
			tail := got
			if len(tail) > 8 {
				tail = tail[len(tail)-8:]
			}
			x.fail("C03:retentionhw:missing:"+rd.class, fmt.Sprintf("%s: committed reader (%s, start=%d, HW at creation=%d) waits although it has not delivered retained committed offset %d (HW=%d oldest=%d newest=%d); last delivered %v", when, rd.class, rd.start, rd.hwAt, o, hw, old, x.l.NewestOffset(), tail))
			return
		}
	}
}

func (x *c03rCase) pass(hw int64) {
	before := x.l.OldestOffset()
	nseg := len(x.l.Segments())
	x.inPass.Store(true)
	defer x.inPass.Store(false)
	switch x.mode {
	case 0:
		if err := x.l.Clean(); err != nil {
			x.rep.Inconc(fmt.Sprintf("case %d: Clean failed: %v", x.idx, err))
			x.bad.Store(true)
		}
	case 1:
		x.l.cleanerMu.Lock()
		x.l.cleanerPass()
		x.l.cleanerMu.Unlock()
	default:
		// the log's own loop: give it a bounded chance to overtake the HW
		// (scheduling aid only, nothing is judged from the wait)
		deadline := time.Now().Add(40 * time.Millisecond)
		for time.Now().Before(deadline) {
			if o := x.l.OldestOffset(); o == -1 || o > hw {
				break
			}
			time.Sleep(500 * time.Microsecond)
		}
	}
	after := x.l.OldestOffset()
	x.st.passes.Add(1)
	x.op("pass(mode %d): oldest %d->%d segments %d->%d (HW=%d newest=%d)", x.mode, before, after, nseg, len(x.l.Segments()), hw, x.l.NewestOffset())
}

func c03rRunCase(rep *kit.Report, st *c03rStats, idx int, seed uint64) {
	rng := kit.NewRNG(seed)
	x := &c03rCase{rep: rep, idx: idx, seed: seed, mode: idx % 3, st: st}
	maxSeg := []int64{1, 200, 600, 1500}[rng.Intn(4)]
	kind := rng.Intn(3)
	n1 := rng.Range(20, 60)
	limMsgs := int64(rng.Range(1, n1/2))
	limBytes := int64(rng.Range(100, 2500))
	h0 := int64(rng.Range(-1, n1/3))
	dir := vfTempDir("c03r")
	defer os.RemoveAll(dir)
	o := vfOpts(dir, maxSeg)
	if kind != 1 {
		o.MaxLogMessages = limMsgs
	}
	if kind != 0 {
		o.MaxLogBytes = limBytes
	}
	if x.mode == 2 {
		o.CleanerInterval = time.Millisecond
	}
	x.params = map[string]any{"mode": []string{"Clean()", "cleanerPass()", "cleaner loop 1ms"}[x.mode], "MaxSegmentBytes": maxSeg, "MaxLogMessages": o.MaxLogMessages, "MaxLogBytes": o.MaxLogBytes, "first_appends": n1, "first_hw": h0}
	l, err := vfOpen(o)
	if err != nil {
		rep.Inconc(fmt.Sprintf("case %d: open: %v", idx, err))
		return
	}
	x.l = l
	if idx < 4 {
		rep.Sample(x.params)
	}
	ctx, cancel := context.WithCancel(context.Background())
	var long []*c03rReader
	defer func() {
		cancel()
		for _, rd := range long {
			if rd.gor {
				<-rd.done
			}
		}
		l.Close()
	}()
	rep.Eval()

	appendN := func(n int) bool {
		for n > 0 {
			b := rng.Range(1, 5)
			if b > n {
				b = n
			}
			first := l.NewestOffset() + 1
			msgs := make([]*Message, b)
			for i := range msgs {
				msgs[i] = c01Content(seed, first+int64(i)).msg()
			}
			offs, err := l.Append(msgs)
			if err != nil || len(offs) != b || offs[0] != first {
				rep.Inconc(fmt.Sprintf("case %d: append at %d: offsets %v err %v", idx, first, offs, err))
				x.bad.Store(true)
				return false
			}
			n -= b
		}
		x.op("append up to %d", l.NewestOffset())
		return true
	}
	hw := int64(-1)
	setHW := func(v int64) {
		if v > l.NewestOffset() {
			v = l.NewestOffset()
		}
		if v <= hw {
			return
		}
		l.SetHighWatermark(v)
		hw = v
		if got := l.HighWatermark(); got != v {
			x.fail("C03:retentionhw:hw-not-set", fmt.Sprintf("SetHighWatermark(%d) on HW %d: HighWatermark()=%d", v, hw, got))
		}
		x.op("HW=%d", v)
	}
	addLong := func(class string, start int64, gor bool) {
		if start < 0 {
			start = 0
		}
		rd := x.open(class, start, gor)
		if rd == nil {
			return
		}
		long = append(long, rd)
		if gor {
			go x.run(rd, ctx)
		}
	}
	overtakenClass := map[string]bool{}
	check := func(when string) {
		if x.bad.Load() {
			return
		}
		old := l.OldestOffset()
		if old == -1 {
			st.emptyActive.Add(1)
		}
		if old == -1 || old > hw {
			st.overtaken.Add(1)
			overtakenClass["hw-segment-removed"] = true
			rep.Nontrivial(fmt.Sprintf("mode=%d seg=%d kind=%d n1=%d h0=%d", x.mode, maxSeg, kind, n1, h0))
			for _, rd := range long {
				if !rd.isEnded() {
					st.parkedAcross.Add(1)
					break
				}
			}
			// a whole retained-size worth of segments above the HW is gone too
			if segs := l.Segments(); old != -1 && len(segs) > 0 && old > hw+1 {
				st.aboveRemoved.Add(1)
				overtakenClass["segments-above-hw-removed"] = true
			}
		}
		for _, rd := range long {
			if x.bad.Load() {
				return
			}
			if rd.gor {
				if !x.settle(rd) {
					return
				}
			} else {
				x.poll(rd)
			}
			x.complete(rd, hw, when)
		}
		starts := []struct {
			c string
			o int64
		}{{"fresh-from-0", 0}, {"fresh-from-oldest", old}, {"fresh-from-hw", hw}, {"fresh-from-hw+1", hw + 1}, {"fresh-random", int64(rng.Intn(int(l.NewestOffset()) + 2))}}
		for _, s := range starts {
			if x.bad.Load() {
				return
			}
			if s.o < 0 {
				continue
			}
			rd := x.open(s.c, s.o, false)
			if rd == nil {
				return
			}
			st.fresh.Add(1)
			x.poll(rd)
			x.complete(rd, hw, when)
			if len(long) < 14 && rng.Chance(1, 4) {
				rd.class = "kept-" + rd.class
				long = append(long, rd)
			}
		}
	}

	// phase 1: a long log, the HW far behind, readers positioned, first pass
	if !appendN(n1) {
		return
	}
	setHW(h0)
	addLong("polled-from-0", 0, false)
	addLong("polled-from-hw+1", hw+1, false)
	addLong("polled-random", int64(rng.Intn(n1)), false)
	addLong("parked-from-0", 0, true)
	addLong("parked-from-hw+1", hw+1, true)
	addLong("parked-from-hw", hw, true)
	check("before the first pass")
	x.pass(hw)
	check("after the first pass")
	// phase 2: more appends above the HW, small HW steps, more passes
	rounds := rng.Range(4, 10)
	for i := 0; i < rounds && !x.bad.Load(); i++ {
		if !appendN(rng.Range(1, 6)) {
			return
		}
		if rng.Chance(2, 3) {
			setHW(hw + int64(rng.Range(1, 3)))
		}
		if rng.Chance(3, 4) {
			x.pass(hw)
		}
		check(fmt.Sprintf("round %d", i))
	}
	// phase 3: the HW catches up with the log end in small steps
	for hw < l.NewestOffset() && !x.bad.Load() {
		if rng.Chance(1, 8) {
			setHW(l.NewestOffset())
		} else {
			setHW(hw + int64(rng.Range(1, 4)))
		}
		if rng.Chance(1, 5) {
			x.pass(hw)
		}
		check("catch-up")
	}
	x.pass(hw)
	check("quiescence (HW == log end)")
	if x.bad.Load() {
		return
	}
	if len(overtakenClass) > 0 {
		st.completed.Add(1)
	}
}

func TestVerifC03RetentionHW(t *testing.T) {
	rep := kit.NewReport("C03", "retentionhw")
	defer rep.Write()
	rep.SetRule("seeded sequential cases on the real commit log with a binding retention limit (MaxLogMessages 1..n/2, MaxLogBytes 100..2500, or both), MaxSegmentBytes in {1,200,600,1500}, 20..60 first appends with the HW at -1..n/3, then retention passes (mode by case index: Clean() directly / cleanerPass() = body of the cleaner loop / the log's own cleaner loop on a 1 ms ticker) that remove the sealed segment holding the HW offset and segments entirely above it, 4..10 rounds of appends + HW steps of 1..3 + passes, then the HW catching up with the log end in steps of 1..4 with passes in between; committed readers: after every step fresh ones from 0 / oldest / HW / HW+1 / random, long-lived polled ones (from 0 = positioned at the HW, from HW+1, random, some kept fresh ones) and three goroutines really parked in ReadMessage across the passes; after every step every reader settles (poll says would-wait / registered in hwWaiters); non-trivial = at some step the oldest retained offset was above the HW; distinct = (mode, segment size, limit kind, overtaking classes, n, first HW)")
	rep.Assume("the driver is the only HW writer and waits for every reader after every step, so the HW sampled after a read is exact; retention removes only a prefix, so [max(start, oldest sampled after the read) .. HW] was retained during the whole read")
	rep.Assume("a read failing with ErrSegmentClosed because the reader's own segment was deleted is counted, not judged; the harness re-subscribes at the reader's next offset")
	rep.Assume("age retention is not used (segment write times come from the wall clock); what a pass removes is C09's property and is not judged here")
	root := kit.NewRNG(kit.Mix(kit.Seed(), 0xC03E7))
	n := kit.Scale(90, 900)
	seeds := make([]uint64, n)
	for i := range seeds {
		seeds[i] = root.Uint64()
	}
	st := &c03rStats{}
	kit.Parallel(n, kit.Workers(), func(i int) {
		if rep.NumViolations() >= 6 {
			return
		}
		c03rRunCase(rep, st, i, seeds[i])
	})
	rep.Count("overtaken_cases_run_to_quiescence", st.completed.Load())
	rep.Count("retention_passes", st.passes.Load())
	rep.Count("steps_with_oldest_above_hw", st.overtaken.Load())
	rep.Count("steps_with_whole_segments_above_hw_removed", st.aboveRemoved.Load())
	rep.Count("steps_with_only_an_empty_active_segment_left", st.emptyActive.Load())
	rep.Count("steps_overtaken_with_long_lived_reader_positioned_at_or_below_hw", st.parkedAcross.Load())
	rep.Count("deliveries_checked", st.delivered.Load())
	rep.Count("fresh_readers", st.fresh.Load())
	rep.Count("reader_resubscribed_after_own_segment_deleted", st.resub.Load())
	rep.Count("subscribe_failed_segment_closed_during_pass", st.transientOpen.Load())
}
