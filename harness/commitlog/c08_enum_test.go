//go:build verif

package commitlog

// C08 small-scope enumeration: ALL key strings up to a length bound over the
// alphabet {nil, "", "a"} (thorough: also with "b" up to a shorter bound),
// two messages per segment, EVERY high watermark in [-1, newest]; one Clean
// checked by the full oracle, then a second Clean (idempotence).

import (
	"fmt"
	"os"
	"strings"
	"testing"

	kit "github.com/liftbridge-io/liftbridge/internal/verifkit"
)

// c08Shard: the enumeration is split over several units (processes) by case
// index; VERIF_SHARD = "i/n".
func c08Shard() (int, int) {
	var i, n int
	if _, err := fmt.Sscanf(os.Getenv("VERIF_SHARD"), "%d/%d", &i, &n); err != nil || n < 1 || i < 0 || i >= n {
		return 0, 1
	}
	return i, n
}

type c08EnumCase struct {
	keys []int // index into the alphabet
	hw   int64
	alph int
}

func TestVerifC08Enum(t *testing.T) {
	shard, nshards := c08Shard()
	rep := kit.NewReport("C08", fmt.Sprintf("enum%d", shard))
	defer rep.Write()
	len3 := kit.Scale(5, 6)
	len4 := kit.Scale(0, 4)
	rep.SetRule(fmt.Sprintf("small-scope enumeration: ALL key strings of length 1..%d over {nil,\"\",\"a\"} (and of length 1..%d over {nil,\"\",\"a\",\"b\"}) x EVERY HW in [-1,newest], 2 messages per segment (MaxSegmentBytes=60), CompactMaxGoroutines rotating over {1,2,10}; Clean, full oracle (must-survive, every forward/reverse reader start, index lookups, raw files), second Clean, full oracle again; non-trivial = >=2 segments and >=1 message removed", len3, len4))
	rep.SetExhaustive(true)
	alph3 := [][]byte{nil, {}, []byte("a")}
	alph4 := [][]byte{nil, {}, []byte("a"), []byte("b")}
	var cases []c08EnumCase
	var gen func(prefix []int, k, maxLen, alph int)
	gen = func(prefix []int, k, maxLen, alph int) {
		if len(prefix) > 0 {
			// for the 4-letter alphabet only strings that use "b" are new
			useful := alph == 3
			for _, x := range prefix {
				if x == 3 {
					useful = true
				}
			}
			if useful {
				for hw := int64(-1); hw < int64(len(prefix)); hw++ {
					cases = append(cases, c08EnumCase{keys: append([]int(nil), prefix...), hw: hw, alph: alph})
				}
			}
		}
		if len(prefix) == maxLen {
			return
		}
		for x := 0; x < alph; x++ {
			gen(append(prefix, x), k+1, maxLen, alph)
		}
	}
	gen(nil, 0, len3, 3)
	if len4 > 0 {
		gen(nil, 0, len4, 4)
	}
	rep.SetInfo("cases_enumerated_all_shards", len(cases))
	rep.SetInfo("shard", fmt.Sprintf("%d of %d (case index mod %d)", shard, nshards, nshards))
	kit.Parallel(len(cases), kit.Workers(), func(i int) {
		if i%nshards != shard || rep.NumViolations() >= 14 {
			return
		}
		c := cases[i]
		alph := alph3
		if c.alph == 4 {
			alph = alph4
		}
		gor := []int{1, 2, 10}[i%3]
		e, err := newC08Env(rep, "enum", c08Opts("c08e", 60, gor))
		if err != nil {
			rep.Violation("C08:open-error", err.Error(), nil)
			return
		}
		defer e.close()
		rng := kit.NewRNG(uint64(i))
		for _, x := range c.keys {
			if !e.appendKeys([][]byte{alph[x]}, 4, nil, false) {
				return
			}
		}
		if c.hw >= 0 {
			e.setHW(c.hw)
		}
		nseg := len(e.log.Segments())
		if !e.clean(rng) {
			return
		}
		if !e.clean(rng) { // idempotence: nothing that must survive disappears
			return
		}
		if i%1499 == 0 {
			rep.Sample(e.replay(map[string]any{"survivors": c08Offs(e.model)}))
		}
		e.finish(fmt.Sprintf("%s|%d", strings.Join(e.keys, ","), c.hw), nseg >= 2 && e.removedMsgs > 0)
	})
}
