//go:build verif

package commitlog

// C03, unit "cleaner": the monitors of the stress / follower units (c03Run)
// on logs whose segment list and segments change underneath live committed
// readers for reasons other than the appender rolling:
//
//   - cleaner passes (commitLog.Clean, what cleanerLoop runs whenever a
//     retention limit or compaction is configured) concurrent with the
//     appender that rolls small segments.  Retention limits are configured so
//     high that they never bind: nothing may disappear, so the per-read oracle
//     (offset <= HW, content, CONSECUTIVE offsets) and the completeness oracle
//     apply unchanged.  Half of the passes are widened at the hook point
//     between "segments cleaned" and "install the result" until at least two
//     rolls happened inside the pass.
//   - compaction-enabled logs: every pass REPLACES every non-active segment
//     (rewritten file, new segment object) although, with all keys distinct or
//     nil, nothing is removed - readers positioned in or parked at the end of
//     a replaced segment must continue exactly where they were.
//   - follower-style logs whose uncommitted tail is truncated (Truncate(t),
//     HW < t <= newest) and appended again with the same content, which
//     replaces the segment holding t while readers are inside it.
//
// Retention that really deletes a committed prefix under a reader that is
// behind is deliberately not produced here (a reader below the new oldest
// offset legitimately jumps; C09/C10 look at that).

import (
	"encoding/binary"
	"runtime"
	"strconv"
	"strings"
	"sync"
	"sync/atomic"
	"testing"
	"time"

	kit "github.com/liftbridge-io/liftbridge/internal/verifkit"
	"github.com/liftbridge-io/liftbridge/server/verifhook"
)

const (
	c03CleanNone      = 0
	c03CleanRetention = 1 // message / byte limits that never bind
	c03CleanCompact   = 2 // Compact=true, keys distinct or nil
)

var c03CleanNames = []string{"none", "retention-nonbinding", "compaction-distinct-keys"}

// c03Extra selects the additional event classes of one run.  The zero value
// is the workload of the stress / follower units.
type c03Extra struct {
	clean    int
	trunc    bool  // follower mode only
	maxSeg   int64 // overrides the PRNG choice when != 0
	maxTotal int64 // caps the number of messages when != 0
	limits   int   // retention: 0 messages, 1 bytes, 2 both
	st       *c03ExtraStats
}

type c03ExtraStats struct {
	passes, passes2Rolls, widened, widenTimeouts atomic.Int64
	recreated, transientOpen, transientRead      atomic.Int64
	firstAfterRecreate, idleAcrossPass           atomic.Int64
	truncs, truncCut, truncSegsDropped           atomic.Int64
}

func (ex c03Extra) opts(dir string, maxSeg int64) Options {
	o := vfOpts(dir, maxSeg)
	switch ex.clean {
	case c03CleanRetention:
		if ex.limits != 1 {
			o.MaxLogMessages = 1 << 40
		}
		if ex.limits != 0 {
			o.MaxLogBytes = 1 << 50
		}
	case c03CleanCompact:
		o.Compact = true
		o.CompactMaxGoroutines = 2
	}
	return o
}

// content is c01Content; on a compacted log every non-nil key is made unique
// (offset-tagged) so that compaction has nothing to remove and the offsets a
// committed reader must deliver stay consecutive.
func (ex c03Extra) content(seed uint64, o int64) vfRec {
	rec := c01Content(seed, o)
	if ex.clean == c03CleanCompact && rec.Key != nil {
		k := make([]byte, 8, 8+len(rec.Key))
		binary.BigEndian.PutUint64(k, uint64(o))
		rec.Key = append(k, rec.Key...)
	}
	return rec
}

// c03NewViol counts violations other than the known stale-HW-segment class
// (that one must not end the unit early nor switch off the completeness wait
// of the other runs).
var c03NewViol atomic.Int64

const c03StaleHWTag = ":stale-hw-segment"

// c03StaleHW classifies a failing read: the committed reader still holds, as
// its HW segment, a segment object that was replaced, while it reads another
// segment - then its "am I in the HW segment" test can never be true again and
// nothing limits it to the HW.  Called on the reader's own goroutine after
// ReadMessage returned.
func c03StaleHW(r *Reader, ex c03Extra) string {
	cr, ok := r.ctxReader.(*committedReader)
	if !ok || cr == nil || cr.hwSeg == nil || cr.seg == cr.hwSeg {
		return ""
	}
	cr.hwSeg.RLock()
	replaced := cr.hwSeg.replaced
	cr.hwSeg.RUnlock()
	if !replaced {
		return ""
	}
	if ex.trunc {
		return c03StaleHWTag + "-after-truncate"
	}
	return c03StaleHWTag
}

func c03GoID() uint64 {
	var buf [64]byte
	n := runtime.Stack(buf[:], false)
	f := strings.Fields(string(buf[:n])) // "goroutine 123 ["
	if len(f) < 2 {
		return 0
	}
	id, _ := strconv.ParseUint(f[1], 10, 64)
	return id
}

// c03CleanRuns: goroutine id of a run's cleaner goroutine -> *c03CleanRun (the
// hook handler is process-global, runs execute in parallel).
var c03CleanRuns sync.Map

type c03CleanRun struct {
	l           *commitLog
	writerDone  *atomic.Bool
	n0          int  // segments when the pass started
	widen       bool // hold this pass open until >= 2 rolls happened inside it
	grownInPass int
	st          *c03ExtraStats
}

// afterCleanSegments runs on the cleaner goroutine between "segments cleaned"
// and "take the log mutex and install the result".  The log mutex is not held
// here.  The wait is bounded (scheduling aid, never an oracle).
func (cs *c03CleanRun) afterCleanSegments() {
	if cs.widen {
		if cs.st != nil {
			cs.st.widened.Add(1)
		}
		deadline := time.Now().Add(400 * time.Millisecond)
		for len(cs.l.Segments())-cs.n0 < 2 && !cs.writerDone.Load() {
			if time.Now().After(deadline) {
				if cs.st != nil {
					cs.st.widenTimeouts.Add(1)
				}
				break
			}
			time.Sleep(100 * time.Microsecond)
		}
	}
	cs.grownInPass = len(cs.l.Segments()) - cs.n0
}

func TestVerifC03Cleaner(t *testing.T) {
	rep := kit.NewReport("C03", "cleaner")
	defer rep.Write()
	rep.SetRule("the runs of the stress unit (leader style) and of the follower unit (follower style), same per-read oracle (offset <= HW sampled after, content f(seed,offset), consecutive per reader, first offset in the documented window) and same completeness / lost-wake-up oracle after quiescence, with per run (from the run seed) one of: (a) a goroutine calling Clean() in a loop on a log with message/byte retention limits that never bind, (b) the same on a compaction-enabled log whose keys are all distinct or nil (every pass replaces every non-active segment, removes nothing), (c) follower style only: up to 12 truncations of the uncommitted tail (Truncate(t), HW < t <= newest+1) followed by re-appending from t with the same content; half of the cleaner passes are held open at hook clean.afterCleanSegments until >= 2 segments were rolled inside the pass (bounded wait); non-trivial = >= 3 segments and, for (a)/(b), >= 1 completed pass; distinct = run parameters")
	rep.Assume("retention limits never bind and compaction has nothing to remove, so no committed message may ever disappear; a reader that is behind a really deleted prefix is not produced here")
	rep.Assume("cleaner passes and tail truncations are not combined in one run")
	verifhook.Set(c03Hook)
	defer verifhook.Set(nil)
	root := kit.NewRNG(kit.Mix(kit.Seed(), 0xC03C1))
	runs := kit.Scale(72, 900)
	seeds := make([]uint64, runs)
	for i := range seeds {
		seeds[i] = root.Uint64()
	}
	st := &c03ExtraStats{}
	per := runs / 3
	for profile := 0; profile < 3; profile++ {
		c03DelayMode.Store(int64(profile))
		lo, hi := profile*per, (profile+1)*per
		if profile == 2 {
			hi = runs
		}
		kit.Parallel(hi-lo, kit.Workers(), func(k int) {
			if c03NewViol.Load() >= 6 {
				return
			}
			i := lo + k
			if only := kit.EnvInt("VERIF_C03_CLASS", -1); only >= 0 && i%6 != only%6 && !(only == 4 && i%6 == 5) {
				return // debugging aid: run one class only (0..3 cleaner classes, 4 truncation)
			}
			// the class is fixed by the position in the list (every class under
			// every delay profile), everything else by the run seed
			x := kit.NewRNG(seeds[i] ^ 0xE)
			ex := c03Extra{st: st, limits: x.Intn(3), maxTotal: int64(kit.Scale(180, 0))}
			follower := false
			switch i % 6 {
			case 0:
				ex.clean = c03CleanRetention
			case 1:
				ex.clean = c03CleanCompact
			case 2:
				ex.clean, follower = c03CleanRetention, true
			case 3:
				ex.clean, follower = c03CleanCompact, true
			default:
				ex.trunc, follower = true, true
			}
			switch {
			case ex.clean == c03CleanCompact:
				// a compaction pass rewrites every sealed segment (one segment
				// creation each): keep the number of segments moderate
				ex.maxSeg = []int64{400, 1000, 2500}[x.Intn(3)]
			case ex.trunc:
				// several messages per segment, so that a truncation point lies
				// inside a segment readers are reading
				ex.maxSeg = []int64{200, 600, 1000, 2500}[x.Intn(4)]
			}
			c03Run(rep, i, seeds[i], profile, follower, ex)
		})
	}
	rep.Count("reader_parks_at_hook", c03Parks.Load())
	rep.Count("split_cas_wins", c03SplitWins.Load())
	rep.Count("cleaner_passes", st.passes.Load())
	rep.Count("cleaner_passes_widened_at_hook", st.widened.Load())
	rep.Count("cleaner_passes_widening_gave_up", st.widenTimeouts.Load())
	rep.Count("cleaner_passes_with_2plus_rolls_inside", st.passes2Rolls.Load())
	rep.Count("reader_idle_across_a_whole_pass", st.idleAcrossPass.Load())
	rep.Count("readers_recreated_after_segment_replacement", st.recreated.Load())
	rep.Count("readers_recreated_before_first_delivery_window_widened", st.firstAfterRecreate.Load())
	rep.Count("subscribe_failed_segment_closed_during_pass_or_truncation", st.transientOpen.Load())
	rep.Count("read_failed_segment_closed_during_pass_or_truncation", st.transientRead.Load())
	rep.Count("tail_truncations", st.truncs.Load())
	rep.Count("tail_truncations_that_cut_messages", st.truncCut.Load())
	rep.Count("tail_truncations_that_dropped_segments", st.truncSegsDropped.Load())
}
