//go:build verif

package commitlog

// C08 key-size unit.  The other C08 generators draw keys from {nil, "", a few
// 1-2 byte keys}; here the KEY LENGTH is the swept dimension: every length in
// 0..300 (so every 1-byte / 2-byte boundary, 127/128, 255/256 and every
// read-ahead width in that range has its exact value and both neighbours),
// around every power of two up to 64 Ki the lengths at which the key, the
// message up to the key or the log entry up to the key ends there (+-1), and
// a few larger ones, with key
// families whose members differ only in the LAST byte, only in the FIRST
// byte, only in the middle, or by being one byte shorter / longer (prefix of
// one another), with contents all-zero, all-0xff, random and random non-zero,
// mixed with short keys, nil and the empty key, in logs of several segments.
// Oracle: the shared C08 oracle (c08_oracle_test.go), unchanged.

import (
	"fmt"
	"sort"
	"strings"
	"testing"

	kit "github.com/liftbridge-io/liftbridge/internal/verifkit"
)

// c08KeyLens is the deterministic sweep list of key lengths.
func c08KeyLens() []int {
	var lens []int
	for l := 0; l <= 300; l++ {
		lens = append(lens, l)
	}
	// around every larger power of two p: the key itself ends at p, the
	// message up to the end of the key (10 bytes of crc, magic, attributes and
	// key length in front of it) ends at p, the log entry up to the end of
	// the key (28 more bytes of message-set header) ends at p; +-1 each
	for p := 512; p <= 65536; p *= 2 {
		if kit.Thorough() && p <= 4096 {
			for l := p - 40; l <= p+2; l++ {
				lens = append(lens, l)
			}
			continue
		}
		lens = append(lens, p-39, p-38, p-37, p-11, p-10, p-9, p-1, p, p+1)
	}
	lens = append(lens, 100000, 1<<17+1, 300000)
	if kit.Thorough() {
		for l := 301; l <= 470; l++ {
			lens = append(lens, l)
		}
		lens = append(lens, 1<<20-1, 1<<20, 1<<20+1)
	}
	return lens
}

var c08KeyFills = []string{"rand-nonzero", "rand-nonzero", "rand", "zeros", "ff", "text"}

func c08FillKey(rng *kit.RNG, n int, fill string) []byte {
	k := make([]byte, n)
	switch fill {
	case "zeros":
	case "ff":
		for i := range k {
			k[i] = 0xff
		}
	case "rand":
		copy(k, rng.Bytes(n))
	case "text":
		for i := range k {
			k[i] = byte('a' + (i*7+n)%26)
		}
	default: // rand-nonzero
		copy(k, rng.Bytes(n))
		for i := range k {
			if k[i] == 0 {
				k[i] = byte(1 + i%255)
			}
		}
	}
	return k
}

// c08KeyFamily returns a base key of length n and neighbours of it; names
// describe how each member is derived from the base (for the replay).
func c08KeyFamily(rng *kit.RNG, n int, fill string) (keys [][]byte, names []string) {
	base := c08FillKey(rng, n, fill)
	add := func(k []byte, name string) {
		for _, o := range keys {
			if vfSameBytes(o, k) {
				return
			}
		}
		keys = append(keys, k)
		names = append(names, fmt.Sprintf("len=%d/%s/%s", len(k), fill, name))
	}
	flip := func(i int, mask byte) []byte {
		k := append([]byte{}, base...)
		k[i] ^= mask
		return k
	}
	add(base, "base")
	var variants []func()
	if n >= 1 {
		variants = append(variants,
			func() { add(flip(n-1, 0x01), "last-byte-differs") },
			func() { add(flip(0, 0x80), "first-byte-differs") },
			func() { add(base[:n-1:n-1], "one-byte-shorter(prefix)") },
		)
	}
	if n >= 3 {
		variants = append(variants, func() { add(flip(n/2, 0x10), "middle-byte-differs") })
	}
	if n >= 12 {
		variants = append(variants, func() { add(flip(n-1-rng.Intn(12), 0x04), "byte-near-the-end-differs") })
	}
	variants = append(variants, func() { add(append(append([]byte{}, base...), byte(1+rng.Intn(255))), "one-byte-longer(extension)") })
	want := rng.Range(1, 3)
	for _, i := range c08Perm(rng, len(variants)) {
		if want == 0 {
			break
		}
		variants[i]()
		want--
	}
	return keys, names
}

func c08Perm(rng *kit.RNG, n int) []int {
	p := make([]int, n)
	for i := range p {
		p[i] = i
	}
	for i := n - 1; i > 0; i-- {
		j := rng.Intn(i + 1)
		p[i], p[j] = p[j], p[i]
	}
	return p
}

func c08LenBucket(n int) string {
	switch {
	case n <= 2:
		return "0-2"
	case n <= 126:
		return "3-126"
	case n <= 129:
		return "127-129"
	case n <= 244:
		return "130-244"
	case n <= 258:
		return "245-258"
	case n <= 300:
		return "259-300"
	case n <= 4097:
		return "301-4097"
	case n <= 65537:
		return "4098-65537"
	}
	return "over-65537"
}

type c08KeySizeCase struct {
	seed  uint64
	len   int // main key length of the case
	mix   bool
	shape int // 0 = "guaranteed" shape: every family member at least twice, HW behind them
}

func TestVerifC08KeySizes(t *testing.T) {
	rep := kit.NewReport("C08", "keysizes")
	defer rep.Write()
	lens := c08KeyLens()
	shapes := kit.Scale(1, 2)
	nmix := kit.Scale(200, 600)
	rep.SetRule(fmt.Sprintf("key LENGTH sweep: for every length in the list (every value 0..300; for p = 2^k in 512..65536: p, p-10, p-38 (key / message-up-to-key / log-entry-up-to-key ends at p) each +-1; 100000, 131073, 300000; thorough also every value 301..470 and p-40..p+2 for p <= 4096, and 2^20+-1) %d PRNG-shaped log(s): a key family of that length (base + 1-3 of: last byte differs, first byte differs, middle byte differs, a byte near the end differs, one byte shorter = prefix, one byte longer = extension; content all-zero / all-0xff / text / random / random non-zero), in 1 of 3 cases a second family of another boundary length; the first shape of every length is 'guaranteed': every family member is appended at least twice and the HW lies behind them, then a tail that pushes them out of the newest segment; plus 1-2 short keys, nil and \"\" with varying weight; 5-24 messages in batches of 1-3, values 6-14 bytes (now and then up to the key length, 200-400 or 5000), 1 case in 4 with headers (short, or a 200-300 byte header value), MaxSegmentBytes = 1,2,3 or 5 average messages, HW anywhere, CompactMaxGoroutines in {1,2,10}, 1-2 Clean() calls with appends / HW advance / reopen in between; plus %d mixed cases whose families have lengths drawn from the whole list; after every Clean the full C08 oracle (must-survive ⊆ actual ⊆ before, byte-identical, forward/reverse committed/uncommitted readers from every offset, findEntry for every offset, raw segment files); non-trivial = >=2 segments and >=1 message with a key of the swept length removed by compaction; distinct = lengths + fills + key pattern + HW sequence", shapes, nmix))
	rep.Assume("must-survive uses the HW the harness set before calling Clean (no HW movement during a clean)")
	rep.Assume("the commit log itself puts no limit on the key length (message.go encodes the key length as int32); lengths up to 2^20+1 are appended")
	root := kit.NewRNG(kit.Mix(kit.Seed(), 0xC08515E))
	var cases []c08KeySizeCase
	for _, l := range lens {
		for s := 0; s < shapes; s++ {
			cases = append(cases, c08KeySizeCase{seed: root.Uint64(), len: l, shape: s})
		}
	}
	for i := 0; i < nmix; i++ {
		cases = append(cases, c08KeySizeCase{seed: root.Uint64(), len: lens[root.Intn(len(lens))], mix: true, shape: 1})
	}
	rep.SetInfo("key_lengths_swept", len(lens))
	// big keys first so that the long cases do not form the tail of the run
	order := make([]int, len(cases))
	for i := range order {
		order[i] = i
	}
	sort.SliceStable(order, func(a, b int) bool { return cases[order[a]].len > cases[order[b]].len })
	kit.Parallel(len(cases), kit.Workers(), func(j int) {
		if rep.NumViolations() >= 14 {
			return
		}
		i := order[j]
		c08RunKeySize(rep, cases[i], i)
	})
}

func c08RunKeySize(rep *kit.Report, c c08KeySizeCase, idx int) {
	rng := kit.NewRNG(c.seed)
	lens := c08KeyLens()
	// ---- alphabet
	var (
		alph  [][]byte
		names []string
		long  [][]byte // the members of the swept families
	)
	famLens := []int{c.len}
	if c.mix {
		for n := rng.Range(1, 2); n > 0; n-- {
			famLens = append(famLens, lens[rng.Intn(len(lens))])
		}
	} else if rng.Chance(1, 3) {
		near := []int{c.len - 1, c.len + 1, c.len + 10, 246, 256, 128, 255, 2 * c.len}
		if l := near[rng.Intn(len(near))]; l >= 0 {
			famLens = append(famLens, l)
		}
	}
	maxLen := 0
	var fills []string
	for _, l := range famLens {
		if l > 20000 && len(famLens) > 1 && l != c.len {
			l = 4097 // keep the second family of a big case moderate
		}
		fill := c08KeyFills[rng.Intn(len(c08KeyFills))]
		ks, ns := c08KeyFamily(rng, l, fill)
		alph = append(alph, ks...)
		long = append(long, ks...)
		names = append(names, ns...)
		fills = append(fills, fmt.Sprintf("%d/%s", l, fill))
		if l > maxLen {
			maxLen = l
		}
	}
	for n, short := rng.Range(0, 2), [][]byte{[]byte("a"), []byte("bb"), []byte("c")}; n > 0; n-- {
		alph = append(alph, short[n])
		names = append(names, fmt.Sprintf("%q", short[n]))
	}
	pNil, pEmpty := []int{0, 8, 20}[rng.Intn(3)], []int{0, 8, 20}[rng.Intn(3)]
	// ---- layout
	avgKey := 0
	for _, k := range alph {
		avgKey += len(k)
	}
	avgKey /= len(alph)
	perSeg := []int{1, 2, 3, 5}[rng.Intn(4)]
	if c.shape == 0 {
		perSeg = []int{2, 3, 4, 6}[rng.Intn(4)] // fewer, fuller segments: the swept dimension is the key, not the layout
	}
	maxSeg := int64(perSeg * (28 + 22 + 10 + avgKey))
	gor := []int{1, 2, 10}[rng.Intn(3)]
	opts := c08Opts("c08k", maxSeg, gor)
	e, err := newC08Env(rep, "keysizes", opts)
	if err != nil {
		rep.Violation("C08:open-error", err.Error(), nil)
		return
	}
	defer e.close()
	e.extra = map[string]any{"case_index": idx, "case_seed": fmt.Sprintf("%#x", c.seed), "key_alphabet": strings.Join(names, " ; "),
		"key_rule": "keys are built by c08KeyFamily(rng(case_seed), len, fill) in harness/commitlog/c08_keysize_test.go"}
	n0 := rng.Range(5, 24)
	if maxLen > 4097 {
		n0 = rng.Range(5, 10)
	}
	if maxLen > 200000 {
		n0 = rng.Range(4, 6)
	}
	valLen := func() int {
		switch x := rng.Intn(24); {
		case x == 0 && maxLen <= 65537:
			return 5000
		case x < 3:
			return rng.Range(200, 400)
		case x < 5:
			// total message size near the key-sized boundaries too
			return rng.Range(6, 6+c.len%300)
		}
		return rng.Range(6, 14)
	}
	withHdr := rng.Chance(1, 4)
	hdrs := func(n int) []map[string][]byte {
		if !withHdr {
			return nil
		}
		hs := make([]map[string][]byte, n)
		for i := range hs {
			switch rng.Intn(4) {
			case 0:
				hs[i] = map[string][]byte{"h": []byte(fmt.Sprint(rng.Intn(100)))}
			case 1:
				hs[i] = map[string][]byte{"long": c08FillKey(rng, rng.Range(200, 300), "text"), "": {}}
			}
		}
		return hs
	}
	appendN := func(n int) bool {
		for n > 0 {
			b := rng.Range(1, 3)
			if b > n {
				b = n
			}
			ks := make([][]byte, b)
			for i := range ks {
				switch x := rng.Intn(100); {
				case x < pNil:
					ks[i] = nil
				case x < pNil+pEmpty:
					ks[i] = []byte{}
				case x < pNil+pEmpty+45:
					ks[i] = long[rng.Intn(len(long))]
				default:
					ks[i] = alph[rng.Intn(len(alph))]
				}
			}
			if !e.appendKeys(ks, valLen(), hdrs(b), rng.Chance(1, 9)) {
				return false
			}
			n -= b
		}
		return true
	}
	guaranteed := int64(-1) // offset of the last message of the guaranteed part
	if c.shape == 0 {
		// every member of the swept families twice, in PRNG order, one message
		// per batch; then a tail long enough to push them out of the newest
		// segment
		var seq [][]byte
		for _, i := range c08Perm(rng, 2*len(long)) {
			seq = append(seq, long[i%len(long)])
		}
		for _, k := range seq {
			if !e.appendKeys([][]byte{k}, rng.Range(6, 14), nil, false) {
				return
			}
		}
		guaranteed = e.next - 1
		n0 = perSeg + rng.Range(2, 5)
	}
	if !appendN(n0) {
		return
	}
	rounds := rng.Range(1, 2)
	var hws []string
	segsAtFirst, removedLong := 0, 0
	for r := 0; r < rounds; r++ {
		if r > 0 && rng.Bool() {
			if !appendN(rng.Range(1, 8)) {
				return
			}
		}
		hw := c08PickHW(rng, e)
		if r == 0 && guaranteed >= 0 && hw < guaranteed {
			hw = guaranteed + int64(rng.Intn(int(e.next-guaranteed)))
		}
		if hw > e.hw {
			e.setHW(hw)
		}
		hws = append(hws, fmt.Sprint(e.hw))
		if r == 0 {
			segsAtFirst = len(e.log.Segments())
		}
		before := e.model
		if !e.clean(rng) {
			return
		}
		removedLong += c08RemovedWithLen(before, e.model, c.len)
		if rng.Chance(1, 6) {
			if !e.reopen() {
				return
			}
			rep.Count("reopens", 1)
			must := c08Must{}
			for _, rr := range e.model {
				must[rr.Off] = "present-before-reopen"
			}
			if !e.verify(rng, must, len(e.log.Segments())) {
				return
			}
		}
	}
	rep.Count("cases_keylen_"+c08LenBucket(c.len), 1)
	if removedLong > 0 {
		rep.Count("cases_where_compaction_removed_a_message_with_the_swept_key_length_"+c08LenBucket(c.len), 1)
	}
	rep.Count("messages_removed_with_the_swept_key_length", int64(removedLong))
	if c.shape == 0 {
		rep.Count("guaranteed_shape_cases", 1)
		if removedLong > 0 {
			rep.Count("guaranteed_shape_cases_where_a_message_with_the_swept_key_length_was_removed", 1)
		}
	}
	rep.Max("max_key_len", int64(maxLen))
	if idx%97 == 0 {
		rep.Sample(e.replay(map[string]any{"survivors": c08Offs(e.model)}))
	}
	sig := fmt.Sprintf("%s|%d|%d|%s|%s", strings.Join(fills, ","), maxSeg, gor, strings.Join(e.keys, ","), strings.Join(hws, ","))
	e.finish(sig, segsAtFirst >= 2 && removedLong > 0)
}

// c08RemovedWithLen counts the records of before that are missing in after
// and carry a (non-nil) key of length n.
func c08RemovedWithLen(before, after []vfRec, n int) int {
	have := make(map[int64]bool, len(after))
	for _, r := range after {
		have[r.Off] = true
	}
	c := 0
	for _, r := range before {
		if !have[r.Off] && r.Key != nil && len(r.Key) == n {
			c++
		}
	}
	return c
}
