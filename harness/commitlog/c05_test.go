//go:build verif

package commitlog

// C05 — the partition log recovers from a crash at any instant.
//
// Crash model: process crash (the OS keeps what was written: write, rename,
// unlink, ftruncate and dirty MAP_SHARED pages).  The `verif` hook points sit
// between every pair of file-system effects of append, roll, truncate,
// retention clean, compaction, HW checkpoint and leader-epoch flush.
//
// snapshot mode (exhaustive over points x occurrences of a workload): at every
// hit of every point the handler copies the log directory — under the crash
// model that copy IS the post-crash disk image — and the run continues, so one
// execution yields every crash image of the workload.  Each image is then
// recovered with commitlog.New and checked by the oracle below, and the log is
// used further (append, roll, truncate, clean, reopen).
// kill mode (validation of the snapshot shortcut): a child process runs the
// same workload and SIGKILLs itself at (point, occurrence); what is recovered
// from its directory must equal what is recovered from the snapshot image.
// syscallkill mode (c05_syscall_test.go; crash instants that no hook point
// marks): a child runs the workload under `strace -e inject=...:signal=SIGKILL`
// and dies on entering the N-th file-system call of a chosen kind; same oracle.
//
// interleave mode (unit `interleave`, same procedure as snapshot over the
// "inter" family of plans): the workloads a sequential plan cannot produce -
// operations running WHILE a cleaner pass is in progress (c05Inter: at the k-th
// hit of a hook point inside Clean the pass is held and appends / replicated
// sets / an HW move / a checkpoint / an election / a split run on the log) - and
// catch-up streams (AppendMessageSet of sets that span leader-epoch
// boundaries, op.BumpAt).  The kill and syscallkill units take part of their
// workloads from this family too, and every recovered image of every unit is
// fed one replicated set spanning three epochs before its final reopen, whose
// epoch history is checked again.
//
// belowhw mode (unit `belowhw`, c05_belowhw_test.go, family "below"): the
// workloads the base list excludes - truncations AT OR BELOW the high
// watermark, with an HW checkpoint (a tick, or the Close of a clean restart,
// op R) before them, the log regrown past the old HW afterwards; one more crash
// instant between every two operations.  The HW clause of the oracle compares
// the recovered HW with the HW the log held IN MEMORY at the crash instant
// (c05Exec.memHW, sampled at the hook hit), in every unit.
//
// The oracle (c05CheckRecovered) is shared by all units.  Its epoch
// clause goes both ways: every message's epoch is known to the recovered
// history (c05EpochConsistent) AND every claim of the history is borne out by
// the messages (c05HistoryBorneOut: no entry beyond the newest offset, entry
// start offsets carry their epoch unless the epoch was announced by an
// election, LastLeaderEpoch / LastOffsetForLeaderEpoch agree with the messages).

import (
	"bytes"
	"fmt"
	"io"
	"os"
	"os/exec"
	"path/filepath"
	"runtime"
	"sort"
	"strconv"
	"strings"
	"sync"
	"syscall"
	"testing"
	"time"

	kit "github.com/liftbridge-io/liftbridge/internal/verifkit"
	"github.com/liftbridge-io/liftbridge/server/verifhook"
)

// ---------------------------------------------------------------- plan

type c05Op struct {
	Kind string // A append, M AppendMessageSet, S explicit split check, T truncate, H set HW, K checkpoint HW, E new leader epoch, C clean, R clean restart (Close + reopen, which also checkpoints the HW)
	N    int    // A/M: batch size
	Frac int    // T/H: position in permille of the current offset range
	Bump bool   // A/M: messages carry a new leader epoch
	// T: position class.  "" = Frac; "segbase" = exactly the base offset of a
	// segment; "epochstart" = exactly the first offset of the latest leader
	// epoch that has messages; "last" = exactly the newest offset.  A class
	// that is not available above the HW falls back to Frac.
	// Position classes AT OR BELOW the high watermark (c05_belowhw_test.go,
	// c05BelowTarget): "hw", "hw-1", "hw+1", "below" (Frac between the oldest
	// offset and the HW), "belowsegbase" (a segment base <= HW), "belowepoch"
	// (first offset of a leader epoch <= HW), "oldest", "zero".
	Mode string
	// M: message indexes (0 <= i < N) at which the leader epoch goes up by one
	// BEFORE that message: a replicated set that spans leader-epoch boundaries
	// (a follower catching up across leader changes gets size-cut batches that
	// hold the tail of one epoch and the head of the next).  Index 0 = the first
	// message of the set starts a new epoch (same as Bump).
	BumpAt []int
	// C: operations performed on the same log WHILE this cleaner pass is running
	// (what the appender / replicator / HW goroutines of a partition do during a
	// background clean), see c05Inter.
	Inter []c05Inter
}

// c05Inter interleaves operations with a cleaner pass: at the Occ-th hit,
// counted within that pass, of hook point Point ("" = of any point of
// c05CleanPoints) the pass is held and Ops (A, M, H, K, E, S) run on the log;
// then the pass goes on.  All those points are outside the log mutex and the
// leader-epoch cache mutex (Clean takes the log mutex only for its final list
// swap) and at most hold the lock of a non-active segment being rewritten or
// deleted, which none of the interleaved operations touches - so they run on
// the cleaner's goroutine, inside the hook handler, which is the schedule
// "cleaner pre-empted here, other goroutine runs, cleaner resumes" made
// deterministic.
type c05Inter struct {
	Point string
	Occ   int
	Ops   []c05Op
}

// c05CleanPoints: the hook points inside Clean() that are outside the log
// mutex (epoch.beforeFlush / epoch.afterFlush are inside it).
var c05CleanPoints = map[string]bool{
	"clean.afterDeleteSeg": true, "segdelete.afterLogRemove": true, "newseg.afterLogCreate": true, "seg.write.afterLog": true,
	"compact.afterCreateCleaned": true, "compact.afterWriteCleaned": true, "compact.emptyAfterDeleteNew": true, "compact.afterSegment": true,
	"replace.afterClose": true, "replace.betweenRenames": true, "replace.afterRenames": true, "clean.afterCleanSegments": true,
}

type c05Plan struct {
	ID       int
	Seed     uint64
	MaxSeg   int64
	Compact  bool
	RetMsgs  int64
	RetBytes int64
	Ops      []c05Op
	// Family: "" = base workload list; "inter" = workloads of unit interleave
	// (cleaner passes with interleaved operations, catch-up streams); "below" =
	// workloads of unit belowhw (truncations at or below the high watermark).
	Family string
}

func c05OpsString(sb *strings.Builder, ops []c05Op) {
	for _, o := range ops {
		switch o.Kind {
		case "A", "M":
			fmt.Fprintf(sb, " %s%d", o.Kind, o.N)
			if o.Bump {
				sb.WriteString("e")
			}
			for _, b := range o.BumpAt {
				fmt.Fprintf(sb, "@%d", b)
			}
		case "T", "H":
			fmt.Fprintf(sb, " %s%d", o.Kind, o.Frac)
			if o.Mode != "" {
				sb.WriteString("/" + o.Mode)
			}
		case "C":
			sb.WriteString(" C")
			for _, in := range o.Inter {
				pt := in.Point
				if pt == "" {
					pt = "any"
				}
				fmt.Fprintf(sb, "{%s#%d:", pt, in.Occ)
				c05OpsString(sb, in.Ops)
				sb.WriteString("}")
			}
		default:
			sb.WriteString(" " + o.Kind)
		}
	}
}

func (p c05Plan) String() string {
	var sb strings.Builder
	fmt.Fprintf(&sb, "seg=%d compact=%v retMsgs=%d retBytes=%d:", p.MaxSeg, p.Compact, p.RetMsgs, p.RetBytes)
	c05OpsString(&sb, p.Ops)
	return sb.String()
}

func c05MakePlan(id int, rng *kit.RNG) c05Plan {
	p := c05Plan{ID: id, Seed: rng.Uint64()}
	p.MaxSeg = []int64{90, 160, 300, 700}[rng.Intn(4)]
	switch rng.Intn(4) {
	case 0:
		p.Compact = true
	case 1:
		p.RetMsgs = int64(rng.Range(4, 12))
	case 2:
		p.RetBytes = int64(rng.Range(200, 900))
	default:
		p.Compact = rng.Bool()
		if rng.Bool() {
			p.RetMsgs = int64(rng.Range(6, 14))
		}
	}
	n := rng.Range(10, 22)
	for i := 0; i < n; i++ {
		switch x := rng.Intn(100); {
		case x < 42:
			p.Ops = append(p.Ops, c05Op{Kind: "A", N: rng.Range(1, 4), Bump: rng.Chance(1, 5)})
		case x < 50:
			op := c05Op{Kind: "M", N: rng.Range(1, 5), Bump: rng.Chance(1, 4)}
			// half of the replicated sets span one or two leader-epoch boundaries
			if op.N >= 2 && rng.Bool() {
				op.BumpAt = c05RandBumps(rng, op.N)
			}
			p.Ops = append(p.Ops, op)
		case x < 58:
			p.Ops = append(p.Ops, c05Op{Kind: "T", Frac: rng.Intn(1100), Mode: []string{"", "", "segbase", "epochstart", "last"}[rng.Intn(5)]})
		case x < 70:
			p.Ops = append(p.Ops, c05Op{Kind: "H", Frac: rng.Intn(1001)})
		case x < 78:
			p.Ops = append(p.Ops, c05Op{Kind: "K"})
		case x < 84:
			p.Ops = append(p.Ops, c05Op{Kind: "E"})
		case x < 88:
			p.Ops = append(p.Ops, c05Op{Kind: "S"})
		default:
			p.Ops = append(p.Ops, c05Op{Kind: "C"})
		}
	}
	// every plan ends with a clean and a truncate so those crash points are reached
	p.Ops = append(p.Ops, c05Op{Kind: "A", N: 3}, c05Op{Kind: "C"}, c05Op{Kind: "A", N: 2}, c05Op{Kind: "T", Frac: 800}, c05Op{Kind: "K"})
	return p
}

// c05RandBumps picks one or two epoch boundaries strictly inside a set of n
// messages (n >= 2).
func c05RandBumps(rng *kit.RNG, n int) []int {
	a := rng.Range(1, n-1)
	if n >= 3 && rng.Chance(1, 3) {
		b := rng.Range(1, n-1)
		if b < a {
			a, b = b, a
		}
		if b > a {
			return []int{a, b}
		}
	}
	return []int{a}
}

func (p c05Plan) opts(dir string) Options {
	o := vfOpts(dir, p.MaxSeg)
	o.Compact = p.Compact
	o.CompactMaxGoroutines = 2
	o.MaxLogMessages = p.RetMsgs
	o.MaxLogBytes = p.RetBytes
	return o
}

// ---------------------------------------------------------------- goroutine-keyed hook dispatch

func c05GoID() uint64 {
	var buf [64]byte
	n := runtime.Stack(buf[:], false)
	// "goroutine 123 ["
	f := strings.Fields(string(buf[:n]))
	if len(f) < 2 {
		return 0
	}
	id, _ := strconv.ParseUint(f[1], 10, 64)
	return id
}

var c05Runs sync.Map // goroutine id -> *c05Exec

func c05Dispatch(name string, args ...interface{}) error {
	if v, ok := c05Runs.Load(c05GoID()); ok {
		return v.(*c05Exec).onPoint(name, args...)
	}
	return nil
}

// ---------------------------------------------------------------- execution with a model

// c05Image is what the oracle knows about one crash instant.
type c05Image struct {
	Plan     int
	Point    string
	Occ      int // occurrence of this point within the workload
	Dir      string
	OpIndex  int
	OpKind   string
	Pre      []vfRec // content before the in-flight operation
	InFlight []vfRec // messages of an in-flight append (may be present as a prefix)
	// Required: offsets of Pre that must be present after recovery.
	Required map[int64]bool
	HW       int64 // in-memory HW at the crash
	// Elected: leader epochs announced with NewLeaderEpoch (an election, as
	// opposed to an epoch first seen on an appended message) up to and
	// including the in-flight operation.  Such an epoch may legitimately be in
	// the history without any message carrying it.
	Elected map[uint64]bool
	// Suspect: see c05Exec.suspect.
	Suspect map[uint64]bool
	// EndAlt: values of NewestOffset() beyond the last readable message that the
	// LIVE log itself reported around this instant (c05Exec.endSlack): after a
	// truncation whose target lies in a gap of a compacted log - possible only at
	// or below the HW - the segment that held the target stays, empty, with its
	// base offset, so the log goes on numbering from that base.
	EndAlt []int64
}

type c05Exec struct {
	plan   c05Plan
	dir    string
	log    *commitLog
	model  []vfRec
	hw     int64
	epoch  uint64
	ts     int64
	uniq   uint64
	rng    *kit.RNG
	opIdx  int
	opKind string
	// state of the in-flight op for the oracle
	pre      []vfRec
	inflight []vfRec
	required map[int64]bool
	elected  map[uint64]bool
	// onOp, when set, is called immediately before (before=true) and
	// immediately after the log call of every operation; num = 0 for the
	// initial open, i+1 for plan op i, len(ops)+1 for the final Close (only
	// when closeIsOp).  At "before" pre / inflight / required / elected describe
	// the operation about to run; at "after" model / hw are its result.
	onOp      func(num int, before bool)
	closeIsOp bool
	// truncClasses, when non-nil, counts the position classes of the
	// truncation targets of this run.
	truncClasses map[string]int
	// cleaner pass in progress (operation C) and the operations interleaved
	// with it
	inClean         bool
	nested          bool
	nestedFailed    bool
	cleanInter      []c05Inter
	cleanDone       []bool
	cleanOcc        map[string]int
	cleanAny        int
	cleanSegs       []c05SegInfo
	cleanExtra      int
	cleanRolledBase int64
	// suspect: leader epochs whose entry is in the live epoch cache only, not in
	// the one a running COMPACTING pass rebuilds: epochs announced by an election
	// (entry at the then newest offset) whose first message an interleaved
	// operation appends during the pass (when that append rolls, the entry lies
	// before the rolled segment), and epochs introduced by an operation
	// interleaved after the compaction had already read the newest segment (at
	// clean.afterCleanSegments).  Clean() forgets such epochs when it
	// replaces the epoch cache (known finding C05:epoch-behind-compaction-lost:*);
	// an epoch mismatch of an image in which one of them is missing or misplaced
	// gets that fingerprint.
	suspect map[uint64]bool
	failFn  func(fp, what string)
	stats   map[string]int
	// crash control
	occ      map[string]int
	killAt   string // "point:occ" (kill mode)
	imageDir string // snapshot mode: where images go ("" = none)
	// interOnly: images are taken only where the state differs from what a base
	// workload produces: inside a cleaner pass once an interleaved operation has
	// run, inside replicated sets that span epochs, and between operations after
	// those (the plain appends / truncations / checkpoints / undisturbed passes
	// around them are the base list's subject)
	interOnly  bool
	spanning   bool
	cleanFired bool
	images     []*c05Image
	copyErr    error
	seekCopy   bool
	// idleEvery: one more crash instant between every two operations (family
	// "below": the crash after a truncation and before the next HW checkpoint)
	idleEvery bool
	// lastCkpt: which operation last wrote the HW checkpoint file ("" none yet,
	// "K" a tick of the checkpoint loop, "R" Close)
	lastCkpt string
	// endSlack: the live log's NewestOffset() when it lies beyond the newest
	// message of the model (-1: it does not), sampled between operations; see
	// c05Image.EndAlt
	endSlack int64
}

// sampleSlack is called between operations (never from a hook).
func (e *c05Exec) sampleSlack() {
	e.endSlack = -1
	if e.log == nil || len(e.model) == 0 {
		return
	}
	if n := e.log.NewestOffset(); n > e.model[len(e.model)-1].Off {
		e.endSlack = n
		e.stat("log-end-beyond-newest-message-after-truncation-into-a-gap")
	}
}

func (e *c05Exec) onPoint(name string, args ...interface{}) error {
	e.occ[name]++
	occ := e.occ[name]
	if e.killAt != "" {
		if e.killAt == fmt.Sprintf("%s:%d", name, occ) {
			syscall.Kill(os.Getpid(), syscall.SIGKILL)
			time.Sleep(time.Hour)
		}
	} else if e.imageDir != "" && (!e.interOnly || e.opKind == "idle" || (e.opKind == "M" && e.spanning) || (e.opKind == "C" && e.cleanFired)) {
		e.takeImage(name, occ)
	}
	// the crash instant itself is BEFORE whatever is interleaved here
	e.interleave(name)
	return nil
}

// memHW is the high watermark the log holds IN MEMORY right now - the "high
// watermark before the crash" of an image taken at this instant.  It is read
// without the log mutex: hook points may be inside it, and in the snapshot /
// kill / reference executions every writer of the field runs on the workload's
// own goroutine (the background loops only read it).  During a restart (op R)
// it is the value the closed log held.
func (e *c05Exec) memHW() int64 {
	if e.log == nil {
		return e.hw
	}
	return e.log.hw
}

func (e *c05Exec) takeImage(name string, occ int) {
	dst := filepath.Join(e.imageDir, fmt.Sprintf("p%d-%s-%d", e.plan.ID, name, occ))
	if err := c05CopyDir(e.dir, dst, e.seekCopy); err != nil {
		e.copyErr = err
		return
	}
	img := &c05Image{Plan: e.plan.ID, Point: name, Occ: occ, Dir: dst, OpIndex: e.opIdx, OpKind: e.opKind,
		Pre: append([]vfRec(nil), e.pre...), InFlight: append([]vfRec(nil), e.inflight...), HW: e.memHW(), Suspect: map[uint64]bool{}}
	for k := range e.suspect {
		img.Suspect[k] = true
	}
	if e.endSlack >= 0 {
		img.EndAlt = []int64{e.endSlack}
	}
	img.Required = map[int64]bool{}
	for k := range e.required {
		img.Required[k] = true
	}
	img.Elected = map[uint64]bool{}
	for k := range e.elected {
		img.Elected[k] = true
	}
	e.images = append(e.images, img)
}

var c05Keys = [][]byte{nil, []byte("k1"), []byte("k2"), []byte("k3")}

func (e *c05Exec) newRec(off int64) vfRec {
	e.ts += 3
	e.uniq++
	r := vfRec{Off: off, TS: e.ts, Epoch: e.epoch}
	r.Key = c05Keys[e.rng.Intn(len(c05Keys))]
	r.Val = []byte(fmt.Sprintf("v%05d-%s", e.uniq, strings.Repeat("x", e.rng.Intn(30))))
	if e.rng.Chance(1, 4) {
		r.Hdr = map[string][]byte{"h": []byte("1")}
	}
	return r
}

func (e *c05Exec) nextOffset() int64 {
	if len(e.model) == 0 {
		// after retention/truncation the next offset is the log's own notion
		return e.log.NewestOffset() + 1
	}
	if last := e.model[len(e.model)-1].Off; e.endSlack > last {
		return e.endSlack + 1
	}
	return e.model[len(e.model)-1].Off + 1
}

func c05AllRequired(recs []vfRec) map[int64]bool {
	m := make(map[int64]bool, len(recs))
	for _, r := range recs {
		m[r.Off] = true
	}
	return m
}

// c05SegInfo is what the retention / compaction rules look at, taken when a
// cleaner pass starts (the pass works on that snapshot of the segment list).
type c05SegInfo struct {
	base, next int64
	count      int64
	bytes      int64
}

func c05SegInfos(l *commitLog) []c05SegInfo {
	segs := l.Segments()
	infos := make([]c05SegInfo, len(segs))
	for i, s := range segs {
		infos[i] = c05SegInfo{base: s.BaseOffset, next: s.NextOffset(), count: s.MessageCount(), bytes: s.Position()}
	}
	return infos
}

// c05MaxMsgBytes bounds the stored size of one workload message from above.
const c05MaxMsgBytes = 256

// c05MustSurvive computes what a clean must keep (see C08/C09): with
// compaction, keyless messages, offsets >= hw, the newest segment and the latest
// message <= hw of every key; retention may drop whole oldest segments.
// Returned: the set of offsets of model that MUST survive a Clean() that starts
// on the segment list infos with high watermark hw.  extraMsgs is the number of
// messages that may be appended to the newest segment while the pass is running
// (interleaved operations): the byte limit is evaluated after the message
// limit has deleted segments, i.e. after hook points, so the newest segment
// may have grown by then.  Everything at or after the base of the newest
// segment of the snapshot (incl. segments rolled during the pass) survives.
func c05MustSurvive(plan c05Plan, infos []c05SegInfo, model []vfRec, hw int64, extraMsgs int) map[int64]bool {
	must := map[int64]bool{}
	// retention: walk backwards from the newest segment like the documented rule
	keepFrom := 0
	if plan.RetMsgs > 0 && len(infos) > 1 {
		total := infos[len(infos)-1].count
		k := len(infos) - 1
		for i := len(infos) - 2; i >= 0; i-- {
			total += infos[i].count
			if total > plan.RetMsgs {
				break
			}
			k = i
		}
		if k > keepFrom {
			keepFrom = k
		}
	}
	if plan.RetBytes > 0 && len(infos) > 1 {
		total := infos[len(infos)-1].bytes
		if plan.RetMsgs > 0 {
			total += int64(extraMsgs) * c05MaxMsgBytes
		}
		k := len(infos) - 1
		for i := len(infos) - 2; i >= 0; i-- {
			total += infos[i].bytes
			if total > plan.RetBytes {
				break
			}
			k = i
		}
		if k > keepFrom {
			keepFrom = k
		}
	}
	firstKept := infos[keepFrom].base
	lastSegBase := infos[len(infos)-1].base
	latest := map[string]int64{}
	for _, r := range model {
		if r.Off < firstKept || r.Key == nil || r.Off > hw {
			continue
		}
		latest[string(r.Key)] = r.Off
	}
	for _, r := range model {
		if r.Off < firstKept {
			continue
		}
		if !plan.Compact || len(infos)-keepFrom <= 1 {
			must[r.Off] = true
			continue
		}
		if r.Key == nil || r.Off >= hw || r.Off >= lastSegBase || latest[string(r.Key)] == r.Off {
			must[r.Off] = true
		}
	}
	return must
}

func (e *c05Exec) mustSurviveClean() map[int64]bool {
	return c05MustSurvive(e.plan, c05SegInfos(e.log), e.model, e.hw, 0)
}

// ---------------------------------------------------------------- operations interleaved with a cleaner pass

func c05HasInt64(xs []int64, x int64) bool {
	for _, v := range xs {
		if v == x {
			return true
		}
	}
	return false
}

func c05Has(xs []int, x int) bool {
	for _, v := range xs {
		if v == x {
			return true
		}
	}
	return false
}

// makeBatch draws the messages of an A / M operation (advancing the epoch as
// the operation says).
func (e *c05Exec) makeBatch(op c05Op) (recs []vfRec, msgs []*Message) {
	if op.Bump {
		e.epoch++
	}
	base := e.nextOffset()
	recs = make([]vfRec, op.N)
	msgs = make([]*Message, op.N)
	for k := range recs {
		if c05Has(op.BumpAt, k) {
			e.epoch++
		}
		recs[k] = e.newRec(base + int64(k))
		msgs[k] = recs[k].msg()
	}
	if op.Kind == "M" && len(recs) > 0 && recs[0].Epoch != recs[len(recs)-1].Epoch {
		e.stat("replicated-set-spanning-epochs")
		if len(op.BumpAt) > 1 {
			e.stat("replicated-set-spanning-two-boundaries")
		}
		if op.Bump || c05Has(op.BumpAt, 0) {
			e.stat("replicated-set-spanning-epochs-and-starting-one")
		}
	}
	return recs, msgs
}

// appendBatch performs the log call of an A / M operation.
func (e *c05Exec) appendBatch(op c05Op, recs []vfRec, msgs []*Message, before func()) ([]int64, error) {
	if op.Kind == "M" {
		// what a follower does with the bytes it fetched from the leader
		ms, _, merr := newMessageSetFromProto(recs[0].Off, 0, msgs, false)
		if merr != nil {
			return nil, fmt.Errorf("encoding a message set failed: %v", merr)
		}
		before()
		return e.log.AppendMessageSet(ms)
	}
	before()
	return e.log.Append(msgs)
}

func (e *c05Exec) stat(k string) {
	if e.stats != nil {
		e.stats[k]++
	}
}

// interleave is called at every hook hit; inside a cleaner pass it runs the
// operations the plan interleaves at this hit.
func (e *c05Exec) interleave(name string) {
	if !e.inClean || e.nested || !c05CleanPoints[name] {
		return
	}
	e.cleanOcc[name]++
	e.cleanAny++
	for i, in := range e.cleanInter {
		if e.cleanDone[i] {
			continue
		}
		if (in.Point == name && in.Occ == e.cleanOcc[name]) || (in.Point == "" && in.Occ == e.cleanAny) {
			e.cleanDone[i] = true
			e.cleanFired = true
			e.nested = true
			e.stat("interleaved@" + name)
			e.doNested(in.Ops, name)
			e.nested = false
		}
	}
}

// doNested runs operations while the cleaner pass of the current C operation
// is held at hook point `at`.  The oracle state (pre / inflight / required /
// elected / hw) is kept up to date so that crash images taken at the hook
// points of the nested operations, and of the rest of the pass, are judged
// against what had completed.
func (e *c05Exec) doNested(ops []c05Op, at string) {
	l := e.log
	for _, op := range ops {
		if e.nestedFailed {
			return
		}
		bad := func(fp, what string) {
			e.nestedFailed = true
			if e.failFn != nil {
				e.failFn(fp, what+" (interleaved with Clean at "+at+")")
			}
		}
		switch op.Kind {
		case "A", "M":
			before := e.epoch
			recs, msgs := e.makeBatch(op)
			e.inflight = recs
			if e.plan.Compact {
				// the first message of an epoch announced by an election (before
				// or during the pass) is appended while the pass is running
				for _, r := range recs {
					if e.elected[r.Epoch] && !e.suspect[r.Epoch] {
						first := true
						for _, m := range e.model {
							if m.Epoch == r.Epoch {
								first = false
								break
							}
						}
						if first {
							e.suspect[r.Epoch] = true
							e.stat("interleaved-first-message-of-elected-epoch-during-compaction")
						}
					}
				}
			}
			seg := l.activeSegment()
			offs, err := e.appendBatch(op, recs, msgs, func() {})
			if err != nil {
				bad("C05:harness-append", fmt.Sprintf("Append failed in workload: %v", err))
				return
			}
			if len(offs) != op.N || offs[0] != recs[0].Off {
				bad("C05:harness-append", fmt.Sprintf("Append returned %v, expected from %d", offs, recs[0].Off))
				return
			}
			e.model = append(append([]vfRec(nil), e.model...), recs...)
			e.pre = e.model
			e.inflight = nil
			for _, r := range recs {
				e.required[r.Off] = true
			}
			e.stat("interleaved-append")
			rolled := l.activeSegment() != seg
			if rolled {
				e.stat("interleaved-append-rolled")
				if e.cleanRolledBase < 0 {
					e.cleanRolledBase = l.activeSegment().BaseOffset
				}
			}
			if e.epoch != before {
				e.stat("interleaved-append-new-epoch")
				// first message of the new epoch lies in a segment rolled during the pass
				for _, r := range recs {
					if r.Epoch > before {
						if e.cleanRolledBase >= 0 && r.Off >= e.cleanRolledBase {
							e.stat("interleaved-new-epoch-starts-in-rolled-segment")
						}
						break
					}
				}
				if at == "clean.afterCleanSegments" && e.plan.Compact {
					for x := before + 1; x <= e.epoch; x++ {
						e.suspect[x] = true
					}
					e.stat("interleaved-new-epoch-behind-compaction-scan")
				}
			}
		case "S":
			split, err := l.checkAndPerformSplit()
			if err != nil {
				bad("C05:harness-split", fmt.Sprintf("split failed in workload: %v", err))
				return
			}
			if split && e.cleanRolledBase < 0 {
				e.cleanRolledBase = l.activeSegment().BaseOffset
			}
		case "H":
			if len(e.model) == 0 {
				continue
			}
			lo, hi := e.model[0].Off, e.model[len(e.model)-1].Off
			h := lo + (hi-lo)*int64(op.Frac)/1000
			if h > e.hw {
				// the pass may or may not see the new HW: keep what both allow
				alt := c05MustSurvive(e.plan, e.cleanSegs, e.model, h, e.cleanExtra)
				for k := range e.required {
					if !alt[k] {
						delete(e.required, k)
					}
				}
			}
			l.SetHighWatermark(h)
			if h > e.hw {
				e.hw = h
			}
			e.stat("interleaved-hw-move")
		case "K":
			l.mu.RLock()
			err := l.checkpointHW()
			l.mu.RUnlock()
			if err != nil {
				bad("C05:harness-checkpoint", fmt.Sprintf("checkpointHW failed: %v", err))
				return
			}
		case "E":
			e.epoch++
			e.elected[e.epoch] = true
			if err := l.NewLeaderEpoch(e.epoch); err != nil {
				bad("C05:harness-epoch", fmt.Sprintf("NewLeaderEpoch failed: %v", err))
				return
			}
			e.stat("interleaved-election")
		}
	}
}

// idleImage is a crash instant between two operations (nothing in flight).
func (e *c05Exec) idleImage() {
	kind := e.opKind
	e.opKind = "idle"
	e.pre, e.inflight, e.required = e.model, nil, c05AllRequired(e.model)
	e.onPoint("idle.afterOp") // nolint: errcheck
	e.opKind = kind
}

// run executes the plan.  Returns an error only for harness-level problems;
// unexpected errors of the log operations are reported through fail.
func (e *c05Exec) run(fail func(fp, what string)) {
	gid := c05GoID()
	c05Runs.Store(gid, e)
	defer c05Runs.Delete(gid)
	e.occ = map[string]int{}
	e.hw = -1
	e.epoch = 1
	e.ts = 1000
	e.rng = kit.NewRNG(e.plan.Seed)
	e.opIdx, e.opKind = -1, "open"
	e.pre, e.inflight, e.required = nil, nil, map[int64]bool{}
	e.elected = map[uint64]bool{}
	e.failFn = fail
	e.suspect = map[uint64]bool{}
	e.cleanRolledBase = -1
	e.idleEvery = e.plan.Family == "below"
	e.lastCkpt = ""
	e.endSlack = -1
	mark := func(num int, before bool) {
		if e.onOp != nil {
			e.onOp(num, before)
		}
	}
	mark(0, true)
	l, err := vfOpen(e.plan.opts(e.dir))
	if err != nil {
		fail("C05:harness-open", fmt.Sprintf("opening a fresh log failed: %v", err))
		return
	}
	mark(0, false)
	e.log = l
	defer func() {
		// not a crash point of snapshot / kill mode: detach before closing
		c05Runs.Delete(gid)
		if e.closeIsOp && e.opKind == "close" {
			mark(len(e.plan.Ops)+1, true)
			if err := l.Close(); err != nil {
				fail("C05:harness-close", fmt.Sprintf("Close failed in workload: %v", err))
				return
			}
			mark(len(e.plan.Ops)+1, false)
			return
		}
		l.Close()
	}()
	for i, op := range e.plan.Ops {
		e.sampleSlack()
		if e.idleEvery && i > 0 {
			e.idleImage()
		}
		e.opIdx, e.opKind = i, op.Kind
		e.pre = e.model
		e.inflight = nil
		e.required = c05AllRequired(e.model)
		// The HW is an INPUT of what follows (compaction's must-survive set, the
		// position classes of truncations): the model follows the log.  On the
		// unchanged code the two never differ (only SetHighWatermark moves it);
		// what the in-memory HW should be after a truncation at or below it is
		// unspecified and not judged.
		e.hw = e.memHW()
		switch op.Kind {
		case "A", "M":
			base := e.nextOffset()
			recs, msgs := e.makeBatch(op)
			e.inflight = recs
			e.spanning = op.Kind == "M" && recs[0].Epoch != recs[len(recs)-1].Epoch
			offs, err := e.appendBatch(op, recs, msgs, func() { mark(i+1, true) })
			if err != nil {
				fail("C05:harness-append", fmt.Sprintf("Append failed in workload: %v", err))
				return
			}
			if len(offs) != op.N || offs[0] != base {
				fail("C05:harness-append", fmt.Sprintf("Append returned %v, expected from %d", offs, base))
				return
			}
			e.model = append(append([]vfRec(nil), e.model...), recs...)
			mark(i+1, false)
			if op.Kind == "M" && recs[0].Epoch != recs[len(recs)-1].Epoch {
				e.idleImage()
			}
		case "S":
			mark(i+1, true)
			if _, err := l.checkAndPerformSplit(); err != nil {
				fail("C05:harness-split", fmt.Sprintf("split failed in workload: %v", err))
				return
			}
			mark(i+1, false)
		case "T":
			if len(e.model) == 0 {
				continue
			}
			lo, hi := e.hw+1, e.model[len(e.model)-1].Off+2
			if lo < e.model[0].Off {
				lo = e.model[0].Off
			}
			below := c05BelowModes[op.Mode]
			if hi <= lo && !below {
				continue
			}
			off := lo + (hi-lo)*int64(op.Frac)/1100
			if below {
				off = e.belowTarget(op)
			}
			switch op.Mode {
			case "segbase":
				// the base offset of a segment (newest first when Frac is high)
				var bases []int64
				for _, sg := range l.Segments() {
					if sg.BaseOffset >= lo && sg.BaseOffset < hi-1 {
						bases = append(bases, sg.BaseOffset)
					}
				}
				if len(bases) > 0 {
					off = bases[(len(bases)-1)*op.Frac/1100]
				}
			case "epochstart":
				// first offset carrying the epoch of the newest message
				last := e.model[len(e.model)-1].Epoch
				for _, r := range e.model {
					if r.Epoch == last {
						if r.Off >= lo {
							off = r.Off
						}
						break
					}
				}
			case "last":
				if n := e.model[len(e.model)-1].Off; n >= lo {
					off = n
				}
			}
			req := map[int64]bool{}
			var post []vfRec
			for _, r := range e.model {
				if r.Off < off {
					req[r.Off] = true
					post = append(post, r)
				}
			}
			e.required = req
			e.truncClass(off)
			if below {
				e.belowClass(op, off)
			}
			mark(i+1, true)
			if err := l.Truncate(off); err != nil {
				fail("C05:harness-truncate", fmt.Sprintf("Truncate(%d) failed in workload: %v", off, err))
				return
			}
			e.model = post
			// the log end by the log's own account, for the crash images taken
			// inside this truncation
			e.sampleSlack()
			if e.endSlack >= 0 {
				for _, im := range e.images {
					if im.OpIndex == i && im.OpKind == "T" {
						im.EndAlt = append(im.EndAlt, e.endSlack)
					}
				}
			}
			mark(i+1, false)
		case "H":
			if len(e.model) == 0 {
				continue
			}
			lo, hi := e.model[0].Off, e.model[len(e.model)-1].Off
			h := lo + (hi-lo)*int64(op.Frac)/1000
			mark(i+1, true)
			l.SetHighWatermark(h)
			if h > e.hw {
				e.hw = h
			}
			mark(i+1, false)
		case "K":
			mark(i+1, true)
			l.mu.RLock()
			err := l.checkpointHW()
			l.mu.RUnlock()
			if err != nil {
				fail("C05:harness-checkpoint", fmt.Sprintf("checkpointHW failed: %v", err))
				return
			}
			e.lastCkpt = "K"
			mark(i+1, false)
		case "R":
			// clean restart: Close (which checkpoints the HW) and reopen.  The
			// instant between the two is a crash instant of its own; hook hits
			// inside Close and inside the recovery of the reopen are others.
			mark(i+1, true)
			if err := l.Close(); err != nil {
				fail("C05:harness-close", fmt.Sprintf("Close failed in workload: %v", err))
				return
			}
			e.lastCkpt = "R"
			e.onPoint("restart.afterClose") // nolint: errcheck
			l2, err := c05Open(e.plan.opts(e.dir))
			if err != nil {
				fail("C05:harness-restart", fmt.Sprintf("reopening the log after a clean Close failed in workload: %v", err))
				return
			}
			l = l2
			e.log = l2
			e.stat("clean-restarts")
			mark(i+1, false)
		case "E":
			e.epoch++
			e.elected[e.epoch] = true
			mark(i+1, true)
			if err := l.NewLeaderEpoch(e.epoch); err != nil {
				fail("C05:harness-epoch", fmt.Sprintf("NewLeaderEpoch failed: %v", err))
				return
			}
			mark(i+1, false)
		case "C":
			e.cleanSegs = c05SegInfos(l)
			e.cleanExtra = 0
			for _, in := range op.Inter {
				for _, o := range in.Ops {
					if o.Kind == "A" || o.Kind == "M" {
						e.cleanExtra += o.N
					}
				}
			}
			e.required = c05MustSurvive(e.plan, e.cleanSegs, e.model, e.hw, e.cleanExtra)
			e.cleanInter, e.cleanDone = op.Inter, make([]bool, len(op.Inter))
			e.cleanOcc, e.cleanAny, e.cleanRolledBase, e.cleanFired = map[string]int{}, 0, -1, false
			mark(i+1, true)
			e.inClean = len(op.Inter) > 0
			err := l.Clean()
			e.inClean = false
			if e.nestedFailed {
				return
			}
			if err != nil {
				fail("C05:harness-clean", fmt.Sprintf("Clean failed in workload: %v", err))
				return
			}
			if e.cleanFired {
				e.stat("cleaner-passes-interleaved")
			}
			// the model becomes what is really there (C08/C09 judge the clean
			// itself); it must contain the must-survive set.
			recs, _, rerr := vfReadFrom(l, l.OldestOffset(), true, len(e.model)+8)
			if rerr != nil {
				fail("C05:harness-clean-read", fmt.Sprintf("read-back after Clean: %v", rerr))
				return
			}
			if l.OldestOffset() == -1 {
				recs = nil
			}
			e.model = recs
			mark(i+1, false)
			if len(op.Inter) > 0 {
				e.idleImage()
			}
		}
	}
	e.sampleSlack()
	if e.idleEvery {
		e.idleImage()
	}
	e.opIdx, e.opKind = len(e.plan.Ops), "close"
	e.pre, e.inflight, e.required = e.model, nil, c05AllRequired(e.model)
}

// truncClass records which position classes a truncation target belongs to
// (coverage counters of the units).
func (e *c05Exec) truncClass(off int64) {
	if e.truncClasses == nil {
		return
	}
	for _, sg := range e.log.Segments() {
		if sg.BaseOffset == off {
			e.truncClasses["at-segment-base"]++
		}
	}
	if n := len(e.model); n > 0 {
		last := e.model[n-1]
		if off == last.Off {
			e.truncClasses["at-newest-offset"]++
		}
		if off == e.model[0].Off {
			e.truncClasses["everything"]++
		}
		for _, r := range e.model {
			if r.Epoch == last.Epoch {
				if r.Off == off && r.Off > e.model[0].Off {
					e.truncClasses["at-first-offset-of-latest-epoch"]++
				}
				break
			}
		}
		for i := 1; i < n; i++ {
			if e.model[i].Off == off && e.model[i].Epoch != e.model[i-1].Epoch && e.model[i].Epoch != last.Epoch {
				e.truncClasses["at-first-offset-of-an-earlier-epoch"]++
			}
		}
	}
}

// ---------------------------------------------------------------- directory copy (sparse aware)

func c05CopyFile(src, dst string, seek bool) error {
	in, err := os.Open(src)
	if err != nil {
		if os.IsNotExist(err) {
			return nil // removed concurrently by the operation we are inside of: cannot happen (same goroutine), but harmless
		}
		return err
	}
	defer in.Close()
	st, err := in.Stat()
	if err != nil {
		return err
	}
	out, err := os.OpenFile(dst, os.O_CREATE|os.O_WRONLY|os.O_TRUNC, 0644)
	if err != nil {
		return err
	}
	defer out.Close()
	size := st.Size()
	if err := out.Truncate(size); err != nil {
		return err
	}
	if !seek || size < 1<<16 {
		buf := make([]byte, 1<<16)
		var off int64
		zero := make([]byte, 1<<16)
		for off < size {
			n, rerr := in.ReadAt(buf, off)
			if n > 0 {
				if !bytes.Equal(buf[:n], zero[:n]) {
					if _, werr := out.WriteAt(buf[:n], off); werr != nil {
						return werr
					}
				}
				off += int64(n)
			}
			if rerr == io.EOF {
				break
			}
			if rerr != nil {
				return rerr
			}
		}
		return nil
	}
	const seekData, seekHole = 3, 4
	fd := int(in.Fd())
	var off int64
	buf := make([]byte, 1<<16)
	for off < size {
		d, err := syscall.Seek(fd, off, seekData)
		if err != nil {
			if err == syscall.ENXIO {
				break // no more data
			}
			return err
		}
		h, err := syscall.Seek(fd, d, seekHole)
		if err != nil {
			return err
		}
		for p := d; p < h; {
			n := int64(len(buf))
			if h-p < n {
				n = h - p
			}
			m, rerr := in.ReadAt(buf[:n], p)
			if m > 0 {
				if _, werr := out.WriteAt(buf[:m], p); werr != nil {
					return werr
				}
				p += int64(m)
			}
			if rerr != nil && rerr != io.EOF {
				return rerr
			}
			if m == 0 {
				break
			}
		}
		off = h
	}
	return nil
}

func c05CopyDir(src, dst string, seek bool) error {
	if err := os.MkdirAll(dst, 0755); err != nil {
		return err
	}
	ents, err := os.ReadDir(src)
	if err != nil {
		return err
	}
	for _, e := range ents {
		if e.IsDir() {
			continue
		}
		if err := c05CopyFile(filepath.Join(src, e.Name()), filepath.Join(dst, e.Name()), seek); err != nil {
			return err
		}
	}
	return nil
}

func c05DirDigest(dir string) (string, error) {
	ents, err := os.ReadDir(dir)
	if err != nil {
		return "", err
	}
	var sb strings.Builder
	for _, e := range ents {
		b, err := os.ReadFile(filepath.Join(dir, e.Name()))
		if err != nil {
			return "", err
		}
		// trailing zeros of preallocated index files are irrelevant
		b = bytes.TrimRight(b, "\x00")
		name := e.Name()
		// atomic-file temp names are random
		if strings.HasPrefix(name, hwFileName) && name != hwFileName {
			name = hwFileName + ".tmp"
		}
		if strings.HasPrefix(name, leaderEpochFileName) && name != leaderEpochFileName {
			name = leaderEpochFileName + ".tmp"
		}
		fmt.Fprintf(&sb, "%s:%d:%x;", name, len(b), kit.Mix(uint64(len(b)), c05Hash(b)))
	}
	return sb.String(), nil
}

func c05Hash(b []byte) uint64 {
	var h uint64 = 1469598103934665603
	for _, c := range b {
		h ^= uint64(c)
		h *= 1099511628211
	}
	return h
}

// ---------------------------------------------------------------- the oracle

type c05Recovered struct {
	Recs  []vfRec
	HW    int64
	Epoch []epochOffset
}

func (r c05Recovered) digest() string {
	var sb strings.Builder
	for _, x := range r.Recs {
		fmt.Fprintf(&sb, "%d:%x,", x.Off, x.digest())
	}
	fmt.Fprintf(&sb, "|hw=%d|", r.HW)
	for _, e := range r.Epoch {
		fmt.Fprintf(&sb, "%d@%d,", e.leaderEpoch, e.startOffset)
	}
	return sb.String()
}

func c05EpochEntries(l *commitLog) []epochOffset {
	l.leaderEpochCache.mu.RLock()
	defer l.leaderEpochCache.mu.RUnlock()
	out := make([]epochOffset, len(l.leaderEpochCache.epochOffsets))
	for i, e := range l.leaderEpochCache.epochOffsets {
		out[i] = *e
	}
	return out
}

// c05Open recovers a directory; a panic is turned into an error.
func c05Open(o Options) (l *commitLog, err error) {
	defer func() {
		if p := recover(); p != nil {
			err = fmt.Errorf("panic: %v [%s]", p, c05Frames())
		}
	}()
	return vfOpen(o)
}

// c05Frames lists the repository frames of the current (panicking) stack.
func c05Frames() string {
	pcs := make([]uintptr, 40)
	n := runtime.Callers(3, pcs)
	fr := runtime.CallersFrames(pcs[:n])
	var out []string
	for {
		f, more := fr.Next()
		if strings.Contains(f.Function, "/commitlog.") && !strings.Contains(f.File, "zz_verif_") {
			out = append(out, fmt.Sprintf("%s:%d", f.Function[strings.LastIndex(f.Function, ".")+1:], f.Line))
		}
		if !more || len(out) >= 8 {
			break
		}
	}
	return strings.Join(out, " < ")
}

func c05ReadAll(l *commitLog) ([]vfRec, error) {
	old := l.OldestOffset()
	newest := l.NewestOffset()
	if old == -1 {
		// The first segment is empty.  There may still be later segments
		// (e.g. a half-finished truncation); read from 0 to see them.
		if newest == -1 {
			return nil, nil
		}
		old = 0
	}
	recs, oerr, err := vfReadFrom(l, old, true, 1<<20)
	if err != nil {
		return recs, err
	}
	if oerr != nil {
		return nil, fmt.Errorf("NewReader(%d): %v", old, oerr)
	}
	return recs, nil
}

// c05CheckRecovered applies the property to one recovered image and then
// keeps using the log.  fail(fingerprintSuffix, what).
func c05CheckRecovered(plan c05Plan, img *c05Image, fail func(kind, what string)) (rec c05Recovered, ok bool) {
	l, err := c05Open(plan.opts(img.Dir))
	if err != nil {
		fail("reopen-failed", fmt.Sprintf("commitlog.New on the crash image failed: %v", err))
		return rec, false
	}
	closed := false
	defer func() {
		if !closed {
			l.Close()
		}
	}()
	recs, err := c05ReadAll(l)
	if err != nil {
		fail("read-failed", fmt.Sprintf("reading the recovered log failed: %v", err))
		return rec, false
	}
	rec = c05Recovered{Recs: recs, HW: l.HighWatermark(), Epoch: c05EpochEntries(l)}
	// 1. strictly increasing, no duplicates
	for i := 1; i < len(recs); i++ {
		if recs[i].Off <= recs[i-1].Off {
			fail("duplicate-offset", fmt.Sprintf("recovered log returns offsets %s (not strictly increasing)", offsList(recs)))
			return rec, false
		}
	}
	// 2. no phantom: every message is a Pre message or an in-flight one
	pre := map[int64]vfRec{}
	for _, r := range img.Pre {
		pre[r.Off] = r
	}
	infl := map[int64]vfRec{}
	for _, r := range img.InFlight {
		infl[r.Off] = r
	}
	present := map[int64]bool{}
	nInfl := 0
	for _, r := range recs {
		present[r.Off] = true
		if p, ok := pre[r.Off]; ok && vfSameRec(p, r) {
			continue
		}
		if p, ok := infl[r.Off]; ok && vfSameRec(p, r) {
			nInfl++
			continue
		}
		fail("phantom", fmt.Sprintf("recovered log returns %v which was never appended at that offset", r))
		return rec, false
	}
	// in-flight messages may only appear as a prefix of the batch
	for i, r := range img.InFlight {
		if present[r.Off] && i >= nInfl {
			fail("phantom", fmt.Sprintf("recovered log holds in-flight message %d without its predecessors", r.Off))
			return rec, false
		}
	}
	// 3. nothing completed is lost
	var lost []int64
	for off := range img.Required {
		if !present[off] {
			lost = append(lost, off)
		}
	}
	if len(lost) > 0 {
		sort.Slice(lost, func(i, j int) bool { return lost[i] < lost[j] })
		fail("lost", fmt.Sprintf("messages %v whose append had completed are missing after recovery (present: %s)", lost, offsList(recs)))
		return rec, false
	}
	// 4. NewestOffset / OldestOffset agree with what is readable
	if len(recs) > 0 {
		if got := l.NewestOffset(); got != recs[len(recs)-1].Off && !(got > recs[len(recs)-1].Off && c05HasInt64(img.EndAlt, got)) {
			var segdesc []string
			for _, sg := range l.Segments() {
				segdesc = append(segdesc, fmt.Sprintf("[base=%d first=%d last=%d bytes=%d]", sg.BaseOffset, sg.FirstOffset(), sg.LastOffset(), sg.Position()))
			}
			fail("newest-mismatch", fmt.Sprintf("NewestOffset()=%d but the last readable message is %d (readable: %s; segments after recovery: %s)", got, recs[len(recs)-1].Off, offsList(recs), strings.Join(segdesc, " ")))
			return rec, false
		}
	}
	// 5. HW not above the pre-crash HW
	if rec.HW > img.HW {
		fail("hw-above", fmt.Sprintf("recovered HW %d is above the HW before the crash %d", rec.HW, img.HW))
		return rec, false
	}
	// 6. leader-epoch history matches the messages present
	if what := c05EpochConsistent(rec.Epoch, recs, l.NewestOffset()); what != "" {
		fail(c05EpochKind("epoch-mismatch", rec.Epoch, recs, img.Suspect), what)
		return rec, false
	}
	// ... and the converse: the history claims nothing the messages do not bear out
	if what := c05HistoryBorneOut(l, rec.Epoch, recs, img); what != "" {
		fail(c05EpochKind("epoch-mismatch", rec.Epoch, recs, img.Suspect), what)
		return rec, false
	}

	// ---- keep using the log
	model := append([]vfRec(nil), recs...)
	ep := uint64(1000)
	ts := int64(1 << 40)
	mk := func(off int64, i int) vfRec {
		ts++
		return vfRec{Off: off, TS: ts, Epoch: ep, Key: c05Keys[(i%3)+1], Val: []byte(fmt.Sprintf("post-%d-%d", off, i))}
	}
	appendN := func(n int, phase string) bool {
		base := l.NewestOffset() + 1
		// Stuck-state predicate (evaluated instead of waiting for a hang): if
		// the active segment asks for a roll and the file the roll would
		// create already exists, checkAndPerformSplit retries forever.
		if seg := l.activeSegment(); seg.CheckSplit(l.MaxSegmentAge) &&
			exists(filepath.Join(l.Path, fmt.Sprintf(fileFormat, base, logSuffix))) {
			fail("post-append-livelock", fmt.Sprintf("%s: Append on the recovered log can never finish: the active segment (base %d, position %d >= max %d) must roll, but the segment file for next offset %d already exists, so the roll is retried forever",
				phase, seg.BaseOffset, seg.Position(), l.MaxSegmentBytes, base))
			return false
		}
		msgs := make([]*Message, n)
		rs := make([]vfRec, n)
		for i := range msgs {
			rs[i] = mk(base+int64(i), i)
			msgs[i] = rs[i].msg()
		}
		offs, err := l.Append(msgs)
		if err != nil {
			fail("post-append-error", fmt.Sprintf("%s: Append on the recovered log failed: %v", phase, err))
			return false
		}
		if len(model) > 0 && offs[0] <= model[len(model)-1].Off {
			fail("post-duplicate", fmt.Sprintf("%s: Append on the recovered log assigned offset %d although offset %d is already readable", phase, offs[0], model[len(model)-1].Off))
			return false
		}
		for i := range rs {
			rs[i].Off = offs[i]
		}
		model = append(model, rs...)
		return true
	}
	verify := func(phase string, mustAll bool, must map[int64]bool) bool {
		got, err := c05ReadAll(l)
		if err != nil {
			fail("post-read-failed", fmt.Sprintf("%s: %v", phase, err))
			return false
		}
		for i := 1; i < len(got); i++ {
			if got[i].Off <= got[i-1].Off {
				fail("post-duplicate", fmt.Sprintf("%s: the log returns offsets %s", phase, offsList(got)))
				return false
			}
		}
		want := map[int64]vfRec{}
		for _, r := range model {
			want[r.Off] = r
		}
		seen := map[int64]bool{}
		for _, r := range got {
			w, ok := want[r.Off]
			if !ok || !vfSameRec(w, r) {
				fail("post-phantom", fmt.Sprintf("%s: the log returns %v, expected content at that offset: %v (known=%v)", phase, r, w, ok))
				return false
			}
			seen[r.Off] = true
		}
		for _, r := range model {
			if (mustAll || must[r.Off]) && !seen[r.Off] {
				fail("post-lost", fmt.Sprintf("%s: message %d is missing (readable: %s)", phase, r.Off, offsList(got)))
				return false
			}
		}
		model = got
		return true
	}
	// A: append (new epoch), force rolls
	if !appendN(3, "A") || !appendN(2, "A") {
		return rec, false
	}
	if !verify("after-append", true, nil) {
		return rec, false
	}
	// B: truncate inside what was appended after recovery (above any HW)
	if len(model) >= 2 {
		toff := model[len(model)-2].Off
		if toff > l.HighWatermark() {
			if err := l.Truncate(toff); err != nil {
				fail("post-truncate-error", fmt.Sprintf("Truncate(%d) on the recovered log failed: %v", toff, err))
				return rec, false
			}
			var m2 []vfRec
			for _, r := range model {
				if r.Off < toff {
					m2 = append(m2, r)
				}
			}
			model = m2
			if !verify("after-truncate", true, nil) {
				return rec, false
			}
		}
	}
	if !appendN(4, "B") {
		return rec, false
	}
	// B2: the recovered log as a follower catching up across two leader changes:
	// one replicated set whose messages carry three successive leader epochs
	{
		base := l.NewestOffset() + 1
		msgs := make([]*Message, 4)
		rs := make([]vfRec, 4)
		for i := range msgs {
			if i == 1 || i == 3 {
				ep++
			}
			rs[i] = mk(base+int64(i), i)
			msgs[i] = rs[i].msg()
		}
		ms, _, merr := newMessageSetFromProto(base, 0, msgs, false)
		if merr != nil {
			fail("post-append-error", fmt.Sprintf("B2: encoding a message set failed: %v", merr))
			return rec, false
		}
		offs, err := l.AppendMessageSet(ms)
		if err != nil || len(offs) != len(rs) || offs[0] != base {
			fail("post-append-error", fmt.Sprintf("B2: AppendMessageSet on the recovered log returned %v, %v (expected 4 offsets from %d)", offs, err, base))
			return rec, false
		}
		model = append(model, rs...)
		if !verify("after-replicated-set", true, nil) {
			return rec, false
		}
	}
	// C: clean (retention / compaction as configured)
	if plan.Compact || plan.RetMsgs > 0 || plan.RetBytes > 0 {
		ex := &c05Exec{plan: plan, log: l, model: model, hw: l.HighWatermark()}
		must := ex.mustSurviveClean()
		if err := l.Clean(); err != nil {
			fail("post-clean-error", fmt.Sprintf("Clean on the recovered log failed: %v", err))
			return rec, false
		}
		if !verify("after-clean", false, must) {
			return rec, false
		}
		if !appendN(2, "C") || !verify("after-clean-append", true, nil) {
			return rec, false
		}
	}
	// D: close, reopen, same content
	if err := l.Close(); err != nil {
		fail("post-close-error", fmt.Sprintf("Close of the recovered log failed: %v", err))
		closed = true
		return rec, false
	}
	closed = true
	l2, err := c05Open(plan.opts(img.Dir))
	if err != nil {
		fail("post-reopen-failed", fmt.Sprintf("second reopen failed: %v", err))
		return rec, false
	}
	l = l2
	closed = false
	if !verify("after-second-reopen", true, nil) {
		return rec, false
	}
	// the epoch history written while the recovered log was used (no election
	// happened in that phase: the newest epoch is the newest message's) must
	// again match the messages
	ent2 := c05EpochEntries(l)
	if what := c05EpochConsistent(ent2, model, l.NewestOffset()); what != "" {
		fail(c05EpochKind("post-epoch-mismatch", ent2, model, img.Suspect), "after-second-reopen: "+what)
		return rec, false
	}
	if what := c05EpochQueries(l, ent2, model, nil); what != "" {
		fail(c05EpochKind("post-epoch-mismatch", ent2, model, img.Suspect), "after-second-reopen: "+what)
		return rec, false
	}
	return rec, true
}

// c05CheckGuarded runs the oracle under a watchdog: a recovered log that makes
// an operation spin or block is reported as inconclusive (the precise
// stuck-state predicates inside the oracle report the known shapes as
// violations before they can hang).
func c05CheckGuarded(rep *kit.Report, plan c05Plan, img *c05Image, fail func(kind, what string)) (rec c05Recovered, ok bool) {
	type res struct {
		rec c05Recovered
		ok  bool
	}
	ch := make(chan res, 1)
	go func() {
		r, ok := c05CheckRecovered(plan, img, fail)
		ch <- res{r, ok}
	}()
	select {
	case r := <-ch:
		return r.rec, r.ok
	case <-time.After(90 * time.Second):
		rep.Inconc(fmt.Sprintf("watchdog: checking the image %s#%d of plan %d did not finish", img.Point, img.Occ, plan.ID))
		return rec, false
	}
}

// c05EpochKind classifies an epoch mismatch: when a message of the recovered
// log carries a suspect epoch (see c05Exec.suspect) that the history does not
// know, or places after that message, the mismatch is (or may be a knock-on
// effect of) the known loss of epochs introduced during a compaction pass.
func c05EpochKind(kind string, entries []epochOffset, recs []vfRec, suspect map[uint64]bool) string {
	for _, m := range recs {
		if !suspect[m.Epoch] || (len(entries) > 0 && m.Epoch < entries[0].leaderEpoch) {
			continue
		}
		var have *epochOffset
		for i := range entries {
			if entries[i].leaderEpoch == m.Epoch {
				have = &entries[i]
			}
		}
		if have == nil || have.startOffset > m.Off {
			return "epoch-behind-compaction-lost"
		}
	}
	return kind
}

// c05EpochConsistent checks the leader-epoch cache against the messages
// present.  Both conventions the code uses for an entry are accepted: the
// election-style entry (epoch, newest offset at election time) and the
// append-style entry (epoch, first offset carrying that epoch).
func c05EpochConsistent(entries []epochOffset, recs []vfRec, newest int64) string {
	for i := 1; i < len(entries); i++ {
		if entries[i].leaderEpoch <= entries[i-1].leaderEpoch {
			return fmt.Sprintf("leader epochs not strictly increasing: %v", entries)
		}
		if entries[i].startOffset < entries[i-1].startOffset {
			return fmt.Sprintf("epoch start offsets decrease: %v", entries)
		}
	}
	for _, e := range entries {
		if e.startOffset > newest+1 || (e.startOffset > newest && newest >= 0 && len(recs) > 0 && e.startOffset > recs[len(recs)-1].Off+1) {
			return fmt.Sprintf("epoch entry %d@%d lies beyond the log end %d", e.leaderEpoch, e.startOffset, newest)
		}
	}
	for _, m := range recs {
		var have *epochOffset
		for i := range entries {
			if entries[i].leaderEpoch == m.Epoch {
				have = &entries[i]
			}
		}
		if have == nil {
			// An epoch whose first messages were removed by retention or
			// compaction is represented by an earlier/rewritten entry only if
			// it is the earliest; otherwise every message epoch must be known.
			if len(entries) > 0 && m.Epoch < entries[0].leaderEpoch {
				continue
			}
			return fmt.Sprintf("message %d carries leader epoch %d which the recovered epoch history %v does not know", m.Off, m.Epoch, entries)
		}
		if have.startOffset > m.Off {
			return fmt.Sprintf("message %d carries leader epoch %d but the history says that epoch starts at %d", m.Off, m.Epoch, have.startOffset)
		}
		for _, e := range entries {
			if e.leaderEpoch > m.Epoch && m.Off > e.startOffset {
				return fmt.Sprintf("message %d carries leader epoch %d but epoch %d already starts at %d", m.Off, m.Epoch, e.leaderEpoch, e.startOffset)
			}
		}
	}
	return ""
}

// c05HistoryBorneOut is the converse of c05EpochConsistent: every claim of the
// recovered leader-epoch history is borne out by the messages present.
//
//   - no entry starts beyond the newest offset (recovery trims the checkpoint to
//     the log: an epoch whose first append never reached the log is forgotten);
//   - an entry (e, s) is either append-style (the message at s carries e),
//     election-style (e was announced with NewLeaderEpoch when s was the newest
//     offset: the message at s carries an older epoch) or empty by the history's
//     own account (the next entry starts at s too); an entry whose epoch no
//     message carries is legitimate only for an announced epoch, or while a clean
//     that was removing that epoch's messages was in flight;
//   - LastLeaderEpoch() is the epoch of the newest message unless a later epoch
//     was announced;
//   - LastOffsetForLeaderEpoch(e), which followers truncate to, lies between the
//     last message of epochs <= e and the first message of a later epoch (the
//     newest offset when there is none), for every epoch e that occurs.
func c05HistoryBorneOut(l *commitLog, entries []epochOffset, recs []vfRec, img *c05Image) string {
	newest := l.NewestOffset()
	for _, e := range entries {
		if e.startOffset > newest {
			return fmt.Sprintf("the recovered epoch history %v says leader epoch %d starts at offset %d, but the newest offset of the recovered log is %d: the history is ahead of the log", entries, e.leaderEpoch, e.startOffset, newest)
		}
	}
	if len(recs) == 0 {
		return ""
	}
	at := map[int64]vfRec{}
	carried := map[uint64]bool{}
	for _, r := range recs {
		at[r.Off] = r
		carried[r.Epoch] = true
	}
	preHas := map[uint64]bool{}
	for _, r := range img.Pre {
		preHas[r.Epoch] = true
	}
	for i, e := range entries {
		// An entry followed by another one with the same start offset is an
		// epoch that is empty by the history's own account (e.g. an election on
		// an empty log, moved to the log start by ClearEarliest, followed by the
		// first append of a later epoch): the message at that offset belongs to
		// the later entry.
		emptyByHistory := i+1 < len(entries) && entries[i+1].startOffset == e.startOffset
		if m, ok := at[e.startOffset]; ok && m.Epoch != e.leaderEpoch && !emptyByHistory {
			if !(img.Elected[e.leaderEpoch] && m.Epoch < e.leaderEpoch) {
				return fmt.Sprintf("the recovered epoch history %v says leader epoch %d starts at offset %d, but the message at that offset carries leader epoch %d (announced by an election: %v)", entries, e.leaderEpoch, e.startOffset, m.Epoch, img.Elected[e.leaderEpoch])
			}
		}
		if !carried[e.leaderEpoch] && !img.Elected[e.leaderEpoch] && !(img.OpKind == "C" && preHas[e.leaderEpoch]) {
			return fmt.Sprintf("the recovered epoch history %v knows leader epoch %d (from offset %d) but no message of the recovered log (%s) carries it and it was never announced by an election", entries, e.leaderEpoch, e.startOffset, offsList(recs))
		}
	}
	return c05EpochQueries(l, entries, recs, img.Elected)
}

// c05EpochQueries: what the log answers to the two questions replication asks
// (LastLeaderEpoch, LastOffsetForLeaderEpoch) agrees with the messages present.
func c05EpochQueries(l *commitLog, entries []epochOffset, recs []vfRec, elected map[uint64]bool) string {
	if len(recs) == 0 {
		return ""
	}
	newest := l.NewestOffset()
	lastMsg := recs[len(recs)-1]
	if le := l.LastLeaderEpoch(); le != lastMsg.Epoch && !(le > lastMsg.Epoch && elected[le]) {
		return fmt.Sprintf("LastLeaderEpoch() = %d after recovery, but the newest message (offset %d) carries leader epoch %d and epoch %d was never announced by an election (history %v)", le, lastMsg.Off, lastMsg.Epoch, le, entries)
	}
	seen := map[uint64]bool{}
	for _, r := range recs {
		if seen[r.Epoch] {
			continue
		}
		seen[r.Epoch] = true
		if len(entries) > 0 && r.Epoch < entries[0].leaderEpoch {
			continue // older than the history (retention collapsed it)
		}
		lo, hi := int64(-1), newest
		for _, x := range recs {
			if x.Epoch <= r.Epoch {
				lo = x.Off
			} else {
				hi = x.Off
				break
			}
		}
		if got := l.LastOffsetForLeaderEpoch(r.Epoch); got < lo || got > hi {
			return fmt.Sprintf("LastOffsetForLeaderEpoch(%d) = %d after recovery, but the last message of an epoch <= %d is at offset %d and the first message of a later epoch (or the log end) is at %d (history %v)", r.Epoch, got, r.Epoch, lo, hi, entries)
		}
	}
	return ""
}

// ---------------------------------------------------------------- units

func c05Plans() []c05Plan {
	root := kit.NewRNG(kit.Mix(kit.Seed(), 0xC05))
	n := kit.Scale(14, 160)
	plans := make([]c05Plan, n)
	for i := range plans {
		plans[i] = c05MakePlan(i, root.Fork(uint64(i)))
	}
	// Two fixed-shape plans make sure the rarer crash points are reached by
	// every case list: compaction that empties whole one-message segments
	// (HW at the end), and retention combined with compaction.
	cov := func(id int, retMsgs int64) c05Plan {
		p := c05Plan{ID: id, Seed: root.Uint64(), MaxSeg: 90, Compact: true, RetMsgs: retMsgs}
		for k := 0; k < 9; k++ {
			p.Ops = append(p.Ops, c05Op{Kind: "A", N: 1 + k%2, Bump: k == 4})
		}
		p.Ops = append(p.Ops, c05Op{Kind: "H", Frac: 1000}, c05Op{Kind: "K"}, c05Op{Kind: "C"},
			c05Op{Kind: "A", N: 2}, c05Op{Kind: "A", N: 1}, c05Op{Kind: "H", Frac: 1000}, c05Op{Kind: "C"},
			c05Op{Kind: "T", Frac: 900}, c05Op{Kind: "A", N: 2}, c05Op{Kind: "K"})
		return p
	}
	plans[0] = cov(0, 0)
	plans[1] = cov(1, 9)
	// Two more fixed-shape plans reach the truncation position classes in every
	// case list: exactly at the first offset of the latest leader epoch (an
	// epoch first seen on an appended message, on a replicated message set, and
	// right after an election), exactly at the newest offset, exactly at a
	// segment base; the truncated epoch is then seen again on the next append.
	trunc := func(id int, seg int64) c05Plan {
		p := c05Plan{ID: id, Seed: root.Uint64(), MaxSeg: seg}
		p.Ops = []c05Op{{Kind: "A", N: 2}, {Kind: "A", N: 2}, {Kind: "H", Frac: 300}, {Kind: "K"},
			{Kind: "A", N: 1, Bump: true}, {Kind: "A", N: 2},
			{Kind: "T", Mode: "epochstart", Frac: 1000},
			{Kind: "A", N: 2}, {Kind: "M", N: 2, Bump: true}, {Kind: "A", N: 1},
			{Kind: "T", Mode: "last", Frac: 1000},
			{Kind: "T", Mode: "epochstart", Frac: 1000},
			{Kind: "E"}, {Kind: "A", N: 2}, {Kind: "A", N: 1},
			{Kind: "T", Mode: "epochstart", Frac: 1000},
			{Kind: "A", N: 2}, {Kind: "A", N: 1},
			{Kind: "T", Mode: "segbase", Frac: 1000},
			{Kind: "A", N: 1, Bump: true},
			{Kind: "T", Mode: "last", Frac: 1000},
			{Kind: "A", N: 2}, {Kind: "K"}}
		return p
	}
	if n > 3 {
		plans[2] = trunc(2, 160)
		if kit.Thorough() {
			plans[3] = trunc(3, 90)
		}
	}
	plans = append(plans, c05InterPlans(len(plans), root)...)
	// family "below" (unit belowhw, c05_belowhw_test.go): truncations AT OR BELOW
	// the high watermark with an HW checkpoint before them
	plans = append(plans, c05BelowPlans(len(plans), root)...)
	// replay / debugging: restrict to plans whose text contains C05_ONLY_PLAN
	if only := os.Getenv("C05_ONLY_PLAN"); only != "" {
		var sel []c05Plan
		for _, p := range plans {
			if strings.Contains(p.String(), only) {
				sel = append(sel, p)
			}
		}
		return sel
	}
	return plans
}

// c05RandInterOps draws the operations interleaved at one hit.
func c05RandInterOps(rng *kit.RNG) []c05Op {
	var ops []c05Op
	n := rng.Range(1, 4)
	for i := 0; i < n; i++ {
		switch x := rng.Intn(100); {
		case x < 45:
			ops = append(ops, c05Op{Kind: "A", N: rng.Range(1, 3), Bump: rng.Chance(1, 3)})
		case x < 60:
			op := c05Op{Kind: "M", N: rng.Range(2, 4), Bump: rng.Chance(1, 4)}
			if rng.Bool() {
				op.BumpAt = c05RandBumps(rng, op.N)
			}
			ops = append(ops, op)
		case x < 75:
			ops = append(ops, c05Op{Kind: "H", Frac: rng.Intn(1001)})
		case x < 85:
			ops = append(ops, c05Op{Kind: "E"})
		case x < 93:
			ops = append(ops, c05Op{Kind: "K"})
		default:
			ops = append(ops, c05Op{Kind: "S"})
		}
	}
	return ops
}

var c05InterPointList = []string{"clean.afterDeleteSeg", "segdelete.afterLogRemove", "newseg.afterLogCreate", "seg.write.afterLog",
	"compact.afterCreateCleaned", "compact.afterWriteCleaned", "compact.afterSegment", "replace.afterClose", "replace.betweenRenames",
	"replace.afterRenames", "clean.afterCleanSegments"}

func c05RandInter(rng *kit.RNG) []c05Inter {
	var out []c05Inter
	n := rng.Range(1, 2)
	for i := 0; i < n; i++ {
		in := c05Inter{Ops: c05RandInterOps(rng)}
		if rng.Bool() {
			in.Occ = rng.Range(1, 12) // k-th hit of any point of the pass
		} else {
			in.Point = c05InterPointList[rng.Intn(len(c05InterPointList))]
			in.Occ = rng.Range(1, 3)
		}
		out = append(out, in)
	}
	return out
}

// c05CatchUp is what a follower appends while catching up across leader
// changes: a stream of n messages with epoch boundaries at seeded positions,
// cut into replicated sets at seeded points (fetch responses are cut by size,
// not at epoch boundaries).
func c05CatchUp(rng *kit.RNG) []c05Op {
	n := rng.Range(4, 9)
	bound := map[int]bool{}
	for k := rng.Range(1, 3); k > 0; k-- {
		bound[rng.Intn(n)] = true
	}
	var ops []c05Op
	for a := 0; a < n; {
		b := a + rng.Range(1, 4)
		if b > n {
			b = n
		}
		op := c05Op{Kind: "M", N: b - a}
		for pos := a; pos < b; pos++ {
			if bound[pos] {
				op.BumpAt = append(op.BumpAt, pos-a)
			}
		}
		ops = append(ops, op)
		a = b
	}
	return ops
}

func c05MakeInterPlan(id int, rng *kit.RNG) c05Plan {
	p := c05Plan{ID: id, Seed: rng.Uint64(), Family: "inter"}
	p.MaxSeg = []int64{90, 160, 300}[rng.Intn(3)]
	switch rng.Intn(5) {
	case 0, 1:
		p.Compact = true
	case 2:
		p.Compact = true
		p.RetMsgs = int64(rng.Range(8, 16))
	case 3:
		p.RetMsgs = int64(rng.Range(5, 10))
	default:
		p.RetBytes = int64(rng.Range(250, 700))
		if rng.Bool() {
			p.RetMsgs = int64(rng.Range(8, 14))
		}
	}
	for k := rng.Range(5, 8); k > 0; k-- {
		p.Ops = append(p.Ops, c05Op{Kind: "A", N: rng.Range(1, 3), Bump: rng.Chance(1, 5)})
	}
	p.Ops = append(p.Ops, c05Op{Kind: "H", Frac: rng.Range(600, 1000)})
	if rng.Bool() {
		p.Ops = append(p.Ops, c05Op{Kind: "K"})
	}
	for r := rng.Range(2, 3); r > 0; r-- {
		p.Ops = append(p.Ops, c05Op{Kind: "C", Inter: c05RandInter(rng)})
		if rng.Bool() {
			p.Ops = append(p.Ops, c05CatchUp(rng)...)
		} else {
			p.Ops = append(p.Ops, c05Op{Kind: "A", N: rng.Range(1, 3), Bump: rng.Chance(1, 3)}, c05Op{Kind: "A", N: rng.Range(1, 3)})
		}
		switch rng.Intn(4) {
		case 0:
			p.Ops = append(p.Ops, c05Op{Kind: "E"})
		case 1:
			p.Ops = append(p.Ops, c05Op{Kind: "T", Frac: rng.Intn(1100), Mode: []string{"", "epochstart", "last"}[rng.Intn(3)]})
		}
		p.Ops = append(p.Ops, c05Op{Kind: "H", Frac: rng.Range(500, 1000)})
	}
	p.Ops = append(p.Ops, c05Op{Kind: "A", N: 2}, c05Op{Kind: "C", Inter: c05RandInter(rng)}, c05Op{Kind: "A", N: 2}, c05Op{Kind: "T", Frac: 800}, c05Op{Kind: "K"})
	return p
}

// c05InterPlans: the workloads of unit interleave (also sampled by the kill
// and syscallkill units).  Fixed-shape plans reach every class in every case
// list; seeded ones vary the positions.
func c05InterPlans(firstID int, root *kit.RNG) []c05Plan {
	A := func(n int, bump bool) c05Op { return c05Op{Kind: "A", N: n, Bump: bump} }
	M := func(n int, bump bool, at ...int) c05Op { return c05Op{Kind: "M", N: n, Bump: bump, BumpAt: at} }
	H := func(f int) c05Op { return c05Op{Kind: "H", Frac: f} }
	K, E, S := c05Op{Kind: "K"}, c05Op{Kind: "E"}, c05Op{Kind: "S"}
	C := func(in ...c05Inter) c05Op { return c05Op{Kind: "C", Inter: in} }
	at := func(pt string, occ int, ops ...c05Op) c05Inter { return c05Inter{Point: pt, Occ: occ, Ops: ops} }
	build := func(n, bumpAt int) []c05Op {
		var ops []c05Op
		for k := 0; k < n; k++ {
			ops = append(ops, A(1+k%2, k == bumpAt))
		}
		return ops
	}
	var plans []c05Plan
	add := func(p c05Plan) {
		p.ID = firstID + len(plans)
		p.Seed = root.Uint64()
		p.Family = "inter"
		plans = append(plans, p)
	}
	// compaction; appends (rolling, new epoch), a spanning replicated set, an
	// HW move, an election, a checkpoint and an explicit split while cleaned
	// segments are being written / swapped in / between segments / after the
	// last one
	add(c05Plan{MaxSeg: 90, Compact: true, Ops: append(build(6, 2), H(1000), K,
		C(at("compact.afterCreateCleaned", 1, A(1, true), A(2, false)),
			at("compact.afterSegment", 2, M(3, false, 1), H(1000), E),
			at("replace.betweenRenames", 1, A(1, false)),
			at("clean.afterCleanSegments", 1, A(2, false), K)),
		A(2, false), H(1000),
		C(at("compact.afterWriteCleaned", 1, A(1, true), M(2, false, 1)),
			at("compact.afterSegment", 1, S, A(1, true))),
		A(1, false), c05Op{Kind: "T", Frac: 900}, A(2, false), K)})
	// compaction + retention; larger segments (interleaved appends that do not roll)
	add(c05Plan{MaxSeg: 300, Compact: true, RetMsgs: 10, Ops: append(build(10, 4), H(900), K,
		C(at("clean.afterDeleteSeg", 1, A(2, true), H(1000)),
			at("segdelete.afterLogRemove", 1, A(1, false)),
			at("", 5, M(3, true, 2)),
			at("compact.afterSegment", 1, A(3, true), A(3, false), A(3, true))),
		A(2, false), K, C(at("replace.afterClose", 1, E, A(2, false)), at("replace.afterRenames", 1, M(4, false, 1, 3))),
		A(2, false), c05Op{Kind: "T", Frac: 800}, K)})
	// retention only
	add(c05Plan{MaxSeg: 90, RetMsgs: 6, Ops: append(build(8, 2),
		C(at("clean.afterDeleteSeg", 1, A(1, true), A(1, false)),
			at("segdelete.afterLogRemove", 2, E, A(2, false)),
			at("clean.afterCleanSegments", 1, A(1, true))),
		A(2, false), H(700),
		C(at("", 2, M(4, false, 1, 3), H(500), K)),
		A(1, false), c05Op{Kind: "T", Frac: 800}, K)})
	// catch-up streams: a boundary at every position of a set, two boundaries,
	// the first message starting an epoch, followed by truncations at the epoch
	// starts that the sets introduced
	add(c05Plan{MaxSeg: 160, Ops: []c05Op{A(2, false), M(4, false, 1), M(4, false, 2), M(4, false, 3), H(400), K,
		M(4, true), M(4, false, 1, 3), M(4, false, 0, 2), M(3, true, 1), M(2, false, 1),
		{Kind: "T", Mode: "epochstart", Frac: 1000}, M(3, false, 2), {Kind: "T", Mode: "last", Frac: 1000},
		M(5, false, 1, 4), E, M(3, false, 1), {Kind: "T", Mode: "epochstart", Frac: 1000}, A(2, false), K}})
	add(c05Plan{MaxSeg: 90, Compact: true, Ops: []c05Op{A(2, false), M(3, false, 1), M(3, false, 2), M(2, true), M(4, false, 1, 2), H(1000), K,
		C(), M(3, false, 1), M(2, false, 1), H(1000), C(at("compact.afterSegment", 1, M(3, false, 1, 2))), A(1, false), {Kind: "T", Frac: 900}, K}})
	// leader epochs introduced while a COMPACTING pass runs, in the two ways the
	// pass does not see by itself (c05Exec.suspect): an election at a moment
	// when the active segment is full, so that the first message of the new
	// epoch opens a segment rolled during the pass (A3 before the pass fills the
	// segment; E, then A1 rolls); and appends with new epochs after the compaction has read the
	// newest segment (of two one-message appends at most one rolls)
	add(c05Plan{MaxSeg: 90, Compact: true, Ops: append(build(6, 2), A(3, false), H(1000), K,
		C(at("compact.afterSegment", 1, E, A(1, false))), A(2, false), K)})
	add(c05Plan{MaxSeg: 700, Compact: true, Ops: append(build(14, 3), H(1000),
		C(at("clean.afterCleanSegments", 1, A(1, true), A(1, true))), A(2, false), K)})
	n := kit.Scale(4, 70)
	for i := 0; i < n; i++ {
		p := c05MakeInterPlan(0, root.Fork(uint64(0x1000+i)))
		seed := p.Seed
		add(p)
		plans[len(plans)-1].Seed = seed
	}
	return plans
}

var c05AllPoints = []string{
	"seg.write.afterLog", "append.beforeWrite", "append.afterWrite", "newseg.afterLogCreate", "split.afterCreate", "split.afterCAS", "split.beforeSeal",
	"truncate.afterDeleteSeg", "truncate.beforeReplace", "truncate.beforeClearLatest", "replace.afterClose", "replace.betweenRenames",
	"replace.afterRenames", "segdelete.afterLogRemove", "clean.afterDeleteSeg", "clean.afterCleanSegments", "compact.afterCreateCleaned",
	"compact.afterWriteCleaned", "compact.emptyAfterDeleteNew", "compact.afterSegment", "hw.beforeCheckpoint", "hw.afterCheckpoint",
	"epoch.beforeFlush", "epoch.afterFlush",
}

// TestVerifC05Snapshot: every (point, occurrence) crash image of every plan.
func TestVerifC05Snapshot(t *testing.T) {
	rep := kit.NewReport("C05", "snapshot")
	defer rep.Write()
	rep.SetRule("fault enumeration: for each seeded workload (Append and AppendMessageSet with epoch bumps - replicated sets also spanning one or two leader-epoch boundaries -, explicit splits, truncations > HW at seeded positions and exactly at a segment base / the first offset of the latest leader epoch / the newest offset, HW moves + checkpoints, NewLeaderEpoch, Clean with retention and/or compaction; 4 segment sizes) EVERY hit of EVERY crash point yields one crash image (directory copy under the process-crash model); each image is recovered with commitlog.New, checked (no duplicate / phantom / lost completed message, NewestOffset consistent, HW not above pre-crash HW, epoch history matches messages in both directions: every message epoch known to the history, and no history entry beyond the newest offset / starting at a message of another epoch / for an epoch nobody announced and no message carries, LastLeaderEpoch and LastOffsetForLeaderEpoch agreeing with the messages) and then used further (append+roll, truncate, a replicated set spanning three leader epochs, clean, close+reopen, after which the epoch history must again match the messages); distinct non-trivial = distinct (plan, point, occurrence) images whose in-flight operation is not a pure no-op")
	rep.SetExhaustive(true)
	rep.Assume("process-crash model: the OS keeps completed write/rename/unlink/ftruncate effects and dirty MAP_SHARED pages; power loss / missing fsync is not covered")
	rep.Assume("crash instants are the hook points between file-system effects; crash instants between file-system calls that no hook point marks (e.g. inside the third-party atomic file writer) are the subject of unit syscallkill")
	rep.Assume("compaction keys are nil or non-empty (empty-key handling is judged by C08)")
	pointHits, truncHits, _ := c05RunSnapshot(rep, c05FamilyPlans(""))
	for _, p := range c05AllPoints {
		rep.Count("images@"+p, int64(pointHits[p]))
		if pointHits[p] == 0 {
			rep.Inconc("crash point never reached by this case list: " + p)
		}
	}
	rep.Count("images@idle.afterOp", int64(pointHits["idle.afterOp"]))
	for _, c := range []string{"at-segment-base", "at-newest-offset", "at-first-offset-of-latest-epoch", "at-first-offset-of-an-earlier-epoch", "everything"} {
		rep.Count("truncate@"+c, int64(truncHits[c]))
	}
	for _, c := range []string{"at-segment-base", "at-newest-offset", "at-first-offset-of-latest-epoch"} {
		if truncHits[c] == 0 {
			rep.Inconc("truncation position class never produced by this case list: " + c)
		}
	}
}

func c05FamilyPlans(family string) []c05Plan {
	var out []c05Plan
	for _, p := range c05Plans() {
		if p.Family == family {
			out = append(out, p)
		}
	}
	return out
}

func c05ImageFingerprint(kind string, img *c05Image) string {
	return "C05:" + kind + ":" + img.Point
}

// c05RunSnapshot: every (point, occurrence) crash image of every given plan.
func c05RunSnapshot(rep *kit.Report, plans []c05Plan) (pointHits, truncHits, stats map[string]int) {
	verifhook.Set(c05Dispatch)
	defer verifhook.Set(nil)
	imgRoot := vfTempDir("c05img")
	defer os.RemoveAll(imgRoot)
	var mu sync.Mutex
	pointHits = map[string]int{}
	truncHits = map[string]int{}
	stats = map[string]int{}
	checked := 0
	// Plans are executed by a few producers; their crash images are judged by a
	// pool of workers (images, not plans, are the unit of work: plans differ a
	// lot in how many images they yield).  The channel bounds the images waiting.
	type job struct {
		plan c05Plan
		img  *c05Image
	}
	jobs := make(chan job, 32)
	var wg sync.WaitGroup
	for w := 0; w < kit.Workers(); w++ {
		wg.Add(1)
		go func() {
			defer wg.Done()
			for j := range jobs {
				plan, img := j.plan, j.img
				_, _ = c05CheckGuarded(rep, plan, img, func(kind, what string) {
					rep.Violation(c05ImageFingerprint(kind, img), what, map[string]any{"plan": plan.String(), "plan_seed": plan.Seed, "point": img.Point,
						"occurrence": img.Occ, "op_index": img.OpIndex, "op": img.OpKind, "hw_at_crash": img.HW, "pre": offsList(img.Pre), "inflight": offsList(img.InFlight)})
				})
				rep.Eval()
				rep.Nontrivial(fmt.Sprintf("%d/%s/%d", plan.ID, img.Point, img.Occ))
				mu.Lock()
				pointHits[img.Point]++
				checked++
				mu.Unlock()
				os.RemoveAll(img.Dir)
			}
		}()
	}
	kit.Parallel(len(plans), 3, func(i int) {
		plan := plans[i]
		dir := vfTempDir("c05w")
		defer os.RemoveAll(dir)
		ex := &c05Exec{plan: plan, dir: dir, imageDir: imgRoot, seekCopy: true, truncClasses: map[string]int{}, stats: map[string]int{}}
		ex.interOnly = plan.Family == "inter"
		ex.run(func(fp, what string) {
			rep.Violation(fp, what, map[string]any{"plan": plan.String(), "seed": plan.Seed})
		})
		mu.Lock()
		for k, v := range ex.truncClasses {
			truncHits[k] += v
		}
		for k, v := range ex.stats {
			stats[k] += v
		}
		mu.Unlock()
		if ex.copyErr != nil {
			rep.Inconc(fmt.Sprintf("plan %d: image copy failed: %v", plan.ID, ex.copyErr))
		}
		if i < 2 {
			rep.Sample(map[string]any{"plan": plan.String(), "crash_images": len(ex.images)})
		}
		for _, img := range ex.images {
			jobs <- job{plan, img}
		}
	})
	close(jobs)
	wg.Wait()
	for _, k := range kit.SortedKeys(stats) {
		rep.Count(k, int64(stats[k]))
	}
	rep.SetInfo("plans", len(plans))
	rep.SetInfo("images_checked", checked)
	return pointHits, truncHits, stats
}

// TestVerifC05Interleave: every (point, occurrence) crash image of the
// workloads in which other operations run WHILE a cleaner pass is in progress,
// and of catch-up streams (replicated sets spanning leader-epoch boundaries).
func TestVerifC05Interleave(t *testing.T) {
	rep := kit.NewReport("C05", "interleave")
	defer rep.Write()
	rep.SetRule("fault enumeration as in unit snapshot, over workloads of two further classes: (1) operations INTERLEAVED with a cleaner pass - at the k-th hit (within the pass) of a hook point inside Clean (after a segment was deleted by retention, after a cleaned segment was created / written / swapped in by its two renames, between segments, after the last segment; all outside the log mutex) the pass is held and appends (rolling and non-rolling, with and without a new leader epoch), replicated sets, an HW move, a checkpoint, an election or an explicit split run on the same log, then the pass finishes; crash images are taken at every hook hit of the pass AND of the interleaved operations, plus one between operations after the pass; the must-survive set is what both the old and the new HW allow compaction to keep, retention is evaluated on the segment list the pass started with, everything appended during the pass must survive; (2) catch-up streams - AppendMessageSet of sets that span leader-epoch boundaries (boundary at every position, two boundaries in one set, first message starting an epoch, stream cut into sets at seeded points); distinct non-trivial = distinct (plan, point, occurrence) images")
	rep.SetExhaustive(true)
	rep.Assume("process-crash model as in unit snapshot")
	rep.Assume("interleaved operations run on the cleaner's goroutine inside the hook handler: a legal schedule of two goroutines (cleaner pre-empted at the hook point), made deterministic; they touch only the active segment, the log mutex and the epoch cache, none of which Clean holds at those points")
	pointHits, _, stats := c05RunSnapshot(rep, c05FamilyPlans("inter"))
	for _, p := range kit.SortedKeys(pointHits) {
		rep.Count("images@"+p, int64(pointHits[p]))
	}
	for _, c := range []string{"cleaner-passes-interleaved", "interleaved-append", "interleaved-append-rolled", "interleaved-append-new-epoch",
		"interleaved-new-epoch-starts-in-rolled-segment", "interleaved-hw-move", "interleaved-election", "replicated-set-spanning-epochs",
		"replicated-set-spanning-two-boundaries", "replicated-set-spanning-epochs-and-starting-one"} {
		if stats[c] == 0 {
			rep.Inconc("class never produced by this case list: " + c)
		}
	}
}

// TestVerifC05KillChild is the child of kill mode: runs one plan and kills
// itself at C05_KILL=point:occ.
func TestVerifC05KillChild(t *testing.T) {
	spec := os.Getenv("C05_KILL")
	if spec == "" {
		t.Skip("child only")
	}
	idx, _ := strconv.Atoi(os.Getenv("C05_PLAN"))
	plans := c05Plans()
	verifhook.Set(c05Dispatch)
	ex := &c05Exec{plan: plans[idx], dir: os.Getenv("C05_DIR"), killAt: spec}
	ex.run(func(fp, what string) { fmt.Println("child workload failure:", fp, what) })
	fmt.Println("child finished without reaching", spec)
	os.Exit(3)
}

// TestVerifC05Kill validates snapshot mode against real process kills.
func TestVerifC05Kill(t *testing.T) {
	rep := kit.NewReport("C05", "kill")
	defer rep.Write()
	rep.SetRule("validation of the snapshot shortcut: for seeded (plan, point, occurrence) triples a child process runs the workload and SIGKILLs itself at that hit; the recovered content / HW / epoch history of its directory must equal that of the snapshot image of the same triple, and the same oracle is applied; workloads: the first base plans, the first plans of the interleave family and the first of the family of truncations at or below the HW (unit belowhw; incl. the instant between the Close and the reopen of a clean restart); distinct = triples")
	verifhook.Set(c05Dispatch)
	defer verifhook.Set(nil)
	// the first base workloads and the first workloads of the interleave family
	// (operations interleaved with a cleaner pass, catch-up streams)
	// ... and of the family of truncations at or below the HW (incl. the crash
	// instant between the Close and the reopen of a clean restart)
	base, inter, below := c05FamilyPlans(""), c05FamilyPlans("inter"), c05FamilyPlans("below")
	rng := kit.NewRNG(kit.Mix(kit.Seed(), 0xC05F))
	nbase, ninter, nbelow := kit.Scale(3, 18), kit.Scale(3, 10), kit.Scale(1, 4)
	perPlan := kit.Scale(8, 25)
	if nbase > len(base) {
		nbase = len(base)
	}
	if ninter > len(inter) {
		ninter = len(inter)
	}
	if nbelow > len(below) {
		nbelow = len(below)
	}
	plans := append(append(append([]c05Plan(nil), base[:nbase]...), inter[:ninter]...), below[:nbelow]...)
	nplans := len(plans)
	self := os.Getenv("VERIF_SELF")
	if self == "" {
		self = os.Args[0]
	}
	imgRoot := vfTempDir("c05kimg")
	defer os.RemoveAll(imgRoot)
	type job struct {
		plan c05Plan
		img  *c05Image
	}
	var jobs []job
	for pi := 0; pi < nplans; pi++ {
		plan := plans[pi]
		dir := vfTempDir("c05kw")
		ex := &c05Exec{plan: plan, dir: dir, imageDir: imgRoot, seekCopy: false}
		ex.interOnly = plan.Family == "inter"
		ex.run(func(fp, what string) {
			rep.Violation(fp, what, map[string]any{"plan": plan.String()})
		})
		os.RemoveAll(dir)
		if len(ex.images) == 0 {
			continue
		}
		// prefer distinct points; in the interleave family, the crash instants
		// inside or after a pass with interleaved operations
		byPoint := map[string][]*c05Image{}
		for _, im := range ex.images {
			byPoint[im.Point] = append(byPoint[im.Point], im)
		}
		if len(byPoint) == 0 {
			continue
		}
		pts := kit.SortedKeys(byPoint)
		chosen := map[*c05Image]bool{}
		per := perPlan
		if plan.Family == "below" {
			// fewer children (the family's own unit judges every image); always the
			// instant between the Close and the reopen of a clean restart, which
			// only this family has
			per = kit.Scale(4, 25)
			if ims := byPoint["restart.afterClose"]; len(ims) > 0 {
				im := ims[rng.Intn(len(ims))]
				chosen[im] = true
				jobs = append(jobs, job{plan, im})
			}
		}
		for k := len(chosen); k < per; k++ {
			pt := pts[(k+rng.Intn(len(pts)))%len(pts)]
			ims := byPoint[pt]
			im := ims[rng.Intn(len(ims))]
			if !chosen[im] {
				chosen[im] = true
				jobs = append(jobs, job{plan, im})
			}
		}
		for _, im := range ex.images {
			if !chosen[im] {
				os.RemoveAll(im.Dir)
			}
		}
	}
	var validated int64
	var mu sync.Mutex
	kit.Parallel(len(jobs), kit.Workers(), func(i int) {
		j := jobs[i]
		cdir := vfTempDir("c05kc")
		defer os.RemoveAll(cdir)
		defer os.RemoveAll(j.img.Dir)
		spec := fmt.Sprintf("%s:%d", j.img.Point, j.img.Occ)
		cmd := exec.Command(self, "-test.run", "^TestVerifC05KillChild$", "-test.timeout", "120s")
		cmd.Env = append(os.Environ(), "C05_KILL="+spec, "C05_PLAN="+strconv.Itoa(j.plan.ID), "C05_DIR="+cdir)
		out, err := cmd.CombinedOutput()
		killed := false
		if ee, ok := err.(*exec.ExitError); ok {
			if ws, ok := ee.Sys().(syscall.WaitStatus); ok && ws.Signaled() && ws.Signal() == syscall.SIGKILL {
				killed = true
			}
		}
		if !killed {
			rep.Inconc(fmt.Sprintf("kill child for %s of plan %d did not die by SIGKILL (err=%v, out=%.300s)", spec, j.plan.ID, err, out))
			return
		}
		rep.Eval()
		fpx := func(kind string) string { return c05ImageFingerprint(kind, j.img) }
		witness := map[string]any{"plan": j.plan.String(), "point": j.img.Point, "occurrence": j.img.Occ, "mode": "kill"}
		// recover both; compare
		dsnap, _ := c05DirDigest(j.img.Dir)
		dkill, _ := c05DirDigest(cdir)
		imgK := *j.img
		imgK.Dir = cdir
		recS, okS := c05RecoverOnly(j.plan, j.img.Dir)
		recK, okK := c05RecoverOnly(j.plan, cdir)
		if okS != nil || okK != nil {
			if (okS == nil) != (okK == nil) {
				rep.Violation("C05:harness-snapshot-vs-kill", fmt.Sprintf("recovery outcome differs between snapshot image (%v) and killed child (%v)", okS, okK), witness)
			}
		} else if recS.digest() != recK.digest() {
			rep.Violation("C05:harness-snapshot-vs-kill", fmt.Sprintf("recovered state differs between snapshot image and killed child at %s: files snap=%s kill=%s", spec, dsnap, dkill), witness)
		} else {
			mu.Lock()
			validated++
			mu.Unlock()
		}
		_, _ = c05CheckGuarded(rep, j.plan, &imgK, func(kind, what string) {
			rep.Violation(fpx(kind), what, witness)
		})
		rep.Nontrivial(fmt.Sprintf("%d/%s", j.plan.ID, spec))
		if i < 3 {
			rep.Sample(map[string]any{"plan": j.plan.String(), "killed_at": spec, "recovered_offsets": offsList(recK.Recs), "recovered_hw": recK.HW})
		}
	})
	rep.Count("traces_validated_against_impl", validated)
	rep.SetInfo("kill_children", len(jobs))
}

func c05RecoverOnly(plan c05Plan, dir string) (c05Recovered, error) {
	// work on a copy: recovery itself may modify the directory
	tmp := vfTempDir("c05ro")
	defer os.RemoveAll(tmp)
	if err := c05CopyDir(dir, tmp, false); err != nil {
		return c05Recovered{}, err
	}
	l, err := c05Open(plan.opts(tmp))
	if err != nil {
		return c05Recovered{}, err
	}
	defer l.Close()
	recs, err := c05ReadAll(l)
	if err != nil {
		return c05Recovered{}, err
	}
	return c05Recovered{Recs: recs, HW: l.HighWatermark(), Epoch: c05EpochEntries(l)}, nil
}
