//go:build verif

package commitlog

// C08 — LONG-LIVED readers across compactions.
//
// The other C08 units create their readers after a Clean() and drain them.
// Here readers are created first (on a dense or an already compacted log),
// consume a PRNG-chosen prefix, and are then kept while the log is appended
// to, the HW is moved, the active segment is rolled and the log is compacted
// again (1-3 times, strictly sequentially: no operation runs concurrently
// with a read).  Because nothing is concurrent the oracle is exact at every
// single read:
//
//	forward reader : the next delivery is the smallest message currently in
//	                 the log above the reader's last delivered offset (at or
//	                 above its start offset before the first delivery;
//	                 committed readers: not above the HW); it is byte-identical
//	                 to what was appended at that offset; the reader reports
//	                 "nothing to read now" only when no such message exists.
//	                 Hence over the reader's whole life: strictly increasing
//	                 offsets, no duplicate, no reorder, no survivor skipped,
//	                 nothing delivered that a completed Clean() removed.
//	reverse reader : safety half only after the first mutation (a reverse
//	                 reader works on a snapshot of the segment list and may end
//	                 with an error once a segment it needs was rewritten): what
//	                 it does deliver is strictly descending, byte-identical,
//	                 currently in the log and skips no current survivor.
//
// "Currently in the log" is the harness model: everything appended, minus what
// a completed Clean() removed (read back with a FRESH uncommitted reader right
// after the Clean; fresh readers are what the other C08 units check).

import (
	"context"
	"fmt"
	"io"
	"strings"
	"testing"

	pkgErrors "github.com/pkg/errors"

	kit "github.com/liftbridge-io/liftbridge/internal/verifkit"
)

type c08xReader struct {
	id          int
	fwd         bool
	uncommitted bool
	start       int64
	fr          *Reader
	rr          *ReverseReader
	last        int64 // last delivered offset; before the first delivery: start-1 (forward) / effective start+1 (reverse)
	delivered   []int64
	steps       []string // "<index into the env's step trace>:<what>"
	dead        bool     // ended (reverse) or a violation was recorded for it
	mutated     bool     // the log changed since the reader was opened
	hb          []byte

	// classification of the reader's position at the last Clean (coverage)
	pendResume  bool // positioned in a non-active segment (every one of those is rewritten)
	pendGap     bool // ... and its delivery so far skipped at least one offset (start in a gap / crossed a gap)
	pendRemoved bool // ... and that segment was removed entirely by the Clean
}

func (x *c08xReader) kind() string {
	d, c := "fwd", "committed"
	if !x.fwd {
		d = "rev"
	}
	if x.uncommitted {
		c = "uncommitted"
	}
	return d + "-" + c
}

type c08xCase struct {
	e       *c08Env
	rng     *kit.RNG
	readers []*c08xReader

	// coverage
	resumed, resumedGap, resumedRemoved int
	readsAfterClean, readsTotal         int
	revEndedErr                         int
	fwdEndedAtEnd                       map[string]int
}

func c08xTail(exp []vfRec, i int) []vfRec {
	if i > len(exp) {
		i = len(exp)
	}
	return exp[i:]
}

func c08xErrClass(err error) string {
	if err == nil {
		return "nil"
	}
	switch pkgErrors.Cause(err) {
	case io.EOF:
		return "would-block"
	case ErrSegmentClosed:
		return "segment-closed"
	case ErrSegmentReplaced:
		return "segment-replaced"
	case ErrSegmentNotFound:
		return "segment-not-found"
	case ErrEntryNotFound:
		return "entry-not-found"
	}
	s := pkgErrors.Cause(err).Error()
	if len(s) > 40 {
		s = s[:40]
	}
	return strings.ReplaceAll(s, " ", "-")
}

func (c *c08xCase) fail(x *c08xReader, class, what string, exp []vfRec) {
	x.dead = true
	e := c.e
	if len(exp) > 24 {
		exp = exp[:24]
	}
	e.fail("C08:across-clean:"+x.kind()+":"+class,
		fmt.Sprintf("long-lived %s reader opened at offset %d: %s (delivered so far %v; in the log now %v, hw=%d)",
			x.kind(), x.start, what, x.delivered, c08Offs(e.model), e.hw),
		map[string]any{"reader": x.kind(), "reader_start": x.start, "reader_steps": strings.Join(x.steps, " "),
			"reader_delivered": fmt.Sprint(x.delivered), "expected_next": fmt.Sprint(c08Offs(exp)),
			"in_log_now": fmt.Sprint(c08Offs(e.model))})
}

// expected returns what the reader must deliver next, in delivery order.
func (c *c08xCase) expected(x *c08xReader) []vfRec {
	e := c.e
	var out []vfRec
	if x.fwd {
		for _, r := range e.model {
			if r.Off > x.last && (x.uncommitted || r.Off <= e.hw) {
				out = append(out, r)
			}
		}
		return out
	}
	for i := len(e.model) - 1; i >= 0; i-- {
		if r := e.model[i]; r.Off < x.last {
			out = append(out, r)
		}
	}
	return out
}

func (c *c08xCase) mark(x *c08xReader, what string) {
	x.steps = append(x.steps, fmt.Sprintf("%d:%s", len(c.e.trace), what))
}

// open creates a reader; it returns nil when the log refuses the start offset
// (which the property does not forbid for the starts generated here only in
// the documented cases: committed reverse reader on a log without HW).
func (c *c08xCase) open(fwd, uncommitted bool, start int64) *c08xReader {
	e := c.e
	x := &c08xReader{id: len(c.readers), fwd: fwd, uncommitted: uncommitted, start: start, hb: make([]byte, 28)}
	var err error
	func() {
		defer func() {
			if p := recover(); p != nil {
				err = fmt.Errorf("panic: %v", p)
			}
		}()
		if fwd {
			x.fr, err = e.log.NewReader(start, uncommitted)
			x.last = start - 1
		} else {
			x.rr, err = e.log.NewReverseReader(start, uncommitted)
			eff := start
			if !uncommitted && start > e.hw {
				eff = e.hw // documented clamp of committed reverse readers
			}
			x.last = eff + 1
		}
	}()
	c.mark(x, "open")
	if err != nil {
		if fwd || len(c.expected(x)) > 0 {
			c.fail(x, "open-error", fmt.Sprintf("reader could not be opened: %v", err), c.expected(x))
		}
		return nil
	}
	c.readers = append(c.readers, x)
	return x
}

func (c *c08xCase) readOne(x *c08xReader) (rec vfRec, err error) {
	defer func() {
		if p := recover(); p != nil {
			err = fmt.Errorf("panic: %v", p)
		}
	}()
	var (
		m   SerializedMessage
		off int64
		ts  int64
		ep  uint64
	)
	if x.fwd {
		m, off, ts, ep, err = x.fr.ReadMessage(vfCancelled, x.hb)
	} else {
		m, off, ts, ep, err = x.rr.ReadMessage(context.Background(), x.hb)
	}
	if err != nil {
		return rec, err
	}
	rec, derr := vfDecode(m, off, ts, ep)
	if derr != nil {
		return rec, fmt.Errorf("undecodable message at offset %d: %v", off, derr)
	}
	return rec, nil
}

// read lets the reader take up to want messages (want < 0: until it reports
// that nothing can be read now) and judges every single read.
func (c *c08xCase) read(x *c08xReader, want int) {
	if x.dead {
		return
	}
	e := c.e
	exp := c.expected(x)
	c.mark(x, fmt.Sprintf("read%d", want))
	got := 0
	for i := 0; want < 0 || i < want; i++ {
		rec, err := c.readOne(x)
		if err != nil {
			cl := c08xErrClass(err)
			if strings.HasPrefix(err.Error(), "panic:") || strings.HasPrefix(err.Error(), "undecodable") {
				c.fail(x, "read-failed", err.Error(), c08xTail(exp, i))
				return
			}
			if i < len(exp) {
				if !x.fwd && x.mutated {
					// reverse reader after a mutation: may end with an error
					x.dead = true
					if cl != "would-block" {
						c.revEndedErr++
					}
					return
				}
				c.fail(x, "ended-early:"+cl, fmt.Sprintf("ReadMessage returned %q although offset %d is readable (still to deliver: %v)",
					err, exp[i].Off, c08Offs(exp[i:])), exp[i:])
				return
			}
			if !x.fwd {
				x.dead = true // a reverse reader that reached the beginning has ended
			} else if cl != "would-block" {
				// Nothing was readable, and the reader answered with an error
				// other than "would block": no survivor is missing, so this is
				// not a finding of this property, but the reader has ended
				// (using it again is a use-after-error).
				x.dead = true
				c.fwdEndedAtEnd[cl]++
			}
			break
		}
		c.readsTotal++
		if x.mutated {
			c.readsAfterClean++
		}
		orig, known := e.orig[rec.Off]
		asc := (x.fwd && rec.Off > x.last) || (!x.fwd && rec.Off < x.last)
		switch {
		case !asc && len(x.delivered) > 0:
			seen := false
			for _, o := range x.delivered {
				if o == rec.Off {
					seen = true
				}
			}
			if seen {
				c.fail(x, "redelivered", fmt.Sprintf("offset %d was delivered a second time (after %d)", rec.Off, x.last), c08xTail(exp, i))
			} else {
				c.fail(x, "reordered", fmt.Sprintf("offset %d was delivered after offset %d", rec.Off, x.last), c08xTail(exp, i))
			}
			return
		case !asc:
			c.fail(x, "outside-start", fmt.Sprintf("first delivery is offset %d, on the wrong side of the start offset", rec.Off), exp)
			return
		case !known:
			c.fail(x, "never-appended", fmt.Sprintf("delivered offset %d which was never appended", rec.Off), c08xTail(exp, i))
			return
		case !vfSameRec(rec, orig):
			c.fail(x, "content-changed", fmt.Sprintf("delivered %v, appended at that offset was %v", rec, orig), nil)
			return
		case i >= len(exp) || rec.Off != exp[i].Off:
			inLog := false
			for _, r := range e.model {
				if r.Off == rec.Off {
					inLog = true
				}
			}
			switch {
			case !inLog:
				c.fail(x, "removed-message-delivered", fmt.Sprintf("delivered offset %d which a completed Clean() had removed", rec.Off), c08xTail(exp, i))
			case x.fwd && !x.uncommitted && rec.Off > e.hw:
				c.fail(x, "above-hw", fmt.Sprintf("committed reader delivered offset %d above the HW %d", rec.Off, e.hw), c08xTail(exp, i))
			default:
				c.fail(x, "skipped-survivor", fmt.Sprintf("delivered offset %d while offset %d (in the log, readable) was next", rec.Off, exp[i].Off), exp[i:])
			}
			return
		}
		x.delivered = append(x.delivered, rec.Off)
		x.last = rec.Off
		got++
	}
	if got > 0 && x.fwd && x.pendResume {
		c.resumed++
		if x.pendGap {
			c.resumedGap++
		}
		if x.pendRemoved {
			c.resumedRemoved++
		}
		x.pendResume, x.pendGap, x.pendRemoved = false, false, false
	}
}

// readSome lets every live reader take a PRNG-chosen number of messages.
func (c *c08xCase) readSome() {
	for _, x := range c.readers {
		if x.dead {
			continue
		}
		switch c.rng.Intn(6) {
		case 0:
			// leaves the reader where it is
		case 1:
			c.read(x, 1)
		case 2:
			c.read(x, 2)
		case 3:
			c.read(x, -1)
		default:
			n := len(c.expected(x))
			c.read(x, c.rng.Intn(n+1))
		}
	}
}

func (c *c08xCase) drainAll() {
	for _, x := range c.readers {
		c.read(x, -1)
	}
}

func (c *c08xCase) touched() {
	for _, x := range c.readers {
		x.mutated = true
	}
}

// clean runs one real Clean() with the readers still open and refreshes the
// model from a fresh uncommitted reader (light version of c08Env.clean: the
// full read-back oracle belongs to the other C08 units).
func (c *c08xCase) clean() bool {
	e := c.e
	segs := e.log.Segments()
	bases := make([]int64, len(segs))
	for i, s := range segs {
		bases[i] = s.BaseOffset
	}
	newestBase := bases[len(bases)-1]
	must := c08MustSurvive(e.model, e.hw, newestBase, 0)
	if len(bases) > e.maxSegsSeen {
		e.maxSegsSeen = len(bases)
	}
	e.trace = append(e.trace, fmt.Sprintf("Clean(segs=%d,newestBase=%d)", len(bases), newestBase))
	if err := e.log.Clean(); err != nil {
		e.fail("C08:clean-error", fmt.Sprintf("Clean failed: %v", err), nil)
		return false
	}
	e.cleans++
	actual, oerr, err := vfReadFrom(e.log, 0, true, int(e.next)+8)
	if err != nil || oerr != nil {
		e.fail("C08:read-error", fmt.Sprintf("uncommitted reader from 0: open=%v read=%v", oerr, err), nil)
		return false
	}
	inModel := make(map[int64]bool, len(e.model))
	for _, r := range e.model {
		inModel[r.Off] = true
	}
	have := make(map[int64]bool, len(actual))
	for i, r := range actual {
		if i > 0 && r.Off <= actual[i-1].Off {
			e.fail("C08:order", fmt.Sprintf("reader from 0 returned offsets out of order: %v", c08Offs(actual)), nil)
			return false
		}
		o, ok := e.orig[r.Off]
		if !ok || !inModel[r.Off] {
			e.fail("C08:resurrected", fmt.Sprintf("offset %d is returned after Clean but was not in the log before it (before: %v)", r.Off, c08Offs(e.model)), nil)
			return false
		}
		if !vfSameRec(r, o) {
			e.fail("C08:content-changed", fmt.Sprintf("surviving message changed: got %v, appended %v", r, o), nil)
			return false
		}
		have[r.Off] = true
	}
	for _, r := range e.model {
		if reason, need := must[r.Off]; need && !have[r.Off] {
			e.fail("C08:must-survive-lost:"+c08LostClass(e.model, e.hw, r, reason),
				fmt.Sprintf("message %v must survive compaction (%s; hw=%d) but is gone; survivors %v", r, reason, e.hw, c08Offs(actual)),
				map[string]any{"lost_offset": r.Off, "reason": reason})
			return false
		}
	}
	e.removedMsgs += len(e.model) - len(actual)
	if n := len(e.log.Segments()); n < len(bases) {
		e.droppedSegs += len(bases) - n
	}
	e.model = actual
	// where does every forward reader stand relative to what was rewritten?
	for _, x := range c.readers {
		x.mutated = true
		if x.dead || !x.fwd {
			continue
		}
		pos := x.start
		if len(x.delivered) > 0 {
			pos = x.last
		}
		si := -1
		for i, b := range bases {
			if b <= pos {
				si = i
			}
		}
		if si < 0 {
			si = 0 // a start below the first segment is served from the first segment
		}
		if si == len(bases)-1 {
			continue // the active segment is not rewritten
		}
		x.pendResume = true
		x.pendGap = int64(len(x.delivered)) != x.last-x.start+1
		lo, hi := bases[si], bases[si+1]
		x.pendRemoved = true
		for _, r := range actual {
			if r.Off >= lo && r.Off < hi {
				x.pendRemoved = false
			}
		}
	}
	return true
}

func (c *c08xCase) finish(sig string) {
	e, rep := c.e, c.e.rep
	rep.Count("long_lived_readers", int64(len(c.readers)))
	rep.Count("reads_judged", int64(c.readsTotal))
	rep.Count("reads_judged_after_a_mutation", int64(c.readsAfterClean))
	rep.Count("fwd_readers_resumed_from_a_rewritten_segment", int64(c.resumed))
	rep.Count("fwd_readers_resumed_from_a_rewritten_segment_after_skipping_offsets", int64(c.resumedGap))
	rep.Count("fwd_readers_resumed_from_a_segment_removed_entirely", int64(c.resumedRemoved))
	rep.Count("reverse_readers_ended_with_error_after_mutation", int64(c.revEndedErr))
	for cl, n := range c.fwdEndedAtEnd {
		rep.Count("fwd_readers_with_nothing_to_read_ended_with_error:"+cl, int64(n))
	}
	e.finish(sig, c.resumedGap > 0 || c.resumedRemoved > 0)
}

// openSet opens n readers of PRNG-chosen kind and start and lets each consume
// a PRNG-chosen prefix.
func (c *c08xCase) openSet(n int) {
	e, rng := c.e, c.rng
	for i := 0; i < n; i++ {
		var x *c08xReader
		switch k := rng.Intn(10); {
		case k < 4: // forward uncommitted: any offset that was assigned
			x = c.open(true, true, int64(rng.Intn(int(e.next))))
		case k < 8: // forward committed: a start at or below HW+1 (a start further up is clamped to HW+1 by the reader: not modelled here)
			x = c.open(true, false, int64(rng.Intn(int(e.hw)+2)))
		case k < 9:
			x = c.open(false, true, int64(rng.Intn(int(e.next))))
		default:
			if e.hw < 0 {
				continue
			}
			x = c.open(false, false, int64(rng.Intn(int(e.next))))
		}
		if x == nil {
			continue
		}
		n := len(c.expected(x))
		switch rng.Intn(4) {
		case 0:
		case 1:
			c.read(x, 1)
		default:
			c.read(x, rng.Intn(n+1))
		}
	}
}

func c08xAssumptions(rep *kit.Report) {
	rep.Assume("all operations of a case are sequential (a read never overlaps an append, a HW move or a Clean), so the set of messages in the log at every read is known exactly: everything appended minus what the completed Clean() calls removed, the latter read back with a fresh uncommitted reader right after each Clean (fresh readers after a clean are what the seeded/enum C08 units check)")
	rep.Assume("ReadMessage is called with an already cancelled context: it returns an error instead of blocking; an error is a finding only while a readable message (in the log, above the reader's position, committed readers: at or below the HW) exists")
	rep.Assume("committed forward readers are opened at or below HW+1 only (a start further above the HW is clamped to HW+1 by the reader; C10 owns that rule); retention limits are not combined here (what a reader does when RETENTION deletes the segment it stands in is not documented)")
	rep.Assume("reverse readers: exact before the first mutation; afterwards safety half only (strictly descending, byte-identical, currently in the log, no current survivor skipped) - a reverse reader works on a snapshot of the segment list and may end with an error once a segment it still needs was rewritten")
}

func TestVerifC08ReadersAcrossCleans(t *testing.T) {
	rep := kit.NewReport("C08", "across")
	defer rep.Write()
	rep.SetRule("seeded: keys from {nil, \"\", 2-5 short keys}, MaxSegmentBytes in {50,110,170,260,420}, 6-40 messages, CompactMaxGoroutines in {1,2,10}; 4 in 5 logs are compacted once before the first readers are opened (sparse offsets); 6-16 long-lived readers (forward uncommitted / forward committed / reverse) opened at PRNG-chosen offsets (existing, in a gap, below the oldest) consume a PRNG-chosen prefix; then 1-3 rounds of {append 0-12 (overwriting keys), readers advance, HW move, readers advance, optional roll of the active segment, Clean(), optionally more readers, readers advance}; finally every reader is drained.  EVERY single read is judged against the exact content of the log at that moment.  non-trivial = at least one forward reader stood in a non-active (rewritten) segment at a Clean after having skipped offsets (start in a gap / crossed a gap), or in a segment the Clean removed entirely, and delivered again afterwards; distinct = key pattern + segment size + HW sequence + reader plan")
	c08xAssumptions(rep)
	root := kit.NewRNG(kit.Mix(kit.Seed(), 0xC08A))
	ncases := kit.Scale(360, 3000)
	seeds := make([]uint64, ncases)
	for i := range seeds {
		seeds[i] = root.Uint64()
	}
	kit.Parallel(ncases, kit.Workers(), func(i int) {
		if rep.NumViolations() >= 14 {
			return
		}
		c08xRunSeeded(rep, seeds[i], i)
	})
}

func c08xRunSeeded(rep *kit.Report, seed uint64, idx int) {
	rng := kit.NewRNG(seed)
	maxSeg := c08SegSizes[rng.Intn(len(c08SegSizes))]
	gor := []int{1, 2, 10}[rng.Intn(3)]
	opts := c08Opts("c08x", maxSeg, gor)
	perSeg := int(maxSeg/55) + 1
	n0hi := 9 * perSeg
	if n0hi > 40 {
		n0hi = 40
	}
	e, err := newC08Env(rep, "across", opts)
	if err != nil {
		rep.Violation("C08:open-error", err.Error(), nil)
		return
	}
	defer e.close()
	c := &c08xCase{e: e, rng: rng, fwdEndedAtEnd: map[string]int{}}
	nk := rng.Range(2, 5)
	keys := make([][]byte, nk)
	for i := range keys {
		keys[i] = []byte(strings.Repeat(string(rune('a'+i)), 1+i%2))
	}
	pNil, pEmpty := []int{0, 10, 25}[rng.Intn(3)], []int{0, 0, 10}[rng.Intn(3)]
	appendN := func(n int) bool {
		for n > 0 {
			b := rng.Range(1, 3)
			if b > n {
				b = n
			}
			ks := make([][]byte, b)
			for i := range ks {
				ks[i] = c08PickKey(rng, keys, pNil, pEmpty)
			}
			if !e.appendKeys(ks, rng.Range(6, 14), nil, rng.Chance(1, 9)) {
				return false
			}
			n -= b
		}
		c.touched()
		return true
	}
	pickHW := func() {
		hw := c08PickHW(rng, e)
		if rng.Bool() && e.next > 0 {
			hw = e.next - 1 - int64(rng.Intn(3)) // near the end: compaction has something to remove
			if hw < e.hw {
				hw = e.hw
			}
		}
		if hw > e.hw {
			e.setHW(hw)
			c.touched()
		}
	}
	if !appendN(rng.Range(6, n0hi)) {
		return
	}
	var hws []string
	pickHW()
	precompacted := rng.Chance(4, 5)
	if precompacted {
		if !c.clean() {
			return
		}
		rep.Count("cases_readers_opened_on_compacted_log", 1)
	}
	c.openSet(rng.Range(6, 16))
	rounds := rng.Range(1, 3)
	for r := 0; r < rounds && rep.NumViolations() < 14; r++ {
		if rng.Chance(2, 3) {
			if !appendN(rng.Range(1, 12)) {
				return
			}
			if rng.Chance(1, 3) {
				c.readSome()
			}
		}
		pickHW()
		hws = append(hws, fmt.Sprint(e.hw))
		if rng.Chance(1, 3) {
			c.readSome()
		}
		if rng.Chance(1, 5) {
			if split, err := e.log.checkAndPerformSplit(); err != nil {
				e.fail("C08:split-error", err.Error(), nil)
				return
			} else if split {
				e.trace = append(e.trace, "Roll")
				rep.Count("cleans_with_empty_active_segment", 1)
			}
		}
		if !c.clean() {
			return
		}
		if rng.Bool() {
			c.openSet(rng.Range(1, 5))
		}
		c.readSome()
	}
	c.drainAll()
	rep.Count(fmt.Sprintf("rounds_%d", rounds), 1)
	if idx < 3 {
		var plan []string
		for _, x := range c.readers {
			plan = append(plan, fmt.Sprintf("%s@%d:%v", x.kind(), x.start, x.delivered))
		}
		rep.Sample(e.replay(map[string]any{"survivors": c08Offs(e.model), "readers": plan}))
	}
	var plan strings.Builder
	for _, x := range c.readers {
		fmt.Fprintf(&plan, "%s@%d/%d;", x.kind(), x.start, len(x.steps))
	}
	c.finish(fmt.Sprintf("%d|%d|%s|%s|%s", maxSeg, gor, strings.Join(e.keys, ","), strings.Join(hws, ","), plan.String()))
}

// TestVerifC08ReadersAcrossCleansEnum: small-scope enumeration.  ALL key
// strings up to a length bound over {nil,"a","b"} (two messages per segment),
// EVERY HW for the first Clean, and then — on that compacted log — a reader of
// every kind at EVERY start offset consuming EVERY possible prefix length, all
// kept open across one further mutation + Clean (mutation rotating with the case index over: none /
// HW to the newest offset / two more messages with keys a,b + HW to newest),
// then drained.
func TestVerifC08ReadersAcrossCleansEnum(t *testing.T) {
	shard, nshards := c08Shard()
	rep := kit.NewReport("C08", fmt.Sprintf("acrossenum%d", shard))
	defer rep.Write()
	maxLen := kit.Scale(5, 6)
	rep.SetRule(fmt.Sprintf("small-scope enumeration: ALL key strings of length 2..%d over {nil,\"a\",\"b\"} x EVERY HW in [-1,newest] for a first Clean (MaxSegmentBytes=60: 2 messages per segment); on the compacted log one long-lived reader per (kind in forward-uncommitted / forward-committed / reverse-uncommitted / reverse-committed) x EVERY start offset x EVERY prefix length is opened and consumes its prefix; then one mutation (case index/2 mod 3: nothing / HW to newest / append keys a,b + HW to newest) and a second Clean with all readers open; then every reader is drained; every read judged exactly; non-trivial as in the seeded unit", maxLen))
	rep.SetExhaustive(true)
	c08xAssumptions(rep)
	alph := [][]byte{nil, []byte("a"), []byte("b")}
	type ecase struct {
		keys []int
		hw   int64
	}
	var cases []ecase
	var gen func(prefix []int)
	gen = func(prefix []int) {
		if len(prefix) >= 2 {
			for hw := int64(-1); hw < int64(len(prefix)); hw++ {
				cases = append(cases, ecase{keys: append([]int(nil), prefix...), hw: hw})
			}
		}
		if len(prefix) == maxLen {
			return
		}
		for x := range alph {
			gen(append(prefix, x))
		}
	}
	gen(nil)
	rep.SetInfo("cases_enumerated_all_shards", len(cases))
	rep.SetInfo("shard", fmt.Sprintf("%d of %d (case index mod %d)", shard, nshards, nshards))
	kit.Parallel(len(cases), kit.Workers(), func(i int) {
		if i%nshards != shard || rep.NumViolations() >= 14 {
			return
		}
		ec := cases[i]
		e, err := newC08Env(rep, "acrossenum", c08Opts("c08y", 60, []int{1, 2, 10}[(i/6)%3]))
		if err != nil {
			rep.Violation("C08:open-error", err.Error(), nil)
			return
		}
		defer e.close()
		c := &c08xCase{e: e, rng: kit.NewRNG(uint64(i)), fwdEndedAtEnd: map[string]int{}}
		for _, x := range ec.keys {
			if !e.appendKeys([][]byte{alph[x]}, 4, nil, false) {
				return
			}
		}
		if ec.hw >= 0 {
			e.setHW(ec.hw)
		}
		if !c.clean() {
			return
		}
		// every kind x every start x every prefix length
		for kind := 0; kind < 4; kind++ {
			fwd, unc := kind < 2, kind%2 == 0
			hi := e.next - 1
			if fwd && !unc {
				hi = e.hw + 1
			}
			if !fwd && !unc && e.hw < 0 {
				continue
			}
			for s := int64(0); s <= hi; s++ {
				x := c.open(fwd, unc, s)
				if x == nil {
					continue
				}
				n := len(c.expected(x))
				for k := 1; k <= n; k++ {
					if y := c.open(fwd, unc, s); y != nil {
						c.read(y, k)
					}
				}
			}
		}
		switch (i / 2) % 3 {
		case 1:
			if e.next-1 > e.hw {
				e.setHW(e.next - 1)
			}
		case 2:
			if !e.appendKeys([][]byte{alph[1], alph[2]}, 4, nil, false) {
				return
			}
			e.setHW(e.next - 1)
		}
		c.touched()
		if !c.clean() {
			return
		}
		c.drainAll()
		if i%997 == 0 {
			rep.Sample(e.replay(map[string]any{"survivors": c08Offs(e.model), "readers": len(c.readers)}))
		}
		c.finish(fmt.Sprintf("%s|%d|%d", strings.Join(e.keys, ","), ec.hw, (i/2)%3))
	})
}
