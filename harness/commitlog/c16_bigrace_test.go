//go:build verif

package commitlog

// C16 at the commit-log level, UNSERIALISED callers: commitLog.Append takes
// appendMu itself, so concurrent Append calls on one log with
// ConcurrencyControl are legal and the property's "of any set of publishers
// racing with the same expected offset at most one succeeds" must hold for
// them without any help from the caller.  The messages are large and of mixed
// sizes (1 B .. 1 MiB): encoding time is what widens the overlap between two
// callers.  Rounds of G goroutines are released by a barrier; most name the
// next offset, some next+1, some next-1 and some waive the check (-1).
//
// Oracle (property statement only): every successful Append that named an
// offset e >= 0 was assigned exactly e; per round at most one appender naming
// a given offset succeeds; a refused one gets ErrIncorrectOffset; a -1 Append
// is never refused; no offset is handed out twice; at the end of every round
// the log holds exactly the successful appenders' messages, each at the
// offset it was told (NewestOffset, reader and segment files).

import (
	"errors"
	"fmt"
	"os"
	"sort"
	"sync"
	"testing"

	kit "github.com/liftbridge-io/liftbridge/internal/verifkit"
)

type c16BigRes struct {
	k        int
	expected int64
	size     int
	tag      string
	off      int64
	err      error
}

func c16BigSize(rng *kit.RNG) int {
	switch rng.Intn(6) {
	case 0:
		return rng.Range(1, 64)
	case 1:
		return rng.Range(1024, 16*1024)
	case 2:
		return rng.Range(64*1024, 256*1024)
	default:
		return rng.Range(256*1024, 1024*1024)
	}
}

func c16BigSizeClass(n int) string {
	switch {
	case n < 1024:
		return "tiny"
	case n < 64*1024:
		return "small"
	case n < 256*1024:
		return "medium"
	}
	return "large"
}

// value = tag + filler; only the tag and the length are compared later.
func c16BigValue(tag string, size int) []byte {
	if size < len(tag) {
		size = len(tag)
	}
	v := make([]byte, size)
	copy(v, tag)
	for i := len(tag); i < size; i++ {
		v[i] = byte('a' + i%23)
	}
	return v
}

func TestVerifC16LogBigRace(t *testing.T) {
	rep := kit.NewReport("C16", "commitlog-bigrace")
	defer rep.Write()
	rep.SetRule("rounds of G in {2..12} goroutines released by a barrier call commitLog.Append CONCURRENTLY (no harness lock; Append serialises itself with appendMu) on one log with ConcurrencyControl, single-message batches of mixed sizes 1 B .. 1 MiB (encoding time widens the overlap), expected offset = next (most), next+1, next-1 or -1, segment sizes from 'every message rolls' to 'never rolls'; per round: every success that named e>=0 holds exactly e, at most one success per named offset, losers get ErrIncorrectOffset, -1 never refused, no offset handed out twice, NewestOffset = old + successes; after the last round reader and segment files hold exactly the winners' messages at their offsets; non-trivial = round with >=2 appenders naming the next offset of which exactly one won; distinct = (G, size classes, segment size, outcome shape)")
	rep.Assume("one message per Append (newMessageSetFromProto refuses larger batches on such logs by design); concurrent callers of Append are legal because Append takes the log's append lock itself")
	root := kit.NewRNG(kit.Mix(kit.Seed(), 0xC16B16))
	logs := kit.Scale(6, 40)
	rounds := kit.Scale(25, 60)
	seeds := make([]uint64, logs)
	for i := range seeds {
		seeds[i] = root.Uint64()
	}
	kit.Parallel(logs, 3, func(li int) {
		if rep.NumViolations() >= 4 {
			return
		}
		rng := kit.NewRNG(seeds[li])
		maxSeg := []int64{1, 300 * 1024, 4 << 20, 64 << 20}[rng.Intn(4)]
		dir := vfTempDir("c16big")
		defer os.RemoveAll(dir)
		l, err := vfOpen(c16Opts(dir, maxSeg))
		if err != nil {
			rep.Violation("C16:log:open-error", err.Error(), nil)
			return
		}
		defer l.Close()
		var model []string // tag at each offset
		var sizes []int
		failed := false
		fail := func(fp, what string, round int, res []c16BigRes) {
			failed = true
			var hist []string
			for _, r := range res {
				o := "ErrIncorrectOffset"
				if r.err == nil {
					o = fmt.Sprintf("stored@%d", r.off)
				} else if !errors.Is(r.err, ErrIncorrectOffset) {
					o = r.err.Error()
				}
				hist = append(hist, fmt.Sprintf("g%d(e=%d,%dB)->%s", r.k, r.expected, r.size, o))
			}
			rep.Violation(fp, what, map[string]any{"seed": kit.Seed(), "log": li, "round": round, "maxSegmentBytes": maxSeg, "next_before_round": len(model), "round_history": hist})
		}
		for round := 0; round < rounds && !failed; round++ {
			g := []int{2, 3, 4, 6, 8, 12}[rng.Intn(6)]
			next := int64(len(model))
			res := make([]c16BigRes, g)
			msgs := make([]*Message, g)
			for k := 0; k < g; k++ {
				e := next
				switch x := rng.Intn(10); {
				case k < 2:
					// at least two name the next offset
				case x == 0:
					e = next + 1
				case x == 1:
					e = next - 1
					if e < 0 {
						e = next + 2
					}
				case x == 2:
					e = -1
				}
				size := c16BigSize(rng)
				tag := fmt.Sprintf("L%d-R%d-G%d|", li, round, k)
				res[k] = c16BigRes{k: k, expected: e, size: size, tag: tag, off: -1}
				msgs[k] = &Message{MagicByte: 1, Key: []byte("k"), Value: c16BigValue(tag, size), Timestamp: int64(1000 + round), LeaderEpoch: 1, Offset: e}
				if rng.Bool() {
					msgs[k].Headers = map[string][]byte{"subject": []byte("s")}
				}
			}
			start := make(chan struct{})
			var wg sync.WaitGroup
			for k := 0; k < g; k++ {
				wg.Add(1)
				go func(k int) {
					defer wg.Done()
					<-start
					offs, err := l.Append([]*Message{msgs[k]})
					res[k].err = err
					if err == nil {
						if len(offs) == 1 {
							res[k].off = offs[0]
						} else {
							res[k].err = fmt.Errorf("Append returned %d offsets for one message", len(offs))
						}
					}
				}(k)
			}
			close(start)
			wg.Wait()
			rep.Eval()
			// ---- oracle for the round
			winnersAt := map[int64][]int{} // named offset -> successful appenders
			assigned := map[int64][]int{}  // assigned offset -> appenders
			namedNext, wonNext, succ := 0, 0, 0
			classes := map[string]bool{}
			for _, r := range res {
				classes[c16BigSizeClass(r.size)] = true
				if r.expected == next {
					namedNext++
				}
				switch {
				case r.err == nil:
					succ++
					assigned[r.off] = append(assigned[r.off], r.k)
					if r.expected >= 0 {
						winnersAt[r.expected] = append(winnersAt[r.expected], r.k)
						if r.expected == next {
							wonNext++
						}
					}
				case errors.Is(r.err, ErrIncorrectOffset):
					if r.expected == -1 {
						fail("C16:bigrace:unconditional-rejected", fmt.Sprintf("a concurrent Append with expected offset -1 (%d bytes) was refused with ErrIncorrectOffset", r.size), round, res)
					}
				default:
					fail("C16:bigrace:append-error", fmt.Sprintf("concurrent Append(expected %d, %d bytes) failed: %v", r.expected, r.size, r.err), round, res)
				}
				if failed {
					break
				}
			}
			if failed {
				break
			}
			for _, r := range res {
				if r.err == nil && r.expected >= 0 && r.off != r.expected {
					fail("C16:bigrace:stored-at-other-offset", fmt.Sprintf("a concurrent Append that expected offset %d succeeded and was assigned offset %d (%d appenders in the round, next offset before it %d)", r.expected, r.off, g, next), round, res)
					break
				}
			}
			if failed {
				break
			}
			for e, ws := range winnersAt {
				if len(ws) > 1 {
					fail("C16:bigrace:two-winners", fmt.Sprintf("%d concurrent Appends naming expected offset %d all succeeded", len(ws), e), round, res)
					break
				}
			}
			if failed {
				break
			}
			for o, ws := range assigned {
				if len(ws) > 1 || o < next || o >= next+int64(succ) {
					fail("C16:bigrace:offset-assignment", fmt.Sprintf("offset %d was handed to appenders %v (round started at next=%d with %d successes)", o, ws, next, succ), round, res)
					break
				}
			}
			if failed {
				break
			}
			if got := l.NewestOffset(); got != next+int64(succ)-1 {
				fail("C16:bigrace:log-grew-by-losers", fmt.Sprintf("NewestOffset=%d after a round that started at next=%d with %d successful Appends (want %d)", got, next, succ, next+int64(succ)-1), round, res)
				break
			}
			for i := 0; i < succ; i++ {
				k := assigned[next+int64(i)][0]
				model = append(model, res[k].tag)
				sizes = append(sizes, len(msgs[k].Value))
			}
			rep.Count("appends_accepted", int64(succ))
			rep.Count("appends_rejected", int64(g-succ))
			rep.Count("rounds", 1)
			if namedNext >= 2 {
				rep.Count("contested_rounds", 1)
			}
			if namedNext >= 2 && wonNext == 1 {
				var cl []string
				for c := range classes {
					cl = append(cl, c)
				}
				sort.Strings(cl)
				rep.Nontrivial(fmt.Sprintf("g=%d|%v|seg=%d|succ=%d", g, cl, maxSeg, succ))
			}
			if li == 0 && round < 2 {
				rep.Sample(map[string]any{"goroutines": g, "maxSegmentBytes": maxSeg, "next": next, "successes": succ, "named_next": namedNext})
			}
		}
		if failed {
			return
		}
		// ---- final content: reader and segment files
		n := len(model)
		recs, oerr, err := vfReadFrom(l, 0, true, n+8)
		if err != nil || (oerr != nil && n > 0) {
			fail("C16:bigrace:read-error", fmt.Sprintf("reading the final log: %v %v", oerr, err), rounds, nil)
			return
		}
		segs, err := vfScanDir(dir)
		if err != nil {
			fail("C16:bigrace:raw-scan", err.Error(), rounds, nil)
			return
		}
		var raw []vfRec
		for _, s := range segs {
			raw = append(raw, s.Recs...)
		}
		rep.Count("segments", int64(len(segs)))
		for _, src := range []struct {
			name string
			got  []vfRec
		}{{"reader", recs}, {"segment files", raw}} {
			if len(src.got) != n {
				fail("C16:bigrace:final-content", fmt.Sprintf("%s hold %d messages, %d Appends succeeded", src.name, len(src.got), n), rounds, nil)
				return
			}
			for i, r := range src.got {
				if r.Off != int64(i) || len(r.Val) != sizes[i] || len(r.Val) < len(model[i]) || string(r.Val[:len(model[i])]) != model[i] {
					head := r.Val
					if len(head) > 24 {
						head = head[:24]
					}
					fail("C16:bigrace:final-content", fmt.Sprintf("%s: record #%d is offset %d, %d bytes starting %q; the Append told offset %d was %q with %d bytes", src.name, i, r.Off, len(r.Val), head, i, model[i], sizes[i]), rounds, nil)
					return
				}
			}
		}
	})
}
