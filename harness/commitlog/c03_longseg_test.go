//go:build verif

package commitlog

// C03 — unit "longseg": LONG segments.
//
// Every other C03 unit works on segments of a few to a few hundred messages,
// so the index of a segment never outgrows the memory mapping it was created
// with (10 MiB / entryWidth entry slots) and a HW position, a reader start
// position and a re-sync after a wake-up are always resolved in an index that
// was written in one piece.  Here one segment collects MORE entries than its
// current index mapping holds, so the index is grown (file extended and
// re-mapped) WHILE batches are written, and the batch that reaches the end of
// the mapping is a multi-message batch in every alignment with it: it ends 2 /
// 1 slots before the end, fills the mapping exactly, straddles the end at
// every split point, or starts in the first slot behind it; written the way a
// leader does (Append of k messages) or the way a follower does
// (AppendMessageSet of the byte framing a leader writes and ships).  The
// mapping end is not assumed: it is read from the live index (size /
// entryWidth), so a segment with a base offset > 0, an index that was shrunk
// by Close() and re-opened (mapping == content, the next write grows it) and
// the second growth step of one segment are the same code path of the harness.
//
// Around every mapping end the C03 oracle is applied at EVERY offset of a
// window: the HW is put on each offset in turn (single HW writer, so the HW is
// exact), a long-lived committed reader is parked at the HW while it moves
// across the mapping end (after every step it must have delivered exactly
// through the HW and be registered in hwWaiters), and fresh committed readers
// are started at every offset of the window for every HW position and
// drained: delivered offsets consecutive from the start, content = what was
// written at that offset, nothing above the HW, everything up to the HW.  The
// same after Close() + reopen with the HW in the middle of the window.

import (
	"context"
	"encoding/binary"
	"fmt"
	"io"
	"os"
	"sync"
	"sync/atomic"
	"testing"
	"time"

	pkgErrors "github.com/pkg/errors"

	kit "github.com/liftbridge-io/liftbridge/internal/verifkit"
)

const (
	c03lWin   = 12    // half width of the oracle window around a mapping end
	c03lChunk = 16384 // bulk fill batch
)

func c03lVal(seed uint64, o int64) []byte {
	v := make([]byte, 8)
	binary.BigEndian.PutUint64(v, kit.Mix(seed, uint64(o)))
	return v
}

func c03lEpoch(o int64) uint64 { return 1 + uint64((o+777)>>17) }

func c03lMsg(seed uint64, o int64) *Message {
	return &Message{Value: c03lVal(seed, o), Timestamp: 1000 + o, LeaderEpoch: c03lEpoch(o)}
}

func c03lWant(seed uint64, o int64) vfRec {
	return vfRec{Off: o, Val: c03lVal(seed, o), TS: 1000 + o, Epoch: c03lEpoch(o)}
}

// c03lAlign: a batch of K messages whose first index entry goes into the slot
// A slots before the end of the current index mapping.
type c03lAlign struct {
	K, A  int64
	Class string
}

func c03lClassOf(k, a int64) string {
	switch {
	case a == k+2:
		return "batch-ends-2-slots-before-index-mapping-end"
	case a == k+1:
		return "batch-ends-1-slot-before-index-mapping-end"
	case a == k:
		return "batch-fills-index-mapping-exactly"
	case a == 0:
		return "batch-starts-right-behind-index-mapping-end"
	case a > 0 && a < k:
		return "batch-straddles-index-mapping-end"
	}
	return "other"
}

var c03lClasses = []string{
	"batch-straddles-index-mapping-end",
	"batch-fills-index-mapping-exactly",
	"batch-ends-1-slot-before-index-mapping-end",
	"batch-ends-2-slots-before-index-mapping-end",
	"batch-starts-right-behind-index-mapping-end",
}

// c03lAllAligns enumerates every alignment of batches of 2, 3 and 5 messages
// plus a big batch (split point seeded).
func c03lAllAligns(rng *kit.RNG) []c03lAlign {
	var out []c03lAlign
	for _, k := range []int64{2, 3, 5} {
		for a := k + 2; a >= 0; a-- {
			out = append(out, c03lAlign{k, a, c03lClassOf(k, a)})
		}
	}
	big := int64(4096)
	out = append(out, c03lAlign{big, int64(rng.Range(1, int(big)-1)), c03lClassOf(big, 1)})
	out = append(out, c03lAlign{big, big, c03lClassOf(big, big)})
	return out
}

type c03lPlan struct {
	Mode        string // append (leader) | appendset (follower)
	Pre         string // fresh | rolled-reopened (base offset > 0, index mapping == content when the fill starts)
	CommitAlong bool   // window batches are appended when the HW has reached the log end (reader parked, nothing behind the HW)
	Aligns      []c03lAlign
	Reopen      bool
}

type c03lReader struct {
	start     int64
	eff       int64
	next      atomic.Int64
	delivered atomic.Int64
	state     atomic.Int32 // 0 running, 2 failed (reported), 3 cancelled
	cr        contextReader
	cancel    context.CancelFunc
	done      chan struct{}
}

type c03lExec struct {
	rep      *kit.Report
	idx      int
	seed     uint64
	plan     c03lPlan
	opts     Options
	l        *commitLog
	appended int64
	hw       int64
	cur      c03lAlign
	growth   int
	bo       int64 // offset whose entry is the first behind the mapping end
	r0       *c03lReader
	dead     atomic.Bool
	mu       sync.Mutex
	hist     []string
}

func (x *c03lExec) note(s string) {
	x.mu.Lock()
	if len(x.hist) < 400 {
		x.hist = append(x.hist, s)
	}
	x.mu.Unlock()
}

func (x *c03lExec) witness() map[string]any {
	x.mu.Lock()
	defer x.mu.Unlock()
	h := x.hist
	if len(h) > 60 {
		h = h[len(h)-60:]
	}
	return map[string]any{"seed": kit.Seed(), "case": x.idx, "content_seed": x.seed, "mode": x.plan.Mode, "pre": x.plan.Pre,
		"window_batches_appended_when_hw_at_log_end": x.plan.CommitAlong, "growth_step": x.growth,
		"batch_messages": x.cur.K, "batch_starts_slots_before_mapping_end": x.cur.A, "alignment": x.cur.Class,
		"first_offset_behind_mapping_end": x.bo, "log_end_offset": x.appended - 1, "hw": x.hw,
		"last_steps": append([]string(nil), h...)}
}

func (x *c03lExec) fail(kind, what string) {
	x.rep.Violation("C03:"+kind+":longseg:"+x.cur.Class, what, x.witness())
	x.dead.Store(true)
}

func (x *c03lExec) inconc(what string) {
	x.rep.Inconc(fmt.Sprintf("longseg case %d: %s", x.idx, what))
	x.dead.Store(true)
}

// mapping returns (entry slots of the active segment's index mapping, entries
// written, base offset).
func (x *c03lExec) mapping() (slots, entries, base int64) {
	seg := x.l.activeSegment()
	idx := seg.Index
	idx.mu.RLock()
	defer idx.mu.RUnlock()
	return idx.size / entryWidth, idx.position / entryWidth, seg.BaseOffset
}

func (x *c03lExec) add(n int64) bool {
	msgs := make([]*Message, n)
	for i := range msgs {
		msgs[i] = c03lMsg(x.seed, x.appended+int64(i))
	}
	var (
		offs []int64
		err  error
	)
	if x.plan.Mode == "append" {
		offs, err = x.l.Append(msgs)
	} else {
		ms, _, e := newMessageSetFromProto(x.appended, 0, msgs, false)
		if e != nil {
			x.inconc("harness: message set: " + e.Error())
			return false
		}
		offs, err = x.l.AppendMessageSet(ms)
	}
	if err != nil || int64(len(offs)) != n || offs[0] != x.appended || offs[n-1] != x.appended+n-1 {
		first := int64(-1)
		if len(offs) > 0 {
			first = offs[0]
		}
		x.fail("append-error", fmt.Sprintf("%s of %d messages at log end %d returned %d offsets starting at %d, err %v", x.plan.Mode, n, x.appended, len(offs), first, err))
		return false
	}
	x.appended += n
	if got := x.l.NewestOffset(); got != x.appended-1 {
		x.fail("log-end", fmt.Sprintf("after %s of %d messages NewestOffset() = %d, expected %d", x.plan.Mode, n, got, x.appended-1))
		return false
	}
	return true
}

// fillToSlot appends big batches until the active segment's index holds
// `target` entries.
func (x *c03lExec) fillToSlot(target int64) bool {
	for {
		_, e, _ := x.mapping()
		if e >= target {
			return true
		}
		n := target - e
		if n > c03lChunk {
			n = c03lChunk
		}
		if !x.add(n) {
			return false
		}
		x.rep.Count("bulk_fill_messages", n)
	}
}

func (x *c03lExec) check(rec vfRec) bool {
	return vfSameRec(rec, c03lWant(x.seed, rec.Off))
}

func (x *c03lExec) startR0(start int64) bool {
	rd := &c03lReader{start: start, eff: start, done: make(chan struct{})}
	if start > x.hw {
		rd.eff = x.hw + 1
	}
	rd.next.Store(rd.eff)
	reader, err := x.l.NewReader(start, false)
	if err != nil {
		x.fail("reader-open", fmt.Sprintf("NewReader(%d, committed) failed with HW=%d log end=%d: %v", start, x.hw, x.appended-1, err))
		return false
	}
	rd.cr = reader.ctxReader
	ctx, cancel := context.WithCancel(context.Background())
	rd.cancel = cancel
	x.r0 = rd
	l := x.l
	go func() {
		defer close(rd.done)
		defer func() {
			if p := recover(); p != nil {
				rd.state.Store(2)
				x.fail("reader-panic", fmt.Sprintf("committed reader(start=%d) panicked after %d messages: %v", start, rd.delivered.Load(), p))
			}
		}()
		hb := make([]byte, 28)
		for {
			m, off, ts, ep, err := reader.ReadMessage(ctx, hb)
			if err != nil {
				if ctx.Err() != nil {
					rd.state.Store(3)
				} else {
					rd.state.Store(2)
					x.fail("reader-error", fmt.Sprintf("committed reader(start=%d) parked at / following the HW failed after %d messages (next %d, HW %d): %v", start, rd.delivered.Load(), rd.next.Load(), l.HighWatermark(), err))
				}
				return
			}
			hwPost := l.HighWatermark()
			kind, bad := "", ""
			if off > hwPost {
				kind, bad = "uncommitted-delivered", fmt.Sprintf("committed reader following the HW delivered offset %d while the HW sampled after the read is %d", off, hwPost)
			} else if off != rd.next.Load() {
				kind = "gap"
				if off < rd.next.Load() {
					kind = "duplicate-or-reorder"
				}
				if rd.delivered.Load() == 0 {
					kind = "first-offset"
				}
				bad = fmt.Sprintf("committed reader(start=%d, effective start %d) following the HW delivered %d, expected %d", start, rd.eff, off, rd.next.Load())
			} else if rec, derr := vfDecode(m, off, ts, ep); derr != nil {
				kind, bad = "content", fmt.Sprintf("offset %d: %v", off, derr)
			} else if !x.check(rec) {
				kind, bad = "content", fmt.Sprintf("offset %d: got %v want %v", off, rec, c03lWant(x.seed, off))
			}
			if bad != "" {
				rd.state.Store(2)
				x.fail(kind, bad)
				return
			}
			rd.delivered.Add(1)
			rd.next.Store(off + 1)
			x.rep.Count("committed_reads_by_reader_following_hw", 1)
		}
	}()
	return true
}

func (x *c03lExec) stopR0() {
	if x.r0 != nil {
		x.r0.cancel()
		<-x.r0.done
		x.r0 = nil
	}
}

// settle: the reader following the HW must have delivered through h and be
// registered in hwWaiters.
func (x *c03lExec) settle(h int64) bool {
	rd := x.r0
	if rd == nil {
		return true
	}
	deadline := time.Now().Add(40 * time.Second)
	for spins := 0; ; spins++ {
		if x.dead.Load() || rd.state.Load() != 0 {
			return false
		}
		n := rd.next.Load()
		x.l.mu.RLock()
		_, parked := x.l.hwWaiters[rd.cr]
		hw := x.l.hw
		x.l.mu.RUnlock()
		if parked {
			// re-read: the reader may have delivered between the two loads
			if n2 := rd.next.Load(); n2 != n {
				continue
			}
			if n <= hw {
				x.fail("lost-wakeup", fmt.Sprintf("reader(start=%d) is registered in hwWaiters although its next offset %d is <= HW %d: this HW value cannot wake it any more", rd.start, n, hw))
				return false
			}
			if n == h+1 {
				return true
			}
		}
		if time.Now().After(deadline) {
			x.inconc(fmt.Sprintf("watchdog: reader following the HW neither parked nor failed (next %d, HW %d)", n, hw))
			return false
		}
		if spins < 50 {
			time.Sleep(0)
		} else {
			time.Sleep(50 * time.Microsecond)
		}
	}
}

// drain: a fresh committed reader from s, HW == h exactly (single HW writer,
// quiescent): it must deliver exactly s..h.
func (x *c03lExec) drain(when string, s, h int64) (ok bool) {
	defer func() {
		if p := recover(); p != nil {
			x.fail("reader-panic", fmt.Sprintf("%s: committed reader from %d (HW %d) panicked: %v", when, s, h, p))
			ok = false
		}
	}()
	r, err := x.l.NewReader(s, false)
	if err != nil {
		x.fail("reader-open", fmt.Sprintf("%s: NewReader(%d, committed) failed with HW=%d log end=%d: %v", when, s, h, x.appended-1, err))
		return false
	}
	want := h - s + 1
	if want < 0 {
		want = 0
	}
	hb := make([]byte, 28)
	got := int64(0)
	for ; got < want+3; got++ {
		m, off, ts, ep, rerr := r.ReadMessage(vfCancelled, hb)
		if rerr != nil {
			if pkgErrors.Cause(rerr) == io.EOF {
				break // would have to wait for the HW
			}
			x.fail("reader-error", fmt.Sprintf("%s: committed reader from %d (HW %d, log end %d) failed after %d messages: %v", when, s, h, x.appended-1, got, rerr))
			return false
		}
		if off > h {
			x.fail("uncommitted-delivered", fmt.Sprintf("%s: committed reader started at %d delivered offset %d above the HW %d (log end %d)", when, s, off, h, x.appended-1))
			return false
		}
		if off != s+got {
			kind := "gap"
			if got == 0 {
				kind = "first-offset"
			} else if off < s+got {
				kind = "duplicate-or-reorder"
			}
			x.fail(kind, fmt.Sprintf("%s: committed reader started at %d (HW %d) delivered offset %d as message #%d, expected %d", when, s, h, off, got, s+got))
			return false
		}
		rec, derr := vfDecode(m, off, ts, ep)
		if derr != nil {
			x.fail("content", fmt.Sprintf("%s: committed reader from %d, offset %d: %v", when, s, off, derr))
			return false
		}
		if !x.check(rec) {
			x.fail("content", fmt.Sprintf("%s: committed reader from %d delivered %v, written was %v", when, s, rec, c03lWant(x.seed, off)))
			return false
		}
	}
	if got != want {
		x.fail("committed-not-delivered", fmt.Sprintf("%s: committed reader started at %d delivered %d messages, the committed range %d..%d holds %d", when, s, got, s, h, want))
		return false
	}
	x.rep.Count("fresh_reader_drains", 1)
	x.rep.Count("committed_reads_by_fresh_readers", got)
	return true
}

func (x *c03lExec) commit(h int64, wlo int64) bool {
	x.l.SetHighWatermark(h)
	x.hw = h
	x.note(fmt.Sprintf("commit(%d)", h))
	if got := x.l.HighWatermark(); got != h {
		x.fail("hw-not-monotone", fmt.Sprintf("after SetHighWatermark(%d) the HW is %d (single HW writer)", h, got))
		return false
	}
	if !x.settle(h) {
		return false
	}
	from := h - 2*c03lWin
	if from < wlo {
		from = wlo
	}
	for s := from; s <= h+1; s++ {
		if !x.drain("open log", s, h) {
			return false
		}
	}
	x.rep.Count("hw_positions_judged", 1)
	return true
}

func (x *c03lExec) reopen(wlo int64) bool {
	x.stopR0()
	if err := x.l.Close(); err != nil {
		x.inconc("Close: " + err.Error())
		return false
	}
	l2, err := vfOpen(x.opts)
	if err != nil {
		x.l = nil
		x.fail("reopen:open-error", fmt.Sprintf("reopening the cleanly closed log failed: %v", err))
		return false
	}
	x.l = l2
	x.note("close reopen")
	x.rep.Count("reopens_with_hw_in_window", 1)
	if got := x.l.NewestOffset(); got != x.appended-1 {
		x.fail("reopen:log-end-changed", fmt.Sprintf("log end after clean Close + reopen is %d, was %d", got, x.appended-1))
		return false
	}
	if got := x.l.HighWatermark(); got != x.hw {
		kind := "reopen:hw-regressed"
		if got > x.hw {
			kind = "reopen:hw-advanced"
		}
		x.fail(kind, fmt.Sprintf("HW after clean Close + reopen is %d, was %d before Close (log end %d)", got, x.hw, x.appended-1))
		return false
	}
	from := x.hw - 2*c03lWin
	if from < wlo {
		from = wlo
	}
	for s := from; s <= x.hw+1; s++ {
		if !x.drain("after Close + reopen", s, x.hw) {
			return false
		}
	}
	// the reader following the HW is re-attached like a re-subscribing client
	if !x.startR0(from) {
		return false
	}
	return x.settle(x.hw)
}

// boundary drives the active segment's index to the end of its current
// mapping with alignment al and judges the window around it.
func (x *c03lExec) boundary(al c03lAlign, reopen bool, rng *kit.RNG) bool {
	x.cur = al
	x.growth++
	x.stopR0() // a new reader is attached at the first window offset
	grew := false
	slots, entries, base := x.mapping()
	if entries >= slots {
		// mapping == content (index shrunk by Close, re-opened): the next write
		// grows it; the mapping end meant here is the one after that
		if !x.add(int64(rng.Range(1, 3))) {
			return false
		}
		slots, entries, base = x.mapping()
		x.rep.Count("fills_started_on_an_index_mapping_equal_to_its_content", 1)
	}
	x.bo = base + slots
	lead := al.A
	if lead < c03lWin {
		lead = c03lWin
	}
	bulkTo := slots - lead - int64(rng.Intn(4))
	if bulkTo < entries {
		x.inconc(fmt.Sprintf("harness: mapping of %d slots with %d entries leaves no room for the window", slots, entries))
		return false
	}
	if !x.fillToSlot(bulkTo) {
		return false
	}
	// window program: small batches up to slot slots-A, the aligned batch,
	// small batches until the window is covered
	var ops []int64
	at := bulkTo
	for at < slots-al.A {
		b := int64(rng.Range(1, 3))
		if at+b > slots-al.A {
			b = slots - al.A - at
		}
		ops = append(ops, b)
		at += b
	}
	alignedOp := len(ops)
	ops = append(ops, al.K)
	at += al.K
	for at < slots+c03lWin+2 {
		b := int64(rng.Range(1, 3))
		if at <= slots {
			// up to the mapping end the aligned batch stays the only
			// multi-message batch (so the alignment class is what it says)
			b = 1
		}
		ops = append(ops, b)
		at += b
	}
	wlo := x.appended // first offset of the window region
	whi := x.bo + c03lWin
	// everything before the window is committed; the reader following the HW
	// is created at the first window offset (beyond the HW: it parks)
	x.l.SetHighWatermark(wlo - 1)
	x.hw = wlo - 1
	x.note(fmt.Sprintf("bulk to offset %d, commit(%d), mapping end behind offset %d", wlo-1, wlo-1, x.bo-1))
	if !x.startR0(wlo) {
		return false
	}
	if !x.settle(x.hw) {
		return false
	}
	next := 0
	doOp := func() bool {
		n := ops[next]
		pre, _, _ := x.mapping()
		if !x.add(n) {
			return false
		}
		post, _, _ := x.mapping()
		tag := ""
		if next == alignedOp {
			tag = "*"
			x.rep.Count("aligned_batches_"+al.Class, 1)
		}
		if post > pre {
			tag += "G"
			grew = true
			x.rep.Count("index_growths_while_a_window_batch_was_written", 1)
			if next == alignedOp {
				x.rep.Count("index_growths_by_the_aligned_batch", 1)
			}
		}
		x.note(fmt.Sprintf("%s(%d)%s", x.plan.Mode, n, tag))
		next++
		return true
	}
	if !x.plan.CommitAlong {
		for next < len(ops) {
			if !doOp() {
				return false
			}
		}
	}
	// the HW visits every offset from a window before the mapping end to a
	// window behind it
	vlo := x.bo - c03lWin
	if vlo < wlo {
		vlo = wlo
	}
	reopenAt := int64(-1)
	if reopen {
		// on one of the offsets of the aligned batch or next to the mapping end
		// (never before the aligned batch is written)
		reopenAt = x.bo - 2 + int64(rng.Intn(5))
		if reopenAt < x.bo-al.A {
			reopenAt = x.bo - al.A
		}
	}
	for h := vlo; h <= whi; h++ {
		for x.appended <= h {
			if next >= len(ops) {
				x.inconc("harness: window program too short")
				return false
			}
			if !doOp() {
				return false
			}
		}
		if !x.commit(h, wlo) {
			return false
		}
		if h == reopenAt {
			if !x.reopen(wlo) {
				return false
			}
		}
	}
	for next < len(ops) {
		if !doOp() {
			return false
		}
	}
	if !x.commit(x.appended-1, wlo) {
		return false
	}
	if !grew {
		// only recorded (the window is then not counted as non-trivial)
		x.rep.Count("windows_without_index_growth", 1)
		return true
	}
	x.rep.Nontrivial(fmt.Sprintf("%s|%s|along=%v|growth=%d|k=%d|a=%d|reopen=%v", x.plan.Mode, x.plan.Pre, x.plan.CommitAlong, x.growth, al.K, al.A, reopen))
	x.rep.Count("windows_judged_"+x.plan.Mode, 1)
	return true
}

func c03lRun(rep *kit.Report, idx int, seed uint64, plan c03lPlan) {
	rng := kit.NewRNG(seed)
	dir := vfTempDir("c03l")
	defer os.RemoveAll(dir)
	x := &c03lExec{rep: rep, idx: idx, seed: seed, plan: plan, hw: -1, cur: plan.Aligns[0]}
	defer func() {
		x.stopR0()
		if x.l != nil {
			x.l.Close()
		}
	}()
	x.opts = vfOpts(dir, 1<<30)
	if plan.Pre == "rolled-reopened" {
		// two tiny sealed segments in front, then Close: the long segment has a
		// base offset > 0 and its index file holds exactly its content
		l, err := vfOpen(vfOpts(dir, 1))
		if err != nil {
			rep.Inconc("harness: open: " + err.Error())
			return
		}
		x.l = l
		for i := 0; i < 3; i++ {
			if !x.add(1) {
				return
			}
		}
		x.l.SetHighWatermark(x.appended - 1)
		x.hw = x.appended - 1
		if err := x.l.Close(); err != nil {
			rep.Inconc("harness: close: " + err.Error())
			return
		}
		x.l = nil
	}
	l, err := vfOpen(x.opts)
	if err != nil {
		rep.Inconc("harness: open: " + err.Error())
		return
	}
	x.l = l
	if plan.Pre == "rolled-reopened" {
		if l.NewestOffset() != x.appended-1 || l.HighWatermark() != x.hw {
			x.fail("reopen:state-changed", fmt.Sprintf("after Close + reopen log end %d HW %d, before %d / %d", l.NewestOffset(), l.HighWatermark(), x.appended-1, x.hw))
			return
		}
	}
	for g, al := range plan.Aligns {
		if !x.boundary(al, plan.Reopen && g == 0, rng) {
			break
		}
	}
	rep.Eval()
	if idx < 3 {
		rep.Sample(x.witness())
	}
	if x.l == nil {
		return
	}
	if n := len(x.l.Segments()); n > 3 && !x.dead.Load() {
		rep.Inconc(fmt.Sprintf("longseg case %d: harness: the long segment was rolled (%d segments)", idx, n))
	}
}

func TestVerifC03LongSeg(t *testing.T) {
	rep := kit.NewReport("C03", "longseg")
	defer rep.Write()
	rep.SetRule(fmt.Sprintf("LONG segments: one segment (MaxSegmentBytes 1 GiB, 8-byte values) is filled with big batches up to a few slots before the end of its index's current memory mapping (read from the live index: size/entryWidth, %d slots for a new segment), then small batches (1..3), ONE aligned batch of K messages whose first entry goes A slots before the mapping end, single messages up to the mapping end if the batch ended before it, and small batches again are written, so the index is grown while window batches are written; alignments enumerated: K in {2,3,5} x A in K+2..0 (ends 2 / 1 slots before the end, fills the mapping exactly, straddles the end at every split point, starts right behind it) + K=4096 straddling at a seeded split point / filling exactly; each alignment written leader style (Append of K messages) and follower style (AppendMessageSet of the framing newMessageSetFromProto produces, i.e. the bytes a leader writes and ships); variants: fresh log | two sealed 1-message segments in front + Close/reopen (base offset > 0, index file == content, first write grows it), window batches all written before the HW moves (uncommitted tail behind the HW) | each written when the HW has reached the log end (reader parked at the log end), Close + reopen with the HW on an offset next to the mapping end, and (some cases) a second growth step of the same segment with another alignment; ORACLE per window (offsets mapping end -%d .. +%d): the HW is put on every offset in turn by the only HW writer; after every step the long-lived committed reader following the HW must have delivered exactly through the HW and be registered in hwWaiters (parked with next <= HW = lost wake-up), and fresh committed readers are started at every window offset <= HW+1 and drained: consecutive offsets from the start, content f(seed, offset), nothing above the HW, exactly start..HW delivered; same after Close + reopen (log end and HW unchanged); the case list starts, per mode, with 3 straddling alignments and one of every other class (quick tier = that list), then the rest of the enumeration; non-trivial = window whose writes grew the index; distinct = (mode, variant, growth step, K, A)", roundDown(10*1024*1024, entryWidth)/entryWidth, c03lWin, c03lWin))
	rep.Assume("Close() is a clean shutdown whose HW is the HW after reopen (as in unit reopen); follower-style batches are built with newMessageSetFromProto, the function the leader's Append uses to produce the bytes that are written to its log and shipped to followers")
	root := kit.NewRNG(kit.Mix(kit.Seed(), 0xC0310))
	aligns := c03lAllAligns(root)
	type combo struct {
		mode string
		al   c03lAlign
	}
	var all []combo
	for _, mode := range []string{"append", "appendset"} {
		for _, al := range aligns {
			all = append(all, combo{mode, al})
		}
	}
	// seeded shuffle
	for i := len(all) - 1; i > 0; i-- {
		j := root.Intn(i + 1)
		all[i], all[j] = all[j], all[i]
	}
	// first, per mode, 3 straddling alignments (the class with the most members:
	// one per split point) and one of every other class, then the rest of the
	// shuffled list
	var order []combo
	used := make([]bool, len(all))
	for _, mode := range []string{"append", "appendset"} {
		for ci, cl := range c03lClasses {
			take := 1
			if ci == 0 {
				take = 3
			}
			for i, c := range all {
				if take > 0 && !used[i] && c.mode == mode && c.al.Class == cl {
					used[i] = true
					order = append(order, c)
					take--
				}
			}
		}
	}
	for i, c := range all {
		if !used[i] {
			order = append(order, c)
		}
	}
	n := kit.Scale(kit.EnvInt("VERIF_C03L_CASES", 14), 2*len(order))
	plans := make([]c03lPlan, n)
	seeds := make([]uint64, n)
	for i := range plans {
		c := order[i%len(order)]
		p := c03lPlan{Mode: c.mode, Pre: "fresh", Aligns: []c03lAlign{c.al}}
		if root.Chance(1, 3) || i >= len(order) {
			p.Pre = "rolled-reopened"
		}
		p.CommitAlong = root.Chance(1, 3)
		p.Reopen = root.Chance(1, 2)
		if i < 2 || (i >= 14 && i%7 == 3) {
			// second growth step of the same segment (the two-step cases come
			// first so that they do not prolong the run)
			p.Aligns = append(p.Aligns, all[root.Intn(len(all))].al)
		}
		plans[i] = p
		seeds[i] = root.Uint64()
	}
	kit.Parallel(n, kit.Workers(), func(i int) {
		if rep.NumViolations() >= 4 {
			return
		}
		c03lRun(rep, i, seeds[i], plans[i])
	})
}
