//go:build verif

package commitlog

// C05, unit `belowhw` — truncations AT OR BELOW the high watermark.
//
// The base workloads only truncate above the HW ("the replication protocol
// never does anything else").  The property quantifies over any workload of
// appends, rolls, truncations and cleans, and its HW clause - the reopened
// log's high watermark is not above the one before the crash - can only fail
// when the HW the process holds in memory and the HW checkpoint file can come
// apart the wrong way round: the file holding MORE than the process.  Every
// execution in which something lowers, or could lower, the in-memory HW is of
// that kind, and a truncation at or below the HW (a follower that must cut
// below its own HW after an unclean leader change, an operator repair) is the
// one such operation the log's API has.
//
// Workload class (family "below" of c05Plans; also sampled by the kill and
// syscallkill units): an HW checkpoint is written - by a tick of the
// checkpoint loop (op K: checkpointHW under the read lock, exactly what
// checkpointHWLoop does) or by a clean restart (op R: Close + reopen) -, or
// deliberately not; then Truncate(o) with o at a position class relative to
// the HW (o == HW, HW-1, HW+1, somewhere between the oldest offset and the HW,
// a segment base <= HW, the first offset of a leader epoch <= HW, the oldest
// offset, 0); then the log is regrown past the old HW, the HW is set again,
// checkpointed again, truncated again (also twice in a row: the HW already
// lies beyond the log end), cleaned, restarted.  Crash images are taken at
// every hook hit (inside the truncation, the checkpoints, Close and the
// recovery of the reopen), between Close and reopen, and BETWEEN every two
// operations (the crash after a truncation and before the next checkpoint).
//
// Oracle: the shared one (c05CheckRecovered), only what the property states:
// reopen succeeds; no duplicate / phantom (offsets are reused with other
// content after such a truncation: stale content is a phantom); every message
// below the truncation offset whose append had completed is there unmodified;
// recovered HW <= the HW the log held IN MEMORY at the crash instant (sampled
// at the hook hit, c05Exec.memHW); epoch history consistent with the messages.
// Nothing is said about what the in-memory HW should be after a truncation at
// or below it (unspecified): the model's HW follows the log's.

import (
	"os"
	"path/filepath"
	"strconv"
	"strings"
	"testing"

	kit "github.com/liftbridge-io/liftbridge/internal/verifkit"
)

// c05BelowModes: the truncation position classes defined relative to the HW
// without the "> HW" restriction of the base classes.
var c05BelowModes = map[string]bool{"hw": true, "hw-1": true, "hw+1": true, "below": true, "belowsegbase": true,
	"belowepoch": true, "oldest": true, "zero": true}

var c05BelowModeList = []string{"hw", "hw-1", "hw+1", "below", "belowsegbase", "belowepoch", "oldest", "zero"}

// belowTarget resolves the target of a truncation of one of the c05BelowModes
// classes (model not empty).  A class that does not exist in the current state
// (no HW yet, HW below the oldest offset, no segment base / epoch start at or
// below the HW) falls back to a position anywhere in the log, at or below the
// HW or not.
func (e *c05Exec) belowTarget(op c05Op) int64 {
	oldest, newest := e.model[0].Off, e.model[len(e.model)-1].Off
	hw := e.hw
	frac := int64(op.Frac)
	if frac > 1000 {
		frac = 1000
	}
	anywhere := oldest + (newest+1-oldest)*frac/1000
	switch op.Mode {
	case "zero":
		return 0
	case "oldest":
		return oldest
	case "hw":
		if hw >= 0 {
			return hw
		}
	case "hw-1":
		if hw >= 1 {
			return hw - 1
		}
	case "hw+1":
		if hw >= 0 {
			return hw + 1
		}
	case "below":
		top := hw
		if top > newest {
			top = newest
		}
		if top >= oldest {
			return oldest + (top-oldest)*frac/1000
		}
	case "belowsegbase":
		var bases []int64
		for _, sg := range e.log.Segments() {
			if sg.BaseOffset <= hw && sg.BaseOffset > oldest {
				bases = append(bases, sg.BaseOffset)
			}
		}
		if len(bases) > 0 {
			return bases[int64(len(bases)-1)*frac/1000]
		}
	case "belowepoch":
		var starts []int64
		for i := 1; i < len(e.model); i++ {
			if e.model[i].Epoch != e.model[i-1].Epoch && e.model[i].Off <= hw {
				starts = append(starts, e.model[i].Off)
			}
		}
		if len(starts) > 0 {
			return starts[int64(len(starts)-1)*frac/1000]
		}
	}
	return anywhere
}

// c05CheckpointedHW reads the HW checkpoint file of a log directory.
func c05CheckpointedHW(dir string) (int64, bool) {
	b, err := os.ReadFile(filepath.Join(dir, hwFileName))
	if err != nil {
		return 0, false
	}
	v, err := strconv.ParseInt(strings.TrimSpace(string(b)), 10, 64)
	if err != nil {
		return 0, false
	}
	return v, true
}

// belowClass records what kind of truncation (relative to the in-memory HW, the
// checkpoint file and the log) is about to run: coverage counters only.
func (e *c05Exec) belowClass(op c05Op, off int64) {
	if e.truncClasses == nil {
		return
	}
	c := func(k string) { e.truncClasses["below:"+k]++ }
	oldest, newest := e.model[0].Off, e.model[len(e.model)-1].Off
	hw := e.hw
	switch {
	case off > newest:
		c("target-beyond-log-end(no-op)")
	case off == hw+1:
		c("target==hw+1")
	case off > hw:
		c("target>hw+1")
	case off == hw:
		c("target==hw")
	case off == hw-1:
		c("target==hw-1")
	default:
		c("target<hw-1")
	}
	if off <= hw && off <= newest {
		c("truncations-at-or-below-hw")
		if off == oldest {
			c("at-or-below-hw:whole-log")
		}
		if off < oldest {
			c("at-or-below-hw:before-the-oldest-offset")
		}
		for _, sg := range e.log.Segments() {
			if sg.BaseOffset == off {
				c("at-or-below-hw:at-segment-base")
			}
		}
		for i := 1; i < len(e.model); i++ {
			if e.model[i].Off == off && e.model[i].Epoch != e.model[i-1].Epoch {
				c("at-or-below-hw:at-first-offset-of-an-epoch")
			}
		}
		if hw > newest {
			c("at-or-below-hw:hw-already-beyond-log-end")
		}
		if ck, ok := c05CheckpointedHW(e.dir); !ok {
			c("at-or-below-hw:no-checkpoint-file-yet")
		} else if ck >= off {
			// the window the property's HW clause is about: the file holds a
			// HW at or beyond the truncation point
			c("at-or-below-hw:checkpoint-file>=target")
			switch e.lastCkpt {
			case "K":
				c("at-or-below-hw:checkpoint-file>=target,written-by-tick")
			case "R":
				c("at-or-below-hw:checkpoint-file>=target,written-by-close")
			}
		} else {
			c("at-or-below-hw:checkpoint-file<target")
		}
	}
}

// ---------------------------------------------------------------- plans

func c05MakeBelowPlan(rng *kit.RNG) c05Plan {
	p := c05Plan{Seed: rng.Uint64(), Family: "below"}
	p.MaxSeg = []int64{90, 160, 300}[rng.Intn(3)]
	switch rng.Intn(6) {
	case 0:
		p.Compact = true
	case 1:
		p.RetMsgs = int64(rng.Range(6, 14))
	case 2:
		p.RetBytes = int64(rng.Range(300, 900))
	case 3:
		p.Compact = true
		p.RetMsgs = int64(rng.Range(8, 14))
	}
	app := func() c05Op {
		if rng.Chance(1, 5) {
			op := c05Op{Kind: "M", N: rng.Range(2, 4), Bump: rng.Chance(1, 4)}
			if rng.Bool() {
				op.BumpAt = c05RandBumps(rng, op.N)
			}
			return op
		}
		return c05Op{Kind: "A", N: rng.Range(1, 3), Bump: rng.Chance(1, 5)}
	}
	for k := rng.Range(4, 7); k > 0; k-- {
		p.Ops = append(p.Ops, app())
	}
	for round := rng.Range(2, 3); round > 0; round-- {
		p.Ops = append(p.Ops, c05Op{Kind: "H", Frac: rng.Range(500, 1000)})
		// the checkpoint before the truncation: a tick, a clean restart, both, or none
		switch rng.Intn(5) {
		case 0, 1:
			p.Ops = append(p.Ops, c05Op{Kind: "K"})
		case 2:
			p.Ops = append(p.Ops, c05Op{Kind: "R"})
		case 3:
			p.Ops = append(p.Ops, c05Op{Kind: "K"}, app(), c05Op{Kind: "R"})
		}
		if rng.Chance(1, 4) {
			p.Ops = append(p.Ops, app()) // the log end moves on after the checkpoint
		}
		p.Ops = append(p.Ops, c05Op{Kind: "T", Mode: c05BelowModeList[rng.Intn(len(c05BelowModeList))], Frac: rng.Intn(1001)})
		// what follows the truncation before the log is regrown
		switch rng.Intn(6) {
		case 0:
			p.Ops = append(p.Ops, c05Op{Kind: "T", Mode: c05BelowModeList[rng.Intn(len(c05BelowModeList))], Frac: rng.Intn(1001)})
		case 1:
			p.Ops = append(p.Ops, c05Op{Kind: "E"})
		case 2:
			p.Ops = append(p.Ops, c05Op{Kind: "C"})
		case 3:
			p.Ops = append(p.Ops, c05Op{Kind: "R"})
		}
		// regrow past the old HW
		for k := rng.Range(2, 4); k > 0; k-- {
			p.Ops = append(p.Ops, app())
		}
		if rng.Chance(1, 3) {
			p.Ops = append(p.Ops, c05Op{Kind: "C"})
		}
	}
	p.Ops = append(p.Ops, c05Op{Kind: "H", Frac: 1000}, c05Op{Kind: "K"}, c05Op{Kind: "A", N: 2},
		c05Op{Kind: "T", Mode: []string{"hw", "hw-1", "below"}[rng.Intn(3)], Frac: rng.Intn(1001)}, c05Op{Kind: "A", N: 1})
	return p
}

// c05BelowPlans: fixed-shape plans reach every class in every case list;
// seeded ones vary positions, sizes, cleaner settings and orders.
func c05BelowPlans(firstID int, root *kit.RNG) []c05Plan {
	A := func(n int, bump bool) c05Op { return c05Op{Kind: "A", N: n, Bump: bump} }
	M := func(n int, bump bool, at ...int) c05Op { return c05Op{Kind: "M", N: n, Bump: bump, BumpAt: at} }
	H := func(f int) c05Op { return c05Op{Kind: "H", Frac: f} }
	T := func(mode string, f int) c05Op { return c05Op{Kind: "T", Mode: mode, Frac: f} }
	K, E, R, C := c05Op{Kind: "K"}, c05Op{Kind: "E"}, c05Op{Kind: "R"}, c05Op{Kind: "C"}
	var plans []c05Plan
	add := func(p c05Plan) {
		p.ID = firstID + len(plans)
		if p.Seed == 0 {
			p.Seed = root.Uint64()
		}
		p.Family = "below"
		plans = append(plans, p)
	}
	// (1) no cleaner; checkpoint by a tick and by a clean restart; every
	// position class once; regrow / set HW / checkpoint / truncate again; two
	// truncations in a row (the HW already beyond the log end)
	add(c05Plan{MaxSeg: 160, Ops: []c05Op{A(2, false), A(2, false), A(2, true), A(2, false),
		// the neighbour above (what truncateToHW does), then: the HW moved on after
		// the last checkpoint, truncation between the two
		H(500), K, T("hw+1", 0), A(2, false), A(2, false), H(1000), T("hw-1", 0),
		A(2, false), A(2, true), A(2, false),
		H(800), K, T("hw", 0),
		A(3, false), A(3, false), H(1000), K, T("hw-1", 0), T("below", 500),
		A(2, true), A(3, false), H(900), R, T("belowsegbase", 1000),
		A(2, false), A(2, true), A(2, false), H(1000), K, A(1, false), T("belowepoch", 1000),
		A(3, false), H(1000), R, A(2, false), T("hw+1", 0), T("hw", 0),
		A(2, false), A(2, false), H(700), K, T("oldest", 0),
		A(3, true), H(1000), K, T("zero", 0), A(2, false), K}})
	// (2) small segments, compaction + retention: cleans with the HW beyond the
	// log end, elections, replicated sets, a truncation with no checkpoint at all
	add(c05Plan{MaxSeg: 90, Compact: true, RetMsgs: 12, Ops: []c05Op{A(1, false), A(2, false), M(3, false, 1), A(1, false), A(2, true),
		H(1000), T("below", 600),
		A(2, false), A(1, false), H(1000), K, C, T("belowsegbase", 500), C,
		A(2, true), M(3, false, 2), A(1, false), H(800), R, E, T("hw", 0), R,
		A(2, false), A(2, false), A(1, true), H(1000), K, T("hw-1", 0), E, A(2, false), C,
		A(1, false), H(1000), K, T("below", 300), A(2, false), K}})
	n := kit.Scale(2, 24)
	for i := 0; i < n; i++ {
		add(c05MakeBelowPlan(root.Fork(uint64(0x2000 + i))))
	}
	return plans
}

// TestVerifC05BelowHW: every (point, occurrence) crash image - plus one
// between every two operations - of the workloads that truncate at or below
// the high watermark.
func TestVerifC05BelowHW(t *testing.T) {
	rep := kit.NewReport("C05", "belowhw")
	defer rep.Write()
	rep.SetRule("fault enumeration as in unit snapshot, over the workload class the base list excludes: truncations AT OR BELOW the high watermark. An HW checkpoint is written by a tick of the checkpoint loop (checkpointHW under the read lock) or by a clean restart (Close + reopen) or not at all; then Truncate(o) with o == HW, HW-1, HW+1, between the oldest offset and the HW, at a segment base <= HW, at the first offset of a leader epoch <= HW, at the oldest offset, at 0; the log is regrown past the old HW, the HW set again, checkpointed, truncated again (also twice in a row, the HW already lying beyond the log end), cleaned (retention / compaction with the HW beyond the log end), restarted; 3 segment sizes. Crash images: every hit of every hook point (inside the truncation, the checkpoints, Close and the recovery of the reopen), the instant between Close and reopen, and the instant between every two operations (a crash after the truncation and before the next checkpoint). Oracle = the shared one: reopen succeeds, no duplicate / phantom (offsets are reused with new content after the truncation), every completed message below the truncation offset present and unmodified, recovered HW <= the HW the log held IN MEMORY at the crash instant (sampled at the hook hit), epoch history matches the messages both ways; then the log is used further. distinct non-trivial = distinct (plan, point, occurrence) images")
	rep.SetExhaustive(true)
	rep.Assume("process-crash model as in unit snapshot")
	rep.Assume("what the in-memory HW should be after a truncation at or below it is unspecified and not judged: the model's HW follows the log's; only 'HW after reopening <= HW in memory at the crash' is")
	rep.Assume("a clean restart inside a workload is not judged as such (C05 is about crashes); the instants inside Close, between Close and reopen and inside the reopen are crash instants like any other")
	pointHits, truncHits, stats := c05RunSnapshot(rep, c05FamilyPlans("below"))
	for _, p := range kit.SortedKeys(pointHits) {
		rep.Count("images@"+p, int64(pointHits[p]))
	}
	for _, c := range kit.SortedKeys(truncHits) {
		rep.Count("truncate@"+c, int64(truncHits[c]))
	}
	for _, c := range []string{"below:truncations-at-or-below-hw", "below:target==hw", "below:target==hw-1", "below:target<hw-1", "below:target==hw+1",
		"below:at-or-below-hw:whole-log", "below:at-or-below-hw:at-segment-base", "below:at-or-below-hw:at-first-offset-of-an-epoch",
		"below:at-or-below-hw:hw-already-beyond-log-end", "below:at-or-below-hw:checkpoint-file>=target,written-by-tick",
		"below:at-or-below-hw:checkpoint-file>=target,written-by-close", "below:at-or-below-hw:checkpoint-file<target"} {
		if truncHits[c] == 0 {
			rep.Inconc("class never produced by this case list: " + c)
		}
	}
	for _, p := range []string{"truncate.afterDeleteSeg", "truncate.beforeReplace", "truncate.beforeClearLatest", "replace.betweenRenames",
		"hw.beforeCheckpoint", "hw.afterCheckpoint", "restart.afterClose", "idle.afterOp"} {
		if pointHits[p] == 0 {
			rep.Inconc("crash point never reached by this case list: " + p)
		}
	}
	if stats["clean-restarts"] == 0 {
		rep.Inconc("no clean restart in this case list")
	}
}
