//go:build verif

package commitlog

// C09 seeded unit: seeded segment layouts (message counts, byte sizes, last
// write times - non-decreasing as one leader clock produces them, or
// non-monotonic across segments as a sequence of leaders with skewed clocks
// produces them), every combination of the three limits incl. 0 = off, limits
// aimed at the layout's own boundaries (exactly at / one below / one above a
// suffix sum, cutoffs between segments), repeated cleans with or without
// appends in between, empty rolled active segment, restart with new limits.

import (
	"fmt"
	"strings"
	"testing"

	kit "github.com/liftbridge-io/liftbridge/internal/verifkit"
)

type c09Batch struct {
	vlen int
	ts   []int64
}

// c09Plan draws a list of append batches and simulates the documented roll
// rule (a new segment is rolled before an append when the active segment has
// reached MaxSegmentBytes) to predict the layout.  The prediction is only used
// to aim the limits at interesting values; the oracle measures the real files.
func c09Plan(rng *kit.RNG, maxSeg int64, ts *int64, nbatches int, planned []c09Seg) ([]c09Batch, []c09Seg) {
	return c09PlanClk(rng, maxSeg, ts, nbatches, planned, nil)
}

// c09Skew models message timestamps assigned by a sequence of leaders whose
// clocks differ: every "term" of 1..maxTerm append batches is stamped with the
// reference clock plus that leader's offset, so last-write times go back and
// forth from one segment to the next.
type c09Skew struct {
	off     int64
	left    int
	maxTerm int
	terms   int
}

func (k *c09Skew) next(rng *kit.RNG) int64 {
	if k == nil {
		return 0
	}
	if k.left == 0 {
		k.off = 10 * int64(rng.Range(-40, 40)) // multiples of 10: never equal to a cutoff (..5)
		k.left = rng.Range(1, k.maxTerm)
		k.terms++
	}
	k.left--
	return k.off
}

// c09PlanClk is c09Plan with an optional leader-clock skew (nil = one clock,
// non-decreasing timestamps).
func c09PlanClk(rng *kit.RNG, maxSeg int64, ts *int64, nbatches int, planned []c09Seg, skew *c09Skew) ([]c09Batch, []c09Seg) {
	var out []c09Batch
	activeBytes := int64(0)
	if len(planned) > 0 {
		activeBytes = planned[len(planned)-1].Bytes
	}
	for b := 0; b < nbatches; b++ {
		n := rng.Range(1, 6)
		if maxSeg > 1 {
			n = rng.Range(1, 3)
		}
		vlen := []int{6, 6, 10, 30, 80}[rng.Intn(5)]
		bt := c09Batch{vlen: vlen}
		off := skew.next(rng)
		if rng.Chance(1, 3) {
			*ts += 10 * int64(rng.Range(0, 8)) // gap between batches (0 = same instant)
		}
		for i := 0; i < n; i++ {
			*ts += 10 * int64(rng.Range(0, 3))
			bt.ts = append(bt.ts, *ts+off)
		}
		out = append(out, bt)
		if len(planned) == 0 || activeBytes >= maxSeg {
			planned = append(planned, c09Seg{})
			activeBytes = 0
		}
		p := &planned[len(planned)-1]
		p.Count += int64(n)
		p.Bytes += int64(n) * c09RecBytes(vlen)
		p.LastTS = *ts + off
		activeBytes = p.Bytes
	}
	return out, planned
}

// c09PickLimits aims the limits at the (predicted) layout.
func c09PickLimits(rng *kit.RNG, ps []c09Seg) c09Limits {
	var lim c09Limits
	on := [3]bool{rng.Chance(3, 5), rng.Chance(3, 5), rng.Chance(3, 5)}
	if !on[0] && !on[1] && !on[2] && rng.Chance(9, 10) {
		on[rng.Intn(3)] = true
	}
	suffix := func(j int) (m, b int64) {
		for _, s := range ps[j:] {
			m += s.Count
			b += s.Bytes
		}
		return
	}
	if on[0] {
		lo, hi := ps[0].LastTS, ps[0].LastTS
		for _, s := range ps {
			lo, hi = min(lo, s.LastTS), max(hi, s.LastTS)
		}
		switch rng.Intn(6) {
		case 0:
			lim.Age = c09AgeFor(lo - 5) // nothing is old
		case 1:
			lim.Age = c09AgeFor(hi + 5) // everything is old
		default:
			j := rng.Intn(len(ps))
			lim.Age = c09AgeFor(ps[j].LastTS + int64([]int{-5, 5}[rng.Intn(2)]))
		}
	}
	if on[1] {
		m, _ := suffix(rng.Intn(len(ps)))
		lim.Msgs = m + int64(rng.Range(-1, 1))
		if rng.Chance(1, 8) {
			tot, _ := suffix(0)
			lim.Msgs = int64(rng.Range(1, int(tot)+5))
		}
		if lim.Msgs < 1 {
			lim.Msgs = 1
		}
	}
	if on[2] {
		_, b := suffix(rng.Intn(len(ps)))
		lim.Bytes = b + int64([]int{-1, 0, 1, -20, 20}[rng.Intn(5)])
		if rng.Chance(1, 8) {
			_, tot := suffix(0)
			lim.Bytes = int64(rng.Range(1, int(tot)+100))
		}
		if lim.Bytes < 1 {
			lim.Bytes = 1
		}
	}
	return lim
}

func TestVerifC09Seeded(t *testing.T) {
	rep := kit.NewReport("C09", "seeded")
	defer rep.Write()
	defer c09InstallTTL()()
	rep.SetRule("seeded layouts: 1-10 segments built through the real Append (one batch per segment with MaxSegmentBytes=1, or natural rolling with MaxSegmentBytes in {120,300,700}), 1-6 messages and 50-760 bytes per segment, harness-chosen timestamps: in 3 of 5 cases non-decreasing (one leader clock, equal instants included), in the others stamped by a sequence of leaders with clocks skewed by up to +-400 (terms of 1-3 segments), i.e. last-write times NON-MONOTONIC across segments, always with an age limit; every on/off combination of the age, message and byte limits, aimed at the layout's own boundaries (suffix sums -1/0/+1, cutoffs just below/above a random segment's last write, nothing/everything old); 1-3 rounds of Clean with optional appends, empty rolled active segment or restart with new limits in between, each followed by a second Clean; oracle from a raw parse of the files before/after: removed = prefix of whole segments, never the newest, necessity (every removed segment: the log from it on violates a limit), sufficiency (age: the oldest survivor is not expired), survivors untouched, OldestOffset/NewestOffset, forward (uncommitted+committed) reads from 0 / new oldest / removed range / inside, reverse read; non-trivial = a clean removed >=1 segment; distinct = layout + limits")
	rep.Assume("computeTTL (the package's own mock point) is pinned to a fixed instant and all message timestamps are chosen by the harness: no wall clock takes part")
	rep.Assume("age limit with non-monotonic last-write times: retention works from the oldest end only and the documentation gives the age limit as a TTL per segment file, so (a) a segment is removed for age only if it is itself expired, (b) an expired segment BEHIND a retained unexpired one legitimately stays, and the property's 'afterwards every configured limit holds' is read for age as 'the OLDEST surviving segment is not expired, or only the newest segment remains'")
	rep.Assume("timestamps never equal the age cutoff (a segment exactly as old as the limit is not specified by the documentation)")
	rep.Assume("committed readers are only checked when the HW lies in the surviving suffix (retention is allowed to delete past the HW; what a committed reader does then is outside C09)")
	root := kit.NewRNG(kit.Mix(kit.Seed(), 0xC09))
	ncases := kit.Scale(1700, 5400)
	seeds := make([]uint64, ncases)
	for i := range seeds {
		seeds[i] = root.Uint64()
	}
	kit.Parallel(ncases, kit.Workers(), func(i int) {
		if rep.NumViolations() >= 12 {
			return
		}
		c09RunSeeded(rep, seeds[i], i)
	})
}

func c09RunSeeded(rep *kit.Report, seed uint64, idx int) {
	rng := kit.NewRNG(seed)
	maxSeg := int64(1)
	if rng.Chance(2, 5) {
		maxSeg = []int64{120, 300, 700}[rng.Intn(3)]
	}
	ts := int64(1000)
	nb := rng.Range(1, 10)
	if maxSeg > 1 {
		nb = rng.Range(2, 24)
	}
	// 2 of 5 cases: a sequence of leaders with skewed clocks (last-write
	// times non-monotonic across segments); these always get an age limit
	var skew *c09Skew
	if rng.Chance(2, 5) {
		skew = &c09Skew{maxTerm: 3}
		if maxSeg > 1 {
			skew.maxTerm = 6
		}
		rep.Count("cases_with_skewed_leader_clocks", 1)
	}
	batches, planned := c09PlanClk(rng, maxSeg, &ts, nb, nil, skew)
	pick := func() c09Limits {
		lim := c09PickLimits(rng, planned)
		for tries := 0; skew != nil && lim.Age == 0 && tries < 8; tries++ {
			lim = c09PickLimits(rng, planned)
		}
		return lim
	}
	lim := pick()
	e, err := newC09Env(rep, "seeded", maxSeg, lim)
	if err != nil {
		rep.Violation("C09:open-error", err.Error(), nil)
		return
	}
	defer e.close()
	run := func(bs []c09Batch) bool {
		for _, b := range bs {
			if !e.appendBatch(b.vlen, b.ts) {
				return false
			}
		}
		return true
	}
	if !run(batches) {
		return
	}
	rounds := rng.Range(1, 3)
	totalRemoved := 0
	var sigs []string
	for r := 0; r < rounds; r++ {
		if r > 0 {
			switch rng.Intn(6) {
			case 0, 1, 2:
				var more []c09Batch
				more, planned = c09PlanClk(rng, maxSeg, &ts, rng.Range(1, 6), planned, skew)
				if !run(more) {
					return
				}
			case 3:
				// restart with different limits (a configuration change)
				if err := e.log.Close(); err != nil {
					e.fail("C09:reopen", fmt.Sprintf("Close failed: %v", err), nil)
					return
				}
				e.lim = pick()
				e.opts = c09OptsAt(e.dir, "c09s", maxSeg, e.lim)
				l, err := vfOpen(e.opts)
				if err != nil {
					e.log = nil
					e.fail("C09:reopen", fmt.Sprintf("reopening failed: %v", err), nil)
					return
				}
				e.log = l
				e.trace = append(e.trace, "Restart("+e.lim.String()+")")
				rep.Count("restarts_with_new_limits", 1)
			}
		}
		switch x := rng.Intn(6); {
		case x < 4:
			e.setHW(e.next - 1)
		case x == 4 && e.next > 0:
			e.setHW(int64(rng.Intn(int(e.next))))
		}
		if rng.Chance(1, 6) {
			if split, err := e.log.checkAndPerformSplit(); err != nil {
				e.fail("C09:split-error", err.Error(), nil)
				return
			} else if split {
				e.trace = append(e.trace, "Roll")
				rep.Count("cleans_with_empty_active_segment", 1)
			}
		}
		pre := len(e.log.Segments())
		k, ok := e.cleanAndCheck(rng, true)
		if !ok {
			return
		}
		exposed := e.ageExposed
		totalRemoved += k
		switch {
		case k == 0:
			rep.Count("clean_removed_none", 1)
		case k == pre-1:
			rep.Count("clean_removed_all_but_newest", 1)
		default:
			rep.Count("clean_removed_some", 1)
		}
		rep.Count("limits_"+e.lim.kinds(), 1)
		sigs = append(sigs, e.lim.String())
		// a second clean removes nothing (same fixed cutoff)
		k2, ok := e.cleanAndCheck(rng, false)
		if !ok {
			return
		}
		if k2 != 0 && !exposed { // exposed: already reported by the first clean's sufficiency check
			e.fail("C09:second-clean-removed", fmt.Sprintf("a second Clean with unchanged limits and cutoff removed %d more segments", k2), nil)
		}
		post, _ := e.scan("leftover check")
		if left := e.leftovers(post); len(left) > 0 {
			e.fail("C09:removed-segment-file-left", fmt.Sprintf("files of removed segments are left in the log directory: %v", left), nil)
		}
	}
	if idx < 3 {
		rep.Sample(e.replay(nil))
	}
	e.finish(fmt.Sprintf("%d|%s|%s", maxSeg, strings.Join(e.trace, " "), strings.Join(sigs, ";")), totalRemoved > 0)
}
